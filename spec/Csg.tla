-------------------------------- MODULE Csg --------------------------------
(* C10: CSG logic rewriting and encoding preserve the region's boolean function.

   A tree is a sequence of nodes; node ids are the C++ ones (0-based): node id n is
   tree[n + 1].  A node is a record [k |-> kind, a |-> <<ints>>]:
       "true" <<>> | "false" <<>> | "surf" <<s>> | "not" <<n>> | "alias" <<n>>
       | "and" <<n1, ..>> | "or" <<n1, ..>>
   (the real CsgTree stores True at id 0 and Negated{0} at id 1; "false" only occurs
   as a *requested* node, never in a tree).

   An assignment of NS surfaces is an integer a in 0 .. 2^NS - 1; bit s of a is the
   truth value of surface s (TRUE = Sense::outside = '+').

   ABSTRACT STATE of a tree = the boolean function of every node id (every id ever
   returned to the user is a handle):  Sem(ns, tree, n) = set of satisfying assignments.
   Abstract operations are stated as relations between Sem before and after:
     Insert            new handle's function = the requested node's function, old handles unchanged
     Simplify          every handle unchanged
     TransformNegatedJoins   a NEW tree; every *volume* keeps its function (ids remapped)
     ReplaceAndSimplify(h,b) every handle agrees with its old function on the assignments
                       consistent with sem[h] = b (Restrict); "contradiction" only if none exists
     BuildPostfix / BuildInfix / evaluators     denote sem[h]
     FlagInternal      "simple" => sem[h] is a sub-cube (conjunction of literals)          *)
EXTENDS Integers, Sequences, FiniteSets, SequencesExt, Bitwise, TLC

\* --------------------------------------------------------------- assignments
Pow2(n) == 2 ^ n
AllA(ns) == 0 .. (Pow2(ns) - 1)
Bit(a, s) == (a \div Pow2(s)) % 2 = 1

\* A boolean function of ns surfaces is handled as its TRUTH TABLE with 2^ns entries (entry a
\* = value on assignment a), packed LB bits per integer ("limbs", least significant bit
\* first) so that TLC works on whole limbs with the Bitwise operators: a table is a sequence
\* of NL(ns) naturals < 2^LB.  TBit reads one entry, TSet gives the set view.
LB == 30
NL(ns) == (Pow2(ns) + LB - 1) \div LB
LimbBits(n, j) == IF LB * j <= n THEN LB ELSE n - LB * (j - 1)      \* bits used in limb j of an n-entry table
TFullN(n) == TLCEval([j \in 1 .. ((n + LB - 1) \div LB) |-> Pow2(LimbBits(n, j)) - 1])
TFull(ns) == TFullN(Pow2(ns))
TZero(ns) == TLCEval([j \in 1 .. NL(ns) |-> 0])
TConst(ns, b) == IF b THEN TFull(ns) ELSE TZero(ns)
TBit(x, a) == (x[(a \div LB) + 1] \div Pow2(a % LB)) % 2 = 1
TSurf(ns, s) ==
  TLCEval([j \in 1 .. NL(ns) |->
             FoldLeft(LAMBDA acc, k : IF Bit(LB * (j - 1) + k, s) THEN acc + Pow2(k) ELSE acc,
                      0, [k \in 1 .. LimbBits(Pow2(ns), j) |-> k - 1])])
TAnd(x, y) == TLCEval([j \in DOMAIN x |-> x[j] & y[j]])
TOr(x, y) == TLCEval([j \in DOMAIN x |-> x[j] | y[j]])
TXor(x, y) == TLCEval([j \in DOMAIN x |-> x[j] ^^ y[j]])
TNotF(full, x) == TXor(x, full)
TNot(ns, x) == TXor(x, TFull(ns))
TIsZero(x) == \A j \in DOMAIN x : x[j] = 0
TSet(ns, x) == {a \in AllA(ns) : TBit(x, a)}
TOfSet(ns, F) ==
  TLCEval([j \in 1 .. NL(ns) |->
             FoldLeft(LAMBDA acc, k : IF (LB * (j - 1) + k) \in F THEN acc + Pow2(k) ELSE acc,
                      0, [k \in 1 .. LimbBits(Pow2(ns), j) |-> k - 1])])

\* ------------------------------------------------------------------ nodes
Nd(k, a) == [k |-> k, a |-> a]
NTrue == Nd("true", <<>>)
NFalse == Nd("false", <<>>)
NSurf(s) == Nd("surf", <<s>>)
NNot(n) == Nd("not", <<n>>)
NAlias(n) == Nd("alias", <<n>>)
NJoin(op, ns) == Nd(op, ns)
IsJoin(nd) == nd.k \in {"and", "or"}
Kinds == {"true", "false", "surf", "not", "alias", "and", "or"}
Refs(nd) == IF nd.k \in {"not", "alias", "and", "or"} THEN {nd.a[i] : i \in DOMAIN nd.a} ELSE {}
EmptyTree == <<NTrue, NNot(0)>>          \* CsgTree::CsgTree()
TrueId == 0
FalseId == 1

\* --------------------------------------------- reference semantics (pointwise)
RECURSIVE Eval(_, _, _)
Eval(tree, n, a) ==
  LET nd == tree[n + 1] IN
  CASE nd.k = "true"  -> TRUE
    [] nd.k = "false" -> FALSE
    [] nd.k = "surf"  -> Bit(a, nd.a[1])
    [] nd.k = "not"   -> ~Eval(tree, nd.a[1], a)
    [] nd.k = "alias" -> Eval(tree, nd.a[1], a)
    [] nd.k = "and"   -> \A i \in DOMAIN nd.a : Eval(tree, nd.a[i], a)
    [] nd.k = "or"    -> \E i \in DOMAIN nd.a : Eval(tree, nd.a[i], a)
SemRef(ns, tree, n) == {a \in AllA(ns) : Eval(tree, n, a)}

\* ------------------------------ the same, bottom-up for all nodes at once (truth tables)
\* tt[n + 1] = table of node n; well defined because every reference points to a lower id.
NodeSem(ns, nd, tt) ==
  CASE nd.k = "true"  -> TConst(ns, TRUE)
    [] nd.k = "false" -> TConst(ns, FALSE)
    [] nd.k = "surf"  -> TSurf(ns, nd.a[1])
    [] nd.k = "not"   -> TNot(ns, tt[nd.a[1] + 1])
    [] nd.k = "alias" -> tt[nd.a[1] + 1]
    [] nd.k = "and"   -> FoldLeft(LAMBDA acc, r : TAnd(acc, tt[r + 1]), TFull(ns), nd.a)
    [] nd.k = "or"    -> FoldLeft(LAMBDA acc, r : TOr(acc, tt[r + 1]), TZero(ns), nd.a)
TT(ns, tree) == FoldLeft(LAMBDA tt, nd : Append(tt, NodeSem(ns, nd, tt)), <<>>, tree)
Sem(ns, tree, n) == TSet(ns, TT(ns, tree)[n + 1])

\* ----------------------------------------------------------- structure
\* every reference of the node with id `id` points to a lower id; joins have >= 2 operands,
\* strictly ascending (sorted, unique); "true" lives only at id 0, "false" is never stored
WFNode(nd, id) ==
  /\ nd.k \in Kinds \ {"false"}
  /\ nd.k = "true" => id = 0 /\ nd.a = <<>>
  /\ nd.k = "surf" => Len(nd.a) = 1 /\ nd.a[1] >= 0
  /\ nd.k \in {"not", "alias"} => Len(nd.a) = 1
  /\ \A r \in Refs(nd) : r >= 0 /\ r < id
  /\ IsJoin(nd) => /\ Len(nd.a) >= 2
                   /\ \A i \in 1 .. (Len(nd.a) - 1) : nd.a[i] < nd.a[i + 1]
WFTree(tree) ==
  /\ Len(tree) >= 2 /\ tree[1] = NTrue /\ tree[2] = NNot(0)
  /\ \A k \in 1 .. Len(tree) : WFNode(tree[k], k - 1)
\* deduplication: no two ids hold the same (non-alias) node
Dedup(tree) == \A i, j \in 1 .. Len(tree) : (i < j /\ tree[i].k # "alias") => tree[i] # tree[j]
\* after simplify-to-fixed-point from `start`: no node >= start refers to an alias
NoAliasRefs(tree, start) ==
  \A k \in (start + 1) .. Len(tree) : \A r \in Refs(tree[k]) : tree[r + 1].k # "alias"
\* after transform_negated_joins: no negation of a join is left
NoNegatedJoins(tree) ==
  \A k \in 1 .. Len(tree) : tree[k].k = "not" => ~IsJoin(tree[tree[k].a[1] + 1])

\* ------------------------------------------------------ cubes and restriction
\* a sub-cube: with a and b it contains every c lying "between" them coordinate-wise
IsCube(ns, F) == \A a, b \in F : \A c \in AllA(ns) :
                   (\A s \in 0 .. (ns - 1) : Bit(c, s) = Bit(a, s) \/ Bit(c, s) = Bit(b, s)) => c \in F
\* equivalent characterisation (checked in CsgMC): F is the conjunction of its forced literals
Forced(ns, F, s, b) == \A a \in F : Bit(a, s) = b
CubeHull(ns, F) ==
  LET ft == {s \in 0 .. (ns - 1) : Forced(ns, F, s, TRUE)}
      ff == {s \in 0 .. (ns - 1) : Forced(ns, F, s, FALSE)}
  IN {a \in AllA(ns) : (\A s \in ft : Bit(a, s)) /\ (\A s \in ff : ~Bit(a, s))}
IsCubeFast(ns, F) == F = {} \/ F = CubeHull(ns, F)
\* the same on a truth table: forced literals = surfaces whose table contains / is disjoint from x
IsCubeT(ns, x) ==
  LET sa == [s \in 1 .. ns |-> TSurf(ns, s - 1)]
      ft == {s \in 1 .. ns : TIsZero(TAnd(x, TNot(ns, sa[s])))}
      ff == {s \in 1 .. ns : TIsZero(TAnd(x, sa[s]))}
      hull == FoldLeft(LAMBDA acc, s : IF s \in ft THEN TAnd(acc, sa[s])
                                      ELSE IF s \in ff THEN TAnd(acc, TNot(ns, sa[s])) ELSE acc,
                       TFull(ns), [s \in 1 .. ns |-> s])
  IN TIsZero(x) \/ x = hull
\* F restricted to the assignments on which the function G has value b
RestrictTo(F, G, b) == IF b THEN F \cap G ELSE F \ G
Consistent(ns, G, b) == IF b THEN G ELSE AllA(ns) \ G
\* on tables: x and y agree wherever g has value b; some assignment gives g the value b
AgreeOn(ns, x, y, g, b) == TIsZero(TAnd(TXor(x, y), IF b THEN g ELSE TNot(ns, g)))
Satisfiable(ns, g, b) == ~TIsZero(IF b THEN g ELSE TNot(ns, g))

\* ------------------------------------------------------------ logic tokens
\* orange/OrangeTypes.hh logic::OperatorToken are the six highest values of logic_int
\* (uint32); the harness logs them reinterpreted as int32: lbegin = ~6 = -7.
LOpen == -7   LClose == -6   LTrue == -5   LOr == -4   LAnd == -3   LNot == -2
IsOpTok(t) == t < 0
MaxStackDepth == 32      \* LogicStack::max_stack_depth()

\* Postfix stack machine of LogicEvaluator over an arbitrary boolean algebra:
\*   T top, N complement, A meet, O join, F(i) the value of face index i (0-based).
\* Result: [ok, st (stack, top last), mx (greatest depth reached)].
PostfixRun(logic, nfaces, T, N(_), A(_, _), O(_, _), F(_)) ==
  FoldLeft(LAMBDA r, t :
      LET n == Len(r.st) IN
      IF ~r.ok THEN r
      ELSE IF t >= 0 THEN
             IF t < nfaces
             THEN [ok |-> TRUE, st |-> Append(r.st, F(t)), mx |-> IF n + 1 > r.mx THEN n + 1 ELSE r.mx]
             ELSE [r EXCEPT !.ok = FALSE]
      ELSE IF t = LTrue THEN [ok |-> TRUE, st |-> Append(r.st, T), mx |-> IF n + 1 > r.mx THEN n + 1 ELSE r.mx]
      ELSE IF t = LNot THEN
             IF n >= 1 THEN [r EXCEPT !.st[n] = N(r.st[n])] ELSE [r EXCEPT !.ok = FALSE]
      ELSE IF t = LAnd THEN
             IF n >= 2 THEN [r EXCEPT !.st = Append(SubSeq(r.st, 1, n - 2), A(r.st[n - 1], r.st[n]))]
             ELSE [r EXCEPT !.ok = FALSE]
      ELSE IF t = LOr THEN
             IF n >= 2 THEN [r EXCEPT !.st = Append(SubSeq(r.st, 1, n - 2), O(r.st[n - 1], r.st[n]))]
             ELSE [r EXCEPT !.ok = FALSE]
      ELSE [r EXCEPT !.ok = FALSE],
    [ok |-> TRUE, st |-> <<>>, mx |-> 0], logic)
PostfixWF(r) == r.ok /\ Len(r.st) = 1

\* pointwise (the reference): faces[i + 1] is the surface of face index i
PostfixRunAt(logic, faces, a) ==
  PostfixRun(logic, Len(faces), TRUE, LAMBDA x : ~x, LAMBDA x, y : x /\ y, LAMBDA x, y : x \/ y,
             LAMBDA i : Bit(a, faces[i + 1]))
EvalPostfix(logic, faces, a) ==
  LET r == PostfixRunAt(logic, faces, a) IN PostfixWF(r) /\ r.st[1]
\* lifted to truth tables over n "worlds" (assignments or samples); FW(i) = table of face index i
PostfixRunTbl(logic, nfaces, n, FW(_)) ==
  LET full == TFullN(n) IN
  PostfixRun(logic, nfaces, full, LAMBDA x : TNotF(full, x), TAnd, TOr, FW)
PostfixRunSem(ns, logic, faces) ==
  LET sa == [s \in 1 .. ns |-> TSurf(ns, s - 1)] IN
  PostfixRunTbl(logic, Len(faces), Pow2(ns), LAMBDA i : sa[faces[i + 1] + 1])

\* faces: strictly ascending surface ids, every face index used by the logic is in range,
\* every face is used
FacesOK(logic, faces) ==
  /\ \A i \in 1 .. (Len(faces) - 1) : faces[i] < faces[i + 1]
  /\ \A i \in DOMAIN logic : logic[i] >= 0 => logic[i] < Len(faces)
  /\ \A f \in 0 .. (Len(faces) - 1) : \E i \in DOMAIN logic : logic[i] = f

\* --------------------------------------------- infix string (build_infix_string)
\* The harness lexes the string into integer tokens:
\*   "all" IAll, "any" IAny, "(" IOpen, ")" IClose, "," IComma, "!" IBang, "T" ITrue, "F" IFalse,
\*   "+k" -> 2k, "-k" -> 2k + 1.   Meaning (InfixStringBuilder.hh): all = intersection,
\*   any = union, "!" negates what follows, +k surface k true (outside), -k surface k false.
IAll == -1  IAny == -2  IOpen == -3  IClose == -4  IComma == -5  IBang == -6  ITrue == -7  IFalse == -8
\* frames: [op, neg, acc]; the bottom frame has op = 0 and receives the value of the expression
InfixStrRun(toks, T, E, N(_), A(_, _), O(_, _), S(_)) ==
  LET Feed(r, v0) ==
        LET v == IF r.pend THEN N(v0) ELSE v0
            n == Len(r.fr)
            f == r.fr[n]
        IN IF f.op = 0
           THEN IF f.has THEN [r EXCEPT !.ok = FALSE]
                ELSE [r EXCEPT !.fr[n] = [f EXCEPT !.acc = v, !.has = TRUE], !.pend = FALSE]
           ELSE [r EXCEPT !.fr[n] = [f EXCEPT !.acc = IF f.op = IAll THEN A(f.acc, v) ELSE O(f.acc, v),
                                               !.has = TRUE],
                          !.pend = FALSE]
  IN FoldLeft(LAMBDA r, t :
      IF ~r.ok THEN r
      ELSE IF t >= 0 THEN Feed(r, IF t % 2 = 0 THEN S(t \div 2) ELSE N(S(t \div 2)))
      ELSE IF t = ITrue THEN Feed(r, T)
      ELSE IF t = IFalse THEN Feed(r, E)
      ELSE IF t = IBang THEN [r EXCEPT !.pend = ~r.pend]
      ELSE IF t \in {IAll, IAny}
           THEN [r EXCEPT !.fr = Append(r.fr, [op |-> t, neg |-> r.pend, has |-> FALSE,
                                               acc |-> IF t = IAll THEN T ELSE E]),
                          !.pend = FALSE]
      ELSE IF t \in {IOpen, IComma} THEN (IF r.pend THEN [r EXCEPT !.ok = FALSE] ELSE r)
      ELSE IF t = IClose
           THEN LET n == Len(r.fr) f == r.fr[n] IN
                IF n < 2 \/ ~f.has \/ r.pend THEN [r EXCEPT !.ok = FALSE]
                ELSE Feed([r EXCEPT !.fr = SubSeq(r.fr, 1, n - 1)], IF f.neg THEN N(f.acc) ELSE f.acc)
      ELSE [r EXCEPT !.ok = FALSE],
    [ok |-> TRUE, pend |-> FALSE, fr |-> <<[op |-> 0, neg |-> FALSE, has |-> FALSE, acc |-> E]>>], toks)
InfixStrWF(r) == r.ok /\ Len(r.fr) = 1 /\ r.fr[1].has /\ ~r.pend
InfixStrAt(toks, a) ==
  InfixStrRun(toks, TRUE, FALSE, LAMBDA x : ~x, LAMBDA x, y : x /\ y, LAMBDA x, y : x \/ y,
              LAMBDA s : Bit(a, s))
EvalInfixStr(toks, a) == LET r == InfixStrAt(toks, a) IN InfixStrWF(r) /\ r.fr[1].acc
InfixStrSem(ns, toks) ==
  LET sa == [s \in 1 .. ns |-> TSurf(ns, s - 1)] IN
  InfixStrRun(toks, TFull(ns), TZero(ns), LAMBDA x : TNot(ns, x), TAnd, TOr,
              LAMBDA s : IF s < ns THEN sa[s + 1] ELSE TZero(ns))

\* ---------------------------------- explicit infix logic (runtime InfixEvaluator)
\* Tokens: face ids, LOpen, LClose, LTrue, LAnd, LOr, LNot (LNot only directly before a face).
\* Reference meaning for fully parenthesised expressions whose groups are homogeneous
\* (only & or only | inside one pair of parentheses): anything else is "not well formed"
\* and outside this spec.  frames: [has, acc, op (0 = none yet), want (operand expected)]
InfixTokRun(toks, T, N(_), A(_, _), O(_, _), F(_)) ==
  LET Feed(r, v) ==
        LET n == Len(r.fr) f == r.fr[n] IN
        IF ~f.has THEN [r EXCEPT !.fr[n] = [f EXCEPT !.has = TRUE, !.acc = v, !.want = FALSE]]
        ELSE IF ~f.want THEN [r EXCEPT !.ok = FALSE]
        ELSE [r EXCEPT !.fr[n] = [f EXCEPT !.acc = IF f.op = LAnd THEN A(f.acc, v) ELSE O(f.acc, v),
                                            !.want = FALSE]]
  IN FoldLeft(LAMBDA r, t :
      IF ~r.ok THEN r
      ELSE IF t >= 0 THEN [Feed(r, IF r.pend THEN N(F(t)) ELSE F(t)) EXCEPT !.pend = FALSE]
      ELSE IF r.pend THEN [r EXCEPT !.ok = FALSE]       \* "~" must be followed by a face
      ELSE IF t = LNot THEN [r EXCEPT !.pend = TRUE]
      ELSE IF t = LTrue THEN Feed(r, T)
      ELSE IF t = LOpen THEN [r EXCEPT !.fr = Append(r.fr, [has |-> FALSE, acc |-> T, op |-> 0, want |-> TRUE])]
      ELSE IF t \in {LAnd, LOr}
           THEN LET n == Len(r.fr) f == r.fr[n] IN
                IF ~f.has \/ f.want \/ (f.op # 0 /\ f.op # t) THEN [r EXCEPT !.ok = FALSE]
                ELSE [r EXCEPT !.fr[n] = [f EXCEPT !.op = t, !.want = TRUE]]
      ELSE IF t = LClose
           THEN LET n == Len(r.fr) f == r.fr[n] IN
                IF n < 2 \/ ~f.has \/ f.want THEN [r EXCEPT !.ok = FALSE]
                ELSE Feed([r EXCEPT !.fr = SubSeq(r.fr, 1, n - 1)], f.acc)
      ELSE [r EXCEPT !.ok = FALSE],
    [ok |-> TRUE, pend |-> FALSE, fr |-> <<[has |-> FALSE, acc |-> T, op |-> 0, want |-> TRUE]>>], toks)
InfixTokWF(r) == r.ok /\ ~r.pend /\ Len(r.fr) = 1 /\ r.fr[1].has /\ ~r.fr[1].want
InfixTokAt(toks, a) ==
  InfixTokRun(toks, TRUE, LAMBDA x : ~x, LAMBDA x, y : x /\ y, LAMBDA x, y : x \/ y, LAMBDA s : Bit(a, s))
EvalInfixTok(toks, a) == LET r == InfixTokAt(toks, a) IN InfixTokWF(r) /\ r.fr[1].acc
InfixTokSem(ns, toks) ==
  LET sa == [s \in 1 .. ns |-> TSurf(ns, s - 1)] IN
  InfixTokRun(toks, TFull(ns), LAMBDA x : TNot(ns, x), TAnd, TOr,
              LAMBDA s : IF s < ns THEN sa[s + 1] ELSE TZero(ns))

\* ------------------------------------------------------------ the request alphabet
\* canonical order of the exhaustive enumeration, shared with harness/vcsg.cc (all_requests):
\*   True, False, Surface 0..NS-1, Negated 0..size-1, then for "and", "or":
\*   operand multisets of size 0, 1, 2, 3 in lexicographic order, passed in DESCENDING order
Lex(x, y) == \E i \in DOMAIN x : x[i] < y[i] /\ \A j \in 1 .. (i - 1) : x[j] = y[j]
Rev(s) == [i \in DOMAIN s |-> s[Len(s) + 1 - i]]
Multisets(size, m) ==
  LET I == 0 .. (size - 1) IN
  CASE m = 0 -> {<<>>}
    [] m = 1 -> {<<x>> : x \in I}
    [] m = 2 -> {q \in I \X I : q[1] <= q[2]}
    [] m = 3 -> {q \in I \X I \X I : q[1] <= q[2] /\ q[2] <= q[3]}
JoinOps(op, size) ==
  FoldLeft(LAMBDA acc, m : LET srt == SetToSortSeq(Multisets(size, m), Lex) IN
                           acc \o [i \in DOMAIN srt |-> NJoin(op, Rev(srt[i]))],
           <<>>, <<0, 1, 2, 3>>)
AllOps(ns, size) ==
  <<NTrue, NFalse>> \o [i \in 1 .. ns |-> NSurf(i - 1)] \o [i \in 1 .. size |-> NNot(i - 1)]
  \o JoinOps("and", size) \o JoinOps("or", size)

\* ------------------------- directed family for transform_negated_joins (shared negations)
(* DeMorganSimplifier decides per node whether the original join J, its De Morgan dual, a
   new negation ... must exist in the new tree by looking at the PARENTS of J and of !J.
   Mistakes there (first / any / last parent, negated / plain parent, volume or not) only show
   when !J (or J) is SHARED by several parent joins of different kinds; such trees need >= 7
   growing inserts and lie outside the exhaustive scope.  This family enumerates them:
     J      all(a,b) | any(a,b) | all(a, any(b,c)) | all(a, !any(b,c)) with !any(b,c) itself
            shared by a plain join (one level deeper)
     parents  2 or 3 joins P_i = op_i(x_i, y_i), op_i in {all, any}, x_i in {!J, J}, y_i a fresh
            surface (s3, s4, s5), each optionally followed by its negation !P_i, in EVERY order (sequences,
            not sets), the negations either right after their join or after all parents
     J      not used otherwise | also a volume | also used positively in another join all(J, c)
     volume sets  all tops (P_i or !P_i) | each top alone | everything (tops, negated P_i, !J)
   A case is SYMBOLIC: op operands are handles = indices of earlier ops of the case (surfaces:
   the surface id), so it does not presuppose which node ids the real insert returns.
   level 1 (quick): 2 parents in full, 3 parents with x_i = !J only; level 2: everything.    *)
FamNS == 6
FamDigits(i, radices) ==
  FoldLeft(LAMBDA acc, r : [d |-> Append(acc.d, acc.q % r), q |-> acc.q \div r], [d |-> <<>>, q |-> i], radices).d
FOp(k, h) == [k |-> k, h |-> h]
PKindOp(pk) == IF pk % 2 = 0 THEN "and" ELSE "or"
PKindNeg(pk) == (pk \div 2) % 2 = 1
PKindLinkJ(pk) == pk \div 4 = 1
\* jf: form of J; ps: parent kinds; np: 0 negations right after their join, 1 after all parents;
\* ju: 0 J not used otherwise, 1 J is a volume, 2 J used positively by E = all(J, s2);
\* level 1 logs the single-top volume sets only for two-parent cases
FamCase(level, jf, ps, np, ju) ==
  LET S(x) == x + 1                                    \* handle of surface x (ops 1..6)
      surf == [x \in 1 .. FamNS |-> FOp("surf", <<x - 1>>)]
      h1 == FamNS + 1                                   \* first op after the surfaces
      pre == CASE jf = 0 -> <<FOp("and", <<S(0), S(1)>>)>>
               [] jf = 1 -> <<FOp("or", <<S(0), S(1)>>)>>
               [] jf = 2 -> <<FOp("or", <<S(1), S(2)>>), FOp("and", <<S(0), h1>>)>>
               [] jf = 3 -> <<FOp("or", <<S(1), S(2)>>), FOp("not", <<h1>>), FOp("or", <<h1 + 1, S(5)>>),
                              FOp("and", <<S(0), h1 + 1>>)>>
      hJ == FamNS + Len(pre)
      useN == \E i \in DOMAIN ps : ~PKindLinkJ(ps[i])
      hN == hJ + 1
      ops1 == surf \o pre \o (IF useN THEN <<FOp("not", <<hJ>>)>> ELSE <<>>)
      st1 == FoldLeft(LAMBDA acc, i :
                LET o1 == Append(acc.ops, FOp(PKindOp(ps[i]), <<IF PKindLinkJ(ps[i]) THEN hJ ELSE hN, S(2 + i)>>))
                    hp == Len(o1)
                IN IF PKindNeg(ps[i]) /\ np = 0
                   THEN [ops |-> Append(o1, FOp("not", <<hp>>)), par |-> Append(acc.par, hp), top |-> Append(acc.top, hp + 1)]
                   ELSE [ops |-> o1, par |-> Append(acc.par, hp), top |-> Append(acc.top, hp)],
              [ops |-> ops1, par |-> <<>>, top |-> <<>>], [i \in DOMAIN ps |-> i])
      st2 == FoldLeft(LAMBDA acc, i :
                IF PKindNeg(ps[i]) /\ np = 1
                THEN [acc EXCEPT !.ops = Append(acc.ops, FOp("not", <<acc.par[i]>>)), !.top[i] = Len(acc.ops) + 1]
                ELSE acc,
              st1, [i \in DOMAIN ps |-> i])
      ops3 == IF ju = 2 THEN Append(st2.ops, FOp("and", <<hJ, S(2)>>)) ELSE st2.ops
      extra == IF ju = 1 THEN <<hJ>> ELSE IF ju = 2 THEN <<Len(ops3)>> ELSE <<>>
      negpar == SelectSeq(st2.par, LAMBDA h : \E i \in DOMAIN ps : st2.par[i] = h /\ PKindNeg(ps[i]))
      vall == st2.top \o extra
      veach == IF level >= 2 \/ Len(ps) = 2
               THEN [i \in DOMAIN ps |-> <<st2.top[i]>> \o (IF ju = 1 THEN <<hJ>> ELSE <<>>)] ELSE <<>>
      vevery == vall \o negpar \o (IF useN THEN <<hN>> ELSE <<>>)
  IN [ops |-> ops3, volsets |-> <<vall>> \o veach \o (IF vevery # vall THEN <<vevery>> ELSE <<>>),
      par |-> [jf |-> jf, ps |-> ps, np |-> np, ju |-> ju]]
\* negations "after all parents" differ from "right after" only if a non-last parent is negated
FamValid(ps, np) == np = 0 \/ \E i \in 1 .. (Len(ps) - 1) : PKindNeg(ps[i])
\* The family is indexed by a RAW index r in 0 .. FamTotal(level) - 1 (mixed radix over the
\* parameters: first the two-parent cases, then the three-parent ones); r is a member iff
\* FamIsCase(level, r).  (Raw indices let the trace spec check completeness case by case.)
FamTwo == 4 * 8 * 8 * 2 * 3
FamThree(level) == IF level >= 2 THEN 4 * 8 * 8 * 8 * 2 * 3 ELSE 4 * 4 * 4 * 4 * 1 * 2
FamTotal(level) == FamTwo + FamThree(level)
FamParams(level, r) ==
  IF r < FamTwo
  THEN LET d == FamDigits(r, <<4, 8, 8, 2, 3>>) IN
       [jf |-> d[1], ps |-> <<d[2], d[3]>>, np |-> d[4], ju |-> d[5]]
  ELSE LET d == FamDigits(r - FamTwo, IF level >= 2 THEN <<4, 8, 8, 8, 2, 3>> ELSE <<4, 4, 4, 4, 1, 2>>) IN
       [jf |-> d[1], ps |-> <<d[2], d[3], d[4]>>, np |-> d[5], ju |-> IF level >= 2 THEN d[6] ELSE 2 * d[6]]
FamIsCase(level, r) == LET q == FamParams(level, r) IN FamValid(q.ps, q.np)
FamCaseAt(level, r) == LET q == FamParams(level, r) IN FamCase(level, q.jf, q.ps, q.np, q.ju)
DMFamily(level) ==
  LET rs == SelectSeq([i \in 1 .. FamTotal(level) |-> i - 1], LAMBDA r : FamIsCase(level, r)) IN
  [i \in DOMAIN rs |-> LET c == FamCaseAt(level, rs[i]) IN [ri |-> rs[i], ops |-> c.ops, volsets |-> c.volsets, par |-> c.par]]
\* well-formedness of a symbolic case: handles point to earlier ops, surfaces in range
FamCaseWF(c) ==
  /\ \A j \in DOMAIN c.ops :
        LET o == c.ops[j] IN
        IF o.k = "surf" THEN Len(o.h) = 1 /\ o.h[1] >= 0 /\ o.h[1] < FamNS
        ELSE /\ o.k \in {"not", "and", "or"} /\ (o.k = "not" => Len(o.h) = 1)
             /\ \A i \in DOMAIN o.h : o.h[i] >= 1 /\ o.h[i] < j
  /\ \A v \in DOMAIN c.volsets : \A i \in DOMAIN c.volsets[v] :
        c.volsets[v][i] >= 1 /\ c.volsets[v][i] <= Len(c.ops)
\* the concrete request for op j given the ids returned for the earlier ops
FamRequest(o, ids) == IF o.k = "surf" THEN NSurf(o.h[1]) ELSE Nd(o.k, [i \in DOMAIN o.h |-> ids[o.h[i]]])

\* ------------------------------------------------- abstract operations (relations)
\* The function denoted by a *requested* node over the truth tables tt of the current tree
ReqSem(ns, op, tt) == NodeSem(ns, op, tt)
ReqValid(op, size) ==        \* IsUserNodeValid
  /\ op.k \in {"true", "false", "surf", "not", "and", "or"}
  /\ op.k = "surf" => Len(op.a) = 1 /\ op.a[1] >= 0
  /\ op.k = "not" => Len(op.a) = 1
  /\ \A r \in Refs(op) : r >= 0 /\ r < size
\* the requested node with join operands sorted and uniquified (how it would be stored)
SortedOperands(op) == SetToSortSeq({op.a[i] : i \in DOMAIN op.a}, LAMBDA x, y : x < y)
Canon(op) == IF IsJoin(op) THEN Nd(op.k, SortedOperands(op)) ELSE op

(* CsgTree::insert(op) -> (id, inserted) observed as: size' (new size), same (old nodes
   untouched), last (the appended node when the tree grew).
   - the tree only ever grows by one node at the end, old handles keep their nodes;
   - the returned handle denotes the requested function;
   - inserted <=> grew, and then id is the new last id, the stored node is well formed
     (operands sorted unique, >= 2 of them) and is not a duplicate of an existing node;
   - dedup: a request that (with sorted unique operands) already exists returns that id;
   - documented local simplification: zero-/one-operand joins and constants never grow the tree *)
InsertOK(ns, tree, tt, op, id, inserted, size2, same, last) ==
  LET size == Len(tree)
      tree2 == IF size2 = size + 1 THEN Append(tree, last) ELSE tree
      tt2 == IF size2 = size + 1 THEN Append(tt, NodeSem(ns, last, tt)) ELSE tt
  IN
  /\ ReqValid(op, size)
  /\ same /\ size2 \in {size, size + 1}
  /\ inserted = (size2 = size + 1)
  /\ id >= 0 /\ id < size2
  /\ inserted => /\ id = size
                 /\ WFNode(last, size) /\ last.k # "alias"
                 /\ \A k \in 1 .. size : tree[k] # last
  /\ tt2[id + 1] = ReqSem(ns, op, tt)
  /\ LET c == Canon(op) IN
     \A k \in 1 .. size : (tree[k] = c /\ c.k # "alias") => (~inserted /\ tree[id + 1] = c)
  /\ (op.k \in {"true", "false"} \/ (IsJoin(op) /\ Cardinality({op.a[i] : i \in DOMAIN op.a}) <= 1))
        => ~inserted

\* simplify(tree, start): same size, every handle keeps its function; structure stays well
\* formed; nodes >= start no longer refer to aliases (fixed point of local simplification)
SimplifyOK(ns, tree, tt, start, after) ==
  /\ Len(after) = Len(tree)
  /\ WFTree(after)
  /\ TT(ns, after) = tt
  /\ NoAliasRefs(after, start)
  /\ \A k \in 1 .. start : after[k] = tree[k]

\* CsgTree::exchange(n, constant) [+ simplify]: the building block of replace_and_simplify.
\* Its contract asks for a "logically equivalent" replacement, so after forcing handle n to
\* the constant b every handle is only required to keep its value on the assignments where
\* node n really had value b (the same restriction as ReplaceAndSimplify, without propagation).
ExchangeOK(ns, tree, tt, n, b, after) ==
  LET g == tt[n + 1]
      tt2 == TT(ns, after) IN
  /\ Len(after) = Len(tree)
  /\ WFTree(after)
  /\ \A m \in 1 .. Len(tree) : AgreeOn(ns, tt2[m], tt[m], g, b)
  /\ Satisfiable(ns, g, b) => tt2[n + 1] = TConst(ns, b)

\* transform_negated_joins: new tree, volume i of the result denotes what volume i denoted
DeMorganOK(ns, tt, vols, after, avols) ==
  LET tt2 == TT(ns, after) IN
  /\ WFTree(after)
  /\ NoNegatedJoins(after)
  /\ Len(avols) = Len(vols)
  /\ \A i \in DOMAIN vols : avols[i] >= 0 /\ avols[i] < Len(after) /\ tt2[avols[i] + 1] = tt[vols[i] + 1]

\* replace_and_simplify(tree, key, b) -> unknown surface nodes | RuntimeError "logical contradiction"
ReplaceOK(ns, tree, tt, key, b, after, unknown) ==
  LET g == tt[key + 1]
      tt2 == TT(ns, after)
  IN
  /\ Len(after) = Len(tree)
  /\ WFTree(after)
  /\ \A n \in 1 .. Len(tree) : AgreeOn(ns, tt2[n], tt[n], g, b)     \* Restrict(sem'[n]) = Restrict(sem[n])
  /\ Satisfiable(ns, g, b) => tt2[key + 1] = TConst(ns, b)          \* the key really became the constant
  /\ \A i \in DOMAIN unknown : unknown[i] >= 0 /\ unknown[i] < Len(after) /\ after[unknown[i] + 1].k = "surf"
\* the RuntimeError "logical contradiction" is allowed IFF no assignment gives the key the value b
ContradictionOK(ns, tt, key, b) == ~Satisfiable(ns, tt[key + 1], b)

=============================================================================
