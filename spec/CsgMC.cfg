SPECIFICATION Spec
CONSTANTS
  NS = 3
  MaxNodes = 5
INVARIANTS
  InvStructure
  InvTT
  InvInsert
  InvAlgebra
  InvTranslations
  InvReplacer
  InvFlagRule
