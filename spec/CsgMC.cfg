SPECIFICATION Spec
CONSTANTS
  NS = 3
  MaxNodes = 6
INVARIANTS
  InvStructure
  InvTT
  InvInsert
  InvAlgebra
  InvTranslations
  InvReplacer
  InvFlagRule
