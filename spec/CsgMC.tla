------------------------------- MODULE CsgMC -------------------------------
(* Design check for Csg.tla (no code involved): a state machine that builds every tree
   reachable by <= MaxNodes - 2 growing inserts over NS surfaces with the *documented*
   behaviour of CsgTree::insert (one local simplification + deduplication, RefInsert) and
   checks at every state
     - the truth-table semantics TT against the recursive reference Eval,
     - that RefInsert satisfies the trace-level contract InsertOK for EVERY request of the
       alphabet AllOps (so the contract used on the real code is satisfiable and agrees
       with the documentation),
     - boolean algebra of Sem: double negation, De Morgan, identity/absorbing constants,
       Restrict laws,
     - reference translations (postfix / infix string / explicit infix after pushing
       negations down = De Morgan) evaluated by the spec's machines denote Sem, pointwise
       and lifted, within the 32-deep stack,
     - a model of NodeReplacer's propagation rules is sound (conflict => unsatisfiable),
     - a model of InternalSurfaceFlagger's rule implies IsCube.
   Once (ASSUME): IsCube <=> IsCubeFast for all 2^(2^NS) functions.                     *)
EXTENDS Csg, Json, IOUtils
CONSTANTS NS, MaxNodes
VARIABLE tree

\* ------------------------------------------- documented behaviour of CsgTree::insert
Find(t, nd) == IF \E k \in DOMAIN t : t[k] = nd THEN (CHOOSE k \in DOMAIN t : t[k] = nd) - 1 ELSE -1
Existing(t, id) == [tree |-> t, id |-> id, grew |-> FALSE]
Store(t, nd) == IF Find(t, nd) >= 0 THEN Existing(t, Find(t, nd))
                ELSE [tree |-> Append(t, nd), id |-> Len(t), grew |-> TRUE]
RefInsert(t, op) ==
  CASE op.k = "true" -> Existing(t, TrueId)
    [] op.k = "false" -> Existing(t, FalseId)
    [] op.k = "surf" -> Store(t, op)
    [] op.k = "not" ->
         LET c == t[op.a[1] + 1] IN
         IF c.k = "true" THEN Existing(t, FalseId)
         ELSE IF c.k = "not" THEN Existing(t, c.a[1])            \* double negation
         ELSE Store(t, op)
    [] IsJoin(op) ->
         LET absorbing == IF op.k = "and" THEN FalseId ELSE TrueId
             identity == IF op.k = "and" THEN TrueId ELSE FalseId
             S == {op.a[i] : i \in DOMAIN op.a}
             R == S \ {identity}
         IN IF absorbing \in S THEN Existing(t, absorbing)
            ELSE IF R = {} THEN Existing(t, identity)
            ELSE IF Cardinality(R) = 1 THEN Existing(t, CHOOSE x \in R : TRUE)
            ELSE Store(t, NJoin(op.k, SetToSortSeq(R, LAMBDA x, y : x < y)))

Init == tree = EmptyTree
Next == /\ Len(tree) < MaxNodes
        /\ \E i \in 1 .. Len(AllOps(NS, Len(tree))) :
             LET r == RefInsert(tree, AllOps(NS, Len(tree))[i]) IN r.grew /\ tree' = r.tree
Spec == Init /\ [][Next]_tree

\* ------------------------------------------------------------------ invariants
Ids == 0 .. (Len(tree) - 1)
All == AllA(NS)
TAll == TConst(NS, TRUE)
TNone == TConst(NS, FALSE)

InvStructure == WFTree(tree) /\ Dedup(tree)
\* truth tables = the recursive reference semantics, and the set view is consistent
InvTT == LET tt == TT(NS, tree) IN
         \A n \in Ids : /\ TSet(NS, tt[n + 1]) = SemRef(NS, tree, n)
                        /\ TOfSet(NS, SemRef(NS, tree, n)) = tt[n + 1]
                        /\ \A a \in All : TBit(tt[n + 1], a) = Eval(tree, n, a)
                        /\ Sem(NS, tree, n) = SemRef(NS, tree, n)

InvInsert ==
  LET tt == TT(NS, tree)
      ops == AllOps(NS, Len(tree)) IN
  \A i \in DOMAIN ops :
    LET r == RefInsert(tree, ops[i]) IN
    InsertOK(NS, tree, tt, ops[i], r.id, r.grew, Len(r.tree), SubSeq(r.tree, 1, Len(tree)) = tree,
             r.tree[Len(r.tree)])

InvAlgebra ==
  LET tt == TT(NS, tree) IN
  /\ \A n \in Ids : TNot(NS, TNot(NS, tt[n + 1])) = tt[n + 1]
  /\ \A n \in Ids : IsJoin(tree[n + 1]) =>
        LET nd == tree[n + 1]
            dual == IF nd.k = "and" THEN "or" ELSE "and"
            comp == [k \in DOMAIN tt |-> TNot(NS, tt[k])]       \* truth tables of the negated nodes
        IN  \* De Morgan: ~op(xs) = dual(~xs)
            /\ TNot(NS, tt[n + 1]) = NodeSem(NS, NJoin(dual, nd.a), comp)
            \* identity / absorbing constants, idempotence
            /\ NodeSem(NS, NJoin(nd.k, nd.a \o <<IF nd.k = "and" THEN TrueId ELSE FalseId>>), tt) = tt[n + 1]
            /\ NodeSem(NS, NJoin(nd.k, nd.a \o <<IF nd.k = "and" THEN FalseId ELSE TrueId>>), tt)
                 = (IF nd.k = "and" THEN TNone ELSE TAll)
            /\ NodeSem(NS, NJoin(nd.k, nd.a \o nd.a), tt) = tt[n + 1]
  /\ NodeSem(NS, NJoin("and", <<>>), tt) = TAll /\ NodeSem(NS, NJoin("or", <<>>), tt) = TNone
  \* Restrict laws (set view) and their table form AgreeOn / Satisfiable
  /\ \A n, m \in Ids : \A b \in BOOLEAN :
        LET F == TSet(NS, tt[n + 1])  G == TSet(NS, tt[m + 1])  C == Consistent(NS, G, b) IN
        /\ RestrictTo(F, G, b) = F \cap C
        /\ RestrictTo(F, G, TRUE) \cup RestrictTo(F, G, FALSE) = F
        /\ RestrictTo(F, G, TRUE) \cap RestrictTo(F, G, FALSE) = {}
        /\ RestrictTo(G, G, b) = (IF b THEN G ELSE {})
        /\ RestrictTo(All \ F, G, b) = C \ RestrictTo(F, G, b)
        /\ Satisfiable(NS, tt[m + 1], b) = (C # {})
        /\ LET k == (n + m) % Len(tree)          \* a third function (pairs suffice to keep the model small)
               H == TSet(NS, tt[k + 1]) IN
           /\ RestrictTo(F \cap H, G, b) = RestrictTo(F, G, b) \cap RestrictTo(H, G, b)
           /\ RestrictTo(F \cup H, G, b) = RestrictTo(F, G, b) \cup RestrictTo(H, G, b)
           /\ AgreeOn(NS, tt[n + 1], tt[k + 1], tt[m + 1], b) = (RestrictTo(F, G, b) = RestrictTo(H, G, b))

\* ---------------------------------------------------- reference translations
RECURSIVE PF(_, _)
PF(t, n) ==
  LET nd == t[n + 1] IN
  CASE nd.k = "true" -> <<LTrue>>
    [] nd.k = "surf" -> <<nd.a[1]>>
    [] nd.k = "not" -> PF(t, nd.a[1]) \o <<LNot>>
    [] nd.k = "alias" -> PF(t, nd.a[1])
    [] IsJoin(nd) -> FoldLeft(LAMBDA acc, i : acc \o PF(t, nd.a[i]) \o <<IF nd.k = "and" THEN LAnd ELSE LOr>>,
                              PF(t, nd.a[1]), [i \in 1 .. (Len(nd.a) - 1) |-> i + 1])
RefPostfix(t, n) ==
  LET raw == PF(t, n)
      faces == SetToSortSeq({raw[i] : i \in {j \in DOMAIN raw : raw[j] >= 0}}, LAMBDA x, y : x < y)
      idx(s) == (CHOOSE i \in DOMAIN faces : faces[i] = s) - 1
  IN [faces |-> faces, logic |-> [i \in DOMAIN raw |-> IF raw[i] >= 0 THEN idx(raw[i]) ELSE raw[i]]]

RECURSIVE IS(_, _)
IS(t, n) ==          \* prefix form of InfixStringBuilder, written without its `negated_` flag trick
  LET nd == t[n + 1] IN
  CASE nd.k = "true" -> <<ITrue>>
    [] nd.k = "surf" -> <<2 * nd.a[1]>>
    [] nd.k = "not" -> <<IBang>> \o IS(t, nd.a[1])
    [] nd.k = "alias" -> IS(t, nd.a[1])
    [] IsJoin(nd) -> <<IF nd.k = "and" THEN IAll ELSE IAny, IOpen>>
                     \o FoldLeft(LAMBDA acc, i : acc \o <<IComma>> \o IS(t, nd.a[i]),
                                 IS(t, nd.a[1]), [i \in 1 .. (Len(nd.a) - 1) |-> i + 1])
                     \o <<IClose>>

\* explicit infix tokens with negations pushed to the leaves (De Morgan); <<"inexpressible">>
\* when a constant False would be needed (InfixEvaluator has no token for it)
Bad == <<-99>>
RECURSIVE IT(_, _, _)
IT(t, n, neg) ==
  LET nd == t[n + 1] IN
  CASE nd.k = "true" -> IF neg THEN Bad ELSE <<LTrue>>
    [] nd.k = "surf" -> IF neg THEN <<LNot, nd.a[1]>> ELSE <<nd.a[1]>>
    [] nd.k = "not" -> IT(t, nd.a[1], ~neg)
    [] nd.k = "alias" -> IT(t, nd.a[1], neg)
    [] IsJoin(nd) ->
         LET o == IF (nd.k = "and") = ~neg THEN LAnd ELSE LOr IN
         <<LOpen>> \o FoldLeft(LAMBDA acc, i : acc \o <<o>> \o IT(t, nd.a[i], neg),
                               IT(t, nd.a[1], neg), [i \in 1 .. (Len(nd.a) - 1) |-> i + 1])
         \o <<LClose>>

InvTranslations ==
  LET tt == TT(NS, tree) IN
  \A n \in Ids :
    LET p == RefPostfix(tree, n)
        rs == PostfixRunSem(NS, p.logic, p.faces)
        is == IS(tree, n)
        ris == InfixStrSem(NS, is)
        it == IT(tree, n, FALSE)
        rit == InfixTokSem(NS, it)
    IN
    /\ FacesOK(p.logic, p.faces)
    /\ PostfixWF(rs) /\ rs.st[1] = tt[n + 1] /\ rs.mx <= MaxStackDepth
    /\ \A a \in All : /\ EvalPostfix(p.logic, p.faces, a) = Eval(tree, n, a)
                      /\ PostfixRunAt(p.logic, p.faces, a).mx = rs.mx
                      /\ EvalInfixStr(is, a) = Eval(tree, n, a)
    /\ InfixStrWF(ris) /\ ris.fr[1].acc = tt[n + 1]
    /\ (\A i \in DOMAIN it : it[i] # -99) =>
          /\ InfixTokWF(rit) /\ rit.fr[1].acc = tt[n + 1]
          /\ \A a \in All : EvalInfixTok(it, a) = Eval(tree, n, a)

\* ------------------------------------------------ NodeReplacer's propagation rules
\* state per node: "u" unknown, "t", "f", "x" conflict.  One backward sweep (references point down).
Join2(x, y) == IF x = "u" THEN y ELSE IF y = "u" THEN x ELSE IF x = y THEN x ELSE "x"
Propagate(t, key, b) ==
  LET init == [k \in DOMAIN t |-> IF k = 1 THEN (IF key = 0 /\ ~b THEN "x" ELSE "t")
                                  ELSE IF k = 2 THEN (IF key = 1 /\ b THEN "x" ELSE "f")
                                  ELSE IF k = key + 1 THEN (IF b THEN "t" ELSE "f") ELSE "u"]
      Push(st, k) ==
        LET nd == t[k]  v == st[k] IN
        IF v \notin {"t", "f"} \/ k <= 2 THEN st
        ELSE CASE nd.k \in {"alias"} -> [st EXCEPT ![nd.a[1] + 1] = Join2(@, v)]
               [] nd.k = "not" -> [st EXCEPT ![nd.a[1] + 1] = Join2(@, IF v = "t" THEN "f" ELSE "t")]
               [] (nd.k = "and" /\ v = "t") \/ (nd.k = "or" /\ v = "f") ->
                    [j \in DOMAIN st |-> IF (j - 1) \in Refs(nd) THEN Join2(st[j], v) ELSE st[j]]
               [] OTHER -> st
  IN FoldLeft(Push, init, [i \in 1 .. Len(t) |-> Len(t) + 1 - i])
InvReplacer ==
  LET tt == TT(NS, tree) IN
  \A key \in Ids : \A b \in BOOLEAN :
    LET st == Propagate(tree, key, b)
        C == Consistent(NS, TSet(NS, tt[key + 1]), b) IN
    /\ (\E k \in DOMAIN st : st[k] = "x") => (C = {} /\ ContradictionOK(NS, tt, key, b))
    /\ \A k \in DOMAIN st : /\ st[k] = "t" => C \subseteq TSet(NS, tt[k])
                            /\ st[k] = "f" => C \cap TSet(NS, tt[k]) = {}

\* ------------------------------------------------ InternalSurfaceFlagger's rule
RECURSIVE SimpleRule(_, _)
SimpleRule(t, n) ==
  LET nd == t[n + 1] IN
  CASE nd.k \in {"true", "surf"} -> TRUE
    [] nd.k = "alias" -> SimpleRule(t, nd.a[1])
    [] nd.k = "not" -> ~IsJoin(t[nd.a[1] + 1]) /\ SimpleRule(t, nd.a[1])
    [] nd.k = "or" -> FALSE
    [] nd.k = "and" -> \A i \in DOMAIN nd.a : SimpleRule(t, nd.a[i])
InvFlagRule == \A n \in Ids : LET F == Sem(NS, tree, n) IN
                 /\ IsCubeT(NS, TOfSet(NS, F)) = IsCube(NS, F)
                 /\ SimpleRule(tree, n) => IsCube(NS, F)

\* ------------------------------------------- directed family (Csg.tla DMFamily)
(* Design check + generation of the directed family for transform_negated_joins.  Evaluated
   only when the environment names an output file (C10_FAMILY_OUT, level C10_FAMILY_LEVEL):
   every symbolic case is well formed; replayed with the documented insert (RefInsert) it
   yields a well formed tree in which pushing negations down (IT = De Morgan) denotes the
   function of every volume of every volume set; the family really contains the shapes it is
   meant for (a shared negated join whose LOWEST parent is a plain join and a higher parent a
   negated join, and the converse order, with J not kept for any other reason).  Then the
   family is written as ndjson for harness/vcsg.cc (mode fam).                              *)
FamReplay(c) ==
  FoldLeft(LAMBDA acc, o : LET r == RefInsert(acc.t, FamRequest(o, acc.ids)) IN
                           [t |-> r.tree, ids |-> Append(acc.ids, r.id)],
           [t |-> EmptyTree, ids |-> <<>>], c.ops)
ParentsOf(t, n) == {k \in 0 .. (Len(t) - 1) : n \in Refs(t[k + 1])}
HasNegation(t, p) == \E k \in 1 .. Len(t) : t[k] = NNot(p)
\* n = !J shared by >= 2 joins; J has no other parent; lowest parent plain (or negated), a higher one the opposite
SharedShape(t, lowestNegated) ==
  \E n \in 2 .. (Len(t) - 1) :
     /\ t[n + 1].k = "not" /\ IsJoin(t[t[n + 1].a[1] + 1])
     /\ ParentsOf(t, t[n + 1].a[1]) = {n}
     /\ LET ps == {p \in ParentsOf(t, n) : IsJoin(t[p + 1])}
            lo == CHOOSE p \in ps : \A q \in ps : p <= q IN
        /\ Cardinality(ps) >= 2
        /\ HasNegation(t, lo) = lowestNegated
        /\ \E p \in ps : HasNegation(t, p) # lowestNegated
FamilyOK(fam) ==
  /\ \A i \in DOMAIN fam : FamCaseWF(fam[i])
  /\ \A i \in DOMAIN fam :
        LET rp == FamReplay(fam[i])
            tt == TT(FamNS, rp.t) IN
        /\ WFTree(rp.t) /\ Dedup(rp.t)
        /\ \A v \in DOMAIN fam[i].volsets : \A j \in DOMAIN fam[i].volsets[v] :
              LET n == rp.ids[fam[i].volsets[v][j]]
                  it == IT(rp.t, n, FALSE)
                  rit == InfixTokSem(FamNS, it) IN
              (\A q \in DOMAIN it : it[q] # -99) => (InfixTokWF(rit) /\ rit.fr[1].acc = tt[n + 1])
  /\ \E i \in DOMAIN fam : fam[i].par.ju = 0 /\ SharedShape(FamReplay(fam[i]).t, FALSE)
  /\ \E i \in DOMAIN fam : fam[i].par.ju = 0 /\ SharedShape(FamReplay(fam[i]).t, TRUE)
ASSUME ("C10_FAMILY_OUT" \in DOMAIN IOEnv) =>
         LET fam == DMFamily(atoi(IOEnv.C10_FAMILY_LEVEL)) IN
         /\ FamilyOK(fam)
         /\ ndJsonSerialize(IOEnv.C10_FAMILY_OUT, fam)
         /\ PrintT(<<"FAMILY", Len(fam), FamTotal(atoi(IOEnv.C10_FAMILY_LEVEL))>>)

\* ------------------------------------------------------- one-off algebraic facts
ASSUME \A F \in SUBSET AllA(NS) : IsCube(NS, F) = IsCubeFast(NS, F) /\ IsCube(NS, F) = IsCubeT(NS, TOfSet(NS, F))
\* cubes are exactly the conjunctions of literals: for every partial assignment (lit[s] in
\* {0 free, 1 true, 2 false}) the set it denotes is a cube, and every cube arises this way
ASSUME LET Lits == [0 .. (NS - 1) -> {0, 1, 2}]
           Den(lit) == {a \in AllA(NS) : \A s \in 0 .. (NS - 1) :
                          (lit[s] = 1 => Bit(a, s)) /\ (lit[s] = 2 => ~Bit(a, s))}
       IN /\ \A lit \in Lits : IsCube(NS, Den(lit))
          /\ \A F \in SUBSET AllA(NS) : (IsCube(NS, F) /\ F # {}) => \E lit \in Lits : Den(lit) = F
\* multi-limb truth tables (NS = 3 needs a single limb): 6 surfaces = 64 entries = 3 limbs
ASSUME LET n == 6
           f == <<0, 5, LNot, LAnd, 3, LOr>>
           fc == <<0, 1, 2, 3, 4, 5>>
           r == PostfixRunSem(n, f, fc) IN
       /\ NL(n) = 3 /\ Len(TFull(n)) = 3 /\ TFull(n)[3] = 15 /\ NL(5) = 2 /\ NL(10) = 35 /\ NL(4) = 1
       /\ \A s \in 0 .. (n - 1) : \A a \in AllA(n) :
             /\ TBit(TSurf(n, s), a) = Bit(a, s)
             /\ TBit(TNot(n, TSurf(n, s)), a) = ~Bit(a, s)
             /\ TBit(TFull(n), a) /\ ~TBit(TZero(n), a)
       /\ \A s, t \in 0 .. (n - 1) : \A a \in AllA(n) :
             /\ TBit(TAnd(TSurf(n, s), TSurf(n, t)), a) = (Bit(a, s) /\ Bit(a, t))
             /\ TBit(TOr(TSurf(n, s), TNot(n, TSurf(n, t))), a) = (Bit(a, s) \/ ~Bit(a, t))
       /\ \A s \in 0 .. (n - 1) : TOfSet(n, TSet(n, TSurf(n, s))) = TSurf(n, s)
       /\ IsCubeT(n, TAnd(TSurf(n, 5), TNot(n, TSurf(n, 0)))) /\ ~IsCubeT(n, TOr(TSurf(n, 5), TSurf(n, 0)))
       /\ IsCubeT(n, TZero(n)) /\ IsCubeT(n, TFull(n))
       /\ PostfixWF(r) /\ \A a \in AllA(n) : TBit(r.st[1], a) = EvalPostfix(f, fc, a)
       /\ AgreeOn(n, TSurf(n, 1), TAnd(TSurf(n, 1), TSurf(n, 4)), TSurf(n, 4), TRUE)
       /\ ~AgreeOn(n, TSurf(n, 1), TAnd(TSurf(n, 1), TSurf(n, 4)), TSurf(n, 4), FALSE)
       /\ Satisfiable(n, TSurf(n, 2), FALSE) /\ ~Satisfiable(n, TFull(n), FALSE) /\ ~Satisfiable(n, TZero(n), TRUE)
\* the sketch of DESIGN.md Appendix A.4
ASSUME LET T == <<NTrue, NNot(0), NSurf(0), NSurf(1), NNot(3), NJoin("and", <<2, 4>>), NJoin("or", <<2, 3>>)>> IN
       /\ \A a \in AllA(2) : EvalPostfix(<<0, 1, LNot, LAnd>>, <<0, 1>>, a) = Eval(T, 5, a)
       /\ \E a \in AllA(2) : EvalPostfix(<<0, 1, LAnd>>, <<0, 1>>, a) # Eval(T, 5, a)
       /\ IsCube(2, Sem(2, T, 5)) /\ ~IsCube(2, Sem(2, T, 6))
       /\ \A a \in AllA(2) : EvalInfixStr(<<IAll, IOpen, 0, IComma, 3, IClose>>, a) = Eval(T, 5, a)
       /\ \A a \in AllA(2) : EvalInfixStr(<<IBang, IAny, IOpen, 1, IComma, 2, IClose>>, a) = Eval(T, 5, a)
       /\ \A a \in AllA(2) : EvalInfixTok(<<LOpen, 0, LAnd, LNot, 1, LClose>>, a) = Eval(T, 5, a)
       /\ ~InfixTokWF(InfixTokAt(<<LOpen, 0, LAnd, 1, LOr, 0, LClose>>, 0))     \* mixed group: outside the spec
       /\ ~PostfixWF(PostfixRunAt(<<0, LAnd>>, <<0>>, 0))                         \* underflow is detected
=============================================================================
