SPECIFICATION TSpec
INVARIANT Report
POSTCONDITION Accepted
