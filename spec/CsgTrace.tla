------------------------------ MODULE CsgTrace ------------------------------
(* Trace validation for C10: every record logged by harness/vcsg.cc from the REAL CsgTree,
   rewriting utilities, logic builders and evaluators must be explained by the abstract
   operations of Csg.tla.  One record = one step.  The refinement mapping sends a logged
   concrete tree to its truth tables TT (= Sem of every handle).

   Records (vocabulary of DESIGN.md Appendix B, vcsg):
     Exh      header of an exhaustive enumeration (ns, depth, split, nshards, shard)
     Tree     src = "block": next tree of the DFS over all growing inserts (must be the tree
              the spec expects next: `todo`); src = "derived": result of the preceding Replace
     Skip     a depth-`split` block owned by another shard
     Inserts  EVERY request of the alphabet AllOps on (a copy of) the current block tree
     Build    a random program: sequence of inserts producing `tree`
     Enc      postfix logic + faces + real LogicEvaluator values + infix string + flag per node
     Simplify / Exchange / Replace / DeMorgan      rewrites of a copy of the base tree
     Fixture  stored logic of a bundled geometry evaluated by the real LogicEvaluator
     ExhEnd   end of the enumeration: nothing may be left to do
     Fam / Case / FamEnd   directed family for transform_negated_joins (Csg.tla DMFamily, replayed
              from the ndjson TLC generated): Case = one symbolic case built on the real tree;
              followed by Enc and one DeMorgan per volume set.  Completeness: the raw indices
              owned by this shard must appear in order without gaps
   In exhaustive mode the spec also checks COMPLETENESS: the set `need` of rewrites/encodings
   that must be logged for each block, and the stack `todo` of trees still to be visited.  *)
EXTENDS Csg, Json, IOUtils

TraceLog == ndJsonDeserialize(IOEnv.TRACE)

VARIABLES l,      \* next record
          exh,    \* exhaustive header (depth >= 0), directed-family header (depth = -2), else [depth |-> -1]
          base,   \* [ns, tree, prog, block, fam, volsets]: tree the rewrites apply to (block: the
                  \* obligations `need` are enforced; fam: a case of the directed family)
          cur,    \* [ns, tree]: tree the encodings apply to (base or derived)
                  \* (truth tables are recomputed per record, never kept in the state)
          lastrep,\* result tree of the preceding successful Replace (<<>> if none)
          todo,   \* DFS stack of [prog, tree] still to be visited
          need,   \* obligations still to be logged for the current block
          li,     \* exhaustive: depth-`split` blocks seen so far; family: next raw index to account for
          cnt     \* counters
tvars == <<l, exh, base, cur, lastrep, todo, need, li, cnt>>

Rec == TraceLog[l]
\* (IF, not a disjunction: TLC would explore both disjuncts of an action and always print)
Chk(cond, what) == IF cond THEN TRUE ELSE PrintT(<<"FAIL", what>>) /\ FALSE
Bump(f, n) == cnt' = [cnt EXCEPT ![f] = @ + n]
Bump2(f, n, g, m) == cnt' = [cnt EXCEPT ![f] = @ + n, ![g] = @ + m]
NoTree == [ns |-> 0, tree |-> <<>>, prog |-> <<>>, block |-> FALSE, fam |-> FALSE, volsets |-> <<>>]
InExh == base.block
Discharge(ob) == IF InExh THEN Chk(ob \in need, <<"unexpected or repeated", ob>>) /\ need' = need \ {ob}
                 ELSE need' = need
NoDerivedPending == need \cap {<<"Derived">>, <<"DEnc">>, <<"DDeM">>} = {}

\* ------------------------------------------------------------ exhaustive skeleton
BlockObligations(size) ==
  {<<"Inserts">>, <<"Enc">>, <<"DeMorgan", 0>>}
  \cup (IF size > 2 THEN {<<"Simplify">>} ELSE {})
  \cup {<<"Exchange", n, b>> : n \in 2 .. (size - 1), b \in BOOLEAN}
  \cup {<<"DeMorgan", n>> : n \in 2 .. (size - 1)}
  \cup {<<"Replace", k, b>> : k \in 0 .. (size - 1), b \in BOOLEAN}

TExh ==
  /\ Rec.e = "Exh" /\ exh.depth = -1 /\ todo = <<>>
  /\ exh' = Rec
  /\ todo' = <<[prog |-> <<>>, tree |-> EmptyTree]>>
  /\ UNCHANGED <<base, cur, lastrep, need, li, cnt>>

IsSplit(d) == exh.nshards > 1 /\ d = exh.split

TTreeBlock ==
  /\ Rec.e = "Tree" /\ Rec.src = "block" /\ exh.depth >= 0
  /\ Chk(need = {}, <<"block left obligations", need>>)
  /\ Chk(todo # <<>> /\ todo[1].prog = Rec.prog /\ todo[1].tree = Rec.tree, <<"not the expected next tree", todo>>)
  /\ Rec.depth = Len(Rec.prog) /\ Rec.ns = exh.ns
  /\ IF IsSplit(Rec.depth) THEN li % exh.nshards = exh.shard /\ li' = li + 1 ELSE li' = li
  /\ WFTree(Rec.tree) /\ Dedup(Rec.tree)
  /\ base' = [ns |-> Rec.ns, tree |-> Rec.tree, prog |-> Rec.prog, block |-> TRUE, fam |-> FALSE, volsets |-> <<>>]
  /\ cur' = [ns |-> Rec.ns, tree |-> Rec.tree]
  /\ todo' = Tail(todo)
  /\ need' = BlockObligations(Len(Rec.tree))
  /\ lastrep' = <<>>
  /\ Bump2("programs", 1, "blocks", 1)
  /\ UNCHANGED exh

TSkip ==
  /\ Rec.e = "Skip" /\ exh.depth >= 0 /\ need = {}
  /\ todo # <<>> /\ todo[1].prog = Rec.prog
  /\ IsSplit(Len(Rec.prog))
  /\ Rec.owner = li % exh.nshards /\ Rec.owner # exh.shard
  /\ li' = li + 1 /\ todo' = Tail(todo)
  /\ Bump("skipped", 1)
  /\ UNCHANGED <<exh, base, cur, lastrep, need>>

InsOK(ns, tree, tt, r) ==
  InsertOK(ns, tree, tt, r.op, r.id, r.new, r.size, r.same, IF r.size = Len(tree) + 1 THEN r.last ELSE NTrue)

TInserts ==
  /\ Rec.e = "Inserts" /\ InExh
  /\ Discharge(<<"Inserts">>)
  /\ LET ops == AllOps(base.ns, Len(base.tree))
         btt == TT(base.ns, base.tree)
         r == Rec.r
         grew(i) == r[i].size = Len(base.tree) + 1
         \* children: growing requests whose stored node was not produced by an earlier request
         kids == SelectSeq([i \in DOMAIN r |-> i],
                           LAMBDA i : grew(i) /\ \A j \in 1 .. (i - 1) : ~(grew(j) /\ r[j].last = r[i].last))
     IN
     /\ Chk(Len(r) = Len(ops), <<"alphabet size", Len(r), Len(ops)>>)
     /\ \A i \in DOMAIN r :
           /\ Chk(r[i].op = ops[i], <<"request out of order", i, r[i].op, ops[i]>>)
           /\ Chk(InsOK(base.ns, base.tree, btt, r[i]), <<"insert", base.tree, r[i]>>)
     /\ todo' = (IF Len(base.prog) < exh.depth
                 THEN [k \in DOMAIN kids |-> [prog |-> Append(base.prog, r[kids[k]].op),
                                              tree |-> Append(base.tree, r[kids[k]].last)]]
                 ELSE <<>>) \o todo
     /\ Bump2("inserts", Len(r), "obl", Len(r))
  /\ UNCHANGED <<exh, base, cur, lastrep, li>>

TExhEnd ==
  /\ Rec.e = "ExhEnd" /\ exh.depth >= 0
  /\ Chk(need = {} /\ todo = <<>>, <<"enumeration incomplete", need, todo>>)
  /\ Chk(Rec.blocks = cnt.blocks, <<"block count", Rec.blocks, cnt.blocks>>)
  /\ exh' = [depth |-> -1] /\ base' = NoTree
  /\ UNCHANGED <<cur, lastrep, todo, need, li, cnt>>

\* ------------------------------------------------------------ random programs
TBuild ==
  /\ Rec.e = "Build" /\ exh.depth = -1
  /\ LET ns == Rec.ns
         final == Rec.tree
         ttf == TT(ns, final)
         res == FoldLeft(LAMBDA acc, r :
                  IF ~acc.ok THEN acc
                  ELSE LET t == SubSeq(final, 1, acc.size) IN
                       [ok |-> /\ Chk(InsOK(ns, t, SubSeq(ttf, 1, acc.size), r), <<"insert", acc.size, r>>)
                               /\ r.size <= Len(final)
                               /\ (r.size = acc.size + 1 => final[r.size] = r.last),
                        size |-> r.size],
                  [ok |-> TRUE, size |-> 2], Rec.ops)
     IN
     /\ SubSeq(final, 1, 2) = EmptyTree
     /\ res.ok /\ res.size = Len(final)
     /\ WFTree(final) /\ Dedup(final)
     /\ \A i \in DOMAIN Rec.vols : Rec.vols[i] >= 0 /\ Rec.vols[i] < Len(final)
     /\ base' = [ns |-> ns, tree |-> final, prog |-> <<>>, block |-> FALSE, fam |-> FALSE, volsets |-> <<>>]
     /\ cur' = [ns |-> ns, tree |-> final]
     /\ Bump2("programs", 1, "obl", Len(Rec.ops))
  /\ lastrep' = <<>>
  /\ UNCHANGED <<exh, todo, need, li>>

\* ------------------------------------------------------------ directed family
\* raw indices in lo .. hi - 1 that this shard would have to log
FamOwed(lo, hi) == {r \in lo .. (hi - 1) : r % exh.nshards = exh.shard /\ FamIsCase(exh.level, r)}
TFam ==
  /\ Rec.e = "Fam" /\ exh.depth = -1 /\ need = {}
  /\ Rec.level \in {1, 2} /\ Rec.nshards >= 1 /\ Rec.shard >= 0 /\ Rec.shard < Rec.nshards
  /\ exh' = [depth |-> -2, level |-> Rec.level, nshards |-> Rec.nshards, shard |-> Rec.shard]
  /\ li' = 0
  /\ UNCHANGED <<base, cur, lastrep, todo, need, cnt>>

TCase ==
  /\ Rec.e = "Case" /\ exh.depth = -2
  /\ Chk(need = {}, <<"case left obligations", need>>)
  \* completeness: this is the next raw index owned by the shard, and it is a member
  /\ Chk(Rec.ri >= li /\ Rec.ri < FamTotal(exh.level) /\ FamOwed(li, Rec.ri) = {}
         /\ Rec.ri % exh.nshards = exh.shard /\ FamIsCase(exh.level, Rec.ri), <<"family case out of order", li, Rec.ri>>)
  /\ li' = Rec.ri + 1
  /\ LET c == FamCaseAt(exh.level, Rec.ri)
         ns == Rec.ns
         final == Rec.tree
         ttf == TT(ns, final)
         ids == [j \in DOMAIN Rec.ops |-> Rec.ops[j].id]
         res == FoldLeft(LAMBDA acc, r :
                  IF ~acc.ok THEN acc
                  ELSE LET t == SubSeq(final, 1, acc.size) IN
                       [ok |-> /\ Chk(InsOK(ns, t, SubSeq(ttf, 1, acc.size), r), <<"insert", acc.size, r>>)
                               /\ r.size <= Len(final)
                               /\ (r.size = acc.size + 1 => final[r.size] = r.last),
                        size |-> r.size],
                  [ok |-> TRUE, size |-> 2], Rec.ops)
     IN
     /\ ns = FamNS /\ FamCaseWF(c)
     /\ Chk(Rec.sym.ops = c.ops /\ Rec.sym.volsets = c.volsets, <<"not the case of the family", Rec.ri>>)
     \* the requests really are the symbolic ops with handles replaced by the returned ids
     /\ Len(Rec.ops) = Len(c.ops)
     /\ \A j \in DOMAIN c.ops : Chk(Rec.ops[j].op = FamRequest(c.ops[j], ids), <<"request differs from the case", j>>)
     /\ Rec.volsets = [v \in DOMAIN c.volsets |-> [i \in DOMAIN c.volsets[v] |-> ids[c.volsets[v][i]]]]
     /\ SubSeq(final, 1, 2) = EmptyTree
     /\ res.ok /\ res.size = Len(final)
     /\ WFTree(final) /\ Dedup(final)
     /\ base' = [ns |-> ns, tree |-> final, prog |-> <<>>, block |-> TRUE, fam |-> TRUE, volsets |-> Rec.volsets]
     /\ cur' = [ns |-> ns, tree |-> final]
     /\ need' = {<<"Enc">>} \cup {<<"FamDM", v>> : v \in DOMAIN c.volsets}
     /\ cnt' = [cnt EXCEPT !.programs = @ + 1, !.obl = @ + Len(Rec.ops), !.famcases = @ + 1]
  /\ lastrep' = <<>>
  /\ UNCHANGED <<exh, todo>>

TFamEnd ==
  /\ Rec.e = "FamEnd" /\ exh.depth = -2
  /\ Chk(need = {} /\ FamOwed(li, FamTotal(exh.level)) = {}, <<"family incomplete", need, li>>)
  /\ Chk(Rec.cases = cnt.famcases, <<"case count", Rec.cases, cnt.famcases>>)
  /\ exh' = [depth |-> -1] /\ base' = NoTree
  /\ UNCHANGED <<cur, lastrep, todo, need, li, cnt>>

\* ------------------------------------------------------------------ encodings
\* (the harness logs evaluator outputs over all assignments packed like the spec's tables)
EncOK(ns, tt, e) ==
  LET S == tt[e.n + 1]
      r == PostfixRunSem(ns, e.logic, e.faces)
      ri == InfixStrSem(ns, e.infix)
  IN
  /\ Chk(FacesOK(e.logic, e.faces), <<"faces", e>>)
  /\ Chk(PostfixWF(r) /\ r.st[1] = S, <<"postfix logic does not denote the node", e>>)
  /\ Chk(r.mx <= MaxStackDepth => e.ev = S, <<"LogicEvaluator disagrees", e>>)
  /\ Chk(InfixStrWF(ri) /\ ri.fr[1].acc = S, <<"infix string does not denote the node", e>>)
  /\ Chk(~e.internal => IsCubeT(ns, S), <<"flagged simple but not a conjunction of literals", e>>)

TEnc ==
  /\ Rec.e = "Enc" /\ cur.tree # <<>>
  /\ Discharge(IF cur.tree = base.tree /\ ~(<<"DEnc">> \in need) THEN <<"Enc">> ELSE <<"DEnc">>)
  /\ InExh => /\ Rec.toolong = 0
              /\ LET logged == ToSet([i \in DOMAIN Rec.nodes |-> Rec.nodes[i].n]) IN
                 IF base.fam THEN \A v \in DOMAIN base.volsets : ToSet(base.volsets[v]) \subseteq logged
                 ELSE logged = 0 .. (Len(cur.tree) - 1)
  /\ LET ctt == TT(cur.ns, cur.tree) IN
     \A i \in DOMAIN Rec.nodes :
        /\ Rec.nodes[i].n >= 0 /\ Rec.nodes[i].n < Len(cur.tree)
        /\ EncOK(cur.ns, ctt, Rec.nodes[i])
  /\ cnt' = [cnt EXCEPT !.obl = @ + 4 * Len(Rec.nodes), !.encodings = @ + Len(Rec.nodes),
                        !.simple = @ + Cardinality({i \in DOMAIN Rec.nodes : ~Rec.nodes[i].internal})]
  /\ UNCHANGED <<exh, base, cur, lastrep, todo, li>>

\* ------------------------------------------------------------------- rewrites
TSimplify ==
  /\ Rec.e = "Simplify" /\ base.tree # <<>> /\ NoDerivedPending
  /\ Discharge(<<"Simplify">>)
  /\ InExh => Rec.start = 2
  /\ Chk(SimplifyOK(base.ns, base.tree, TT(base.ns, base.tree), Rec.start, Rec.after), <<"simplify", base.tree>>)
  /\ Bump2("rewrites", 1, "obl", Len(base.tree))
  /\ UNCHANGED <<exh, base, cur, lastrep, todo, li>>

TExchange ==
  /\ Rec.e = "Exchange" /\ base.tree # <<>> /\ NoDerivedPending
  /\ Discharge(<<"Exchange", Rec.n, Rec.val>>)
  /\ Rec.n >= 2 /\ Rec.n < Len(base.tree)
  /\ LET btt == TT(base.ns, base.tree) IN
     /\ Chk(ExchangeOK(base.ns, base.tree, btt, Rec.n, Rec.val, Rec.after), <<"exchange", base.tree>>)
  \* simplify after the exchange: still the same functions on the consistent assignments,
  \* nodes below `start` untouched, no references to aliases left from `start` upwards
     /\ Chk(/\ ExchangeOK(base.ns, base.tree, btt, Rec.n, Rec.val, Rec.simp)
            /\ NoAliasRefs(Rec.simp, Rec.start)
            /\ \A k \in 1 .. Rec.start : Rec.simp[k] = Rec.after[k],
            <<"simplify after exchange", base.tree>>)
  /\ Bump2("rewrites", 2, "obl", 2 * Len(base.tree))
  /\ UNCHANGED <<exh, base, cur, lastrep, todo, li>>

TReplace ==
  /\ Rec.e = "Replace" /\ base.tree # <<>> /\ NoDerivedPending
  /\ Rec.key >= 0 /\ Rec.key < Len(base.tree)
  /\ \/ /\ Rec.out = "ok"
        /\ Chk(ReplaceOK(base.ns, base.tree, TT(base.ns, base.tree), Rec.key, Rec.val, Rec.after, Rec.unknown), <<"replace", base.tree>>)
        /\ lastrep' = Rec.after
        /\ IF InExh
           THEN /\ Chk(<<"Replace", Rec.key, Rec.val>> \in need, <<"unexpected", Rec.key, Rec.val>>)
                /\ need' = (need \ {<<"Replace", Rec.key, Rec.val>>}) \cup {<<"Derived">>}
           ELSE need' = need
        /\ Bump2("rewrites", 1, "obl", Len(base.tree))
     \/ /\ Rec.out = "contradiction"
        \* allowed IFF no assignment is consistent with the request
        /\ Chk(ContradictionOK(base.ns, TT(base.ns, base.tree), Rec.key, Rec.val), <<"contradiction thrown on a satisfiable request", base.tree>>)
        /\ lastrep' = <<>>
        /\ Discharge(<<"Replace", Rec.key, Rec.val>>)
        /\ Bump2("contradictions", 1, "obl", 1)
  /\ UNCHANGED <<exh, base, cur, todo, li>>

TTreeDerived ==
  /\ Rec.e = "Tree" /\ Rec.src = "derived"
  /\ Chk(lastrep # <<>> /\ Rec.tree = lastrep, <<"derived tree is not the result of the preceding replace">>)
  /\ IF InExh THEN <<"Derived">> \in need /\ need' = (need \ {<<"Derived">>}) \cup {<<"DEnc">>}
     ELSE need' = need
  /\ cur' = [ns |-> base.ns, tree |-> Rec.tree]
  /\ lastrep' = <<>>
  /\ Bump("programs", 1)
  /\ UNCHANGED <<exh, base, todo, li>>

InfOK(ns, tt2, avols, e) ==
  LET S == tt2[e.n + 1]
      rs == InfixStrSem(ns, e.str)
      rt == InfixTokSem(ns, e.toks)
  IN
  /\ e.i >= 0 /\ e.i < Len(avols) /\ e.n = avols[e.i + 1]
  /\ Chk(InfixStrWF(rs) /\ rs.fr[1].acc = S, <<"infix string of transformed volume", e>>)
  /\ IF e.skip
     THEN Chk(\E j \in DOMAIN e.str : e.str[j] = IFalse, <<"not expressible for InfixEvaluator without a constant false", e>>)
     ELSE /\ Chk(InfixTokWF(rt) /\ rt.fr[1].acc = S, <<"explicit infix logic", e>>)
          /\ Chk(e.ev = S, <<"InfixEvaluator disagrees", e>>)

TDeMorgan ==
  /\ Rec.e = "DeMorgan" /\ cur.tree # <<>>
  /\ LET onbase == cur.tree = base.tree /\ ~(<<"DDeM">> \in need)
         all == [i \in 1 .. Len(cur.tree) |-> i - 1]
         tt2 == TT(cur.ns, Rec.after) IN
     /\ IF ~InExh THEN need' = need
        ELSE IF base.fam THEN \E v \in DOMAIN base.volsets : base.volsets[v] = Rec.vols /\ Discharge(<<"FamDM", v>>)
        ELSE IF ~onbase THEN Rec.vols = all /\ Discharge(<<"DDeM">>)
        ELSE IF Rec.vols = all THEN Discharge(<<"DeMorgan", 0>>)
        ELSE Len(Rec.vols) = 1 /\ Rec.vols[1] >= 2 /\ Discharge(<<"DeMorgan", Rec.vols[1]>>)
     /\ \A i \in DOMAIN Rec.vols : Rec.vols[i] >= 0 /\ Rec.vols[i] < Len(cur.tree)
     /\ Chk(DeMorganOK(cur.ns, TT(cur.ns, cur.tree), Rec.vols, Rec.after, Rec.avols), <<"transform_negated_joins", cur.tree>>)
     /\ Len(Rec.inf) + Rec.toolong = Len(Rec.avols) /\ (InExh => Rec.toolong = 0)
     /\ \A i \in DOMAIN Rec.inf : InfOK(cur.ns, tt2, Rec.avols, Rec.inf[i])
     \* postfix logic / LogicEvaluator / flag of the transformed volumes (family mode logs them)
     /\ base.fam => Len(Rec.enc) = Len(Rec.avols)
     /\ \A i \in DOMAIN Rec.enc :
           /\ \E j \in DOMAIN Rec.avols : Rec.avols[j] = Rec.enc[i].n
           /\ EncOK(cur.ns, tt2, Rec.enc[i])
     /\ cnt' = [cnt EXCEPT !.rewrites = @ + 1, !.obl = @ + 3 * Len(Rec.vols) + 4 * Len(Rec.enc),
                           !.encodings = @ + Len(Rec.enc),
                           !.infixeval = @ + Cardinality({i \in DOMAIN Rec.inf : ~Rec.inf[i].skip})]
  /\ UNCHANGED <<exh, base, cur, lastrep, todo, li>>

\* ------------------------------------------------------------------- fixtures
\* n sampled sense vectors ("worlds"); cols[f + 1] = table over the worlds of face f, vals =
\* table of the evaluator's results; exh: the worlds are ALL assignments of the nf faces in order
TFixture ==
  /\ Rec.e = "Fixture" /\ exh.depth = -1
  /\ LET n == Rec.n
         r == PostfixRunTbl(Rec.logic, Rec.nf, n, LAMBDA f : Rec.cols[f + 1])
     IN
     /\ Rec.logic # <<>> /\ n > 0 /\ Len(Rec.cols) = Rec.nf
     /\ Chk(PostfixWF(r) /\ r.mx <= MaxStackDepth, <<"stored logic is not a well formed postfix expression", Rec.file, Rec.univ, Rec.vol>>)
     /\ Chk(r.st[1] = Rec.vals, <<"LogicEvaluator disagrees on stored logic", Rec.file, Rec.univ, Rec.vol>>)
     /\ Rec.exh => n = Pow2(Rec.nf) /\ \A f \in 1 .. Rec.nf : Rec.cols[f] = TSurf(Rec.nf, f - 1)
     \* not flagged "internal surfaces" (bit 0) => intersection of half-spaces
     /\ Chk((Rec.exh /\ Rec.flags % 2 = 0) => IsCubeT(Rec.nf, r.st[1]), <<"fixture volume flagged simple is not a cube", Rec.file, Rec.univ, Rec.vol>>)
     /\ cnt' = [cnt EXCEPT !.programs = @ + 1, !.obl = @ + n, !.fixtures = @ + 1]
  /\ UNCHANGED <<exh, base, cur, lastrep, todo, need, li>>

\* ----------------------------------------------------------------------------
Counters == [programs |-> 0, blocks |-> 0, skipped |-> 0, inserts |-> 0, obl |-> 0, encodings |-> 0,
             simple |-> 0, rewrites |-> 0, contradictions |-> 0, infixeval |-> 0, fixtures |-> 0, famcases |-> 0]
TInit == /\ l = 1 /\ exh = [depth |-> -1] /\ base = NoTree /\ cur = [ns |-> 0, tree |-> <<>>]
         /\ lastrep = <<>> /\ todo = <<>> /\ need = {} /\ li = 0 /\ cnt = Counters
TNext ==
  /\ l <= Len(TraceLog)
  /\ l' = l + 1
  /\ \/ TExh \/ TTreeBlock \/ TSkip \/ TInserts \/ TExhEnd \/ TBuild \/ TEnc \/ TSimplify \/ TExchange
     \/ TReplace \/ TTreeDerived \/ TDeMorgan \/ TFixture \/ TFam \/ TCase \/ TFamEnd
TSpec == TInit /\ [][TNext]_tvars

Accepted ==
  LET d == TLCGet("stats").diameter IN
  IF d - 1 = Len(TraceLog) THEN TRUE
  ELSE /\ PrintT(<<"REJECTED", d, TraceLog[d].e>>)
       /\ FALSE
\* an enumeration must have been closed by ExhEnd
Report == (l = Len(TraceLog) + 1) =>
   /\ exh.depth = -1
   /\ PrintT(<<"SUMMARY", "programs", cnt.programs, "obligations", cnt.obl, "blocks", cnt.blocks,
               "inserts", cnt.inserts, "encodings", cnt.encodings, "simple", cnt.simple,
               "rewrites", cnt.rewrites, "contradictions", cnt.contradictions,
               "infixeval", cnt.infixeval, "fixtures", cnt.fixtures, "skipped", cnt.skipped,
               "famcases", cnt.famcases>>)
=============================================================================
