------------------------------ MODULE FieldProp ------------------------------
(* C08  Field propagation follows the field and stays consistent with the geometry.

   The loop of FieldPropagator<DriverT,GTV>::operator()(step)
   (src/celeritas/field/FieldPropagator.hh) transcribed as a state machine over small
   dyadic lengths.  All lengths are integers in a fine unit; in the scripted world every
   position lies on the +x axis, the driver advances along +x by the chord `c` of a curved
   substep of arc length `s` (c <= s) and returns a momentum identified by a TOKEN (the
   ordinal of the advance call; token 0 = momentum at the start of the call), so the
   1-D instance of detail::is_intercept_close is |d - c| <= delta.

   The ENVIRONMENT is the driver and the geometry; its responses are arguments of `Iter`:
     R.s, R.c   driver.advance(rem, state) -> substep.step = s in (0, rem], chord length c
     R.d, R.b   geo.find_next_step(c + delta) -> distance d (<= c + delta), boundary flag b
   FieldPropMC chooses them nondeterministically from a lattice (all response sequences);
   FieldPropTrace binds them from the log of the REAL template instantiated over a scripted
   driver/geometry (harness/vfield.cc) and compares the call sequence and the result.

   A parameter record P = [step, maxsub, minsub, delta, bump, unit, x0, onb0] describes one
   call: requested step, FieldDriverOptions::max_substeps / minimum_step /
   delta_intersection, bump_distance() = delta/10, lattice unit, start position, start
   on a boundary.

   Calls are tuples (first element = kind, the rest integers):
     <<"Advance", rem, x, s, c>>   <<"SetDir", ch, toks>> (ch = 1: the direction is the chord
     of the latest advance; toks = the momentum tokens whose unit vector it equals)
     <<"Find", max, d, b>> (b in {0,1})   <<"MoveTo", x>> (move_internal(pos), pos on the
     axis)   <<"MoveToD", len, toks>> (move_internal(pos) to a point `len` away along the
     direction of momentum tokens toks: the zero-progress bump)   <<"MoveB">>
     <<"MoveI", dist>> and <<"Cross">> exist in the vocabulary but the propagator never
     issues them. *)
EXTENDS Integers, Sequences, FiniteSets, SequencesExt

MinOf(a, b) == IF a <= b THEN a ELSE b
MaxOf(a, b) == IF a >= b THEN a ELSE b
AbsOf(a) == IF a >= 0 THEN a ELSE -a
B2I(b) == IF b THEN 1 ELSE 0

-----------------------------------------------------------------------------
(* Loop state.  rem/dist/left/bnd are the code's remaining, result.distance,
   remaining_substeps, result.boundary; x = state_.pos = geo position; mom = token of
   state_.mom; nd = distance of the geometry's pending next step (for move_to_boundary);
   it = number of advance calls so far.  Ghosts: acc/nshort/nhalf count accepted,
   shortened and halved iterations, path = curved path really travelled, mgap = curved
   distance between the point where the committed momentum was evaluated (end of the last
   substep) and the point where the particle was actually put in that iteration. *)
InitLoop(P) ==
  [rem |-> P.step, dist |-> 0, left |-> P.maxsub, bnd |-> P.onb0, x |-> P.x0, mom |-> 0,
   nd |-> 0, it |-> 0, acc |-> 0, nshort |-> 0, nhalf |-> 0, path |-> 0, mgap |-> 0, last |-> "none"]

\* update_length = substep.step * linear_step.distance / chord.length
UpdLen(R) == (R.s * R.d) \div R.c
\* the integer abstraction is exact for this response (checked by the design model)
RespExact(R) == R.c > 0 /\ (R.s * R.d) % R.c = 0

Branch(P, L, R) ==
  IF ~R.b THEN "accept"
  ELSE IF L.bnd /\ R.d < P.bump THEN "half"
  ELSE IF UpdLen(R) <= P.minsub \/ AbsOf(R.d - R.c) <= P.delta \/ R.c = 0 THEN "commit"
  ELSE "shorten"

\* commit branch: result.boundary
ToBoundary(P, L, R) == R.d <= R.c \/ L.dist + UpdLen(R) <= P.step \/ R.c = 0

\* halving an odd length is exact enough iff the loop exits on both the real and the floored value
HalfExact(P, s) == s % 2 = 0 \/ (s + 1) \div 2 <= P.minsub

Iter(P, L, R) ==
  LET br == Branch(P, L, R)
      ul == UpdLen(R)
      L1 == [L EXCEPT !.it = @ + 1, !.nd = R.d, !.last = br]
  IN
  CASE br = "accept" ->
         [L1 EXCEPT !.x = L.x + R.c, !.mom = L.it + 1, !.bnd = FALSE, !.dist = L.dist + R.s,
                    !.rem = P.step - (L.dist + R.s), !.left = L.left - 1, !.acc = @ + 1,
                    !.path = @ + R.s]
    [] br = "half" -> [L1 EXCEPT !.rem = R.s \div 2, !.nhalf = @ + 1]
    [] br = "commit" ->
         LET tob == ToBoundary(P, L, R) IN
         [L1 EXCEPT !.bnd = tob, !.x = IF tob THEN L.x ELSE L.x + R.c,
                    !.dist = L.dist + MinOf(ul, R.s), !.mom = L.it + 1, !.rem = 0,
                    !.path = @ + (IF tob THEN ul ELSE R.s),
                    !.mgap = IF tob THEN AbsOf(R.s - ul) ELSE 0]
    [] br = "shorten" -> [L1 EXCEPT !.rem = ul, !.nshort = @ + 1]

\* calls issued by one iteration, in order
IterCalls(P, L, R) ==
  LET br == Branch(P, L, R) IN
     << <<"Advance", L.rem, L.x, R.s, R.c>> >>
  \o (IF R.c >= P.minsub THEN << <<"SetDir", 1, <<>> >> >> ELSE <<>>)
  \o << <<"Find", R.c + P.delta, R.d, B2I(R.b)>> >>
  \o (IF br = "accept" \/ (br = "commit" /\ ~ToBoundary(P, L, R))
        THEN << <<"MoveTo", L.x + R.c>> >> ELSE <<>>)

\* } while (remaining > minimum_substep && remaining_substeps > 0)
Continue(P, L) == L.rem > P.minsub /\ L.left > 0

(* the code after the loop *)
AfterLoop(P, L) ==
  LET looping == L.left = 0 /\ L.dist < P.step
      moveb == ~looping /\ L.dist > 0 /\ L.bnd
      roundup == ~looping /\ L.dist > 0 /\ ~L.bnd /\ L.dist < P.step
      d1 == IF roundup THEN P.step ELSE L.dist
      stuck == d1 = 0
      bd == MinOf(P.bump, P.step)
  IN [dist |-> IF stuck THEN bd ELSE d1,
      bnd |-> IF stuck THEN FALSE ELSE L.bnd,
      loop |-> looping,
      x |-> IF moveb THEN L.x + L.nd ELSE L.x,       \* on-axis part of the final position
      off |-> IF stuck THEN bd ELSE 0,               \* off-axis displacement (bump)
      dirtok |-> L.mom,
      roundup |-> roundup, stuck |-> stuck,
      path |-> L.path + (IF stuck THEN bd ELSE 0),
      calls |-> (IF moveb THEN << <<"MoveB">> >> ELSE <<>>)
                \o << <<"SetDir", 0, <<L.mom>> >> >>
                \o (IF stuck THEN << <<"MoveToD", bd, <<L.mom>> >> >> ELSE <<>>)]

-----------------------------------------------------------------------------
(* Navigator protocol monitor (OrangeTrackView's CELER_EXPECTs, DESIGN 4.4): a geometry
   protocol state g = [has, hasb, nd, onb, ok] folded over the calls. *)
NavInit(onb) == [has |-> FALSE, hasb |-> FALSE, nd |-> 0, onb |-> onb, ok |-> TRUE]
\* zero = the value (model: 0, real mode: the rank) of the length 0
NavStep(g, call, zero) ==
  LET k == call[1] IN
  CASE k = "Advance" -> g
    [] k = "SetDir"  -> [g EXCEPT !.has = FALSE, !.hasb = FALSE]
    [] k = "Find"    -> [g EXCEPT !.has = TRUE, !.hasb = (call[4] = 1), !.nd = call[3],
                                  !.ok = @ /\ call[2] > zero /\ call[3] <= call[2] /\ call[3] >= zero]
    [] k \in {"MoveTo", "MoveToD"} -> [g EXCEPT !.has = FALSE, !.hasb = FALSE, !.onb = FALSE]
    [] k = "MoveB"   -> [g EXCEPT !.ok = @ /\ g.has /\ g.hasb, !.has = FALSE, !.hasb = FALSE,
                                  !.onb = TRUE]
    \* move_internal(dist): needs a pending step, 0 < dist <= next step (strictly less when
    \* the next step ends on a surface); the pending step shrinks by an amount the rank
    \* abstraction cannot express, so it is dropped (a second MoveI needs a new Find)
    [] k = "MoveI"   -> [g EXCEPT !.ok = @ /\ g.has /\ call[2] > zero /\ call[2] <= g.nd
                                       /\ (call[2] # g.nd \/ ~g.hasb),
                                  !.has = FALSE, !.hasb = FALSE, !.onb = FALSE]
    [] OTHER         -> [g EXCEPT !.ok = FALSE]          \* Cross or unknown: never allowed
NavRun(g, calls, zero) == FoldLeft(LAMBDA acc, call : NavStep(acc, call, zero), g, calls)

-----------------------------------------------------------------------------
(* Result clauses (API level).  res = [dist, bnd, loop]; the other arguments are facts of
   the same call.  In the scripted/model world lengths are exact integers; in the real world
   the same predicates are evaluated on ranks (order-preserving), with steplo/stephi the
   ranks of step*(1 -/+ 1e-12) -- "up to the code's own rounding rule" (soft_equal). *)
Outcomes(res, steplo, step, stephi, bump, noprogress) ==
  {o \in {"full", "looping", "boundary", "bumped"} :
     CASE o = "full"     -> ~res.bnd /\ ~res.loop /\ steplo <= res.dist /\ res.dist <= stephi
       [] o = "looping"  -> res.loop /\ ~res.bnd /\ res.dist < step
       [] o = "boundary" -> res.bnd /\ ~res.loop
       [] o = "bumped"   -> ~res.bnd /\ ~res.loop /\ res.dist = bump /\ bump < steplo /\ noprogress}
Trichotomy(res, steplo, step, stephi, bump, noprogress) ==
  Cardinality(Outcomes(res, steplo, step, stephi, bump, noprogress)) = 1
DistanceBounds(res, zero, stephi) == zero < res.dist /\ res.dist <= stephi

(* Facts derived from a recorded call list (scripted or real): iterations = the Advance/Find
   pairs in order; an iteration is ACCEPTED when its Find reports no boundary.  The last
   iteration, when its Find reports a boundary, is the halving exit iff the call started on a
   boundary, nothing was accepted before and the distance is below the bump distance;
   otherwise it is the commit.  The momentum token of the last committed iteration (0 = the
   momentum at the start) is the one the final set_dir must use. *)
Finds(calls) == SelectSeq(calls, LAMBDA c : c[1] = "Find")
NumAccepted(calls) == Len(SelectSeq(calls, LAMBDA c : c[1] = "Find" /\ c[4] = 0))
CommittedToken(calls, onb0, bump) ==
  LET f == Finds(calls)  n == Len(f) IN
  IF n = 0 THEN 0
  ELSE IF f[n][4] = 0 THEN n
  ELSE IF onb0 /\ f[n][3] < bump /\ \A i \in 1..(n - 1) : f[i][4] = 1
       THEN 0                                   \* halving exit: nothing was ever committed
  ELSE n
\* the call started on a boundary and at least one trial chord led straight back through it
\* (the retry-with-half-the-substep branch was taken before anything was accepted)
ReentrantRetry(calls, onb0, bump) ==
  LET f == Finds(calls) IN
  onb0 /\ \E i \in DOMAIN f : f[i][4] = 1 /\ f[i][3] < bump /\ \A j \in 1..(i - 1) : f[j][4] = 1
SetDirs(calls) == SelectSeq(calls, LAMBDA c : c[1] = "SetDir")
\* every in-loop set_dir uses the chord, the last one the committed momentum
DirDiscipline(calls, onb0, bump) ==
  LET sd == SetDirs(calls)  n == Len(sd) IN
  /\ n >= 1
  /\ \A i \in 1..(n - 1) : sd[i][2] = 1
  /\ \E j \in DOMAIN sd[n][3] : sd[n][3][j] = CommittedToken(calls, onb0, bump)
  /\ calls[Len(calls)][1] \in {"SetDir", "MoveToD", "MoveTo"}
  /\ \A i \in 1..(Len(calls) - 2) : calls[i][1] = "SetDir" => calls[i + 1][1] = "Find"

\* bounds of the termination argument
Log2Up(n, m) == CHOOSE k \in 0..31 : m * (2 ^ k) >= n /\ \A j \in 0..(k - 1) : m * (2 ^ j) < n
HalfBound(P) == Log2Up(P.step, P.minsub) + 1
ShortBound(P) == (P.maxsub + 1) * (P.step \div P.delta + 1)

-----------------------------------------------------------------------------
(* Deterministic run of the transcription on a recorded script: advs[k] = [s, c],
   fnds[k] = [d, b] are the k-th responses.  Returns the expected call sequence, the result
   and the number of responses consumed; stops early when the script is exhausted (the
   comparison with the log then fails on the length). *)
RECURSIVE RunFrom(_, _, _, _, _)
RunFrom(P, L, advs, fnds, calls) ==
  LET k == L.it + 1 IN
  IF k > Len(advs) \/ k > Len(fnds) THEN [calls |-> calls, res |-> <<>>, L |-> L, complete |-> FALSE]
  ELSE LET R == [s |-> advs[k][1], c |-> advs[k][2], d |-> fnds[k][1], b |-> fnds[k][2] = 1]
           L2 == Iter(P, L, R)
           cs == calls \o IterCalls(P, L, R)
       IN IF R.c <= 0 \/ ~RespExact(R) THEN [calls |-> cs, res |-> <<>>, L |-> L, complete |-> FALSE]
          ELSE IF Continue(P, L2) THEN RunFrom(P, L2, advs, fnds, cs)
          ELSE LET t == AfterLoop(P, L2) IN [calls |-> cs \o t.calls, res |-> t, L |-> L2, complete |-> TRUE]
Run(P, advs, fnds) == RunFrom(P, InitLoop(P), advs, fnds, <<>>)
=============================================================================
