----------------------------- MODULE FieldPropMC -----------------------------
(* Design check for C08: TLC explores ALL environment response sequences of the
   FieldProp loop for every parameter record in the configured sets and checks the named
   clauses on the transcription itself (vacuity guard: the clauses are facts of the design,
   the binding to the code is FieldPropTrace).

   Responses are chosen by LABEL (relative to the arguments of the call they answer), so
   that a behaviour is a sequence of labels `script` which harness/vfield.cc can replay on
   the real template whatever arguments the code passes:
     driver  "F" s = rem      "H" s = rem/2      "M" s = rem - unit     "T" s = unit/2
     chord   "S" c = s        "B" c = s/2        (a bent substep: arc longer than chord)
     geo     "N" no boundary within c+delta;  boundary at d =
             "0" 0   "u" unit/2 (< bump)   "U" unit (= bump)   "2" 2 unit   "4" 4 unit
             "a" c-delta-unit   "b" c-delta   "h" c/2   "c" c   "d" c+unit   "e" c+delta
   A label is offered only when its value respects the contract of the call
   (0 < s <= rem;  0 <= d <= c + delta).

   Configurations (lengths in the fine unit; unit = 64, bump = delta/10 = 64):
     FieldPropMC.cfg       steps {64 (< minimum step), 256, 512, 1024} x max_substeps {2,3} x start on/off
                           boundary, minimum step 128, delta 640; invariants + variant + deadlock + Emit
     FieldPropMC_8x2/_8x3  step 2048 (8 units of 256) with max_substeps 2 / 3 (the latter: thorough tier)
     FieldPropMC_live      the same with the liveness property Terminates (thorough tier)
     FieldPropMC_alt       minimum step 32 < bump (thorough tier)
     FieldPropMC_mom       probe MomentumAtEndPoint, EXPECTED TO FAIL (finding F-FIELD-1)
     FieldPropMC_sim       SpecSim for -simulate: random behaviours for replay *)
EXTENDS FieldProp, TLC, Json

CONSTANTS Steps, MaxSubs, MinSub, Delta, Unit, X0, Starts

VARIABLES P, L, g, phase, res, exact, script
vars == <<P, L, g, phase, res, exact, script>>
(* VIEW: the script is a ghost; positions (x, nd), tokens (it, mom) and the iteration
   counters neither enable nor change any transition and occur in no checked formula
   except through quantities kept here, so dropping them is a bisimulation quotient.
   (Termination is checked with the variant `Progress`, not with the counters.) *)
View == <<P, L.rem, L.dist, L.left, L.bnd, L.path, L.mgap, L.last, [g EXCEPT !.nd = 0], phase,
          IF res = <<>> THEN <<>> ELSE <<res.dist, res.bnd, res.loop, res.stuck, res.roundup, res.path>>,
          exact>>

DrvLabels == {"F", "H", "M", "T"}
ChordLabels == {"S", "B"}
GeoLabels == {"N", "0", "u", "U", "2", "4", "a", "b", "h", "c", "d", "e"}

DrvValid(r, lab) ==
  CASE lab = "F" -> TRUE
    [] lab = "H" -> r % 2 = 0 /\ r >= 2
    [] lab = "M" -> r > Unit
    [] lab = "T" -> Unit \div 2 < r
DrvS(r, lab) ==
  CASE lab = "F" -> r [] lab = "H" -> r \div 2 [] lab = "M" -> r - Unit [] lab = "T" -> Unit \div 2
ChordValid(s, lab) == lab = "S" \/ (s % 2 = 0 /\ s >= 2)
ChordC(s, lab) == IF lab = "S" THEN s ELSE s \div 2
GeoD(c, lab) ==
  CASE lab = "N" -> c + Delta
    [] lab = "0" -> 0 [] lab = "u" -> Unit \div 2 [] lab = "U" -> Unit [] lab = "2" -> 2 * Unit
    [] lab = "4" -> 4 * Unit [] lab = "a" -> c - Delta - Unit [] lab = "b" -> c - Delta
    [] lab = "h" -> c \div 2 [] lab = "c" -> c [] lab = "d" -> c + Unit [] lab = "e" -> c + Delta
GeoValid(c, lab) == GeoD(c, lab) >= 0 /\ GeoD(c, lab) <= c + Delta /\ (lab = "h" => c % 2 = 0)

Params == {[step |-> st, maxsub |-> ms, minsub |-> MinSub, delta |-> Delta, bump |-> Delta \div 10,
            unit |-> Unit, x0 |-> X0, onb0 |-> ob] : st \in Steps, ms \in MaxSubs, ob \in Starts}

Init ==
  /\ P \in Params /\ L = InitLoop(P) /\ g = NavInit(P.onb0)
  /\ phase = "loop" /\ res = <<>> /\ exact = TRUE /\ script = <<>>

Respond(dl, cl, gl) ==
  LET s == DrvS(L.rem, dl)
      c == ChordC(s, cl)
      R == [s |-> s, c |-> c, d |-> GeoD(c, gl), b |-> gl # "N"]
      L2 == Iter(P, L, R)
      g2 == NavRun(g, IterCalls(P, L, R), 0)
  IN
  /\ DrvValid(L.rem, dl) /\ ChordValid(s, cl) /\ GeoValid(c, gl)
  /\ L' = L2
  /\ exact' = (exact /\ RespExact(R) /\ (Branch(P, L, R) = "half" => HalfExact(P, s)))
  /\ script' = Append(script, dl \o cl \o gl)
  /\ IF Continue(P, L2)
       THEN /\ g' = g2 /\ UNCHANGED <<phase, res>>
       ELSE LET t == AfterLoop(P, L2) IN
            /\ g' = NavRun(g2, t.calls, 0) /\ res' = t /\ phase' = "done"
  /\ UNCHANGED P

NextLoop == phase = "loop" /\ \E dl \in DrvLabels, cl \in ChordLabels, gl \in GeoLabels : Respond(dl, cl, gl)
Next == \/ NextLoop
        \/ phase = "done" /\ UNCHANGED vars      \* terminal stuttering: any other deadlock is an error
\* for -simulate (random behaviours for replay): a behaviour simply ends in its final state
SpecSim == Init /\ [][NextLoop]_vars
Spec == Init /\ [][Next]_vars /\ WF_vars(Next)

-----------------------------------------------------------------------------
Done == phase = "done"
\* the integer abstraction never rounds (so the harness' dyadic doubles are exact too)
LatticeExact == exact
\* C08.NavProtocol
NavProtocol == g.ok
\* C08.Terminates: bounded numbers of accepted / halved / shortened iterations ...
TerminatesBound == /\ L.acc <= P.maxsub /\ L.nhalf <= HalfBound(P) /\ L.nshort <= ShortBound(P)
                   /\ L.it = L.acc + L.nhalf + L.nshort + (IF L.last = "commit" THEN 1 ELSE 0)
\* ... because every iteration either spends one unit of the substep budget or shrinks the
\* trial step by a definite amount (the variant of the loop's convergence argument):
\* accept: left decreases;  half: rem at least halves;  shorten: rem decreases by > delta
Progress ==
  \/ phase = "done"
  \/ L'.left < L.left
  \/ L'.last = "half" /\ 2 * L'.rem <= L.rem
  \/ L'.last = "shorten" /\ L'.rem < L.rem - P.delta /\ L'.rem > P.minsub
  \/ L'.last = "commit" /\ L'.rem = 0
ProgressOK == [][Progress]_vars
\* rem never grows except by an accepted substep (which resets it to step - distance)
\* ... and every behaviour ends (liveness under weak fairness of the loop)
Terminates == <>Done
\* C08.Trichotomy (with the documented fourth outcome: zero progress => bump)
TrichotomyOK == Done => Trichotomy(res, P.step, P.step, P.step, P.bump, res.stuck)
LoopingOK == Done => (res.loop <=> (L.acc = P.maxsub /\ L.dist < P.step /\ L.last = "accept"))
\* C08.FlagMatchesGeometry
FlagMatchesGeometry == Done => res.bnd = g.onb
\* C08.DistanceBounds: 0 < distance <= step, and the reported distance differs from the path
\* really travelled by no more than the driver tolerances (round-up to step when the rest is
\* negligible; conservative distance at a boundary)
DistanceOK == Done => DistanceBounds(res, 0, P.step)
RoundingBounded == Done => AbsOf(res.dist - res.path) <= MaxOf(P.minsub, 2 * P.delta)
\* the final direction is that of the momentum of the last committed state
DirFromMomentum == Done => res.dirtok = L.mom

\* ---- emission of behaviours for replay (one witness script per distinct final state in
\* exhaustive mode; every generated behaviour in -simulate mode)
Emit == Done => PrintT(<<"SCRIPT", ToJson([step |-> P.step, maxsub |-> P.maxsub, onb0 |-> B2I(P.onb0),
                                           script |-> script])>>)

(* Probe (expected to FAIL, finding F-FIELD-1): the momentum committed at the end belongs to
   the end of an advance whose end point is (within the intersection tolerance) where the
   particle stops.  The `update_length <= minimum_substep` disjunct of the commit branch takes
   the momentum of the END of a possibly long substep although the particle moves only
   update_length. *)
MomentumAtEndPoint == Done => L.mgap <= MaxOf(P.minsub, 2 * P.delta)
=============================================================================
