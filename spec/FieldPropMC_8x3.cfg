SPECIFICATION Spec
CONSTANTS
  Steps = {2048}
  MaxSubs = {3}
  MinSub = 128
  Delta = 640
  Unit = 64
  X0 = 4096
  Starts = {TRUE, FALSE}
VIEW View
INVARIANT LatticeExact
INVARIANT NavProtocol
INVARIANT TerminatesBound
INVARIANT TrichotomyOK
INVARIANT LoopingOK
INVARIANT FlagMatchesGeometry
INVARIANT DistanceOK
INVARIANT RoundingBounded
INVARIANT DirFromMomentum
INVARIANT Emit
PROPERTY ProgressOK
CHECK_DEADLOCK TRUE
