---- MODULE FieldPropMC_TTrace_1790135012 ----
EXTENDS Sequences, TLCExt, Toolbox, FieldPropMC, Naturals, TLC

_expression ==
    LET FieldPropMC_TEExpression == INSTANCE FieldPropMC_TEExpression
    IN FieldPropMC_TEExpression!expression
----

_trace ==
    LET FieldPropMC_TETrace == INSTANCE FieldPropMC_TETrace
    IN FieldPropMC_TETrace!trace
----

_inv ==
    ~(
        TLCGet("level") = Len(_TETrace)
        /\
        phase = ("done")
        /\
        P = ([step |-> 2048, maxsub |-> 2, minsub |-> 128, delta |-> 640, bump |-> 64, unit |-> 64, x0 |-> 4096, onb0 |-> FALSE])
        /\
        res = ([dist |-> 64, bnd |-> FALSE, path |-> 64, loop |-> FALSE, stuck |-> TRUE, roundup |-> FALSE, calls |-> <<<<"SetDir", 1>>, <<"MoveToD", 64, 1>>>>, dirtok |-> 1, x |-> 4096, off |-> 64])
        /\
        g = ([nd |-> 0, ok |-> TRUE, onb |-> FALSE, has |-> FALSE, hasb |-> FALSE])
        /\
        exact = (TRUE)
        /\
        L = ([rem |-> 0, dist |-> 0, left |-> 2, bnd |-> TRUE, path |-> 0, mgap |-> 2048, last |-> "commit", nd |-> 0, acc |-> 0, nhalf |-> 0, nshort |-> 0, it |-> 1, mom |-> 1, x |-> 4096])
        /\
        script = (<<"FS0">>)
    )
----

_init ==
    /\ phase = _TETrace[1].phase
    /\ exact = _TETrace[1].exact
    /\ L = _TETrace[1].L
    /\ P = _TETrace[1].P
    /\ g = _TETrace[1].g
    /\ script = _TETrace[1].script
    /\ res = _TETrace[1].res
----

_next ==
    /\ \E i,j \in DOMAIN _TETrace:
        /\ \/ /\ j = i + 1
              /\ i = TLCGet("level")
        /\ phase  = _TETrace[i].phase
        /\ phase' = _TETrace[j].phase
        /\ exact  = _TETrace[i].exact
        /\ exact' = _TETrace[j].exact
        /\ L  = _TETrace[i].L
        /\ L' = _TETrace[j].L
        /\ P  = _TETrace[i].P
        /\ P' = _TETrace[j].P
        /\ g  = _TETrace[i].g
        /\ g' = _TETrace[j].g
        /\ script  = _TETrace[i].script
        /\ script' = _TETrace[j].script
        /\ res  = _TETrace[i].res
        /\ res' = _TETrace[j].res

\* Uncomment the ASSUME below to write the states of the error trace
\* to the given file in Json format. Note that you can pass any tuple
\* to `JsonSerialize`. For example, a sub-sequence of _TETrace.
    \* ASSUME
    \*     LET J == INSTANCE Json
    \*         IN J!JsonSerialize("FieldPropMC_TTrace_1790135012.json", _TETrace)

=============================================================================

 Note that you can extract this module `FieldPropMC_TEExpression`
  to a dedicated file to reuse `expression` (the module in the 
  dedicated `FieldPropMC_TEExpression.tla` file takes precedence 
  over the module `FieldPropMC_TEExpression` below).

---- MODULE FieldPropMC_TEExpression ----
EXTENDS Sequences, TLCExt, Toolbox, FieldPropMC, Naturals, TLC

expression == 
    [
        \* To hide variables of the `FieldPropMC` spec from the error trace,
        \* remove the variables below.  The trace will be written in the order
        \* of the fields of this record.
        phase |-> phase
        ,exact |-> exact
        ,L |-> L
        ,P |-> P
        ,g |-> g
        ,script |-> script
        ,res |-> res
        
        \* Put additional constant-, state-, and action-level expressions here:
        \* ,_stateNumber |-> _TEPosition
        \* ,_phaseUnchanged |-> phase = phase'
        
        \* Format the `phase` variable as Json value.
        \* ,_phaseJson |->
        \*     LET J == INSTANCE Json
        \*     IN J!ToJson(phase)
        
        \* Lastly, you may build expressions over arbitrary sets of states by
        \* leveraging the _TETrace operator.  For example, this is how to
        \* count the number of times a spec variable changed up to the current
        \* state in the trace.
        \* ,_phaseModCount |->
        \*     LET F[s \in DOMAIN _TETrace] ==
        \*         IF s = 1 THEN 0
        \*         ELSE IF _TETrace[s].phase # _TETrace[s-1].phase
        \*             THEN 1 + F[s-1] ELSE F[s-1]
        \*     IN F[_TEPosition - 1]
    ]

=============================================================================



Parsing and semantic processing can take forever if the trace below is long.
 In this case, it is advised to uncomment the module below to deserialize the
 trace from a generated binary file.

\*
\*---- MODULE FieldPropMC_TETrace ----
\*EXTENDS IOUtils, FieldPropMC, TLC
\*
\*trace == IODeserialize("FieldPropMC_TTrace_1790135012.bin", TRUE)
\*
\*=============================================================================
\*

---- MODULE FieldPropMC_TETrace ----
EXTENDS FieldPropMC, TLC

trace == 
    <<
    ([phase |-> "loop",P |-> [step |-> 2048, maxsub |-> 2, minsub |-> 128, delta |-> 640, bump |-> 64, unit |-> 64, x0 |-> 4096, onb0 |-> FALSE],res |-> <<>>,g |-> [nd |-> 0, ok |-> TRUE, onb |-> FALSE, has |-> FALSE, hasb |-> FALSE],exact |-> TRUE,L |-> [rem |-> 2048, dist |-> 0, left |-> 2, bnd |-> FALSE, path |-> 0, mgap |-> 0, last |-> "none", nd |-> 0, acc |-> 0, nhalf |-> 0, nshort |-> 0, it |-> 0, mom |-> 0, x |-> 4096],script |-> <<>>]),
    ([phase |-> "done",P |-> [step |-> 2048, maxsub |-> 2, minsub |-> 128, delta |-> 640, bump |-> 64, unit |-> 64, x0 |-> 4096, onb0 |-> FALSE],res |-> [dist |-> 64, bnd |-> FALSE, path |-> 64, loop |-> FALSE, stuck |-> TRUE, roundup |-> FALSE, calls |-> <<<<"SetDir", 1>>, <<"MoveToD", 64, 1>>>>, dirtok |-> 1, x |-> 4096, off |-> 64],g |-> [nd |-> 0, ok |-> TRUE, onb |-> FALSE, has |-> FALSE, hasb |-> FALSE],exact |-> TRUE,L |-> [rem |-> 0, dist |-> 0, left |-> 2, bnd |-> TRUE, path |-> 0, mgap |-> 2048, last |-> "commit", nd |-> 0, acc |-> 0, nhalf |-> 0, nshort |-> 0, it |-> 1, mom |-> 1, x |-> 4096],script |-> <<"FS0">>])
    >>
----


=============================================================================

---- CONFIG FieldPropMC_TTrace_1790135012 ----
CONSTANTS
    Steps = { 2048 }
    MaxSubs = { 2 }
    MinSub = 128
    Delta = 640
    Unit = 64
    X0 = 4096
    Starts = { TRUE , FALSE }

INVARIANT
    _inv

CHECK_DEADLOCK
    \* CHECK_DEADLOCK off because of PROPERTY or INVARIANT above.
    FALSE

INIT
    _init

NEXT
    _next

CONSTANT
    _TETrace <- _trace

ALIAS
    _expression
=============================================================================
\* Generated on Wed Sep 23 03:43:47 UTC 2026