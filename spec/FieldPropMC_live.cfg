SPECIFICATION Spec
CONSTANTS
  Steps = {64, 256, 512, 1024}
  MaxSubs = {2, 3}
  MinSub = 128
  Delta = 640
  Unit = 64
  X0 = 4096
  Starts = {TRUE, FALSE}
VIEW View
INVARIANT LatticeExact
INVARIANT NavProtocol
INVARIANT TerminatesBound
INVARIANT TrichotomyOK
INVARIANT LoopingOK
INVARIANT FlagMatchesGeometry
INVARIANT DistanceOK
INVARIANT RoundingBounded
INVARIANT DirFromMomentum
PROPERTY ProgressOK
PROPERTY Terminates
CHECK_DEADLOCK TRUE
