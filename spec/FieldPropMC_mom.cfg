SPECIFICATION Spec
CONSTANTS
  Steps = {2048}
  MaxSubs = {2}
  MinSub = 128
  Delta = 640
  Unit = 64
  X0 = 4096
  Starts = {TRUE, FALSE}
VIEW View
INVARIANT MomentumAtEndPoint
CHECK_DEADLOCK TRUE
