SPECIFICATION SpecSim
CONSTANTS
  Steps = {64, 256, 512, 1024, 2048}
  MaxSubs = {2, 3}
  MinSub = 128
  Delta = 640
  Unit = 64
  X0 = 4096
  Starts = {TRUE, FALSE}
INVARIANT Emit
CHECK_DEADLOCK FALSE
