---------------------------- MODULE FieldPropTrace ----------------------------
(* Trace validation for C08 (harness/vfield.cc), one record per propagation call.

   "Scripted" records: the REAL FieldPropagator template ran over a scripted driver and a
   scripted 1-D geometry replaying a behaviour of FieldPropMC.  The responses found in the
   recorded calls are fed to the transcription (FieldProp!Run); the recorded call sequence,
   the returned Propagation and the final geometry state must EQUAL the transcription's
   (clause C08.Conformance: the control flow of the real code is compared with the model that
   TLC checked exhaustively).  A mismatch means the transcription is wrong or the code
   changed.
   "Real" records: real drivers/fields/ORANGE geometries seen through call recorders; all
   lengths are dense ranks within the record.  The API-level clauses are evaluated on both
   kinds of record; facts labelled Oracle are decided by the harness' independent numeric
   oracles and enter as bracketed ranks.

   Violated clause names are accumulated in `viol` (first occurrences) and `cnt`; the whole
   trace is always examined.  Structural problems (unknown record, Abort, missing Close)
   reject the trace. *)
EXTENDS FieldProp, TLC, Json, IOUtils

TraceLog == ndJsonDeserialize(IOEnv.TRACE)
N == Len(TraceLog)

VARIABLES l, viol, cnt, stat
vars == <<l, viol, cnt, stat>>
Rec == TraceLog[l]

Inc(f, k) == [x \in (DOMAIN f) \cup {k} |-> IF x = k THEN (IF k \in DOMAIN f THEN f[k] ELSE 0) + 1 ELSE f[x]]
IncAll(f, ks) == FoldLeft(Inc, f, SetToSeq(ks))
Note(names) ==
  /\ cnt' = IncAll(cnt, names)
  /\ viol' = viol \cup {<<n, Rec.id, l>> : n \in {m \in names : (IF m \in DOMAIN cnt THEN cnt[m] ELSE 0) < 4}}

Init == l = 1 /\ viol = {} /\ cnt = <<>>
        /\ stat = [scripted |-> 0, real |-> 0, calls |-> 0, full |-> 0, looping |-> 0, boundary |-> 0,
                   bumped |-> 0, none |-> 0, hang |-> 0, clauses |-> 0, roundup |-> 0, onb_starts |-> 0,
                   bumpout |-> 0, advances |-> 0]

Responses(calls, kind) ==
  LET sel == SelectSeq(calls, LAMBDA c : c[1] = kind) IN
  IF kind = "Advance" THEN [k \in DOMAIN sel |-> <<sel[k][4], sel[k][5]>>]
  ELSE [k \in DOMAIN sel |-> <<sel[k][3], sel[k][4]>>]

OutcomeOf(res, steplo, step, stephi, bump, noprog) ==
  LET o == Outcomes(res, steplo, step, stephi, bump, noprog) IN
  IF Cardinality(o) = 1 THEN CHOOSE x \in o : TRUE ELSE "none"

\* clauses that need nothing but the record (used for both kinds)
ApiClauses(calls, res, onb0, onb1, maxsub, zero, steplo, step, stephi, bump) ==
  LET nav == NavRun(NavInit(onb0), calls, zero)
      nacc == NumAccepted(calls)
      noprog == nacc = 0 /\ ~\E i \in DOMAIN calls : calls[i][1] = "MoveB"
  IN
    (IF nav.ok THEN {} ELSE {"C08.NavProtocol"})
  \cup (IF nacc <= maxsub /\ (res.loop => nacc = maxsub) THEN {} ELSE {"C08.Terminates"})
  \cup (IF Trichotomy(res, steplo, step, stephi, bump, noprog) THEN {} ELSE {"C08.Trichotomy"})
  \cup (IF res.bnd = onb1 /\ nav.onb = onb1 THEN {} ELSE {"C08.FlagMatchesGeometry"})
  \cup (IF DistanceBounds(res, zero, stephi) THEN {} ELSE {"C08.DistanceBounds"})
  \cup (IF Len(calls) > 0 /\ DirDiscipline(calls, onb0, bump) THEN {} ELSE {"C08.FinalDirFromMomentum"})

TScripted ==
  /\ Rec.e = "Scripted"
  /\ LET P == Rec.P
         bad == Rec.hang \/ Rec.exc # ""
         exp == Run(P, Responses(Rec.calls, "Advance"), Responses(Rec.calls, "Find"))
         conf == /\ ~bad /\ Rec.exact /\ exp.complete
                 /\ Rec.calls = exp.calls
                 /\ Rec.res.dist = exp.res.dist /\ Rec.res.bnd = exp.res.bnd /\ Rec.res.loop = exp.res.loop
                 /\ Rec.geo.onb = exp.res.bnd /\ Rec.geo.x = exp.res.x /\ Rec.geo.off = exp.res.off
                 /\ Rec.geo.dir = <<exp.res.dirtok>>
         \* the derived-facts operators must agree with the transcription (self-check of the spec)
         self == ~(~bad /\ exp.complete) \/
                   /\ DirDiscipline(exp.calls, P.onb0, P.bump)
                   /\ NumAccepted(exp.calls) = exp.L.acc
                   /\ CommittedToken(exp.calls, P.onb0, P.bump) = exp.res.dirtok
         api == IF bad THEN {}
                ELSE ApiClauses(Rec.calls, Rec.res, P.onb0, Rec.geo.onb, P.maxsub, 0, P.step, P.step, P.step, P.bump)
         oc == IF bad THEN "none" ELSE
               OutcomeOf(Rec.res, P.step, P.step, P.step, P.bump,
                         NumAccepted(Rec.calls) = 0 /\ ~\E i \in DOMAIN Rec.calls : Rec.calls[i][1] = "MoveB")
     IN
     /\ Note((IF conf THEN {} ELSE {"C08.Conformance"})
             \cup (IF Rec.hang THEN {"C08.Terminates"} ELSE {})
             \cup (IF Rec.exc # "" THEN {"C08.Abort"} ELSE {})
             \cup (IF self THEN {} ELSE {"SPEC.DerivedFacts"})
             \* the committed momentum belongs (within tolerance) to the point where the particle is put
             \cup (IF ~bad /\ exp.complete /\ exp.L.mgap > MaxOf(P.minsub, 2 * P.delta)
                     THEN {"C08.MomentumAtEndPoint"} ELSE {})
             \cup api)
     /\ stat' = [stat EXCEPT !.scripted = @ + 1, !.calls = @ + Len(Rec.calls), ![oc] = @ + 1,
                             !.hang = @ + (IF Rec.hang THEN 1 ELSE 0), !.clauses = @ + 9,
                             !.roundup = @ + (IF ~bad /\ exp.complete /\ exp.res.roundup THEN 1 ELSE 0),
                             !.onb_starts = @ + (IF P.onb0 THEN 1 ELSE 0)]

TReal ==
  /\ Rec.e = "Real"
  /\ LET bad == Rec.hang \/ Rec.exc # "" IN
     IF bad THEN
       \* (the recording geometry refuses a call whose navigator precondition does not hold)
       /\ Note((IF Rec.hang THEN {"C08.Terminates"} ELSE {})
               \cup (IF Rec.exc # "" THEN {IF Rec.protocol THEN "C08.NavProtocol" ELSE "C08.Abort"} ELSE {}))
       /\ stat' = [stat EXCEPT !.real = @ + 1, !.hang = @ + (IF Rec.hang THEN 1 ELSE 0), !.none = @ + 1]
     ELSE
       LET k == Rec.k  res == Rec.res  calls == Rec.calls  orc == Rec.orc
           noprog == NumAccepted(calls) = 0 /\ ~\E i \in DOMAIN calls : calls[i][1] = "MoveB"
           oc == OutcomeOf(res, k.steplo, k.step, k.stephi, k.bump, noprog)
           adv == SelectSeq(calls, LAMBDA c : c[1] = "Advance")
           api == ApiClauses(calls, res, Rec.onb0, Rec.onb1, Rec.maxsub, k.zero, k.steplo, k.step, k.stephi, k.bump)
           \* FieldDriver::advance post-condition and the first trial = the requested step
           drv == /\ Len(adv) >= 1 /\ adv[1][2] = k.step
                  /\ \A i \in DOMAIN adv : k.zero < adv[i][3] /\ adv[i][3] <= adv[i][2]
           \* inside the original volume unless a boundary was reported (tracked state and,
           \* Oracle, a fresh point location at the end point)
           \* (after a zero-progress bump only the tracked state is compared: the bump is a blind
           \* move of bump_distance and the property makes no promise about it; `bumpout` counts
           \* the bumps after which the fresh location disagrees)
           volok == \/ oc = "boundary"
                    \/ ~Rec.out1 /\ Rec.vol1 = Rec.vol0 /\ (oc = "bumped" \/ Rec.volf = Rec.vol0)
           exh == orc.drv_exh > k.zero
           bumpmove == Len(calls) > 0 /\ calls[Len(calls)][1] \in {"MoveTo", "MoveToD"}
           momok == orc.unit_res <= orc.unit_tol /\ k.p1 = k.p0 /\ orc.pdrift <= orc.pdrift_tol
           \* the last iteration committed a boundary: the momentum taken from the end of that
           \* substep belongs (within tolerance) to the point where the particle was put
           momat == ~(Rec.lastb /\ CommittedToken(calls, Rec.onb0, k.bump) = Len(Finds(calls))) \/ k.mgap <= k.mgaptol
       IN
       /\ Note(api
               \cup (IF drv THEN {} ELSE {"C08.DriverContract"})
               \* (clauses that depend on the integrated trajectory carry the stepper's name)
               \cup (IF volok THEN {}
                     ELSE IF ReentrantRetry(calls, Rec.onb0, k.bump)
                          THEN {"C08.VolumeUnchanged.AfterReentrantRetry@" \o Rec.stepper}   \* F-FIELD-3
                          ELSE {"C08.VolumeUnchanged@" \o Rec.stepper})
               \cup (IF momok THEN {} ELSE {"C08.Oracle.MomentumMagnitude"})
               \* DRIVER LEVEL (every recorded FieldDriver::advance call of this propagation):
               \* the step the driver reports is the arc length integrated by the chain of stepper
               \* evaluations that produced the state it returns (tolerance: the code's soft_equal) ...
               \cup (IF orc.drv_chain /\ orc.drv_rel <= orc.one THEN {} ELSE {"C08.DriverStepMatchesState"})
               \* ... named deviation F-FIELD-4: a trial loop ran out of max_nsteps and shrank the step
               \* after its last evaluation (the state is AHEAD of the reported step by at most the rescale)
               \cup (IF exh THEN {"C08.DriverStepMatchesState.BudgetExhausted"} ELSE {})
               \* ... and (Oracle, uniform fields) that state lies on the analytic helix through the input
               \* state at arc length = the reported step, with the momentum magnitude kept
               \cup (IF orc.helix => orc.drv_pos <= orc.one THEN {} ELSE {"C08.Oracle.DriverHelixPosition@" \o Rec.stepper})
               \cup (IF orc.helix => orc.drv_dir <= orc.one THEN {} ELSE {"C08.Oracle.DriverHelixDirection@" \o Rec.stepper})
               \cup (IF orc.drv_mag <= orc.one THEN {} ELSE {"C08.Oracle.DriverMomentumMagnitude@" \o Rec.stepper})
               \* PROPAGATION LEVEL (not decidable when a returned state was not at its reported step)
               \cup (IF (orc.helix /\ ~exh) => orc.hres <= orc.htol THEN {} ELSE {"C08.Oracle.HelixPosition@" \o Rec.stepper})
               \cup (IF momat THEN {} ELSE {"C08.MomentumAtEndPoint"})
               \* (when the momentum was taken from a distant point the direction oracle has nothing to add)
               \cup (IF (orc.helix /\ momat /\ ~exh) => orc.ares <= orc.atol THEN {} ELSE {"C08.Oracle.HelixDirection@" \o Rec.stepper})
               \* a full step reported although the accepted substeps add up to less: the rest must be
               \* negligible (not applicable when the full step IS the bump: step <= bump_distance)
               \cup (IF (oc = "full" /\ ~bumpmove) => k.gap <= k.tolgap THEN {} ELSE {"C08.RoundUpBounded"})
               \* contract edges: assertions of the code itself that only a debug build evaluates (the first
               \* depends on how the driver's chord search shortens a substep, hence on the stepper)
               \cup (IF (oc = "full" /\ ~bumpmove) => k.gap <= k.softtol THEN {} ELSE {"C08.Edge.RoundUpNotSoftEqual@" \o Rec.stepper})
               \cup (IF oc = "boundary" => res.dist <= k.step THEN {} ELSE {"C08.Edge.BoundaryBeyondStep"}))
       /\ stat' = [stat EXCEPT !.real = @ + 1, !.calls = @ + Len(calls), ![oc] = @ + 1, !.clauses = @ + 21,
                               !.roundup = @ + (IF oc = "full" /\ ~bumpmove /\ k.gap > k.zero THEN 1 ELSE 0),
                               !.onb_starts = @ + (IF Rec.onb0 THEN 1 ELSE 0),
                               !.bumpout = @ + (IF oc = "bumped" /\ Rec.volf # Rec.vol0 THEN 1 ELSE 0),
                               !.advances = @ + Len(adv)]

TInfo == Rec.e \in {"Info", "Close"} /\ UNCHANGED <<viol, cnt, stat>>
\* the harness process itself had to be killed (written by the check, not by the harness)
THang == /\ Rec.e = "Hang"
         /\ cnt' = Inc(cnt, "C08.Terminates") /\ viol' = viol \cup {<<"C08.Terminates", 0, l>>}
         /\ stat' = [stat EXCEPT !.hang = @ + 1]

Next == l <= N /\ l' = l + 1 /\ (TScripted \/ TReal \/ TInfo \/ THang)
Spec == Init /\ [][Next]_vars

Accepted ==
  LET d == TLCGet("stats").diameter IN
  IF d - 1 = N /\ TraceLog[N].e = "Close" THEN TRUE
  ELSE /\ PrintT(<<"REJECTED", d, TraceLog[IF d <= N THEN d ELSE N]>>)
       /\ FALSE
Report == (l = N + 1) => PrintT(<<"SUMMARY", ToJson([viol |-> viol, cnt |-> cnt, stat |-> stat])>>)
=============================================================================
