-------------------------------- MODULE Grid --------------------------------
(* C14 -- physics table lookups as an ORDERED ABSTRACT DOMAIN.

   A grid of n knots x_0 < ... < x_{n-1} (0-based k, as in the C++ code) splits the real
   line into the ordered query classes

        below | at(0) up(0) in(0) dn(1) | at(1) up(1) in(1) dn(2) | ... | atlast | above

   at(k)  : x = x_k              up(k) : x = the double just above x_k
   in(k)  : x_k < x < x_{k+1}, not an immediate neighbour of either knot
   dn(k)  : x = the double just below x_k          (k >= 1)
   atlast : x = x_{n-1}          below / above : outside the grid

   For every calculator and class this module states the RELATION the returned value v must
   satisfy with respect to the table, as order comparisons only.  All numbers are dense
   ranks of the doubles of one table record (order preserving, ties preserved), so every
   comparison below is an exact statement about the doubles.

   What a table is (per record t):
     t.xk[k]  knot abscissa      (energy; for the inverse range calculator: range)
     t.yk[k]  table value at the knot in natural (unscaled) units
     t.sk[k]  stored value for k >= p (p = prime_index, -1: none): the value scaled by E,
              i.e. s_k = y_k * E_k   (XsGridData.hh)
     t.ylo/yhi[k], t.slo/shi[k]   tolerance brackets around y_k and s_k (trusted base)
   and per query q: q.v returned value, q.ve = q.v * E (the quantity that is interpolated
   at and above the prime index), q.rlo/q.rhi bracket of an ORACLE-DECIDED reference for
   the documented extrapolation formula.

   Tolerance table (the brackets are inserted by harness/vgrid.cc as ranked values;
   eps = 2^-52; M_k = max |table value| over knots k-1, k, k+1; u_k = ulp(x_k)):
     knot bracket     y_k -/+ M_k * (4 eps + 128 * B_k)
                      B_k = u_k (2 x_max / dx_min + 1) / x_k   on log-energy grids
                      B_k = 2 u_k / dx_min                     on generic / range grids
                      (x_max, dx_min over the two adjacent bins).  4 eps: rounding of
                      fma(slope, x - x0, y0), which is relative to the neighbouring values
                      and not to the result; 128 * B_k: within < 100 ulp of a knot the
                      neighbouring bin's line may be evaluated (bin edges are decided on
                      log(E), see F-GRID-1), B_k bounds |slope| * u_k / M_k.
     extrapolation    reference * (1 -/+ 64 eps)      [oracle-decided reference]
     round trip       E -/+ (16 eps E + 16 ulp(r) * local dE/dr  [+ 64 eps E below the table]
                             [+ (range bracket of knot k) * dE/dr if E is near knot k]
                             [+ 128 ulp(r_k) * dE/dr if range(E) is near the tabulated r_k])
     prime index      the knot within E'(1 -/+ 1e-11) of the user's first scaled energy E'
     neighbourhood    "near knot k" = within 128 ulp of x_k (ranks of x_k -/+ 128 ulp supplied)
     energy loss      monotone in the step up to l + 32 eps E; scope of deviation F-LOSS-2:
                      -1024 eps E <= loss < 0
   Nothing else is tolerated: inside a bin the value must lie between the neighbouring knot
   brackets, clamps are exact (rank equality), monotonicity is a pure rank statement between
   queries away from knots (see MonoPair).

   Known finding F-GRID-1 (UniformGrid::find off by one bin within 1 ulp of a knot) does
   not affect these claims: they are about VALUES, and continuity makes the neighbouring
   bin's line agree at the knot within the bracket -- with two value-level consequences
   that ARE visible and are modelled as named, scoped, counted deviations below:
   NegativeNearKnot (F-XS-1) and ReadPastEnd (F-GRID-1a); two more concern the mean energy
   loss: LossSwitchDrop (F-LOSS-1) and LossNegativeRounding (F-LOSS-2). *)
EXTENDS Algorithms

Calcs == {"xs", "eloss", "range", "invrange", "generic"}
Classes == {"below", "at", "up", "in", "dn", "atlast", "above"}

\* Admissible prime positions for a calculator on a grid of n knots (-1 = no scaling)
PrimeSet(calc, n) == IF calc = "xs" THEN {-1} \cup (0..(n - 1)) ELSE {-1}

\* Does the calculator accept queries above the last knot?  (InverseRangeCalculator
\* requires range <= the largest tabulated range.)
HasAbove(calc) == calc # "invrange"

\* The ordered sequence of abstract classes <<class, k>> of a grid of n knots
ClassSeq(calc, n) ==
  LET inner == [i \in 1..(4 * (n - 1)) |->
                  LET k == (i - 1) \div 4
                      j == (i - 1) % 4
                  IN IF j = 0 THEN <<"at", k>> ELSE IF j = 1 THEN <<"up", k>>
                     ELSE IF j = 2 THEN <<"in", k>> ELSE <<"dn", k + 1>>]
  IN <<(<<"below", 0>>)>> \o inner \o <<(<<"atlast", n - 1>>)>>
     \o (IF HasAbove(calc) THEN <<(<<"above", n - 1>>)>> ELSE <<>>)

\* The bin (lower knot index) that reference semantics assign to a class; -1 / n-1: outside
ClassBin(n, c, k) ==
  CASE c = "below" -> -1
    [] c \in {"at", "up", "in"} -> k
    [] c = "dn" -> k - 1
    [] c \in {"atlast", "above"} -> n - 1

\* ---- the expected relations (clause names; "C14." is prefixed in reports) ---------
\* Is the quantity interpolated in bin b the E-scaled one?   (lower index >= prime_index)
ScaledBin(p, b) == p >= 0 /\ b >= p
\* Is knot k stored scaled?
ScaledKnot(p, k) == p >= 0 /\ k >= p

Relations(calc, n, p, c, k) ==
  LET xsl == calc \in {"xs", "eloss"} IN
  (IF calc # "generic" THEN {"NonNeg"} ELSE {})
  \cup {"Finite"}
  \cup (CASE c = "at" \/ c = "atlast" ->
               {"KnotValue"} \cup (IF ScaledKnot(p, k) THEN {"KnotScaled"} ELSE {})
          [] c = "up" \/ c = "dn" ->
               {"Continuity"} \cup (IF ScaledKnot(p, k) THEN {"ContinuityScaled"} ELSE {})
          [] c = "in" ->
               {"Between", "NearKnot"} \cup (IF ScaledBin(p, k) THEN {"BetweenScaled"} ELSE {})
          [] c = "below" ->
               IF xsl THEN (IF p = 0 THEN {"ScaledClampFirst", "ExtrapRef"} ELSE {"ClampFirst"})
               ELSE IF calc = "generic" THEN {"ClampFirst"}
               ELSE {"ExtrapRef", "BelowFirst"}          \* range: sqrt(E); inverse: r^2
          [] c = "above" ->
               IF p >= 0 THEN {"ScaledClampLast", "ExtrapRef"} ELSE {"ClampLast"}
          [] c = "uk" ->      \* the USER's knot energy handed to a ValueGrid*Builder
               {"KnotValue"} \cup (IF ScaledKnot(p, k) THEN {"KnotScaled"} ELSE {}))

\* ---- evaluation of a clause on a table record t and a query q ---------------------
K1(k) == k + 1                      \* 0-based knot index -> TLA+ sequence index
Lo2(a, b) == IF a < b THEN a ELSE b
Hi2(a, b) == IF a < b THEN b ELSE a
Within(v, lo, hi) == lo <= v /\ v <= hi

\* q lies within 128 ulp of knot k (t.xnl/xnh: ranks of x_k -/+ 128 ulp(x_k))
Near(t, q, k) == t.xnl[K1(k)] <= q.x /\ q.x <= t.xnh[K1(k)]
NearAny(t, q) == \E k \in 0..(t.n - 1) : Near(t, q, k)

Holds(name, t, q) ==
  LET k == q.k  n == t.n IN
  CASE name = "Finite" -> q.fin
    [] name = "NearKnot" ->      \* an inside query within 128 ulp of a knot: continuity bracket
         q.fin => \A kk \in {k, k + 1} : Near(t, q, kk) => Within(q.v, t.ylo[K1(kk)], t.yhi[K1(kk)])
    [] name = "NonNeg" -> q.fin => q.v >= t.zero
    [] name \in {"KnotValue", "Continuity"} ->
         q.fin => Within(q.v, t.ylo[K1(k)], t.yhi[K1(k)])
    [] name \in {"KnotScaled", "ContinuityScaled"} ->
         q.fin => Within(q.ve, t.slo[K1(k)], t.shi[K1(k)])
    [] name = "Between" ->
         q.fin => Within(q.v, Lo2(t.ylo[K1(k)], t.ylo[K1(k + 1)]),
                              Hi2(t.yhi[K1(k)], t.yhi[K1(k + 1)]))
    [] name = "BetweenScaled" ->
         q.fin => Within(q.ve, Lo2(t.slo[K1(k)], t.slo[K1(k + 1)]),
                               Hi2(t.shi[K1(k)], t.shi[K1(k + 1)]))
    \* clamps are exact (rank equality) -- except within 128 ulp of the end knot, where log(E)
    \* may still fall inside the log grid and the end bin's line is evaluated: knot bracket
    [] name = "ClampFirst" ->
         q.fin => (q.v = t.yk[1] \/ (Near(t, q, 0) /\ Within(q.v, t.ylo[1], t.yhi[1])))
    [] name = "ClampLast" ->
         q.fin => (q.v = t.yk[n] \/ (Near(t, q, n - 1) /\ Within(q.v, t.ylo[n], t.yhi[n])))
    [] name = "ScaledClampFirst" -> q.fin => Within(q.ve, t.slo[1], t.shi[1])
    [] name = "ScaledClampLast" -> q.fin => Within(q.ve, t.slo[n], t.shi[n])
    [] name = "ExtrapRef" ->       \* (q.k is the end knot: 0 below, n-1 above)
         q.ref /\ (q.fin => (Within(q.v, q.rlo, q.rhi)
                             \/ (Near(t, q, k) /\ Within(q.v, t.ylo[K1(k)], t.yhi[K1(k)]))))
    [] name = "BelowFirst" -> q.fin => q.v <= t.yhi[1]

\* ---- named deviation (counted by the trace spec, never hidden) ---------------------
\* F-XS-1: a query within 128 ulp of a knot whose tabulated value is zero (or within rounding
\* distance of zero relative to its neighbours: ylo_k < 0) gets a NEGATIVE value that is still
\* inside that knot's bracket -- the neighbouring bin's line is evaluated a few ulp beyond its
\* end point (bin edges are decided on log(E), F-GRID-1) or the fma rounds below zero.
\* Anything else negative is a violation of NonNeg.
NegativeNearKnot(t, q) ==
  /\ q.fin /\ q.v < t.zero
  /\ \E k \in 0..(t.n - 1) : /\ Near(t, q, k)
                              /\ t.ylo[K1(k)] < t.zero
                              /\ t.ylo[K1(k)] <= q.v

\* F-GRID-1a (consequence of F-GRID-1): for a query within 128 ulp of the last knot the real
\* UniformGrid::find(log E) returns the LAST index (q.pe, observed by the harness on the real
\* class); XsCalculator / RangeCalculator then interpolate towards value[size], one element
\* past the table.  The returned value depends on foreign data, so no clause can be asserted
\* for it; such queries are counted, and excluded from the monotonicity / round-trip clauses.
ReadPastEnd(t, q) ==
  /\ t.calc \in {"xs", "eloss", "range"}
  /\ q.pe /\ Near(t, q, t.n - 1)

\* ---- is the query really a member of the class it is labelled with? --------------
\* (xd, xu: ranks of the doubles just below / above the query -- floating-point facts)
ClassOK(t, q) ==
  LET k == q.k  n == t.n IN
  /\ k \in 0..(n - 1)
  /\ CASE q.c = "below" -> k = 0 /\ q.x < t.xk[1]
       [] q.c = "at" -> k < n - 1 /\ q.x = t.xk[K1(k)]
       [] q.c = "up" -> k < n - 1 /\ q.xd = t.xk[K1(k)]
       [] q.c = "in" -> k < n - 1 /\ t.xk[K1(k)] < q.xd /\ q.xu < t.xk[K1(k + 1)]
       [] q.c = "dn" -> k >= 1 /\ q.xu = t.xk[K1(k)]
       [] q.c = "atlast" -> k = n - 1 /\ q.x = t.xk[n]
       [] q.c = "above" -> k = n - 1 /\ q.x > t.xk[n]
       [] q.c = "uk" -> TRUE
       [] OTHER -> FALSE
  /\ q.c \in Classes => GridBin(t.xk, q.x) = ClassBin(n, q.c, k)

\* ---- the prime index a builder must store ---------------------------------------------
\* ValueGridXsBuilder is given the first E-scaled energy E' (t.ep), which lies ON a grid point of
\* the user's log grid; values at and above that point are pre-scaled by E.  From the grid
\* DEFINITION the prime index is the (unique) knot that equals E' within the builder's documented
\* soft equality (t.eplo/t.ephi = E'(1 -/+ 1e-11), tolerance table: C_PRIME).  Clause
\* BuilderPrime: the stored prime_index (t.pb) is that knot.  All value clauses of a builder-made
\* table are evaluated with the EXPECTED index: a builder that stores another one makes the
\* calculator miss the tabulated value at the affected knot and in the two adjacent bins.
PrimeCandidates(t) == {k \in 0..(t.n - 1) : t.eplo <= t.xk[K1(k)] /\ t.xk[K1(k)] <= t.ephi}
ExpectedPrime(t) == CHOOSE k \in PrimeCandidates(t) : TRUE

\* ---- table-level relations ---------------------------------------------------------
TableMonotone(t) == \A i \in 1..(t.n - 1) : t.yk[i] <= t.yk[i + 1]
\* Monotone non-decreasing over ALL queries of one table sorted by abscissa.  A pure rank
\* statement (x_i <= x_j => v_i <= v_j) between queries that are not within 128 ulp of a knot;
\* a query near knot k is tied to that knot's bracket instead: everything to its right is
\* >= ylo_k, everything to its left is <= yhi_k (near a knot either neighbouring line may be
\* evaluated and each evaluation carries the rounding of the interpolation).
MonoPair(t, a, b) ==       \* a.x <= b.x
  IF NearAny(t, a) \/ NearAny(t, b)
  THEN /\ \A k \in 0..(t.n - 1) : Near(t, a, k) => b.v >= t.ylo[K1(k)]
       /\ \A k \in 0..(t.n - 1) : Near(t, b, k) => a.v <= t.yhi[K1(k)]
  ELSE a.v <= b.v
\* pairs that break the pure rank statement (informational when all are near a knot)
StrictBreaks(t) == {<<i, j>> \in (DOMAIN t.qs) \X (DOMAIN t.qs) :
                      /\ t.qs[i].v > t.qs[j].v /\ t.qs[i].x <= t.qs[j].x
                      /\ t.qs[i].fin /\ t.qs[j].fin /\ ~t.qs[i].pe /\ ~t.qs[j].pe}
\* (a pair with v_i <= v_j satisfies MonoPair as soon as both values obey their own knot
\* brackets, which the per-query clauses check: only strict breaks need a second look)
MonotoneBreaks(t) == {b \in StrictBreaks(t) : ~MonoPair(t, t.qs[b[1]], t.qs[b[2]])}
\* inverse(range(E)) within the supplied bracket of E
RoundTrip(c) == c.pe \/ (c.fin /\ Within(c.v, c.lo, c.hi))

\* ---- continuous energy loss (calc_mean_energy_loss) ----------------------------------
\* r: record with E (pre-step energy), zero, range, steps = sweep of
\*    [s |-> step, l |-> loss, lhi |-> l + 32 eps E, lin |-> linear regime?, fin]
\* Two documented regimes (PhysicsStepUtils.hh): step * dE/dx < linear_loss_limit * E: the
\* linear approximation; otherwise E - E(range - step), where the difference of two energies
\* carries an ABSOLUTE rounding error of a few eps * E: monotonicity is therefore stated up
\* to the bracket lhi = l + 32 eps E (tolerance table: C_LOSS = 32).
LossBounds(r, st) == st.fin /\ r.zero <= st.l /\ st.l <= r.E
\* step = range in the range regime: all the energy, exactly (token equality).  (In the linear
\* regime -- reachable at step = range only when linear_loss_limit is close to 1 -- the
\* documented result is step * dE/dx, which LossBounds still confines to [0, E].)
LossAtRange(r, st) == (st.s = r.range /\ ~st.lin) => st.l = r.E
LossPairOK(a, b) == a.s <= b.s => a.l <= b.lhi
\* Named deviation F-LOSS-1: across the hand-over from the linear regime to the range regime
\* the loss can DROP (the linear approximation overestimates when dE/dx grows with E).
LossSwitchDrop(a, b) == a.lin /\ ~b.lin /\ a.s <= b.s /\ a.l > b.lhi
\* Named deviation F-LOSS-2: in the range regime the loss E - E(range - step) of a very short step
\* (possible only for linear_loss_limit ~ 0) is NEGATIVE by the round-trip error of
\* inverse(range(E)): bounded below by zlo = -1024 eps E (tolerance table: C_NEG = 1024).
LossNegativeRounding(r, st) == st.fin /\ ~st.lin /\ st.l < r.zero /\ r.zlo <= st.l
LossBreaks(steps) == {c \in (DOMAIN steps) \X (DOMAIN steps) :
                        steps[c[1]].fin /\ steps[c[2]].fin /\ ~LossPairOK(steps[c[1]], steps[c[2]])}

\* ---- MSC path conversions ---------------------------------------------------------------
\* true path t, geometrical path g = ToGeo(t), back = FromGeo(g); and for a shorter
\* (geometry-limited) g' <= g: g' <= FromGeo(g') <= t
MscGeoLeTrue(r) == r.fin /\ r.zero <= r.g /\ r.g <= r.t
MscBack(r) == r.fin /\ r.g <= r.b /\ r.b <= r.t
MscPartial(r, x) == x.fin /\ x.g <= r.g /\ x.g <= x.b /\ x.b <= r.t
=============================================================================
