------------------------------- MODULE GridMC -------------------------------
(* Design check for C14 (spec/Grid.tla).

   1. ENUMERATION.  One state per abstract test case: calculator x grid size NMin..NMax x
      every prime_index position (none, 0, ..., last) x every query class, visited in the
      order of the real line (a transition moves the query across the next class
      boundary).  Every state is printed as
          <<"CASE", calc, n, p, class, k, {expected relations}>>
      -- "one implementation test per abstract transition": tools/checks/c14.py verifies
      that harness/vgrid.cc concretised every one of them.
   2. CONSISTENCY of the abstract domain on an integer model of the ordered line (knot k at
      10(k+1), "one ulp" = 1): the classes partition the line, in order; the bin of each
      class is Algorithms!GridBin of each of its members.
   3. SOUNDNESS of the relations w.r.t. the DOCUMENTED interpolation (XsCalculator.hh,
      XsGridData.hh), in exact rational arithmetic, for every table over a small value
      alphabet with n <= IdealMaxN: the documented piecewise-linear interpolant (in xs below
      the prime index, in xs*E at and above it, the upper end point of the last unscaled bin
      divided by its energy) reproduces the knots, stays between the neighbouring knot
      values in BOTH xs and xs*E, and clamps xs resp. xs*E outside. *)
EXTENDS Grid, TLC

CONSTANTS NMin, NMax, IdealMaxN, Vals

VARIABLES calc, n, p, pos
vars == <<calc, n, p, pos>>

Seq0 == ClassSeq(calc, n)
Cur == Seq0[pos]

Init == /\ calc \in Calcs
        /\ n \in NMin..NMax
        /\ p \in PrimeSet(calc, n)
        /\ pos = 1
Next == /\ pos < Len(Seq0)
        /\ pos' = pos + 1
        /\ UNCHANGED <<calc, n, p>>
Spec == Init /\ [][Next]_vars

\* ---- 1. enumeration -----------------------------------------------------------------
AllClauses == {"Finite", "NonNeg", "KnotValue", "KnotScaled", "Continuity", "ContinuityScaled",
               "Between", "BetweenScaled", "NearKnot", "ClampFirst", "ClampLast", "ScaledClampFirst",
               "ScaledClampLast", "ExtrapRef", "BelowFirst"}
Emit == PrintT(<<"CASE", calc, n, p, Cur[1], Cur[2], Relations(calc, n, p, Cur[1], Cur[2])>>)

RelationsWellFormed ==
  LET r == Relations(calc, n, p, Cur[1], Cur[2]) IN
  /\ r \subseteq AllClauses /\ "Finite" \in r
  /\ Cardinality(r \ {"Finite", "NonNeg"}) >= 1          \* never vacuous
  /\ (r \cap {"KnotScaled", "ContinuityScaled", "BetweenScaled", "ScaledClampFirst",
              "ScaledClampLast"} # {}) => p >= 0
  /\ ("Between" \in r) => Cur[2] + 1 <= n - 1
  /\ ("ClampFirst" \in r) => ~ScaledKnot(p, 0)
  /\ ("ClampLast" \in r) => p = -1

\* ---- 2. integer model of the ordered line ---------------------------------------------
Knot(k) == 10 * (k + 1)
Knots == [i \in 1..n |-> Knot(i - 1)]
LineLo == Knot(0) - 5
LineHi == IF HasAbove(calc) THEN Knot(n - 1) + 5 ELSE Knot(n - 1)
Line == LineLo..LineHi
Members(c, k) ==
  CASE c = "below" -> LineLo..(Knot(0) - 1)
    [] c = "at" -> {Knot(k)}
    [] c = "up" -> {Knot(k) + 1}
    [] c = "in" -> (Knot(k) + 2)..(Knot(k + 1) - 2)
    [] c = "dn" -> {Knot(k) - 1}
    [] c = "atlast" -> {Knot(n - 1)}
    [] c = "above" -> (Knot(n - 1) + 1)..LineHi

Partition ==
  pos = 1 =>
    /\ \A x \in Line : Cardinality({i \in DOMAIN Seq0 : x \in Members(Seq0[i][1], Seq0[i][2])}) = 1
    /\ \A i, j \in DOMAIN Seq0 : i < j =>
          \A a \in Members(Seq0[i][1], Seq0[i][2]), b \in Members(Seq0[j][1], Seq0[j][2]) : a < b
BinMatches ==
  \A x \in Members(Cur[1], Cur[2]) : GridBin(Knots, x) = ClassBin(n, Cur[1], Cur[2])

\* ---- 3. the documented interpolant, exactly -----------------------------------------
\* rationals as <<num, den>>, den > 0
LeQ(a, b) == a[1] * b[2] <= b[1] * a[2]
EqQ(a, b) == a[1] * b[2] = b[1] * a[2]
BetweenQ(v, a, b) == (LeQ(a, v) /\ LeQ(v, b)) \/ (LeQ(b, v) /\ LeQ(v, a))

\* val: stored values (0-based function).  y_k = val_k (k < p or no prime), val_k / E_k otherwise
YQ(val, k) == IF ScaledKnot(p, k) THEN <<val[k], Knot(k)>> ELSE <<val[k], 1>>
SQ(val, k) == <<val[k], 1>>
\* xs(x) for x inside [E_b, E_{b+1}]
IdealXs(val, b, x) ==
  LET e0 == Knot(b)  e1 == Knot(b + 1)  d == e1 - e0 IN
  IF ScaledBin(p, b)
  THEN \* interpolate xs*E linearly, then divide by E
       <<val[b] * d + (val[b + 1] - val[b]) * (x - e0), d * x>>
  ELSE IF b + 1 = p
  THEN \* upper end point is stored scaled: unscale it by ITS energy
       <<val[b] * d * e1 + (val[b + 1] - val[b] * e1) * (x - e0), d * e1>>
  ELSE <<val[b] * d + (val[b + 1] - val[b]) * (x - e0), d>>
TimesX(q, x) == <<q[1] * x, q[2]>>

IdealOK(val) ==
  /\ \A b \in 0..(n - 2) : \A x \in Knot(b)..Knot(b + 1) :
        LET v == IdealXs(val, b, x) IN
        /\ x = Knot(b) => EqQ(v, YQ(val, b))                          \* KnotValue
        /\ x = Knot(b + 1) => EqQ(v, YQ(val, b + 1))                  \* ... from the lower bin too
        /\ BetweenQ(v, YQ(val, b), YQ(val, b + 1))                    \* Between (xs)
        /\ ScaledBin(p, b) =>
             BetweenQ(TimesX(v, x), SQ(val, b), SQ(val, b + 1))       \* BetweenScaled (xs*E)
        /\ LeQ(<<0, 1>>, v)                                           \* NonNeg
  \* documented clamps: xs below an unscaled first knot, xs*E otherwise
  /\ \A x \in LineLo..(Knot(0) - 1) :
        LET v == IF ScaledKnot(p, 0) THEN <<val[0], x>> ELSE <<val[0], 1>> IN
        IF ScaledKnot(p, 0) THEN EqQ(TimesX(v, x), SQ(val, 0)) ELSE EqQ(v, YQ(val, 0))
  /\ \A x \in (Knot(n - 1) + 1)..(Knot(n - 1) + 5) :
        LET v == IF p >= 0 THEN <<val[n - 1], x>> ELSE <<val[n - 1], 1>> IN
        IF p >= 0 THEN EqQ(TimesX(v, x), SQ(val, n - 1)) ELSE EqQ(v, YQ(val, n - 1))

IdealSound ==
  (pos = 1 /\ calc = "xs" /\ n <= IdealMaxN) => \A val \in [0..(n - 1) -> Vals] : IdealOK(val)
=============================================================================
