SPECIFICATION Spec
CONSTANTS
  NMin = 2
  NMax = 6
  IdealMaxN = 4
  Vals = {0, 1, 3}
INVARIANT RelationsWellFormed
INVARIANT Partition
INVARIANT BinMatches
INVARIANT IdealSound
INVARIANT Emit
CHECK_DEADLOCK FALSE
