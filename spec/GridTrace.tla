------------------------------ MODULE GridTrace ------------------------------
(* Trace validation for C14: every record logged by harness/vgrid.cc must satisfy the
   relations of spec/Grid.tla.  One record = one step.

     Table  one table of one calculator with all its queries (ranks share one scale)
     Loss   calc_mean_energy_loss: one pre-step energy, a sweep of step lengths
     Msc    MscStepToGeo / MscStepFromGeo: one true path, its geometrical path, the way back
     Close  last record, carries the number of records before it (truncation guard)

   A failing record prints <<"FAIL", line, what, {<<query index, "C14.<clause>", query>>}>>
   and is not a step of the spec, so the POSTCONDITION prints <<"REJECTED", line, record>>.
   Malformed records (mislabelled class, brackets that do not bracket, missing Close, ...)
   are rejected the same way. *)
EXTENDS Grid, TLC, Json, IOUtils

TraceLog == ndJsonDeserialize(IOEnv.TRACE)

VARIABLES l,     \* next record
          cnt    \* counters
vars == <<l, cnt>>
Rec == TraceLog[l]

CntKeys == {"dev_loss_switch_drop", "dev_loss_negative_rounding", "dev_negative_near_knot", "dev_read_past_end", "read_past_end", "tables", "queries", "clauses", "roundtrips", "mono_ulp_breaks", "xs", "eloss", "range", "invrange",
            "generic", "loss", "loss_steps", "msc", "msc_partial"}
Bump(c, k, d) == [c EXCEPT ![k] = @ + d]

Named(S) == {<<f[1], "C14." \o f[2], f[3]>> : f \in S}

\* ---- Table -------------------------------------------------------------------------
SeqsOK(t) ==
  /\ t.calc \in Calcs /\ t.n >= 2 /\ t.p \in PrimeSet(t.calc, t.n)
  /\ \A f \in {"xk", "yk", "ylo", "yhi", "sk", "slo", "shi", "xnl", "xnh"} : Len(t[f]) = t.n
  /\ SortedBy(t.xk, LAMBDA a, b : a < b)
  /\ \A i \in 1..t.n : /\ t.ylo[i] <= t.yk[i] /\ t.yk[i] <= t.yhi[i]
                       /\ t.slo[i] <= t.sk[i] /\ t.sk[i] <= t.shi[i]
                       /\ t.xnl[i] < t.xk[i] /\ t.xk[i] < t.xnh[i]
  /\ \A i \in 1..(t.n - 1) : t.xnh[i] < t.xnl[i + 1]
  /\ t.calc \in {"range", "invrange"} => TableMonotone(t)
  \* builder realisations: the record's prime index must be the one the spec derives from the
  \* grid DEFINITION and the user's first scaled energy E' (never from what the builder stored)
  /\ t.eplo <= t.ep /\ t.ep <= t.ephi
  /\ t.hasep => (Cardinality(PrimeCandidates(t)) = 1 /\ t.p = ExpectedPrime(t))
  /\ ~t.hasep => t.pb = t.p

QueryFails(t, i) ==
  LET q == t.qs[i] IN
  IF ~ClassOK(t, q) THEN {<<i, "Malformed", q>>}
  ELSE {<<i, nm, q>> : nm \in {m \in Relations(t.calc, t.n, t.p, q.c, q.k) : ~Holds(m, t, q)}}

TableFails(t) ==
  (UNION {QueryFails(t, i) : i \in DOMAIN t.qs})
  \cup (IF t.pb # t.p THEN {<<0, "BuilderPrime", <<"stored", t.pb, "expected", t.p>>>>} ELSE {})
  \cup (IF t.calc \in {"range", "invrange"}
        THEN {<<b[1], "Monotone", <<t.qs[b[1]], t.qs[b[2]]>>>> : b \in MonotoneBreaks(t)}
        ELSE {})
  \cup {<<i, "RoundTrip", t.comp[i]>> : i \in {j \in DOMAIN t.comp : ~RoundTrip(t.comp[j])}}

NClauses(t) ==
  FoldLeft(LAMBDA a, q : a + Cardinality(Relations(t.calc, t.n, t.p, q.c, q.k)), 0, t.qs)

\* failures explained by the named deviations (per-query clauses only)
QueryClauses == {"Finite", "NonNeg", "KnotValue", "KnotScaled", "Continuity", "ContinuityScaled",
                 "Between", "BetweenScaled", "NearKnot", "ClampLast", "ScaledClampLast", "ExtrapRef"}
DevPastEnd(t, fails) == {f \in fails : f[2] \in QueryClauses /\ ReadPastEnd(t, f[3])}
DevNegative(t, fails) == {f \in fails : f[2] = "NonNeg" /\ NegativeNearKnot(t, f[3])}

TTable ==
  /\ Rec.e = "Table"
  /\ SeqsOK(Rec)
  /\ LET fails == TableFails(Rec)
         dpe == DevPastEnd(Rec, fails)
         devs == DevNegative(Rec, fails \ dpe)
         bad == (fails \ dpe) \ devs IN
     /\ IF bad = {} THEN TRUE
        ELSE PrintT(<<"FAIL", l, <<Rec.calc, Rec.real, "n", Rec.n, "p", Rec.p>>, Named(bad)>>) /\ FALSE
     /\ cnt' = Bump(Bump(Bump(Bump(Bump(Bump(Bump(Bump(Bump(cnt, "dev_negative_near_knot", Cardinality(devs)),
                                                      "dev_read_past_end", Cardinality({f[1] : f \in dpe})),
                                                 "tables", 1), "queries", Len(Rec.qs)),
                            "clauses", NClauses(Rec) + Len(Rec.comp)
                                       + (IF Rec.calc \in {"range", "invrange"} THEN 1 ELSE 0)),
                       "roundtrips", Len(Rec.comp)), Rec.calc, Len(Rec.qs)),
                 "mono_ulp_breaks", IF Rec.calc \in {"range", "invrange"}
                                    THEN Cardinality(StrictBreaks(Rec)) ELSE 0),
                 \* informational (F-GRID-1 consequence): queries for which the real UniformGrid::find
                 \* returns the last index, so that the calculator reads value[size]
                 "read_past_end", Cardinality({i \in DOMAIN Rec.qs : Rec.qs[i].pe}))

\* ---- Loss --------------------------------------------------------------------------
LossFails(r) ==
  {<<i, "LossBounds", r.steps[i]>> : i \in {j \in DOMAIN r.steps : ~LossBounds(r, r.steps[j])}}
  \cup {<<i, "LossAtRange", r.steps[i]>> : i \in {j \in DOMAIN r.steps : ~LossAtRange(r, r.steps[j])}}
  \cup {<<b[1], "LossMonotone", <<r.steps[b[1]], r.steps[b[2]]>>>> : b \in LossBreaks(r.steps)}
LossDevs(fails) == {f \in fails : f[2] = "LossMonotone" /\ LossSwitchDrop(f[3][1], f[3][2])}
LossDevsNeg(r, fails) == {f \in fails : f[2] = "LossBounds" /\ LossNegativeRounding(r, f[3])}
TLoss ==
  /\ Rec.e = "Loss"
  /\ Len(Rec.steps) >= 1
  /\ \A i \in DOMAIN Rec.steps : /\ Rec.zero < Rec.steps[i].s /\ Rec.steps[i].s <= Rec.range
                                  /\ Rec.steps[i].fin => Rec.steps[i].l <= Rec.steps[i].lhi
  /\ \E i \in DOMAIN Rec.steps : Rec.steps[i].s = Rec.range       \* the sweep reaches the range
  /\ Rec.zlo <= Rec.zero
  /\ LET fails == LossFails(Rec)
         devs == LossDevs(fails)
         dneg == LossDevsNeg(Rec, fails)
         bad == (fails \ devs) \ dneg IN
     /\ IF bad = {} THEN TRUE
        ELSE PrintT(<<"FAIL", l, <<"loss", Rec.real, Rec.lim>>, Named(bad)>>) /\ FALSE
     /\ cnt' = Bump(Bump(Bump(Bump(Bump(cnt, "loss", 1), "loss_steps", Len(Rec.steps)),
                         "clauses", 2 * Len(Rec.steps) + 1),
                         "dev_loss_switch_drop", IF devs = {} THEN 0 ELSE 1),
                    "dev_loss_negative_rounding", Cardinality(dneg))

\* ---- Msc ---------------------------------------------------------------------------
MscFails(r) ==
  (IF MscGeoLeTrue(r) THEN {} ELSE {<<0, "MscGeoLeTrue", <<r.t, r.g>>>>})
  \cup (IF MscBack(r) THEN {} ELSE {<<0, "MscBack", <<r.t, r.g, r.b>>>>})
  \cup {<<i, "MscPartial", r.gs[i]>> : i \in {j \in DOMAIN r.gs : ~MscPartial(r, r.gs[j])}}
TMsc ==
  /\ Rec.e = "Msc"
  /\ LET bad == MscFails(Rec) IN
     IF bad = {} THEN TRUE
     ELSE PrintT(<<"FAIL", l, <<"msc", Rec.real>>, Named(bad)>>) /\ FALSE
  /\ cnt' = Bump(Bump(Bump(cnt, "msc", 1), "msc_partial", Len(Rec.gs)), "clauses", 2 + Len(Rec.gs))

\* ---- Close -------------------------------------------------------------------------
TClose ==
  /\ Rec.e = "Close"
  /\ l = Len(TraceLog)
  /\ Rec.n = l - 1
  /\ cnt' = cnt

Init == l = 1 /\ cnt = [k \in CntKeys |-> 0]
Next ==
  /\ l <= Len(TraceLog)
  /\ l' = l + 1
  /\ \/ TTable \/ TLoss \/ TMsc \/ TClose
Spec == Init /\ [][Next]_vars

Accepted ==
  LET d == TLCGet("stats").diameter IN
  IF d - 1 = Len(TraceLog) /\ Len(TraceLog) >= 1 /\ TraceLog[Len(TraceLog)].e = "Close" THEN TRUE
  ELSE /\ PrintT(<<"REJECTED", d, IF d <= Len(TraceLog) THEN TraceLog[d] ELSE "no Close record">>)
       /\ FALSE
Report == (l = Len(TraceLog) + 1) => PrintT(<<"SUMMARY", cnt>>)
=============================================================================
