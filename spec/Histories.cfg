SPECIFICATION Spec
CONSTANTS
  Events = {0, 1, 2}
  AbortPoints = {1, 2, 5}
  ThrowPoints = {1, 2}
  MaxLen = 2
  Configs = {"c"}
INVARIANT CleanBeforeRun
INVARIANT Emit
CHECK_DEADLOCK FALSE
