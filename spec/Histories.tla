------------------------------ MODULE Histories ------------------------------
(* C06: event results are a function of (event id, primaries, number of track slots,
   slot-layout policy, physics configuration) -- NOT of the history of the state they run
   on, nor of the re-indexing track order, action timing or status-checker switches.

   This module is the GENERATOR of the quantifier "all histories": a run is a sequence of
   operations on one state, each Run(ev) / Abort(ev, after k iterations, then reset_state) /
   Throw(ev, an exception inside the k-th step, then reset_state) /
   WarmUp, under a configuration.  TLC enumerates every history up to MaxLen over Events x
   AbortPoints x Configs and prints each maximal one as JSON (tools/checks/c06.py collects
   them and the harness executes every one on the real Stepper).

   The abstract model of WHY determinism holds is the `leftover' state: what a finished or
   aborted event may leave behind in the state (per-slot physics/sim scratch, RNG position,
   per-event track counters, initializer queue, secondary stack) and which operation
   re-establishes it.  Invariant CleanBeforeRun: when Run(ev) starts, nothing that Run reads
   was last written by another event -- given reseed (RNG), InitTracks (per-slot state reset on
   initialisation), reset_state after an abort (queue, statuses, counters). *)
EXTENDS Integers, Sequences, FiniteSets, TLC, Json

CONSTANTS Events, AbortPoints, ThrowPoints, MaxLen, Configs

Ops == [op : {"run"}, ev : Events] \cup [op : {"abort"}, ev : Events, k : AbortPoints]
       \cup [op : {"throw"}, ev : Events, k : ThrowPoints] \cup [op : {"warmup"}]

VARIABLES hist,      \* operations executed so far
          cfg,       \* configuration of this state
          rng,       \* event the RNG streams are seeded for ("none" initially)
          slots,     \* "clean" | "dirty:<ev>"  per-slot leftovers of a finished/aborted event
          queue,     \* "empty" | "pending:<ev>" initializer queue / counters
          mid        \* an event is in flight (only inside Abort)
vars == <<hist, cfg, rng, slots, queue, mid>>

Init == /\ hist = <<>> /\ cfg \in Configs /\ rng = "none" /\ slots = "clean" /\ queue = "empty" /\ mid = FALSE

\* Run(ev): reseed(ev); insert primaries; step to completion.
\* Reads: rng (must be ev's), per-slot state of every slot it initialises (InitTracksExecutor
\* overwrites sim, particle, geo, and resets physics state => dirty leftovers are never read),
\* queue (must be empty: a pending initializer of another event would be transported too).
Run(e) ==
  /\ Len(hist) < MaxLen
  /\ hist' = Append(hist, [op |-> "run", ev |-> e])
  /\ rng' = e                       \* reseed_rng(event id): depends only on (seed, event, slot)
  /\ slots' = "dirty"               \* finished tracks leave scratch behind (inactive slots)
  /\ queue' = "empty"               \* a completed event drains the queue
  /\ UNCHANGED <<cfg, mid>>
Abort(e, k) ==
  /\ Len(hist) < MaxLen
  /\ hist' = Append(hist, [op |-> "abort", ev |-> e, k |-> k])
  /\ rng' = e
  /\ slots' = "dirty" /\ queue' = "empty"   \* reset_state(): statuses inactive, counters and queue cleared
  /\ UNCHANGED <<cfg, mid>>
\* Throw(e, k): a user step action throws INSIDE the k-th step of event e (k = 1: inside the very step that
\* initialises the primaries, when the end-of-step counters still describe the state before the event);
\* the driver catches the exception and calls reset_state().  Same abstract effect as Abort -- which is
\* exactly the claim: reset_state must not depend on where inside a step the event was abandoned.
Throw(e, k) ==
  /\ Len(hist) < MaxLen
  /\ hist' = Append(hist, [op |-> "throw", ev |-> e, k |-> k])
  /\ rng' = e
  /\ slots' = "dirty" /\ queue' = "empty"
  /\ UNCHANGED <<cfg, mid>>
\* Stepper::warm_up is only legal while the "active tracks at the start of the last step" counter
\* is zero: on a fresh state or after reset_state (it stays non-zero after a completed event)
WarmUp ==
  /\ Len(hist) < MaxLen
  /\ LET lastRun == {i \in DOMAIN hist : hist[i].op = "run"}
         lastAbort == {i \in DOMAIN hist : hist[i].op \in {"abort", "throw"}}
     IN \A i \in lastRun : \E j \in lastAbort : j > i
  /\ hist' = Append(hist, [op |-> "warmup"])
  /\ UNCHANGED <<cfg, rng, slots, queue, mid>>

Next == (\E e \in Events : Run(e)) \/ (\E e \in Events, k \in AbortPoints : Abort(e, k))
        \/ (\E e \in Events, k \in ThrowPoints : Throw(e, k)) \/ WarmUp
Spec == Init /\ [][Next]_vars

\* whenever an operation could start, the queue is empty (nothing of another event is pending)
CleanBeforeRun == queue = "empty" /\ mid = FALSE

\* emit every maximal history exactly once (state constraint evaluated on each new state)
Emit == Len(hist) = MaxLen => PrintT(<<"HISTORY", ToJson([cfg |-> cfg, ops |-> hist])>>)
=============================================================================
