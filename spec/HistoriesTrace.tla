--------------------------- MODULE HistoriesTrace ---------------------------
(* Trace validation for C06 (and the serial-equivalence half of C07): every Obs record is an
   observation "event key K produced step stream S"; the spec keeps the first stream seen
   for each key and requires every later one -- in any history, under any re-indexing
   order / action_times / status-checker configuration, on any stream/thread -- to be
   identical, element by element (bit tokens). *)
EXTENDS Integers, Sequences, FiniteSets, TLC, Json, IOUtils

TraceLog == ndJsonDeserialize(IOEnv.TRACE)
N == Len(TraceLog)
VARIABLES l, digest, viol, stat, cur
vars == <<l, digest, viol, stat, cur>>
Rec == TraceLog[l]

KeyOf(r) == <<r.key.ev, r.key.slots, r.key.layout, r.key.fluct, r.key.scale, r.prims>>
\* first index at which two sequences differ (0 if equal)
FirstDiff(a, b) ==
  IF a = b THEN 0
  ELSE LET m == IF Len(a) < Len(b) THEN Len(a) ELSE Len(b)
           D == {i \in 1..m : a[i] # b[i]}
       IN IF D = {} THEN m + 1 ELSE CHOOSE i \in D : \A j \in D : i <= j

ToSetOf(s) == {s[i] : i \in DOMAIN s}
Init == l = 1 /\ digest = <<>> /\ viol = {} /\ cur = <<>>
        /\ stat = [obs |-> 0, keys |-> 0, compared |-> 0, runs |-> 0, aborted |-> 0, steps |-> 0]
TRun == /\ Rec.e = "Run" /\ cur' = Rec
        /\ stat' = [stat EXCEPT !.runs = @ + 1] /\ UNCHANGED <<digest, viol>>
TAborted == /\ Rec.e = "Aborted" /\ stat' = [stat EXCEPT !.aborted = @ + 1] /\ UNCHANGED <<digest, viol, cur>>
TObs ==
  /\ Rec.e = "Obs"
  /\ LET k == KeyOf(Rec) IN
     IF k \in DOMAIN digest
     THEN /\ digest' = digest
          /\ LET d == FirstDiff(digest[k].stream, Rec.stream) IN
             viol' = IF d = 0 THEN viol
                     ELSE viol \cup {[clause |-> "C06.Deterministic", rec |-> l, run |-> Rec.run, ev |-> Rec.key.ev,
                                      firstdiff |-> d, firstrun |-> digest[k].run,
                                      step |-> (d - 1) \div 26]}
          /\ stat' = [stat EXCEPT !.obs = @ + 1, !.compared = @ + 1, !.steps = @ + Rec.nsteps]
     ELSE /\ digest' = [x \in (DOMAIN digest) \cup {k} |-> IF x = k THEN [stream |-> Rec.stream, run |-> Rec.run] ELSE digest[x]]
          /\ viol' = viol
          /\ stat' = [stat EXCEPT !.obs = @ + 1, !.keys = @ + 1, !.steps = @ + Rec.nsteps]
  /\ UNCHANGED cur
THang == /\ Rec.e = "Hang"
         /\ viol' = viol \cup {[clause |-> "C06.Terminates", rec |-> l, run |-> Rec.run, ev |-> Rec.ev]}
         /\ UNCHANGED <<digest, stat, cur>>
\* tallies accumulated over all streams: a function of the set of events transported
\* (calo: per-detector totals as <<detector, round(E q), round(E q + 1/2)>>: floating-point sums taken in
\* a different order over the streams agree in at least one of the two staggered roundings)
CaloAgree(a, b) == /\ Len(a) = Len(b)
                   /\ \A i \in DOMAIN a : a[i][1] = b[i][1] /\ (a[i][2] = b[i][2] \/ a[i][3] = b[i][3])
TTally ==
  /\ Rec.e = "Tally"
  /\ LET k == <<"tally", Rec.events>> IN
     IF k \in DOMAIN digest
     THEN /\ digest' = digest
          /\ viol' = viol \cup
                (IF ToSetOf(digest[k].stream) = ToSetOf(Rec.actions) THEN {}
                 ELSE {[clause |-> "C07.TalliesSerialEquivalent", rec |-> l, run |-> Rec.run, firstrun |-> digest[k].run]})
                \cup
                (IF CaloAgree(digest[k].calo, Rec.calo) THEN {}
                 ELSE {[clause |-> "C07.CaloSerialEquivalent", rec |-> l, run |-> Rec.run, firstrun |-> digest[k].run]})
     ELSE /\ digest' = [x \in (DOMAIN digest) \cup {k} |->
                          IF x = k THEN [stream |-> Rec.actions, calo |-> Rec.calo, run |-> Rec.run] ELSE digest[x]]
          /\ viol' = viol
  /\ UNCHANGED <<stat, cur>>
TSchedule == Rec.e = "Schedule" /\ UNCHANGED <<digest, viol, stat, cur>>
TClose == Rec.e = "Close" /\ UNCHANGED <<digest, viol, stat, cur>>
Next == l <= N /\ l' = l + 1 /\ (TRun \/ TAborted \/ TObs \/ THang \/ TClose \/ TTally \/ TSchedule)
Spec == Init /\ [][Next]_vars
Accepted ==
  LET d == TLCGet("stats").diameter IN
  IF d - 1 = N /\ TraceLog[N].e = "Close" THEN TRUE
  ELSE PrintT(<<"REJECTED", d, TraceLog[IF d <= N THEN d ELSE N].e>>) /\ FALSE
Report == (l = N + 1) => PrintT(<<"SUMMARY", ToJson([viol |-> viol, stat |-> stat])>>)
=============================================================================
