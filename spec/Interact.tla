------------------------------ MODULE Interact ------------------------------
(* Property C04: "Every discrete interaction conserves energy and yields valid final
   states" -- the abstract Interact action of the stepping loop (CoreLoop!Interact) in
   isolation, as a predicate over ONE call of an interactor:

      given   the incident particle (type, kinetic energy), the production cuts handed to
              the model, the secondary stack (capacity, size before),
      the call returns an outcome
              [act \in {scattered, absorbed, unchanged, failed}, E_out, direction,
               local deposit, secondaries : Seq([type, E, direction])]
      and leaves the stack in a new state.

   The record r is what harness/vinteract.cc observed for one call of a REAL interactor.
   Numbers reach the spec the way DESIGN.md section 0 prescribes:
     * additive ledger: fixed-point quanta (fields Eq, q; quantum = 2^qexp MeV chosen per
       sample such that max(W_in, 1 MeV) <= 2^28 quanta); a sum of n rounded terms is
       checked to +-(n+2)/2 quanta -- the proven bound on the quantisation error;
     * order relations: dense ranks within the record (fields rE, r, rN and the table rk);
       tolerance brackets (v(1-eps), tolerances) are ranked next to the values;
     * oracle-decided residuals (norm of a direction, momentum balance, T_max of a delta
       ray) are computed by the harness from the documented definitions and appear only as
       ranks next to the rank of their tolerance.

   Clauses(r) is the SET OF VIOLATED CLAUSE NAMES (empty = the call is allowed).  The model
   table below states, per model, exactly what that model promises (read off its header):
   which particles may enter and leave, how many secondaries it may reserve, which
   production threshold its secondaries respect, whether it returns all products (momentum
   balance applies) and whether Action::unchanged is a legal outcome. *)
EXTENDS Integers, Sequences, FiniteSets, SequencesExt

Abs(x) == IF x < 0 THEN -x ELSE x
Sum(s) == FoldLeft(LAMBDA a, b : a + b, 0, s)

Particles == {"gamma", "electron", "positron", "mu_minus", "mu_plus", "proton", "neutron"}
Actions == {"scattered", "absorbed", "unchanged", "failed"}

\* generous bound on the number of 32-bit engine words one call may draw
DrawBoundWords == 100000

(* thr: production threshold the model documents for its secondaries
     "none"      no threshold (pair production, annihilation, photo-electron)
     "kn"        KleinNishinaInteractor::secondary_cutoff() (below: deposited locally)
     "cutE"      electron production cut      "cutG"  gamma production cut
     "cutEfloor" min(electron cut, model-internal lowest energy transfer) (Bragg, ICRU73QO)
     "relax"     first secondary (photo-electron) unrestricted; fluorescence photons >= gamma
                 cut, Auger electrons >= electron cut *)
Row(inc, sec, maxres, thr, mom, unch) ==
  [inc |-> inc, sec |-> sec, maxres |-> maxres, thr |-> thr, momentum |-> mom, unchanged |-> unch]

ModelTable ==
  [KleinNishina        |-> Row({"gamma"}, {"electron"}, 1, "kn", TRUE, FALSE),
   LivermorePE         |-> Row({"gamma"}, {"electron", "gamma"}, 1, "relax", FALSE, FALSE),
   Rayleigh            |-> Row({"gamma"}, {}, 0, "none", FALSE, FALSE),
   BetheHeitler        |-> Row({"gamma"}, {"electron", "positron"}, 2, "none", FALSE, FALSE),
   EPlusGG             |-> Row({"positron"}, {"gamma"}, 2, "none", TRUE, FALSE),
   MollerBhabha        |-> Row({"electron", "positron"}, {"electron"}, 1, "cutE", TRUE, FALSE),
   SeltzerBerger       |-> Row({"electron", "positron"}, {"gamma"}, 1, "cutG", FALSE, FALSE),
   RelativisticBrem    |-> Row({"electron", "positron"}, {"gamma"}, 1, "cutG", FALSE, FALSE),
   CombinedBrem        |-> Row({"electron", "positron"}, {"gamma"}, 1, "cutG", FALSE, FALSE),
   CoulombScattering   |-> Row({"electron", "positron"}, {}, 0, "none", FALSE, FALSE),
   MuBetheBloch        |-> Row({"mu_minus", "mu_plus"}, {"electron"}, 1, "cutE", TRUE, TRUE),
   BetheBloch          |-> Row({"mu_minus", "mu_plus", "proton"}, {"electron"}, 1, "cutE", TRUE, TRUE),
   BraggICRU73QO       |-> Row({"mu_minus", "mu_plus", "proton"}, {"electron"}, 1, "cutEfloor", TRUE, TRUE),
   MuBremsstrahlung    |-> Row({"mu_minus", "mu_plus"}, {"gamma"}, 1, "cutG", FALSE, FALSE),
   ChipsNeutronElastic |-> Row({"neutron"}, {}, 0, "none", FALSE, FALSE)]
ModelNames == DOMAIN ModelTable

\* W = T + 2 m_e c^2 [particle is a positron], in quanta (as in CoreLoop)
W(twomq, pt, Eq) == Eq + (IF pt = "positron" THEN twomq ELSE 0)
NPositron(pts) == Cardinality({i \in DOMAIN pts : pts[i] = "positron"})

\* largest number of stack entries one call of the model may reserve
MaxRes(r) == IF r.model = "LivermorePE" THEN 1 + r.maxsec ELSE ModelTable[r.model].maxres

Changed(r) == r.act \in {"scattered", "absorbed"}
RankMin(a, b) == IF a < b THEN a ELSE b

\* rank of the (lower bracket of the) production threshold for secondary number i
ThresholdRank(r, i) ==
  LET kind == ModelTable[r.model].thr
      pt == r.secs[i].pt
  IN CASE kind = "none" -> r.rk.zero
       [] kind = "kn" -> r.rk.kn
       [] kind = "cutE" -> r.rk.cutE
       [] kind = "cutG" -> r.rk.cutG
       [] kind = "cutEfloor" -> RankMin(r.rk.cutE, r.rk.floor)
       [] kind = "relax" -> IF i = 1 THEN r.rk.zero
                            ELSE IF pt = "gamma" THEN r.rk.cutG ELSE r.rk.cutE

-----------------------------------------------------------------------------
(* ---- the clauses ---- *)

\* W_in = W_out + deposit + sum W(secondaries)   (+2mc^2 per positron on either side)
Ledger(r) ==
  Changed(r) =>
    LET w0 == W(r.twomq, r.inc.pt, r.inc.Eq)
        w1 == IF r.act = "scattered" THEN W(r.twomq, r.inc.pt, r.out.Eq) ELSE 0
        wsec == Sum([k \in DOMAIN r.secs |-> W(r.twomq, r.secs[k].pt, r.secs[k].Eq)])
        nterms == 3 + Len(r.secs) + NPositron([k \in DOMAIN r.secs |-> r.secs[k].pt])
                    + (IF r.inc.pt = "positron" THEN 2 ELSE 0)
    IN 2 * Abs(w0 - (w1 + r.dep.q + wsec)) <= nterms + 2

\* an absorbed particle keeps no energy (Interaction::from_absorption)
AbsorbedIsGone(r) == r.act = "absorbed" => (r.out.Eq = 0 /\ r.out.rE = r.rk.zero)

ValidTypes(r) ==
  /\ r.act \in Actions
  /\ r.inc.pt \in ModelTable[r.model].inc
  /\ \A k \in DOMAIN r.secs :
        /\ r.secs[k].pid >= 0 /\ r.secs[k].pid < r.np
        /\ r.secs[k].pt \in ModelTable[r.model].sec

OutEnergyOK(r) == r.out.fin /\ r.out.rE >= r.rk.zero
DepositOK(r) == r.dep.fin /\ r.dep.r >= r.rk.zero
SecEnergiesOK(r) == \A k \in DOMAIN r.secs : r.secs[k].fin /\ r.secs[k].rE >= r.rk.zero
EnergiesFiniteNonNegative(r) == Changed(r) => (OutEnergyOK(r) /\ DepositOK(r) /\ SecEnergiesOK(r))

SecondaryAboveThreshold(r) ==
  Changed(r) => \A k \in DOMAIN r.secs : r.secs[k].rE >= ThresholdRank(r, k)

\* oracle-decided: | ||d|| - 1 | <= 1e-10 for every direction that is handed on
UnitDirections(r) ==
  /\ r.act = "scattered" => (r.out.dfin /\ r.out.rN <= r.rk.ntol)
  /\ Changed(r) => \A k \in DOMAIN r.secs : r.secs[k].dfin /\ r.secs[k].rN <= r.rk.ntol

\* oracle-decided: |p_in - sum p_out| <= 1e-6 max(|p_in|, sum |p_out|), only where the model
\* returns ALL products: nothing deposited locally, no secondary killed by a cut
MomentumApplies(r) ==
  ModelTable[r.model].momentum /\ Changed(r) /\ r.nfalse = 0 /\ r.dep.r = r.rk.zero
Momentum(r) == MomentumApplies(r) => r.rk.mom <= r.rk.momtol

DrawBound(r) == ~r.aborted /\ r.draws <= DrawBoundWords

\* running out of secondary storage: explicit failure, nothing emitted, nothing written
FailureIsExplicit(r) ==
  r.act = "failed" =>
     /\ r.al.after = r.al.before /\ r.al.len = 0 /\ r.al.all_same
     /\ r.secs = <<>> /\ r.nfalse = 0
\* ... and only then: a failure needs a capacity below the model's largest reservation
FailureJustified(r) == r.act = "failed" => r.al.cap - r.al.before < MaxRes(r)

\* success: the stack grows by k >= |span|, the span lies in the newly granted range,
\* unused reserved entries are false (default) secondaries, nothing else is touched
AllocatorContract(r) ==
  r.act # "failed" =>
    LET k == r.al.after - r.al.before
        inSpan(j) == r.al.len > 0 /\ r.al.before + j - 1 >= r.al.off
                                  /\ r.al.before + j - 1 < r.al.off + r.al.len
    IN /\ k >= 0 /\ k >= r.al.len /\ r.al.after <= r.al.cap
       /\ Len(r.al.granted) = k
       /\ r.al.len > 0 => (r.al.off >= r.al.before /\ r.al.off + r.al.len <= r.al.after)
       /\ \A j \in DOMAIN r.al.granted : ~inSpan(j) => r.al.granted[j] = 0
       /\ Cardinality({j \in DOMAIN r.al.granted : inSpan(j) /\ r.al.granted[j] = 1}) = Len(r.secs)
       /\ Cardinality({j \in DOMAIN r.al.granted : inSpan(j) /\ r.al.granted[j] = 0}) = r.nfalse
       /\ r.al.prefix_same /\ r.al.tail_same

\* Action::unchanged carries no state change and is legal only where the model documents
\* it: the maximum transferable energy does not exceed the lowest secondary energy
UnchangedIsLegal(r) ==
  r.act = "unchanged" =>
     /\ ModelTable[r.model].unchanged
     /\ r.secs = <<>> /\ r.al.len = 0 /\ r.nfalse = 0
     /\ r.dep.q = 0 /\ r.dep.r = r.rk.zero
     /\ r.rk.tmaxlo >= 0 /\ r.rk.tmaxlo <= r.rk.thrU

Named(ok, name) == IF ok THEN {} ELSE {name}

Clauses(r) ==
  IF r.aborted THEN {"C04.DrawBound"}      \* the call never returned a result
  ELSE IF r.act \notin Actions THEN {"C04.ValidTypes"}
  ELSE
       Named(Ledger(r), "C04.Ledger")
  \cup Named(AbsorbedIsGone(r), "C04.AbsorbedIsGone")
  \cup Named(ValidTypes(r), "C04.ValidTypes")
  \cup Named(EnergiesFiniteNonNegative(r), "C04.EnergiesFiniteNonNegative")
  \cup Named(SecondaryAboveThreshold(r), "C04.SecondaryAboveThreshold")
  \cup Named(UnitDirections(r), "C04.UnitDirections")
  \cup Named(Momentum(r), "C04.Momentum")
  \cup Named(DrawBound(r), "C04.DrawBound")
  \cup Named(FailureIsExplicit(r), "C04.FailureIsExplicit")
  \cup Named(FailureJustified(r), "C04.FailureJustified")
  \cup Named(AllocatorContract(r), "C04.AllocatorContract")
  \cup Named(UnchangedIsLegal(r), "C04.UnchangedIsLegal")

-----------------------------------------------------------------------------
(* ---- named deviations (known findings): exactly scoped, counted, never hidden ----
   Each deviation has a scope predicate over the record and the set of clauses it may
   explain.  A violating record is explained iff its violated set is covered by the
   deviations whose scope it is in; anything else is a VIOLATION. *)

\* F-PHYS-1: EPlusGGInteractor in flight computes the direction of the second photon from
\* the incident kinetic energy instead of the first photon's momentum.  Scope: model
\* EPlusGG, E_in > 0, and the momentum balance closes once the LAST secondary is pointed
\* along p_in - p_1 (momfix): only that direction is wrong.
DevEPlusGG(r) ==
  r.model = "EPlusGG" /\ r.inc.rE > r.rk.zero /\ r.rk.momfix <= r.rk.momtol

\* Bhabha, incident energy within 1e-8 (relative) of the electron production cut: the delta
\* ray takes the whole energy, cos(theta) rounds above 1 and both directions are NaN.
DevBhabhaNearCut(r) ==
  /\ r.model = "MollerBhabha" /\ r.inc.pt = "positron"
  /\ r.rk.cutEhi >= 0 /\ r.inc.rE <= r.rk.cutEhi

\* Seltzer-Berger sampling (SB / combined brems), incident energy within 1e-8 (relative) of
\* the gamma production cut: the photon energy rounds above the incident energy and the
\* outgoing kinetic energy is negative by less than half a quantum (|E_out| < 2^-29 scale).
DevBremNearCutNegative(r) ==
  /\ r.model \in {"SeltzerBerger", "CombinedBrem"}
  /\ r.rk.cutGhi >= 0 /\ r.inc.rE <= r.rk.cutGhi
  /\ r.out.fin /\ r.out.Eq = 0 /\ DepositOK(r) /\ SecEnergiesOK(r)

\* Seltzer-Berger sampling for POSITRONS, incident energy within 1e-3 (relative) of the
\* gamma production cut: the positron correction factor makes the rejection loop accept with
\* vanishing probability; the number of draws grows without bound as E -> cut.
DevPositronBremSlow(r) ==
  /\ r.model \in {"SeltzerBerger", "CombinedBrem"} /\ r.inc.pt = "positron"
  /\ r.rk.cutGhi3 >= 0 /\ r.inc.rE <= r.rk.cutGhi3

\* corecel rotate(dir, rot): for 0 < sin(theta_rot) < 0.005 (double) the azimuth of rot is
\* rebuilt as sinphi = sqrt(1 - cosphi^2) >= 0, which drops the sign of rot[Y]; for an
\* incident direction that close to the z axis with a negative y component every sampled
\* exiting direction (ExitingDirectionSampler) is rotated about the mirrored axis, so the
\* scattering angle is off by up to 2 sin(theta_rot) and momentum is not conserved.
\* (Repaired in /repo by 1ce46c5; the disjunct stays so that a recurrence is named -- and,
\* having no known-finding entry, is a VIOLATION.)  Not in scope when the sample is already
\* fully explained by F-PHYS-1 or when a direction is NaN (rotate never produces NaN).
DevRotateNearPole(r) ==
  /\ r.rk.sinth > r.rk.zero /\ r.rk.sinth < r.rk.sinthmin /\ ~r.ypos
  /\ ~DevEPlusGG(r)
  /\ r.out.dfin /\ \A k \in DOMAIN r.secs : r.secs[k].dfin

Deviations(r) ==
  (IF ~r.aborted /\ DevEPlusGG(r)
      THEN {[name |-> "EPlusGGInFlightSecondPhotonDirection", covers |-> {"C04.Momentum"}]} ELSE {})
  \cup (IF ~r.aborted /\ DevBhabhaNearCut(r)
      THEN {[name |-> "BhabhaNearCutNaNDirection", covers |-> {"C04.UnitDirections", "C04.Momentum"}]} ELSE {})
  \cup (IF ~r.aborted /\ DevBremNearCutNegative(r)
      THEN {[name |-> "BremNearCutNegativeEnergy", covers |-> {"C04.EnergiesFiniteNonNegative"}]} ELSE {})
  \cup (IF ~r.aborted /\ DevRotateNearPole(r)
      THEN {[name |-> "RotateNearPoleNegativeY", covers |-> {"C04.Momentum"}]} ELSE {})
  \cup (IF DevPositronBremSlow(r)
      THEN {[name |-> "PositronBremNearCutSlowRejection", covers |-> {"C04.DrawBound"}]} ELSE {})

\* names of the deviations that explain (part of) the violated set V of record r
Explaining(r, V) == {d.name : d \in {e \in Deviations(r) : e.covers \cap V # {}}}
Explained(r, V) == V \subseteq UNION {d.covers : d \in Deviations(r)}
=============================================================================
