SPECIFICATION Spec
INVARIANT GoodAccepted
INVARIANT FaultsCaught
INVARIANT DeviationsScoped
INVARIANT LivermoreReserve
CHECK_DEADLOCK FALSE
INVARIANT Report
