----------------------------- MODULE InteractMC -----------------------------
(* Design check (vacuity guard) of Interact.tla: TLC enumerates, for every model of the
   table, every incident type, every legal action and 0..MaxRes secondaries, a canonical
   GOOD outcome (ledger closes exactly in quanta, ranks in order) and checks that no clause
   fires; then it applies each of a list of single-fault perturbations and checks that
   EXACTLY the expected clause(s) fire.  On the real code every clause is green, so this is
   what shows that each clause can fail and is attributed correctly.  The scoping of the named
   deviations is checked the same way. *)
EXTENDS Interact, TLC

Twom == 7
Z == 1        \* rank of 0.0 in the synthetic records (so that rank 0 is "negative")

SecTypes(m, k) ==
  LET S == ModelTable[m].sec
      a == IF "electron" \in S THEN "electron" ELSE "gamma"
      b == IF "positron" \in S THEN "positron" ELSE IF "gamma" \in S THEN "gamma" ELSE a
  IN [i \in 1..k |-> IF i = 1 THEN a ELSE b]

Good(m, ipt, act, k, maxsec) ==
  LET T == ModelTable[m]
      changed == act \in {"scattered", "absorbed"}
      pts == SecTypes(m, IF changed THEN k ELSE 0)
      w0 == W(Twom, ipt, 1000)
      wsec == Sum([i \in DOMAIN pts |-> W(Twom, pts[i], 100)])
      \* absorbed: the rest goes to the local deposit -- or, for a model that returns all
      \* products (momentum balance), into the last secondary
      allsec == act = "absorbed" /\ T.momentum /\ Len(pts) > 0
      depq == IF act = "absorbed" THEN (IF allsec THEN 0 ELSE w0 - wsec)
              ELSE IF act = "scattered" /\ ~T.momentum THEN 50 ELSE 0
      secq(i) == IF allsec /\ i = Len(pts) THEN 100 + (w0 - wsec) ELSE 100
      outq == IF act = "scattered" THEN w0 - wsec - depq - (IF ipt = "positron" THEN Twom ELSE 0) ELSE 0
      n == Len(pts)
      before == 1
  IN [model |-> m, var |-> m, k |-> 0, act |-> act, aborted |-> FALSE, draws |-> 10, np |-> 7,
      maxsec |-> maxsec, twomq |-> Twom, nfalse |-> 0, ypos |-> TRUE,
      inc |-> [pt |-> ipt, Eq |-> 1000, rE |-> 12],
      out |-> [Eq |-> outq, rE |-> (IF act = "scattered" THEN 9 ELSE Z), fin |-> TRUE, dfin |-> TRUE, rN |-> Z],
      dep |-> [q |-> depq, r |-> (IF depq = 0 THEN Z ELSE 8), fin |-> TRUE],
      secs |-> [i \in DOMAIN pts |-> [pt |-> pts[i], pid |-> 1, Eq |-> secq(i), rE |-> 7, fin |-> TRUE,
                                      dfin |-> TRUE, rN |-> Z]],
      al |-> [cap |-> (IF act = "failed" THEN before ELSE 12), before |-> before,
              after |-> before + n, off |-> (IF n > 0 THEN before ELSE -1), len |-> n,
              granted |-> [i \in 1..n |-> 1], prefix_same |-> TRUE, tail_same |-> TRUE,
              all_same |-> (n = 0)],
      rk |-> [zero |-> Z, ntol |-> 3, mom |-> 2, momfix |-> 2, momtol |-> 3, cutE |-> 5, cutG |-> 5,
              kn |-> 5, floor |-> 4, cutEhi |-> 6, cutGhi |-> 6, cutGhi3 |-> 6, tmaxlo |-> 2, thrU |-> 4,
              sinth |-> 11, sinthmin |-> 10]]

Acts(m) == {"scattered", "absorbed"} \cup (IF ModelTable[m].maxres > 0 THEN {"failed"} ELSE {})
            \cup (IF ModelTable[m].unchanged THEN {"unchanged"} ELSE {})
Cases == {<<m, ipt, act, k>> : m \in ModelNames, ipt \in Particles, act \in Actions, k \in 0..2}
Legal(c) == /\ c[2] \in ModelTable[c[1]].inc /\ c[3] \in Acts(c[1])
            /\ c[4] <= ModelTable[c[1]].maxres
            /\ (c[4] > 0 => ModelTable[c[1]].sec # {})
            /\ (c[3] \notin {"scattered", "absorbed"} => c[4] = 0)
LegalCases == {c \in Cases : Legal(c)}
G(c) == Good(c[1], c[2], c[3], c[4], 0)

Foreign(m) == CHOOSE p \in {"neutron", "proton", "mu_minus"} : p \notin ModelTable[m].sec

(* perturbations: <<name, applicable(c), perturbed record, expected violated set>> *)
Faults(c) ==
  LET r == G(c)
      m == c[1]
      T == ModelTable[m]
      changed == c[3] \in {"scattered", "absorbed"}
      hasSec == changed /\ c[4] > 0
      momOn == T.momentum /\ changed /\ r.dep.r = Z
      thrIdx == IF T.thr = "relax" THEN 2 ELSE 1
  IN
  (IF changed THEN {<<"leak",
        IF c[3] = "scattered" THEN [r EXCEPT !.out.Eq = @ - 8] ELSE [r EXCEPT !.dep.q = @ - 8],
        {"C04.Ledger"}>>} ELSE {})
  \cup (IF changed THEN {<<"surplus",
        IF c[3] = "scattered" THEN [r EXCEPT !.out.Eq = @ + 8] ELSE [r EXCEPT !.dep.q = @ + 8],
        {"C04.Ledger"}>>} ELSE {})
  \cup (IF hasSec THEN {<<"foreign secondary", [r EXCEPT !.secs[1].pt = Foreign(m)],
        {"C04.ValidTypes"} \cup (IF r.secs[1].pt = "positron" THEN {"C04.Ledger"} ELSE {})>>} ELSE {})
  \cup (IF hasSec THEN {<<"undefined particle id", [r EXCEPT !.secs[1].pid = 7], {"C04.ValidTypes"}>>} ELSE {})
  \cup (IF changed /\ c[4] >= thrIdx /\ T.thr # "none"
        THEN {<<"below threshold", [r EXCEPT !.secs[thrIdx].rE = 2], {"C04.SecondaryAboveThreshold"}>>} ELSE {})
  \cup (IF hasSec THEN {<<"NaN secondary direction", [r EXCEPT !.secs[1].dfin = FALSE], {"C04.UnitDirections"}>>} ELSE {})
  \cup (IF hasSec THEN {<<"secondary direction not unit", [r EXCEPT !.secs[1].rN = 4], {"C04.UnitDirections"}>>} ELSE {})
  \cup (IF c[3] = "scattered" THEN {<<"outgoing direction not unit", [r EXCEPT !.out.rN = 4], {"C04.UnitDirections"}>>} ELSE {})
  \cup (IF changed THEN {<<"momentum residual", [r EXCEPT !.rk.mom = 4],
        IF momOn THEN {"C04.Momentum"} ELSE {}>>} ELSE {})
  \cup (IF hasSec THEN {<<"negative secondary energy", [r EXCEPT !.secs[1].rE = 0],
        {"C04.EnergiesFiniteNonNegative", "C04.SecondaryAboveThreshold"}>>} ELSE {})
  \cup (IF changed THEN {<<"non-finite deposit", [r EXCEPT !.dep.fin = FALSE], {"C04.EnergiesFiniteNonNegative"}>>} ELSE {})
  \cup (IF c[3] = "scattered" THEN {<<"negative outgoing energy", [r EXCEPT !.out.rE = 0],
        {"C04.EnergiesFiniteNonNegative"}>>} ELSE {})
  \cup (IF c[3] = "absorbed" THEN {<<"absorbed keeps energy", [r EXCEPT !.out.Eq = 5, !.out.rE = 6],
        {"C04.AbsorbedIsGone"}>>} ELSE {})
  \cup {<<"too many draws", [r EXCEPT !.draws = DrawBoundWords + 1], {"C04.DrawBound"}>>}
  \cup {<<"aborted", [r EXCEPT !.aborted = TRUE], {"C04.DrawBound"}>>}
  \cup (IF c[3] = "failed" THEN {<<"failure leaves the stack grown", [r EXCEPT !.al.after = @ + 1, !.al.granted = <<0>>],
        {"C04.FailureIsExplicit"}>>} ELSE {})
  \cup (IF c[3] = "failed" THEN {<<"failure wrote an entry", [r EXCEPT !.al.all_same = FALSE],
        {"C04.FailureIsExplicit"}>>} ELSE {})
  \cup (IF c[3] = "failed" THEN {<<"failure with room", [r EXCEPT !.al.cap = r.al.before + T.maxres],
        {"C04.FailureJustified"}>>} ELSE {})
  \cup (IF hasSec THEN {<<"span before the grant", [r EXCEPT !.al.off = @ - 1], {"C04.AllocatorContract"}>>} ELSE {})
  \cup (IF hasSec THEN {<<"stack did not grow", [r EXCEPT !.al.after = r.al.before, !.al.granted = <<>>],
        {"C04.AllocatorContract"}>>} ELSE {})
  \cup (IF changed THEN {<<"older entry overwritten", [r EXCEPT !.al.prefix_same = FALSE], {"C04.AllocatorContract"}>>} ELSE {})
  \cup (IF changed THEN {<<"beyond capacity", [r EXCEPT !.al.cap = r.al.after - 1],
        IF r.al.after - 1 >= r.al.before THEN {"C04.AllocatorContract"} ELSE {"C04.AllocatorContract"}>>} ELSE {})
  \cup (IF hasSec THEN {<<"unused reserved entry is a true secondary",
        [r EXCEPT !.al.after = @ + 1, !.al.granted = Append(@, 1)],
        {"C04.AllocatorContract"}>>} ELSE {})
  \cup (IF c[3] = "unchanged" THEN {<<"unchanged although transfer possible", [r EXCEPT !.rk.tmaxlo = 5],
        {"C04.UnchangedIsLegal"}>>} ELSE {})
  \cup (IF c[3] = "unchanged" THEN {<<"unchanged with deposit", [r EXCEPT !.dep.q = 3, !.dep.r = 8],
        {"C04.UnchangedIsLegal"}>>} ELSE {})
  \cup (IF ~T.unchanged /\ c[3] = "scattered" /\ c[4] = 0
        THEN {<<"unchanged from a model that never documents it",
                [r EXCEPT !.act = "unchanged", !.dep.q = 0, !.dep.r = Z], {"C04.UnchangedIsLegal"}>>} ELSE {})
  \cup (IF hasSec THEN {<<"unused reserved false entry is fine",
        [r EXCEPT !.al.after = @ + 1, !.al.granted = Append(@, 0)],
        IF m = "LivermorePE" \/ TRUE THEN {} ELSE {}>>} ELSE {})
  \cup (IF hasSec /\ T.thr = "kn" /\ c[3] = "scattered" THEN {<<"cut electron becomes a false entry and a deposit",
        [r EXCEPT !.secs = <<>>, !.nfalse = 1, !.al.granted = <<0>>, !.dep.q = 100, !.dep.r = 8,
                  !.rk.mom = 4],            \* momentum balance is NOT claimed then
        {}>>} ELSE {})

(* scoping of the named deviations *)
DevFacts ==
  LET ep == Good("EPlusGG", "positron", "absorbed", 2, 0)
      epBad == [ep EXCEPT !.rk.mom = 4]
      bh == Good("MollerBhabha", "positron", "scattered", 1, 0)
      sb == Good("SeltzerBerger", "positron", "scattered", 1, 0)
      kn == Good("KleinNishina", "gamma", "scattered", 1, 0)
  IN
  /\ Clauses(epBad) = {"C04.Momentum"} /\ Explained(epBad, Clauses(epBad))
  /\ Explaining(epBad, Clauses(epBad)) = {"EPlusGGInFlightSecondPhotonDirection"}
  \* at rest (E_in = 0), or when something else than photon 2's direction is wrong: not explained
  /\ ~Explained([epBad EXCEPT !.inc.rE = Z], {"C04.Momentum"})
  /\ ~Explained([epBad EXCEPT !.rk.momfix = 4], {"C04.Momentum"})
  /\ ~Explained(epBad, {"C04.Momentum", "C04.Ledger"})
  \* a momentum failure of any other model is not explained
  /\ ~Explained([kn EXCEPT !.rk.mom = 4], {"C04.Momentum"})
  /\ Explained([kn EXCEPT !.rk.mom = 4, !.rk.sinth = 2, !.ypos = FALSE], {"C04.Momentum"})
  /\ ~Explained([kn EXCEPT !.rk.mom = 4, !.rk.sinth = 2, !.ypos = TRUE], {"C04.Momentum"})
  /\ ~Explained([kn EXCEPT !.rk.mom = 4, !.rk.sinth = Z, !.ypos = FALSE], {"C04.Momentum"})
  \* Bhabha: only with E_in at the cut; Moller never
  /\ ~Explained(bh, {"C04.UnitDirections"})
  /\ Explained([bh EXCEPT !.inc.rE = 6], {"C04.UnitDirections", "C04.Momentum"})
  /\ ~Explained([bh EXCEPT !.inc.rE = 6, !.inc.pt = "electron"], {"C04.UnitDirections"})
  /\ ~Explained([bh EXCEPT !.inc.rE = 6], {"C04.Ledger"})
  \* brems near the cut
  /\ ~Explained(sb, {"C04.EnergiesFiniteNonNegative"})
  /\ Explained([sb EXCEPT !.inc.rE = 6, !.out.Eq = 0, !.out.rE = 0], {"C04.EnergiesFiniteNonNegative"})
  /\ ~Explained([sb EXCEPT !.inc.rE = 6, !.out.Eq = -3, !.out.rE = 0], {"C04.EnergiesFiniteNonNegative"})
  /\ Explained([sb EXCEPT !.inc.rE = 6, !.aborted = TRUE], {"C04.DrawBound"})
  /\ ~Explained([sb EXCEPT !.inc.rE = 6, !.inc.pt = "electron", !.aborted = TRUE], {"C04.DrawBound"})
  /\ ~Explained([sb EXCEPT !.aborted = TRUE], {"C04.DrawBound"})

CaseSeq == SetToSeq(LegalCases)
VARIABLES i, nfaults      \* i: next case to examine (one state per case: linear state graph)
vars == <<i, nfaults>>
Init == i = 1 /\ nfaults = 0
Next == /\ i <= Len(CaseSeq)
        /\ i' = i + 1
        /\ nfaults' = nfaults + Cardinality(Faults(CaseSeq[i]))
Spec == Init /\ [][Next]_vars

\* the canonical outcome of the case under examination is accepted, and every fault applied
\* to it is caught by exactly the expected clauses
Here == IF i <= Len(CaseSeq) THEN {CaseSeq[i]} ELSE {}
GoodAccepted == \A c \in Here : Clauses(G(c)) = {}
FaultsCaught == \A c \in Here : \A f \in Faults(c) :
                   \/ Clauses(f[2]) = f[3]
                   \/ (PrintT(<<"UNEXPECTED", c, f[1], Clauses(f[2]), f[3]>>) /\ FALSE)
Report == (i = Len(CaseSeq) + 1) => PrintT(<<"SUMMARY", "cases", Len(CaseSeq), "faults", nfaults>>)
DeviationsScoped == DevFacts
\* Livermore with relaxation: may reserve 1 + maxsec and return fewer
LivermoreReserve ==
  LET r == Good("LivermorePE", "gamma", "absorbed", 1, 7)
      wide == [r EXCEPT !.al.after = r.al.before + 8, !.al.granted = <<1, 0, 0, 0, 0, 0, 0, 0>>]
  IN /\ Clauses(wide) = {}
     /\ Clauses([wide EXCEPT !.act = "failed", !.secs = <<>>, !.al.after = r.al.before, !.al.len = 0,
                             !.al.off = -1, !.al.granted = <<>>, !.al.all_same = TRUE,
                             !.al.cap = r.al.before + 7, !.dep.q = 0]) = {}
     /\ Clauses([wide EXCEPT !.act = "failed", !.secs = <<>>, !.al.after = r.al.before, !.al.len = 0,
                             !.al.off = -1, !.al.granted = <<>>, !.al.all_same = TRUE,
                             !.al.cap = r.al.before + 8, !.dep.q = 0]) = {"C04.FailureJustified"}
=============================================================================
