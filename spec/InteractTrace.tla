--------------------------- MODULE InteractTrace ---------------------------
(* Trace validation for C04: every record logged by harness/vinteract.cc (one call of a real
   interactor per record) is judged by Interact!Clauses.  The whole trace is always examined:
   violated clauses are accumulated in `viol` (first occurrence per <<clause, variant>> with
   the sample number, plus counts); records explained by a named deviation (known finding)
   are COUNTED in `dev`, never hidden.  Structural problems (no Config first, unknown model,
   missing Close, a Hang record in the middle) reject the trace outright. *)
EXTENDS Interact, TLC, Json, IOUtils

TraceLog == ndJsonDeserialize(IOEnv.TRACE)
N == Len(TraceLog)

VARIABLES l,      \* next record
          pc,     \* "config" | "run" | "closed"
          viol,   \* set of [clause, var, k]: first violating sample per <<clause, variant>>
          nviol,  \* number of violating (unexplained) samples
          dev,    \* set of [name, n, k]: per named deviation, hits and first sample
          stat    \* counters
vars == <<l, pc, viol, nviol, dev, stat>>

Rec == TraceLog[l]

Init ==
  /\ l = 1 /\ pc = "config" /\ viol = {} /\ nviol = 0 /\ dev = {}
  /\ stat = [samples |-> 0, scattered |-> 0, absorbed |-> 0, unchanged |-> 0, failed |-> 0,
             aborted |-> 0, secondaries |-> 0, falsesec |-> 0, hangs |-> 0, momchecked |-> 0]

TConfig ==
  /\ pc = "config" /\ Rec.e = "Config"
  /\ ToSet(Rec.parts) = Particles
  /\ pc' = "run"
  /\ UNCHANGED <<viol, nviol, dev, stat>>

DevBump(names, k) ==
  {d \in dev : d.name \notin names}
  \cup {[name |-> n,
         n |-> (IF \E d \in dev : d.name = n THEN (CHOOSE d \in dev : d.name = n).n ELSE 0) + 1,
         k |-> (IF \E d \in dev : d.name = n THEN (CHOOSE d \in dev : d.name = n).k ELSE k)]
        : n \in names}

TSample ==
  /\ pc = "run" /\ Rec.e = "Sample"
  /\ Rec.model \in ModelNames
  /\ LET V == Clauses(Rec)
         explained == V # {} /\ Explained(Rec, V)
         fresh == {c \in V : ~\E v \in viol : v.clause = c /\ v.var = Rec.var}
     IN
     /\ IF V = {} THEN UNCHANGED <<viol, nviol, dev>>
        ELSE IF explained
             THEN dev' = DevBump(Explaining(Rec, V), Rec.k) /\ UNCHANGED <<viol, nviol>>
             ELSE /\ viol' = viol \cup {[clause |-> c, var |-> Rec.var, k |-> Rec.k] : c \in fresh}
                  /\ nviol' = nviol + 1
                  /\ UNCHANGED dev
     /\ stat' = [stat EXCEPT
                   !.samples = @ + 1,
                   !.scattered = @ + (IF ~Rec.aborted /\ Rec.act = "scattered" THEN 1 ELSE 0),
                   !.absorbed = @ + (IF ~Rec.aborted /\ Rec.act = "absorbed" THEN 1 ELSE 0),
                   !.unchanged = @ + (IF ~Rec.aborted /\ Rec.act = "unchanged" THEN 1 ELSE 0),
                   !.failed = @ + (IF ~Rec.aborted /\ Rec.act = "failed" THEN 1 ELSE 0),
                   !.aborted = @ + (IF Rec.aborted THEN 1 ELSE 0),
                   !.secondaries = @ + Len(Rec.secs),
                   !.falsesec = @ + Rec.nfalse,
                   !.momchecked = @ + (IF ~Rec.aborted /\ Rec.act \in Actions /\ MomentumApplies(Rec)
                                       THEN 1 ELSE 0)]
  /\ UNCHANGED pc

\* a call that neither returned nor drew random numbers within the watchdog period: the
\* harness stops; this is the unbounded-loop outcome of the property
THang ==
  /\ pc = "run" /\ Rec.e = "Hang"
  /\ viol' = viol \cup {[clause |-> "C04.DrawBound", var |-> "hang", k |-> Rec.k]}
  /\ nviol' = nviol + 1
  /\ stat' = [stat EXCEPT !.hangs = @ + 1]
  /\ pc' = "closed"
  /\ UNCHANGED dev

TClose ==
  /\ pc = "run" /\ Rec.e = "Close"
  /\ Rec.n = stat.samples
  /\ pc' = "closed"
  /\ UNCHANGED <<viol, nviol, dev, stat>>

Next ==
  /\ l <= N /\ l' = l + 1
  /\ \/ TConfig \/ TSample \/ THang \/ TClose
Spec == Init /\ [][Next]_vars

Accepted ==
  LET d == TLCGet("stats").diameter IN
  IF d - 1 = N /\ TraceLog[N].e \in {"Close", "Hang"} THEN TRUE
  ELSE /\ PrintT(<<"REJECTED", d, TraceLog[IF d <= N THEN d ELSE N]>>)
       /\ FALSE
\* printed once, at the end of the trace (the invariant itself is always TRUE)
Report == (l = N + 1) =>
   PrintT(<<"SUMMARY", ToJson([viol |-> viol, nviol |-> nviol, dev |-> dev, stat |-> stat])>>)
=============================================================================
