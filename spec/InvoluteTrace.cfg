SPECIFICATION Spec
INVARIANT Report
POSTCONDITION Accepted
CHECK_DEADLOCK FALSE
