--------------------------- MODULE InvoluteTrace ---------------------------
(* Trace validation for C12, involute surfaces (src/orange/surf/Involute.hh,
   detail/InvoluteSolver.hh, detail/InvolutePoint.hh, SurfaceTranslator on an Involute).

   The involute is transcendental: the specification cannot own its numbers (DESIGN.md 0, 2.2).
   harness/vinvolute.cc logs what the REAL code answered; tools/involute_oracle.py, an
   independent implementation of the mathematical definition of the curve (NOT of the solver),
   turns every number into ORACLE-DECIDED FACTS -- ranks, zone brackets, signs, residuals in
   integer quanta -- and this module DECIDES THE CLAUSES of the property from those facts.

   One record per involute (e = "Inv"):
     cw          clockwise chirality;  sgn: sign() returns the constructor's chirality
     pts[i]      sn   the code's calc_sense (-1 inside, 0 on, +1 outside)
                 os   the oracle's sense of the documented region, 0 = abstains (within its
                      margin of a boundary of the region)
                 nw   scoping fact of the named deviation InvoluteSenseNegativeTangentAngle
                 fin nl nz   calc_normal is finite; |n|^2 - 1 in units of 1e-12; n_z = 0 exactly
     rays[j]     st   SurfaceState passed (0 off, 1 on: follow-up queries from a point the code
                      itself reported as an intersection, as a tracker does)
                 par  the direction is exactly parallel to the axis (z)
                 rep[i]   a reported (finite) distance: pos (> 0), k its rank
                 zones[z] the maximal stretches lo..hi (ranks) of the ray within the on-surface
                          tolerance of the curve; nx the number of sign changes of the oracle's
                          surface function found inside; must: exactly one sign change, away
                          from the ends of [tmin, tmax], from the start point (st = 0) or the
                          documented on-surface suppression distance (st = 1), not a shallow
                          contact; forbid (st = 1): nearer than the suppression distance;
                          br: scoping fact of the named deviation InvoluteSolverBracketParity
                 probes[i] for reported distance i of a primary ray: the code's sense a little
                          before and after it (sb, sa), the oracle's (osb, osa, nwb, nwa), flip
                          (an isolated crossing with both probe points decided), and the residuals
                          of calc_normal at the intersection point against the oracle's numerical
                          gradient: ck (checked), nc = |n x g| in units of 1e-7, nd = sign(n . g)
     tr[t]       a translation applied by the CODE (apply_transform -> SurfaceTranslator): inv (the
                 result is an involute), sgn (same chirality), pts[i].sn the code's sense of the
                 translated surface at the translated point, .os the oracle's sense of the
                 ORIGINAL at the original point; swp, os2: scoping of the named deviation
                 InvoluteTranslatorClockwiseAngle
   and a final record e = "Close".  An "Abort" record (exception / crash in the harness), a record
   out of order or a missing Close REJECT the trace.

   Clauses (names are accumulated in viol with the first record and a count):
     C12.InvChirality            sign() round-trips
     C12.InvSense                os # 0 => sn = os           (sense = sign of the surface function)
     C12.InvNormalUnit           the normal is finite, of unit length (1e-11) and n_z = 0
     C12.InvNormalDirection      at an intersection point the normal is parallel to the oracle's
                                 gradient (|n x g| <= 2e-6) and points outward
     C12.InvHitPositive          every reported distance is positive
     C12.InvHitOnSurface         every reported distance lies in a zone (the point there is on the
                                 surface within tolerance)
     C12.InvHitsDistinct         no distance is reported twice
     C12.InvNoMissedCrossing     every `must` crossing is reported (so no nearer crossing than the
                                 first reported one exists)
     C12.InvNoDuplicateCrossing  a `must` crossing is reported once; any other zone at most
                                 max(nx, 2) times
     C12.InvOnSurfaceSuppressed  SurfaceState::on: the crossing at the start point is not reported
     C12.InvAxisParallel         a ray parallel to the axis reports nothing
     C12.InvSenseAtCrossing      the sense before / after a reported crossing is the oracle's
     C12.InvSenseFlips           ... and flips across an isolated crossing
     C12.InvTranslate            the translated surface is an involute of the same chirality whose
                                 sense at the translated point is the original's at the original

   Named deviations (exactly scoped, COUNTED in dev, never hidden; tools/checks/c12.py maps each
   to known_findings.json -- without an entry there it is a VIOLATION):
     InvoluteSolverBracketParity        a `must` crossing is NOT reported and br = 1: the oracle's
         reproduction of the solver's documented bracket sequence puts the crossing in a bracket
         that holds an even number of roots of the line/curve offset (the brackets are built from
         beta = atan(-v/u), but the implemented root function has its extrema at atan(v/u) + k pi,
         so its sign test cannot see them).  br = 0 (exactly this root in its bracket) and not
         reported is a VIOLATION; br = 2 (undecidable: the offset is within 1e-9 rb of zero at
         an end of this or an earlier bracket, so the bracket sequence cannot be reproduced with
         certainty) is tolerated and counted in stat.amb.
     InvoluteSenseNegativeTangentAngle  clockwise involute, the oracle says inside, the code says
         outside, and nw: the tangent angle of the turn that makes the point inside is negative,
         which the code's unwrapping (it only ever ADDS multiples of 2 pi) cannot reach; happens
         only for a stored displacement angle pi - a < 0, i.e. constructor argument a > pi.
     InvoluteTranslatorClockwiseAngle   clockwise involute, the senses of the translated surface
         disagree with the original's, swp: the translated surface stores pi - (stored angle)
         (the translator passes the STORED angle to the constructor, which mirrors it again), and
         every sense agrees with the oracle's involute of that mirrored angle (os2). *)
EXTENDS Integers, Sequences, FiniteSets, TLC, Json, IOUtils, SequencesExt

TraceLog == ndJsonDeserialize(IOEnv.TRACE)
N == Len(TraceLog)

VARIABLES l,      \* next record
          pc,     \* "run" | "closed"
          viol,   \* set of [clause, k (first record), n (records)]
          dev,    \* same shape, named deviations (n counts FACTS, not records)
          stat
vars == <<l, pc, viol, dev, stat>>

Rec == TraceLog[l]

Abs(x) == IF x < 0 THEN -x ELSE x

BumpBy(S, names, amount(_)) ==
  {d \in S : d.clause \notin names}
  \cup {[clause |-> c,
         n |-> (IF \E d \in S : d.clause = c THEN (CHOOSE d \in S : d.clause = c).n ELSE 0) + amount(c),
         k |-> (IF \E d \in S : d.clause = c THEN (CHOOSE d \in S : d.clause = c).k ELSE l)]
        : c \in names}

\* ------------------------------------------------------------------ sense
SenseDev(cw, sn, os, nw) == cw /\ nw /\ os = -1 /\ sn = 1
SenseBad(cw, sn, os, nw) == os # 0 /\ sn # os /\ ~SenseDev(cw, sn, os, nw)

\* ------------------------------------------------------------------ normals
UnitBad(f) == ~f.fin \/ Abs(f.nl) > 10 \/ ~f.nz
DirBad(f) == f.ck /\ (f.nc > 20 \/ f.nd # 1)

\* ------------------------------------------------------------------ rays
InZone(x, z) == x.pos /\ z.lo <= x.k /\ x.k <= z.hi
NIn(ry, z) == Cardinality({i \in DOMAIN ry.rep : InZone(ry.rep[i], z)})
Cap(z) == IF z.nx > 2 THEN z.nx ELSE 2

Missed(ry, z) == z.must /\ NIn(ry, z) = 0
RayBracketDevs(ry) == Cardinality({j \in DOMAIN ry.zones : Missed(ry, ry.zones[j]) /\ ry.zones[j].br = 1})
RayAmb(ry) == Cardinality({j \in DOMAIN ry.zones : Missed(ry, ry.zones[j]) /\ ry.zones[j].br = 2})

ProbeSenseDevs(cw, ry) ==
  Cardinality({i \in DOMAIN ry.probes : SenseDev(cw, ry.probes[i].sb, ry.probes[i].osb, ry.probes[i].nwb)})
  + Cardinality({i \in DOMAIN ry.probes : SenseDev(cw, ry.probes[i].sa, ry.probes[i].osa, ry.probes[i].nwa)})

RayViol(cw, ry) ==
  LET reps == ry.rep
      zs == ry.zones
      ps == ry.probes
  IN
  (IF \E i \in DOMAIN reps : ~reps[i].pos THEN {"C12.InvHitPositive"} ELSE {})
  \cup (IF \E i \in DOMAIN reps : reps[i].pos /\ ~\E j \in DOMAIN zs : InZone(reps[i], zs[j])
        THEN {"C12.InvHitOnSurface"} ELSE {})
  \cup (IF \E i, j \in DOMAIN reps : i < j /\ reps[i].pos /\ reps[j].pos /\ reps[i].k = reps[j].k
        THEN {"C12.InvHitsDistinct"} ELSE {})
  \cup (IF \E j \in DOMAIN zs : Missed(ry, zs[j]) /\ zs[j].br = 0
        THEN {"C12.InvNoMissedCrossing"} ELSE {})
  \cup (IF \E j \in DOMAIN zs : NIn(ry, zs[j]) > (IF zs[j].must THEN 1 ELSE Cap(zs[j]))
        THEN {"C12.InvNoDuplicateCrossing"} ELSE {})
  \cup (IF \E j \in DOMAIN zs : zs[j].forbid /\ NIn(ry, zs[j]) > 0
        THEN {"C12.InvOnSurfaceSuppressed"} ELSE {})
  \cup (IF ry.par /\ Len(reps) > 0 THEN {"C12.InvAxisParallel"} ELSE {})
  \cup (IF \E i \in DOMAIN ps : \/ SenseBad(cw, ps[i].sb, ps[i].osb, ps[i].nwb)
                               \/ SenseBad(cw, ps[i].sa, ps[i].osa, ps[i].nwa)
        THEN {"C12.InvSenseAtCrossing"} ELSE {})
  \cup (IF \E i \in DOMAIN ps : ps[i].flip /\ ~(ps[i].sb # 0 /\ ps[i].sb = -ps[i].sa)
        THEN {"C12.InvSenseFlips"} ELSE {})
  \cup (IF \E i \in DOMAIN ps : UnitBad(ps[i].nrm) THEN {"C12.InvNormalUnit"} ELSE {})
  \cup (IF \E i \in DOMAIN ps : DirBad(ps[i].nrm) THEN {"C12.InvNormalDirection"} ELSE {})

\* ------------------------------------------------------------------ translations
TrAgrees(t) == \A i \in DOMAIN t.pts : t.pts[i].os # 0 => t.pts[i].sn = t.pts[i].os
TrAgreesMirrored(t) == \A i \in DOMAIN t.pts : t.pts[i].os2 # 0 => t.pts[i].sn = t.pts[i].os2
TrDev(cw, t) == t.inv /\ t.sgn /\ ~TrAgrees(t) /\ cw /\ t.swp /\ TrAgreesMirrored(t)
TrBad(cw, t) == ~(t.inv /\ t.sgn /\ TrAgrees(t)) /\ ~TrDev(cw, t)

\* ------------------------------------------------------------------ one record
RecViol(rec) ==
  (IF ~rec.sgn THEN {"C12.InvChirality"} ELSE {})
  \cup (IF \E i \in DOMAIN rec.pts : SenseBad(rec.cw, rec.pts[i].sn, rec.pts[i].os, rec.pts[i].nw)
        THEN {"C12.InvSense"} ELSE {})
  \cup (IF \E i \in DOMAIN rec.pts : UnitBad(rec.pts[i]) THEN {"C12.InvNormalUnit"} ELSE {})
  \cup UNION {RayViol(rec.cw, rec.rays[j]) : j \in DOMAIN rec.rays}
  \cup (IF \E t \in DOMAIN rec.tr : TrBad(rec.cw, rec.tr[t]) THEN {"C12.InvTranslate"} ELSE {})

Sum(seq, f(_)) == FoldLeft(LAMBDA a, x : a + f(x), 0, seq)

RecDevs(rec) ==
  [InvoluteSolverBracketParity |-> Sum(rec.rays, RayBracketDevs),
   InvoluteSenseNegativeTangentAngle |->
       Cardinality({i \in DOMAIN rec.pts : SenseDev(rec.cw, rec.pts[i].sn, rec.pts[i].os, rec.pts[i].nw)})
       + Sum(rec.rays, LAMBDA ry : ProbeSenseDevs(rec.cw, ry)),
   InvoluteTranslatorClockwiseAngle |-> Cardinality({t \in DOMAIN rec.tr : TrDev(rec.cw, rec.tr[t])})]

ZeroStat == [cases |-> 0, sense |-> 0, normals |-> 0, rays |-> 0, onrays |-> 0, hits |-> 0, must |-> 0,
             forbid |-> 0, zones |-> 0, probes |-> 0, flips |-> 0, trsense |-> 0, amb |-> 0, facts |-> 0]

RecStat(rec) ==
  LET nsense == Cardinality({i \in DOMAIN rec.pts : rec.pts[i].os # 0})
      nrays == Len(rec.rays)
      nhits == Sum(rec.rays, LAMBDA ry : Len(ry.rep))
      nmust == Sum(rec.rays, LAMBDA ry : Cardinality({j \in DOMAIN ry.zones : ry.zones[j].must}))
      nforb == Sum(rec.rays, LAMBDA ry : Cardinality({j \in DOMAIN ry.zones : ry.zones[j].forbid}))
      nprob == Sum(rec.rays, LAMBDA ry : Cardinality({i \in DOMAIN ry.probes : ry.probes[i].osb # 0})
                                       + Cardinality({i \in DOMAIN ry.probes : ry.probes[i].osa # 0}))
      nnorm == Len(rec.pts) + Sum(rec.rays, LAMBDA ry : Len(ry.probes))
      ntr == Sum(rec.tr, LAMBDA t : Cardinality({i \in DOMAIN t.pts : t.pts[i].os # 0}))
  IN [cases |-> 1, sense |-> nsense, normals |-> nnorm, rays |-> nrays,
      onrays |-> Cardinality({j \in DOMAIN rec.rays : rec.rays[j].st = 1}),
      hits |-> nhits, must |-> nmust, forbid |-> nforb,
      zones |-> Sum(rec.rays, LAMBDA ry : Len(ry.zones)),
      probes |-> nprob,
      flips |-> Sum(rec.rays, LAMBDA ry : Cardinality({i \in DOMAIN ry.probes : ry.probes[i].flip})),
      trsense |-> ntr, amb |-> Sum(rec.rays, RayAmb),
      \* one fact = one decided sense, one normal, one ray's intersection set, one reported
      \* distance, one must / forbidden zone, one decided probe, one translated sense
      facts |-> nsense + nnorm + nrays + nhits + nmust + nforb + nprob + ntr]

TInv ==
  /\ pc = "run" /\ Rec.e = "Inv"
  /\ LET v == RecViol(Rec)
         d == RecDevs(Rec)
         s == RecStat(Rec)
         dn == {c \in DOMAIN d : d[c] > 0}
     IN /\ viol' = BumpBy(viol, v, LAMBDA c : 1)
        /\ dev' = BumpBy(dev, dn, LAMBDA c : d[c])
        /\ stat' = [f \in DOMAIN stat |-> stat[f] + s[f]]
  /\ pc' = pc

TClose ==
  /\ pc = "run" /\ Rec.e = "Close"
  /\ pc' = "closed"
  /\ UNCHANGED <<viol, dev, stat>>

Init == l = 1 /\ pc = "run" /\ viol = {} /\ dev = {} /\ stat = ZeroStat
Next ==
  /\ l <= N
  /\ l' = l + 1
  /\ \/ TInv \/ TClose
Spec == Init /\ [][Next]_vars

Accepted ==
  LET d == TLCGet("stats").diameter IN
  IF d - 1 = N /\ N > 0 /\ TraceLog[N].e = "Close" THEN TRUE
  ELSE /\ PrintT(<<"REJECTED", d, IF d <= N THEN TraceLog[d] ELSE "missing Close">>)
       /\ FALSE
Report == (l = N + 1) => PrintT(<<"SUMMARY", ToJson([viol |-> viol, dev |-> dev, stat |-> stat])>>)
=============================================================================
