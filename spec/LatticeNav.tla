----------------------------- MODULE LatticeNav -----------------------------
(* C03 / C11, property level (DESIGN.md 4.4).

   Part 1 -- the geometry oracle.  A lattice world (tools/worlds.py, one JSON file named by
   the environment variable WORLD) is a tree of universes whose volumes are unions of
   "box minus boxes" over axis-aligned planes at EVEN integer coordinates, daughters being
   placed with signed-permutation matrices and even translations.  VolPath(q) is TRUE POINT
   LOCATION computed from that definition alone: the sequence of volume names from the
   global universe down to the deepest one.  Points are given in DOUBLED coordinates
   q = 2*pos + dir, so that "pos + eps*dir" (the side of a surface a track on that surface
   is heading to) is representable and never lies on a plane.

   Part 2 -- the navigator protocol as an abstract state machine over records
       [ph, pos, dir, ref, has, nd, nb, ls, ok]
   ph = "I" interior, "Bm" on a boundary not yet crossed (arrival side), "Bp" on a boundary
   after cross_boundary, "Out" left the world.  ref = arrival direction (Bm) / direction at
   the time of crossing (Bp).  <<has, nd, nb>> = the cached next step AS REPORTED (protocol
   preconditions are stated on the reported step), ls = floor of the last reported squared
   safety at this position (-1: none).  Legal(a, r) is the protocol table of DESIGN 4.4 (it
   implies every CELER_EXPECT of OrangeTrackView); Step(a, r) the successor; Clauses(a, r, b)
   the set of violated clause names given the observation r logged by the implementation.
   Once a (hard) clause is violated in a history, the rest of that history is not judged.

   Tracks stop only at all-odd points or on a plane along their direction of flight, move
   along the six axis directions, and on a boundary only turn to +-normal (tangent
   directions are outside the property).  L-NAV-1 (Cross in Bp) is not in the protocol. *)
EXTENDS Integers, Sequences, FiniteSets, TLC, Json, IOUtils

World == JsonDeserialize(IOEnv.WORLD)
Unis == World.universes
U(i) == Unis[i + 1]                       \* universes are numbered from 0, 0 = global
G == U(0)

Zero3 == <<0, 0, 0>>
Neg(v) == <<-v[1], -v[2], -v[3]>>
Add(p, d, t) == <<p[1] + t * d[1], p[2] + t * d[2], p[3] + t * d[3]>>
Q(p, d) == <<2 * p[1] + d[1], 2 * p[2] + d[2], 2 * p[3] + d[3]>>
Dot(a, b) == a[1] * b[1] + a[2] * b[2] + a[3] * b[3]
AbsV(x) == IF x < 0 THEN -x ELSE x
Dirs == {<<1, 0, 0>>, <<-1, 0, 0>>, <<0, 1, 0>>, <<0, -1, 0>>, <<0, 0, 1>>, <<0, 0, -1>>}
AllOdd(p) == \A a \in 1..3 : p[a] % 2 = 1
SetMin(S) == CHOOSE m \in S : \A x \in S : m <= x

(* ------------------------------ point location ------------------------------ *)
InBox2(q, b) == \A a \in 1..3 : 2 * b[1][a] < q[a] /\ q[a] < 2 * b[2][a]
InTerm(q, t) == InBox2(q, t.box) /\ \A k \in DOMAIN t.cut : ~InBox2(q, t.cut[k])
InVol(q, v) == \E k \in DOMAIN v.terms : InTerm(q, v.terms[k])
\* daughter-to-parent is x_p = m x_d + t; going down x_d = m^T (x_p - t)   (doubled: 2t)
MatT(m, v) == <<m[1][1] * v[1] + m[2][1] * v[2] + m[3][1] * v[3],
                m[1][2] * v[1] + m[2][2] * v[2] + m[3][2] * v[3],
                m[1][3] * v[1] + m[2][3] * v[2] + m[3][3] * v[3]>>
Mat(m, v) == <<m[1][1] * v[1] + m[1][2] * v[2] + m[1][3] * v[3],
               m[2][1] * v[1] + m[2][2] * v[2] + m[2][3] * v[3],
               m[3][1] * v[1] + m[3][2] * v[2] + m[3][3] * v[3]>>
Down2(q, f) == MatT(f.m, <<q[1] - 2 * f.t[1], q[2] - 2 * f.t[2], q[3] - 2 * f.t[3]>>)

\* index (1-based) of the grid interval containing q along axis a of an array universe
GridIdx(un, q, a) == Cardinality({j \in DOMAIN un.grid[a] : 2 * un.grid[a][j] < q[a]})
CellOf(un, q) ==
  LET ny == Len(un.grid[2]) - 1
      nz == Len(un.grid[3]) - 1
  IN un.cells[((GridIdx(un, q, 1) - 1) * ny + (GridIdx(un, q, 2) - 1)) * nz + GridIdx(un, q, 3)]

\* local volume (a record with name, u, t, m) of universe u at local doubled point q
LocalVol(u, q) ==
  LET un == U(u) IN
  IF un.kind = "unit"
  THEN LET hits == {k \in DOMAIN un.vols : InVol(q, un.vols[k])} IN
       IF hits = {} THEN [name |-> un.bg, u |-> -1, t |-> Zero3, m |-> <<>>]
       ELSE un.vols[CHOOSE k \in hits : TRUE]
  ELSE CellOf(un, q)

RECURSIVE PathIn(_, _)
PathIn(u, q) ==
  LET v == LocalVol(u, q) IN
  IF v.u < 0 THEN <<v.name>> ELSE <<v.name>> \o PathIn(v.u, Down2(q, v))

InWorld2(q) == InBox2(q, <<G.lo, G.hi>>)
VolPath(q) == IF InWorld2(q) THEN PathIn(0, q) ELSE <<"EXT">>
Deepest(path) == path[Len(path)]

\* the world is a valid partition (tools/worlds.py guarantees it; re-checked by the design model)
OddsIn(lo, hi) == {x \in lo..hi : x % 2 = 1}
CellsOf(un) == OddsIn(un.lo[1], un.hi[1]) \X OddsIn(un.lo[2], un.hi[2]) \X OddsIn(un.lo[3], un.hi[3])
PartitionOK ==
  \A i \in DOMAIN Unis :
     LET un == Unis[i] IN
     un.kind = "unit" =>
        \A c \in CellsOf(un) :
           LET k == Cardinality({j \in DOMAIN un.vols : InVol(Q(c, Zero3), un.vols[j])})
           IN k = 1 \/ (k = 0 /\ un.bg # "")

Cells == CellsOf(G)
CellPath == [c \in Cells |-> VolPath(Q(c, Zero3))]
Extent == (G.hi[1] - G.lo[1]) + (G.hi[2] - G.lo[2]) + (G.hi[3] - G.lo[3]) + 2

\* distance from pos along dir to the first change of VolPath (the path just after pos counts
\* as the current one); always exists because the world is bounded
Dist(p, d) ==
  LET cur == VolPath(Q(p, d))
  IN SetMin({t \in 1..Extent : VolPath(Q(Add(p, d, t), d)) # cur})

\* exact squared distance from the all-odd point p to the nearest point of a cell with a
\* different VolPath (any level) or of the exterior
GapAx(c, p, a) == LET d == AbsV(c[a] - p[a]) IN IF d <= 1 THEN 0 ELSE d - 1
CellD2(c, p) == GapAx(c, p, 1) * GapAx(c, p, 1) + GapAx(c, p, 2) * GapAx(c, p, 2) + GapAx(c, p, 3) * GapAx(c, p, 3)
ExtD(p) == SetMin({p[a] - G.lo[a] : a \in 1..3} \cup {G.hi[a] - p[a] : a \in 1..3})
TrueSafety2(p) ==
  SetMin({CellD2(c, p) : c \in {c \in Cells : CellPath[c] # CellPath[p]}} \cup {ExtD(p) * ExtD(p)})

(* ---------------------------- abstract navigator ---------------------------- *)
AInit(p, d) == [ph |-> "I", pos |-> p, dir |-> d, ref |-> Zero3, has |-> FALSE, nd |-> 0, nb |-> FALSE,
                ls |-> -1, ok |-> TRUE]
NoNext(a) == [a EXCEPT !.has = FALSE, !.nd = 0, !.nb = FALSE]

\* the point (doubled) that decides the logical volume
Side(a) == CASE a.ph = "I" -> Q(a.pos, Zero3)
             [] a.ph = "Bm" -> Q(a.pos, Neg(a.ref))
             [] OTHER -> Q(a.pos, a.ref)
ExpPath(a) == VolPath(Side(a))
OnBoundary(a) == a.ph \in {"Bm", "Bp"}
Reversed(a) == a.ph = "Bp" /\ a.dir = Neg(a.ref)
\* the unlimited search
TrueNext(a) == IF Reversed(a) THEN [d |-> 0, b |-> TRUE] ELSE [d |-> Dist(a.pos, a.dir), b |-> TRUE]

D2(p, q) == (p[1] - q[1]) * (p[1] - q[1]) + (p[2] - q[2]) * (p[2] - q[2]) + (p[3] - q[3]) * (p[3] - q[3])

\* r: record with field e (operation) and its arguments / reported results
Legal(a, r) ==
  CASE r.e = "Init" -> AllOdd(r.pos) /\ InWorld2(Q(r.pos, Zero3)) /\ r.dir \in Dirs
    [] r.e = "Find" -> a.ph \in {"I", "Bp"}
    [] r.e = "FindMax" -> a.ph \in {"I", "Bp"} /\ r.m > 0
    [] r.e = "MoveI" -> /\ a.ph \in {"I", "Bp"} /\ a.has
                        /\ 0 < r.x /\ r.x <= a.nd /\ (r.x < a.nd \/ ~a.nb)
                        /\ AllOdd(Add(a.pos, a.dir, r.x))
    [] r.e = "MoveB" -> a.ph \in {"I", "Bp"} /\ a.has /\ a.nb
    [] r.e = "Cross" -> a.ph = "Bm"
    [] r.e = "SetDir" -> /\ r.dir \in Dirs
                         /\ a.ph \in {"I", "Bm", "Bp"}
                         /\ (a.ph # "I" => r.dir \in {a.ref, Neg(a.ref)})      \* never tangent
    [] r.e = "Safety" -> a.ph = "I"
    [] r.e = "SafetyMax" -> a.ph = "I" /\ r.m > 0              \* find_safety(radius)
    \* a second track initialised from this one (DetailedInitializer) with a new direction; a copy
    \* taken on a boundary keeps the direction (the boundary state is copied verbatim)
    [] r.e = "Copy" -> /\ r.dir \in Dirs
                       /\ a.ph \in {"I", "Bm", "Bp"}
                       /\ (a.ph # "I" => r.dir = a.dir)
    [] r.e = "MoveTo" -> /\ a.ph = "I" /\ a.ls >= 0 /\ AllOdd(r.p) /\ r.p # a.pos
                         /\ D2(r.p, a.pos) <= a.ls
    [] OTHER -> FALSE

Step(a, r) ==
  CASE r.e = "Init" -> AInit(r.pos, r.dir)
    [] r.e \in {"Find", "FindMax"} -> [a EXCEPT !.has = (r.d # 0), !.nd = r.d, !.nb = r.b]
    [] r.e = "MoveI" -> [a EXCEPT !.ph = "I", !.pos = Add(a.pos, a.dir, r.x), !.ref = Zero3, !.ls = -1,
                                  !.nd = a.nd - r.x, !.has = (a.nd # r.x), !.nb = (a.nb /\ a.nd # r.x)]
    [] r.e = "MoveB" -> [NoNext(a) EXCEPT !.ph = "Bm", !.pos = Add(a.pos, a.dir, a.nd), !.ref = a.dir, !.ls = -1]
    [] r.e = "Cross" -> [a EXCEPT !.ph = IF VolPath(Q(a.pos, a.dir)) = <<"EXT">> THEN "Out" ELSE "Bp",
                                  !.ref = a.dir]
    [] r.e = "SetDir" -> [NoNext(a) EXCEPT !.dir = r.dir]
    [] r.e = "Safety" -> [a EXCEPT !.ls = r.s2f]
    [] r.e = "SafetyMax" -> a
    \* the copy is in the state of the original, with the new direction and no cached step
    [] r.e = "Copy" -> [NoNext(a) EXCEPT !.dir = r.dir]
    [] r.e = "MoveTo" -> [NoNext(a) EXCEPT !.pos = r.p, !.ls = -1]

\* what every call must leave observable (b = state after the call, r = what was logged)
StateClauses(b, r) ==
  (IF r.out # (b.ph = "Out") THEN {"C03.ExitsWorld"} ELSE {})
  \cup (IF b.ph # "Out" /\ ~r.out /\ r.vol # Deepest(ExpPath(b)) THEN {"C03.Sync"} ELSE {})
  \cup (IF b.ph # "Out" /\ ~r.out /\ r.vol = Deepest(ExpPath(b)) /\ r.path # ExpPath(b)
        THEN {"C03.SyncPath"} ELSE {})
  \cup (IF b.ph # "Out" /\ r.onb # OnBoundary(b) THEN {"C03.OnBoundaryFlag"} ELSE {})
  \cup (IF ~r.pint \/ r.rpos # b.pos \/ r.rdir # b.dir THEN {"C03.Position"} ELSE {})

\* clauses on the values returned by the call itself (a = state before the call)
CallClauses(a, r) ==
  CASE r.e = "Find" ->
         LET nx == TrueNext(a) IN
         IF ~r.dok THEN {"C03.NextDistance"}
         ELSE IF r.d > nx.d THEN {"C03.NoSkip"}
         ELSE IF r.d < nx.d THEN {"C03.NoInventedBoundary"}
         ELSE IF r.b # nx.b THEN {"C03.NextDistance"} ELSE {}
    [] r.e = "FindMax" ->
         \* the unlimited answer truncated at the limit m; a boundary at exactly m is documented
         \* as found ("up to and including"): missing it there is the separate, non-poisoning
         \* clause C03.LimitInclusive (kept apart so that it can be classified on its own)
         LET nx == TrueNext(a) IN
         IF ~r.dok THEN {"C03.Truncation"}
         ELSE IF nx.d < r.m THEN (IF r.d = nx.d /\ r.b = nx.b THEN {} ELSE {"C03.Truncation"})
         ELSE IF nx.d > r.m THEN (IF r.d = r.m /\ ~r.b THEN {} ELSE {"C03.Truncation"})
         ELSE IF r.d # r.m THEN {"C03.Truncation"}
         ELSE IF r.b THEN {} ELSE {"C03.LimitInclusive"}
    \* the radius-limited search may stop looking beyond its radius, but what it reports is still a
    \* safety distance: a lower bound of the true distance to the nearest boundary at any level
    [] r.e \in {"Safety", "SafetyMax"} ->
         (IF r.sneg THEN {"C11.SafetyNonNegative"} ELSE {})
         \cup (IF r.s2c > TrueSafety2(a.pos) THEN {"C11.SafetyConservative"} ELSE {})
    [] r.e = "Cross" -> IF r.failed THEN {"C03.CrossFailed"} ELSE {}
    [] r.e = "Init" -> IF r.failed THEN {"C03.InitFailed"} ELSE {}
    [] OTHER -> {}

Clauses(a, r, b) == CallClauses(a, r) \cup StateClauses(b, r)
\* clauses that do not end the judgement of a history
Soft == {"C03.LimitInclusive"}
Hard(cl) == cl \ Soft
=============================================================================
