---------------------------- MODULE LatticeNavMC ----------------------------
(* Design check for C03 / C11 (no code involved): an implementation-shaped model of ORANGE's
   multi-level navigation algorithm ("OrangeAlgo" of DESIGN 4.4) runs in lock step with the
   abstract navigator of LatticeNav over the same lattice world (env WORLD), under ALL
   protocol interleavings up to Depth operations from ALL cell centres x 6 directions.  After
   each operation the model's observation -- the same record layout the harness logs -- is
   judged by LatticeNav!Clauses, i.e. exactly what trace validation applies to the real code.

   The model transcribes OrangeTrackView: per-level local volume / position / direction,
   surface_level + local surface (axis) + sense, boundary in {exiting, reentrant},
   find_next_step_impl's minimum over levels preferring the shallowest (strict <, deeper levels
   limited by the current minimum), move_to_boundary, cross_boundary (sense flip at the surface
   level, then *initialisation* of the deeper levels), move_internal (both forms), find_safety
   = minimum over levels, and set_dir's comparison of the old and new direction with the
   surface normal rotated to the global frame, WITH THE LEVEL LOOP EXACTLY AS CODED:
       for (auto level : range<int>(this->level().unchecked_get()).step(-1))   -- UseFixed = FALSE
   versus the loop bounded by surface_level()                                  -- UseFixed = TRUE.
   Expected: UseFixed = FALSE refutes NoViolation (C03.Sync) on worlds with a daughter turned
   by a quarter turn (finding F-NAV-1); UseFixed = TRUE satisfies it. *)
EXTENDS LatticeNav

CONSTANTS UseFixed, Depth

VARIABLES a,     \* abstract navigator (LatticeNav)
          im,    \* implementation-shaped state
          cl,    \* hard clauses violated by the last operation
          n      \* operations since Init
vars == <<a, im, cl, n>>
view == <<a, im, cl>>

Unit3(ax) == [k \in 1..3 |-> IF k = ax THEN 1 ELSE 0]
Scale(v, s) == <<s * v[1], s * v[2], s * v[3]>>
AxisOf(d) == CHOOSE k \in 1..3 : d[k] # 0
Sgn(x) == IF x < 0 THEN -1 ELSE 1
Ext == [name |-> "EXT", u |-> -1, t |-> Zero3, m |-> <<>>]
DownP(p, f) == MatT(f.m, <<p[1] - f.t[1], p[2] - f.t[2], p[3] - f.t[3]>>)

\* local volume of universe u at local position p displaced infinitesimally by off
Slim(v) == [name |-> v.name, u |-> v.u, t |-> v.t, m |-> v.m]
VolAt(u, p, off) == IF u = 0 /\ ~InWorld2(Q(p, off)) THEN Ext ELSE Slim(LocalVol(u, Q(p, off)))

\* initialise level records from universe u downwards (OrangeTrackView::operator=, and the
\* tail of cross_boundary): each level keeps universe, local volume, local position/direction
RECURSIVE Descend(_, _, _, _)
Descend(u, p, d, off) ==
  LET v == VolAt(u, p, off)
      me == [u |-> u, vol |-> v, pos |-> p, dir |-> d]
  IN IF v.u < 0 THEN <<me>> ELSE <<me>> \o Descend(v.u, DownP(p, v), MatT(v.m, d), MatT(v.m, off))

NoSurf(s) == [s EXCEPT !.slev = -1, !.sax = 0, !.ssn = 0]
NoStep(s) == [s EXCEPT !.has = FALSE, !.nd = 0, !.nb = FALSE, !.nlev = 0, !.nax = 0]

ImplInit(p, d) ==
  [lv |-> Descend(0, p, d, Zero3), slev |-> -1, sax |-> 0, ssn |-> 0, bres |-> "exiting",
   has |-> FALSE, nd |-> 0, nb |-> FALSE, nlev |-> 0, nax |-> 0]
Lvl(s) == Len(s.lv) - 1

\* Tracker::intersect at one level: distance to the first change of the LOCAL volume
Inf == 1000000
LevelDist(L) ==
  LET S == {t \in 1..Extent : VolAt(L.u, Add(L.pos, L.dir, t), L.dir).name # L.vol.name}
  IN IF S = {} THEN Inf ELSE SetMin(S)

\* find_next_step_impl: levels 1..level(), each limited by the current minimum, strict <
RECURSIVE FindLv(_, _, _)
FindLv(s, i, isect) ==
  IF i > Lvl(s) THEN isect
  ELSE LET dl == LevelDist(s.lv[i + 1])
       IN FindLv(s, i + 1, IF dl <= isect.d /\ dl < isect.d THEN [d |-> dl, f |-> TRUE, lev |-> i] ELSE isect)

\* find_next_step / find_next_step(max): m = 0 means unlimited
ImplFind(s, m) ==
  IF s.bres = "reentrant" THEN [s |-> s, d |-> 0, b |-> TRUE, dok |-> TRUE]
  ELSE LET d0 == LevelDist(s.lv[1])
           is0 == IF m > 0 /\ d0 > m THEN [d |-> m, f |-> FALSE, lev |-> 0]
                  ELSE [d |-> d0, f |-> d0 < Inf, lev |-> 0]
           is == FindLv(s, 1, is0)
       IN [s |-> [s EXCEPT !.has = (is.d # 0), !.nd = is.d, !.nb = is.f, !.nlev = is.lev,
                           !.nax = AxisOf(s.lv[is.lev + 1].dir)],
           d |-> is.d, b |-> is.f, dok |-> is.d < Inf]

MoveAll(s, x) == [s EXCEPT !.lv = [i \in DOMAIN s.lv |-> [s.lv[i] EXCEPT !.pos = Add(@, s.lv[i].dir, x)]]]

ImplMoveB(s) ==
  LET t == MoveAll(s, s.nd)
      L == s.lv[s.nlev + 1]
  IN NoStep([t EXCEPT !.slev = s.nlev, !.sax = s.nax, !.ssn = -Sgn(L.dir[s.nax])])

ImplMoveI(s, x) ==
  LET t == NoSurf(MoveAll(s, x))
  IN [t EXCEPT !.nd = s.nd - x, !.has = (s.nd # x), !.nb = (s.nb /\ s.nd # x)]

ImplCross(s) ==
  IF s.bres = "reentrant" THEN [s EXCEPT !.bres = "exiting"]
  ELSE LET s2 == -s.ssn
           L == s.lv[s.slev + 1]
           newlv == SubSeq(s.lv, 1, s.slev) \o Descend(L.u, L.pos, L.dir, Scale(Unit3(s.sax), s2))
       IN [s EXCEPT !.ssn = s2, !.bres = "exiting", !.lv = newlv]

\* rotate a vector local to level `from` up to the global frame: levels from-1 .. 0
RECURSIVE RotUp(_, _, _)
RotUp(s, v, from) == IF from <= 0 THEN v ELSE RotUp(s, Mat(s.lv[from].vol.m, v), from - 1)
\* directions of all levels from a global direction (rotate down with the current daughters)
RECURSIVE DirsDown(_, _, _)
DirsDown(s, i, d) ==
  IF i > Len(s.lv) THEN <<>>
  ELSE <<d>> \o (IF i = Len(s.lv) THEN <<>> ELSE DirsDown(s, i + 1, MatT(s.lv[i].vol.m, d)))
RECURSIVE PosDown(_, _, _)
PosDown(s, i, p) ==
  IF i > Len(s.lv) THEN <<>>
  ELSE <<p>> \o (IF i = Len(s.lv) THEN <<>> ELSE PosDown(s, i + 1, DownP(p, s.lv[i].vol)))

ImplSetDir(s, nd) ==
  LET top == IF UseFixed THEN s.slev ELSE Lvl(s)
      nrm == RotUp(s, Unit3(s.sax), top)
      flip == s.slev >= 0 /\ ((Dot(nrm, nd) >= 0) # (Dot(nrm, s.lv[1].dir) >= 0))
      ds == DirsDown(s, 1, nd)
      t == NoStep([s EXCEPT !.lv = [i \in DOMAIN s.lv |-> [s.lv[i] EXCEPT !.dir = ds[i]]]])
  IN IF flip THEN [t EXCEPT !.bres = IF s.bres = "exiting" THEN "reentrant" ELSE "exiting"] ELSE t

ImplMoveTo(s, p) ==
  LET ps == PosDown(s, 1, p)
  IN NoStep(NoSurf([s EXCEPT !.lv = [i \in DOMAIN s.lv |-> [s.lv[i] EXCEPT !.pos = ps[i]]]]))

\* Tracker::safety: distance to the nearest face plane of the local volume (all the unit's
\* surfaces for a background volume; the cell's inner grid planes for an array)
BoxPlanes(b) == {<<ax, b[1][ax]>> : ax \in 1..3} \cup {<<ax, b[2][ax]>> : ax \in 1..3}
VolPlanes(v) == UNION {BoxPlanes(v.terms[k].box) \cup UNION {BoxPlanes(v.terms[k].cut[c]) : c \in DOMAIN v.terms[k].cut}
                        : k \in DOMAIN v.terms}
LevelPlanes(L) ==
  LET un == U(L.u) IN
  IF un.kind = "unit"
  THEN IF L.vol.name = un.bg THEN UNION {VolPlanes(un.vols[k]) : k \in DOMAIN un.vols}
       ELSE VolPlanes(un.vols[CHOOSE k \in DOMAIN un.vols : un.vols[k].name = L.vol.name])
  ELSE LET q == Q(L.pos, Zero3) IN
       UNION {{<<ax, un.grid[ax][j]>> : j \in {GridIdx(un, q, ax), GridIdx(un, q, ax) + 1} \cap (2..(Len(un.grid[ax]) - 1))}
              : ax \in 1..3}
LevelSafety(L) ==
  LET S == {AbsV(L.pos[pl[1]] - pl[2]) : pl \in LevelPlanes(L)} IN IF S = {} THEN Inf ELSE SetMin(S)
ImplSafety(s) == SetMin({LevelSafety(s.lv[i]) : i \in DOMAIN s.lv})

\* what the harness would log after the call
Observe(s) ==
  [out |-> s.lv[1].vol.name = "EXT", onb |-> s.slev >= 0, vol |-> s.lv[Len(s.lv)].vol.name,
   path |-> [i \in DOMAIN s.lv |-> s.lv[i].vol.name], rpos |-> s.lv[1].pos, rdir |-> s.lv[1].dir,
   pint |-> TRUE, failed |-> FALSE]
Merge(f, g) == [k \in (DOMAIN f) \cup (DOMAIN g) |-> IF k \in DOMAIN f THEN f[k] ELSE g[k]]

\* execute operation op (record with e and arguments) on the implementation model:
\* returns the new model state and the log record
Exec(s, op) ==
  CASE op.e = "Find" -> LET r == ImplFind(s, 0) IN [s |-> r.s, r |-> Merge(Merge(op, [d |-> r.d, b |-> r.b, dok |-> r.dok]), Observe(r.s))]
    [] op.e = "FindMax" -> LET r == ImplFind(s, op.m) IN [s |-> r.s, r |-> Merge(Merge(op, [d |-> r.d, b |-> r.b, dok |-> r.dok]), Observe(r.s))]
    [] op.e = "MoveI" -> LET t == ImplMoveI(s, op.x) IN [s |-> t, r |-> Merge(op, Observe(t))]
    [] op.e = "MoveB" -> LET t == ImplMoveB(s) IN [s |-> t, r |-> Merge(op, Observe(t))]
    [] op.e = "Cross" -> LET t == ImplCross(s) IN [s |-> t, r |-> Merge(op, Observe(t))]
    [] op.e = "SetDir" -> LET t == ImplSetDir(s, op.dir) IN [s |-> t, r |-> Merge(op, Observe(t))]
    [] op.e = "MoveTo" -> LET t == ImplMoveTo(s, op.p) IN [s |-> t, r |-> Merge(op, Observe(t))]
    [] op.e = "Safety" -> LET sf == ImplSafety(s) IN
                          [s |-> s, r |-> Merge(Merge(op, [sneg |-> FALSE, s2c |-> sf * sf, s2f |-> sf * sf]), Observe(s))]

\* the operation alphabet (filtered by the protocol table)
Targets(p) == {Add(p, d, 2) : d \in Dirs}
Alphabet(s) ==
  {[e |-> "Find"], [e |-> "MoveB"], [e |-> "Cross"], [e |-> "Safety"]}
  \cup {[e |-> "FindMax", m |-> m] : m \in {2, 3}}
  \cup {[e |-> "MoveI", x |-> x] : x \in 1..6}
  \cup {[e |-> "SetDir", dir |-> d] : d \in Dirs}
  \cup {[e |-> "MoveTo", p |-> p] : p \in Targets(s.pos)}

Starts == {c \in Cells : TRUE}

Init ==
  /\ PartitionOK
  /\ \E p \in Starts, d \in Dirs :
       LET s == ImplInit(p, d)
           r == Merge([e |-> "Init", pos |-> p, dir |-> d], Observe(s))
           b == Step(<<>>, r)
       IN /\ a = b /\ im = s /\ cl = Hard(Clauses(<<>>, r, b)) /\ n = 0

Next ==
  /\ n < Depth /\ cl = {} /\ a.ph # "Out"
  /\ \E op \in Alphabet(a) :
       /\ Legal(a, op)
       /\ LET x == Exec(im, op)
              b == Step(a, x.r)
          IN /\ a' = b /\ im' = x.s /\ cl' = Hard(Clauses(a, x.r, b)) /\ n' = n + 1

Spec == Init /\ [][Next]_vars

\* the implementation model refines the abstract navigator's observations (C03 and C11 clauses)
NoViolation == cl = {}
\* vacuity guards: every kind of state is reached
ReachBm == a.ph # "Bm"
ReachOut == a.ph # "Out"
=============================================================================
