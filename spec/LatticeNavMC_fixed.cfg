CONSTANTS
  UseFixed = TRUE
  Depth = 12
SPECIFICATION Spec
VIEW view
INVARIANT NoViolation
CHECK_DEADLOCK FALSE
