-------------------------- MODULE LatticeNavTrace --------------------------
(* Trace validation of the real OrangeTrackView (harness/vnav.cc, modes explore/walk/replay on a
   lattice world) against LatticeNav.  Environment: WORLD = world JSON, TRACE = ndjson log.

   Records: World{name} first; then operations {e, k, j, arguments, reported results, observed
   vol/path/onb/out/rpos/rdir/...}.  The harness explores histories depth-first with
   snapshots of the navigator state; `k` is the stack level of the state the operation is
   applied to and `j` (k or k+1) the level where the result is stored (the stack is cut at j).
   Init stores at level 1.  Every operation must be LEGAL in the abstract state (protocol
   table; an illegal call is a harness fault and rejects the trace); its observations are
   compared with the expectations computed from the world, and the names of the violated
   clauses are accumulated per clause with the number of hits, the first record, and the
   record with the shortest history (field n = operations since Init).  A trace must end with Close; Abort rejects. *)
EXTENDS LatticeNav

TraceLog == ndJsonDeserialize(IOEnv.TRACE)
N == Len(TraceLog)

VARIABLES l, stk, viol, stat
vars == <<l, stk, viol, stat>>
Rec == TraceLog[l]

Ops == {"Find", "FindMax", "MoveI", "MoveB", "Cross", "SetDir", "Safety", "MoveTo", "SafetyMax", "Copy"}
Kinds == Ops \cup {"Init", "judged", "unjudged", "safety_pos"}

Init ==
  /\ l = 1 /\ stk = <<>> /\ viol = <<>>
  /\ stat = [k \in Kinds |-> 0]

\* viol: function clause name -> [n, first, minj, minl]
Note(names, j) ==
  [c \in (DOMAIN viol) \cup names |->
     IF c \in names
     THEN IF c \in DOMAIN viol
          THEN [viol[c] EXCEPT !.n = @ + 1,
                               !.minj = IF j < @ THEN j ELSE @,
                               !.minl = IF j < viol[c].minj THEN l ELSE @]
          ELSE [n |-> 1, first |-> l, minj |-> j, minl |-> l]
     ELSE viol[c]]

Count(e, judged, spos) ==
  stat' = [stat EXCEPT ![e] = @ + 1,
                       ![IF judged THEN "judged" ELSE "unjudged"] = @ + 1,
                       !["safety_pos"] = @ + (IF spos THEN 1 ELSE 0)]

TWorld ==
  /\ l = 1 /\ Rec.e = "World" /\ Rec.name = World.name
  /\ UNCHANGED <<stk, viol, stat>>

TInit ==
  /\ l > 1 /\ Rec.e = "Init" /\ Rec.j = 1
  /\ Legal(<<>>, Rec)
  /\ LET b == Step(<<>>, Rec)
         cl == Clauses(<<>>, Rec, b)
     IN /\ stk' = <<[b EXCEPT !.ok = (Hard(cl) = {})]>>
        /\ viol' = Note(cl, 0)
        /\ Count("Init", TRUE, FALSE)

TOp ==
  /\ l > 1 /\ Rec.e \in Ops
  /\ Rec.k >= 1 /\ Rec.k <= Len(stk) /\ Rec.j \in {Rec.k, Rec.k + 1}
  /\ LET a == stk[Rec.k] IN
     /\ a.ok => Legal(a, Rec)
     /\ LET b == Step(a, Rec)
            cl == IF a.ok THEN Clauses(a, Rec, b) ELSE {}
        IN /\ stk' = SubSeq(stk, 1, Rec.j - 1) \o <<[b EXCEPT !.ok = (a.ok /\ Hard(cl) = {})]>>
           /\ viol' = Note(cl, Rec.n)
           /\ Count(Rec.e, a.ok, Rec.e \in {"Safety", "SafetyMax"} /\ a.ok /\ Rec.s2c > 0)

\* exploration statistics written by the harness (not judged)
TStats ==
  /\ l > 1 /\ Rec.e = "Stats"
  /\ UNCHANGED <<stk, viol, stat>>

TClose ==
  /\ l > 1 /\ Rec.e = "Close" /\ l = N
  /\ UNCHANGED <<stk, viol, stat>>

Next ==
  /\ l <= N /\ l' = l + 1
  /\ TWorld \/ TInit \/ TOp \/ TStats \/ TClose
Spec == Init /\ [][Next]_vars

Accepted ==
  LET d == TLCGet("stats").diameter IN
  IF d - 1 = N /\ TraceLog[N].e = "Close" THEN TRUE
  ELSE /\ PrintT(<<"REJECTED", d, TraceLog[IF d <= N THEN d ELSE N],
                   IF d <= N /\ "k" \in DOMAIN TraceLog[IF d <= N THEN d ELSE N] THEN "see k" ELSE "">>)
       /\ FALSE
Report == (l = N + 1) =>
   PrintT(<<"SUMMARY", ToJson([viol |-> viol, stat |-> stat, world |-> World.name])>>)
=============================================================================
