------------------------------- MODULE Looping -------------------------------
(* X02  Looping-track bookkeeping of the along-step propagation (reference semantics).

   Subject (read from the code, not transcribed from a test):
     SimTrackView::operator=(Initializer)        InitTrack       counter := 0
     SimTrackView::update_looping(bool)          UpdateLooping   ++counter | counter := 0
     SimTrackView::is_looping(pid, E)            IsLooping       counter >= (E < threshold_energy ?
                                                                   max_subthreshold_steps : max_steps)
     detail::PropagationApplier::operator()      Propagate       the decision after propagate(step)
     detail::ElossApplier (stopped particle)     StopOverride    a particle stopped by the continuous
                                                                 loss of the same step is owned by the
                                                                 range / at-rest path
     detail::TrackingCutExecutor                 TrackingCut     deposit E (+ 2 m c^2 for an
                                                                 antiparticle), E := 0, killed
     SimParams::SimParams(Input)                 ThresholdOf     per-particle table: the user's entry
                                                                 for that PDG, else the defaults

   A "track" here is the projection of one track slot on what the contract talks about.
   Doubles never enter: energies are compared with the threshold (a boolean `below`), step
   lengths with the pre-step limit (`len` in {"zero","lim","dist"}).

   One operator per critical section / public call, so that the trace spec can bind a logged
   step to it and the design check (LoopingMC) can compose them into a per-track machine. *)
EXTENDS Integers, Sequences, FiniteSets

\* ---------------------------------------------------------------- parameters
\* LoopingThreshold{} as default-constructed (SimData.hh); threshold_energy in MeV
DefaultThreshold == [mss |-> 10, ms |-> 100, thr |-> 250]

\* LoopingThreshold::operator bool
ValidThreshold(t) == t.mss > 0 /\ t.ms > 0 /\ t.thr >= 0

\* SimParams(Input): `given` is a function PDG -> threshold (the user's map), every particle
\* of the problem gets an entry: the user's if present, else the default
ThresholdOf(given, pdg) == IF pdg \in DOMAIN given THEN given[pdg] ELSE DefaultThreshold

\* action labels as registered by CoreParams / PhysicsParams
ActCut      == "tracking-cut"
ActLimit    == "geo-propagation-limit"
ActBoundary == "geo-boundary"
ActRange    == "eloss-range"
ActDiscrete == "physics-discrete-select"

\* ---------------------------------------------------------------- SimTrackView
InitCounter == 0

UpdateLooping(c, looping) == IF looping THEN c + 1 ELSE 0

\* number of consecutive looping steps a track may accumulate before it is abandoned
Limit(t, below) == IF below THEN t.mss ELSE t.ms

IsLooping(c, t, below) == c >= Limit(t, below)

\* ---------------------------------------------------------------- PropagationApplier
(* What the propagator returned, as PropagationApplier distinguishes it:
     "stopped"   step limit 0: no propagation at all
     "loop"      Propagation.looping          (substep budget exhausted before boundary/limit)
     "boundary"  Propagation.boundary
     "short"     neither, distance < limit    (stuck track bumped a small distance)
     "full"      neither, distance = limit                                                   *)
Kinds == {"stopped", "loop", "boundary", "short", "full"}

\* pre = [ctr, act, below, stable]: counter and post-step action chosen by the pre-step,
\* `below` = (pre-step kinetic energy < threshold_energy), `stable` = ParticleView::is_stable
\* canloop = Propagator::tracks_can_loop()  (FALSE for the linear propagator)
\* Result: counter, post-step action and step length after PropagationApplier.
PropagateWith(pre, kind, canloop, t, Upd(_, _), IsL(_, _, _)) ==
  IF kind = "stopped" THEN [ctr |-> pre.ctr, act |-> pre.act, len |-> "zero"]
  ELSE
    LET c1 == IF canloop THEN Upd(pre.ctr, kind = "loop") ELSE pre.ctr IN
    IF canloop /\ kind = "loop"
      THEN [ctr |-> c1, len |-> "dist",
            act |-> IF pre.stable /\ IsL(c1, t, pre.below) THEN ActCut ELSE ActLimit]
    ELSE IF kind = "boundary" THEN [ctr |-> c1, act |-> ActBoundary, len |-> "dist"]
    ELSE IF kind \in {"short", "loop"} THEN [ctr |-> c1, act |-> ActLimit, len |-> "dist"]
    ELSE [ctr |-> c1, act |-> pre.act, len |-> "lim"]

Propagate(pre, kind, canloop, t) == PropagateWith(pre, kind, canloop, t, UpdateLooping, IsLooping)

\* ---------------------------------------------------------------- ElossApplier (stop override)
\* The continuous loss of the same step brought the particle to rest: whatever the propagation
\* decided, a particle with an at-rest process is forced into a discrete interaction and any
\* other is killed on the spot with the range action.
StopOverride(hasAtRest) ==
  IF hasAtRest THEN [act |-> ActDiscrete, alive |-> TRUE] ELSE [act |-> ActRange, alive |-> FALSE]

\* ---------------------------------------------------------------- TrackingCutExecutor
\* energies in any additive unit; twom = 2 m c^2 of the particle
CutDeposit(E, anti, twom) == E + (IF anti THEN twom ELSE 0)

\* ---------------------------------------------------------------- named clauses (per step)
(* A logged step is [c0, c1, act0, act1, below, stable, lim0 (limit = 0), lenLtLim, lenEqLim,
   onb, stopped1 (kinetic energy 0 after the along-step), hasAtRest, bumpLen (len <= bump distance)].
   Explain(s, canloop, t, kind) = names of the clauses violated when the step is explained by a
   propagation of that kind; the trace spec lets TLC pick the kind (the `looping` flag is not
   logged in real mode). *)
Explain(s, canloop, t, kind) ==
  LET pre == [ctr |-> s.c0, act |-> s.act0, below |-> s.below, stable |-> s.stable]
      exp == Propagate(pre, kind, canloop, t)
      over == IF s.stopped1 THEN StopOverride(s.hasAtRest).act ELSE exp.act
      looped == canloop /\ kind = "loop"
  IN
     \* the counter: incremented on exactly the looping steps, reset on every other moved step,
     \* untouched when the propagator cannot loop or the track did not move
     (IF s.c1 = exp.ctr THEN {}
      ELSE IF kind = "stopped" THEN {"X02.StoppedUnchanged"}
      ELSE IF ~canloop THEN {"X02.NoLoopUnchanged"}
      ELSE IF kind = "loop" THEN {"X02.IncOnLoop"} ELSE {"X02.ResetOnMove"})
     \* the action: tracking-cut iff stable and counter >= limit(E), else propagation-limit
     \* (unless the particle stopped in the same step)
     \cup (IF s.act1 \in {exp.act, over} THEN {}
           ELSE IF looped THEN {"X02.LoopAction"}
           ELSE IF s.act1 = ActCut THEN {"X02.NoCutWithoutLoop"}
           ELSE IF kind = "boundary" THEN {"X02.BoundaryAction"}
           ELSE IF kind = "short" \/ kind = "loop" THEN {"X02.ShortAction"}
           ELSE {"X02.FullKeepsAction"})
     \* the step length: the distance travelled (< limit when looping), the limit on a full step
     \cup (CASE kind = "stopped" -> IF s.lim0 THEN {} ELSE {"X02.KindMismatch"}
             [] kind = "loop" -> IF ~s.lim0 /\ s.lenLtLim THEN {} ELSE {"X02.LoopStepLength"}
             [] kind = "boundary" -> IF ~s.lim0 /\ s.onb /\ (s.lenLtLim \/ s.lenEqLim) THEN {} ELSE {"X02.KindMismatch"}
             [] kind = "short" -> IF ~s.lim0 /\ s.lenLtLim /\ s.bumpLen THEN {} ELSE {"X02.KindMismatch"}
             [] kind = "full" -> IF ~s.lim0 /\ s.lenEqLim THEN {} ELSE {"X02.KindMismatch"})
=============================================================================
