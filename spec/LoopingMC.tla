------------------------------ MODULE LoopingMC ------------------------------
(* Design check for X02 (no code involved) and generator of the replay scripts.

   One track of one particle type is followed from initialisation to its end, through every
   sequence of propagation outcomes and every non-increasing sequence of energy levels, for
   every threshold table within the constants:

       Pick   thresholds t = (mss, ms, thr) in 1..MaxLim x 1..MaxLim x ThrLevels, stable, anti,
              canloop (tracks_can_loop of the propagator), initial energy level E0 in 0..EMax
              (0 = a positron born at rest: its steps have a zero limit, kind "stopped")
       Init   SimTrackView::operator=                      counter := 0
       Along  PropagationApplier (any kind) ; ElossApplier (any loss 0..E, pre-step energy decides
              `below`) ; stop override when the loss takes everything
       Post   the post-step action selected by the along-step runs: tracking-cut deposits and
              kills; a boundary may lead out of the world (escape); a positron brought to rest
              annihilates (its 2mc^2 leaves as photons); everything else keeps the track

   Energies are small integers (levels); `thr` is a level too, so `below == E < thr` is the very
   comparison of SimTrackView::is_looping.

   Invariants (the design properties of the bookkeeping):
     CounterIsConsecutiveLoops  with a looping-capable propagator the counter equals the number
                                of consecutive looping steps since initialisation / the last
                                other moved step (ghost `cons`)
     BoundedLooping             a stable track that is still alive after a looping step has
                                counter < Limit(t, below of that step): nobody loops for more
                                than max(mss, ms) consecutive steps
     CutOnlyAfterLoop           tracking-cut is selected by this path only on a looping step of
                                a stable particle with a looping-capable propagator
     CutWhenDue                 ... and always when such a step reaches the limit (unless the same
                                step's loss stopped the particle)
     NoLoopNeverCounts          canloop = FALSE: the counter stays 0
     Ledger                     E + deposited + escaped (+ 2mc^2 while a positron exists)
                                = initial energy (+ 2mc^2): the cut deposits what is left

   Variant (CONSTANT) seeds plausible wrong algorithms that MUST be refuted (vacuity guard):
     "gt"        is_looping uses >  instead of >=                  -> CutWhenDue, BoundedLooping
     "eq"        is_looping uses == instead of >= (the counter can jump past the smaller limit
                 when the energy falls below the threshold)         -> CutWhenDue, BoundedLooping
     "noreset"   update_looping(false) keeps the counter            -> CounterIsConsecutiveLoops
     "cutnodep"  tracking-cut kills without depositing              -> Ledger
     "swap"      the two limits are exchanged (E < thr -> max_steps)-> CutWhenDue, CutOnlyAfterLoop
   (configs LoopingMC_<variant>.cfg; TLC stops at the first violated invariant)

   Constants: LoopingMC.cfg (quick) MaxLim 2, ThrLevels {0,2}, EMax 3, MaxLen 3: 222 713 states;
   LoopingMC_thorough.cfg MaxLim 3, MaxLen 4: 2 927 803 states.

   Emit (an invariant with a side effect) prints one replay script per finished behaviour of a
   stable particle: thresholds + the sequence <<kind, energy level>>; harness/vlooping.cc
   replays each on the real PropagationApplier/SimTrackView/TrackingCutAction (scripted
   propagator inside the real stepping loop) and LoopingTrace validates the log. *)
EXTENDS Looping, TLC, Json

CONSTANTS MaxLim,      \* thresholds mss, ms range over 1..MaxLim
          ThrLevels,   \* set of threshold-energy levels
          EMax,        \* energy levels 0..EMax
          MaxLen,      \* steps per behaviour
          TwoM,        \* 2mc^2 in levels
          Variant,
          EmitScripts  \* BOOLEAN

VARIABLES phase,  \* "pick" | "along" | "post" | "done"
          cfg,    \* [t, stable, anti, canloop, E0]
          trk,    \* [ctr, alive, E, dep, esc, rest, act, kind, below, cut]
          cons,   \* ghost: consecutive looping steps
          hist    \* sequence of <<kind, E at the start of the step, particle stopped by this step's loss>>
vars == <<phase, cfg, trk, cons, hist>>

\* ---- seeded variants of the two SimTrackView operations
VUpd(c, looping) ==
  IF Variant = "noreset" THEN (IF looping THEN c + 1 ELSE c) ELSE UpdateLooping(c, looping)
VIsL(c, t, below) ==
  CASE Variant = "gt" -> c > Limit(t, below)
    [] Variant = "eq" -> c = Limit(t, below)
    [] Variant = "swap" -> c >= Limit(t, ~below)
    [] OTHER -> IsLooping(c, t, below)

NoCfg == [t |-> DefaultThreshold, stable |-> TRUE, anti |-> FALSE, canloop |-> TRUE, E0 |-> 0]
NoTrk == [ctr |-> 0, alive |-> FALSE, E |-> 0, dep |-> 0, esc |-> 0, rest |-> 0, act |-> "none",
          kind |-> "none", below |-> FALSE, cut |-> FALSE]

Init == phase = "pick" /\ cfg = NoCfg /\ trk = NoTrk /\ cons = 0 /\ hist = <<>>

\* Pick + InitTrack
Pick ==
  /\ phase = "pick"
  /\ \E mss \in 1..MaxLim, ms \in 1..MaxLim, thr \in ThrLevels, stable \in BOOLEAN, anti \in BOOLEAN,
        canloop \in BOOLEAN, e0 \in 0..EMax :
       /\ (e0 = 0 => anti)      \* only a particle with an at-rest process may start at rest
       /\ cfg' = [t |-> [mss |-> mss, ms |-> ms, thr |-> thr], stable |-> stable, anti |-> anti,
                  canloop |-> canloop, E0 |-> e0]
       /\ trk' = [NoTrk EXCEPT !.alive = TRUE, !.E = e0, !.ctr = InitCounter,
                               !.rest = IF anti THEN TwoM ELSE 0]
  /\ phase' = "along" /\ cons' = 0 /\ hist' = <<>>

\* the pre-step of a live track offers some action; which one is irrelevant here, except that a
\* particle at rest gets the discrete action with a zero step
PreAct(E) == IF E = 0 THEN ActDiscrete ELSE "pre"

Along ==
  /\ phase = "along" /\ trk.alive /\ Len(hist) < MaxLen
  /\ \E kind \in (IF trk.E = 0 THEN {"stopped"} ELSE Kinds \ {"stopped"}), loss \in 0..trk.E :
       LET below == trk.E < cfg.t.thr
           pre == [ctr |-> trk.ctr, act |-> PreAct(trk.E), below |-> below, stable |-> cfg.stable]
           p == PropagateWith(pre, kind, cfg.canloop, cfg.t, VUpd, VIsL)
           \* ElossApplier: nothing is lost on a stopped step; a boundary step never stops the particle
           de == IF kind = "stopped" THEN 0 ELSE IF kind = "boundary" /\ loss = trk.E THEN 0 ELSE loss
           stops == kind # "stopped" /\ de = trk.E
           ov == StopOverride(cfg.anti)        \* only the positron has an at-rest process here
       IN /\ trk' = [trk EXCEPT !.ctr = p.ctr, !.E = @ - de, !.dep = @ + de, !.kind = kind, !.below = below,
                                !.act = IF stops THEN ov.act ELSE p.act,
                                !.alive = IF stops THEN ov.alive ELSE TRUE]
          /\ cons' = IF kind = "stopped" THEN cons ELSE IF kind = "loop" THEN cons + 1 ELSE 0
          /\ hist' = Append(hist, <<kind, trk.E, stops>>)
  /\ phase' = "post" /\ UNCHANGED cfg

\* post-step actions
TrackingCut ==
  /\ phase = "post" /\ trk.alive /\ trk.act = ActCut
  /\ trk' = [trk EXCEPT !.alive = FALSE, !.E = 0, !.rest = 0, !.cut = TRUE,
                        !.dep = IF Variant = "cutnodep" THEN @ ELSE @ + CutDeposit(trk.E, cfg.anti, trk.rest)]
  /\ phase' = "done" /\ UNCHANGED <<cfg, cons, hist>>
Escape ==       \* crossing the world boundary
  /\ phase = "post" /\ trk.alive /\ trk.act = ActBoundary
  /\ trk' = [trk EXCEPT !.alive = FALSE, !.esc = @ + trk.E + trk.rest, !.E = 0, !.rest = 0]
  /\ phase' = "done" /\ UNCHANGED <<cfg, cons, hist>>
Annihilate ==   \* at-rest process of the stopped positron
  /\ phase = "post" /\ trk.alive /\ trk.act = ActDiscrete /\ trk.E = 0
  /\ trk' = [trk EXCEPT !.alive = FALSE, !.esc = @ + trk.rest, !.rest = 0]
  /\ phase' = "done" /\ UNCHANGED <<cfg, cons, hist>>
Died ==         \* killed inside the along-step (range action of a stopped electron)
  /\ phase = "post" /\ ~trk.alive
  /\ phase' = "done" /\ UNCHANGED <<cfg, trk, cons, hist>>
Continue ==     \* any other post-step action keeps the track
  /\ phase = "post" /\ trk.alive /\ trk.act # ActCut /\ ~(trk.act = ActDiscrete /\ trk.E = 0)
  /\ phase' = "along" /\ UNCHANGED <<cfg, trk, cons, hist>>

Next == Pick \/ Along \/ TrackingCut \/ Escape \/ Annihilate \/ Died \/ Continue
Spec == Init /\ [][Next]_vars

\* ---------------------------------------------------------------- invariants
TypeOK ==
  /\ phase \in {"pick", "along", "post", "done"}
  /\ trk.ctr \in 0..MaxLen /\ trk.E \in 0..EMax /\ cons \in 0..MaxLen

CounterIsConsecutiveLoops == (phase # "pick" /\ cfg.canloop) => trk.ctr = cons
NoLoopNeverCounts == (phase # "pick" /\ ~cfg.canloop) => trk.ctr = 0

BoundedLooping ==
  (phase = "along" /\ trk.alive /\ cfg.stable /\ cfg.canloop /\ trk.kind = "loop")
     => cons < Limit(cfg.t, trk.below)

CutOnlyAfterLoop ==
  (phase \in {"post", "done"} /\ (trk.act = ActCut \/ trk.cut))
     => cfg.stable /\ cfg.canloop /\ trk.kind = "loop" /\ cons >= Limit(cfg.t, trk.below)

\* ... and conversely a stable looper at its limit IS cut (unless it stopped in the same step)
CutWhenDue ==
  (phase = "post" /\ cfg.stable /\ cfg.canloop /\ trk.kind = "loop" /\ cons >= Limit(cfg.t, trk.below)
     /\ trk.act \notin {ActDiscrete, ActRange}) => trk.act = ActCut

Ledger ==
  phase # "pick" => trk.E + trk.dep + trk.esc + trk.rest = cfg.E0 + (IF cfg.anti THEN TwoM ELSE 0)

\* ---------------------------------------------------------------- replay scripts
\* finished behaviours of stable particles (energy levels >= 1: the harness sets the energy of the
\* level before every step), kinds the scripted propagator can produce anywhere ("boundary" only
\* as the last step: the track leaves the world).  A step whose continuous loss stops the particle
\* is replayed with an energy just above the tracking cut, which is below every non-zero threshold:
\* faithful when the threshold is 0 or the level is below it anyway.
Replayable ==
  /\ cfg.stable /\ cfg.canloop /\ ~cfg.anti     \* (the check assigns e-/e+ and tracks_can_loop itself)
  /\ \A i \in DOMAIN hist : hist[i][1] # "stopped" /\ hist[i][2] >= 1
  /\ \A i \in DOMAIN hist : hist[i][1] = "boundary" => i = Len(hist)
  /\ \A i \in DOMAIN hist : hist[i][3] => (cfg.t.thr = 0 \/ hist[i][2] < cfg.t.thr)
Finished == phase = "done" \/ (phase = "along" /\ Len(hist) = MaxLen)
Emit ==
  (EmitScripts /\ Finished /\ hist # <<>> /\ Replayable) =>
     PrintT(<<"SCRIPT", ToJson([mss |-> cfg.t.mss, ms |-> cfg.t.ms, thr |-> cfg.t.thr, steps |-> hist])>>)
=============================================================================
