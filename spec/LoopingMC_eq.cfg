SPECIFICATION Spec
CONSTANTS
  MaxLim = 2
  ThrLevels = {0, 2}
  EMax = 3
  MaxLen = 3
  TwoM = 1
  Variant = "eq"
  EmitScripts = FALSE
INVARIANT TypeOK
INVARIANT CounterIsConsecutiveLoops
INVARIANT NoLoopNeverCounts
INVARIANT BoundedLooping
INVARIANT CutOnlyAfterLoop
INVARIANT CutWhenDue
INVARIANT Ledger
INVARIANT Emit
CHECK_DEADLOCK FALSE
