---------------------------- MODULE LoopingTrace ----------------------------
(* Trace validation for X02 (harness/vlooping.cc): one record per line, one track-step per
   "Step" record, runs delimited by "Config" ... "End", the file closed by "Close".

   Every Step is explained by the reference semantics of Looping.tla.  In scripted mode the
   Propagation the (scripted) propagator returned is a logged argument ("ret"); in real mode
   the propagator's `looping` flag is not observable and TLC infers the kind of propagation:
   the step must be explained by at least one kind (Looping!Explain = {}).  When no kind explains
   it, the clauses violated under the most plausible kind are reported.

   Doubles are dense ranks within one run: energies and thresholds in one class (keys rE_..),
   lengths in another (keys rL_..); deposits / energies of the ledger clause are fixed-point
   quanta (keys ..q..).

   Violated clause names are accumulated (`viol` first occurrences, `cnt` counts); the whole
   trace is always examined.  Structural problems (unknown record, Abort, Step outside a run,
   missing Close) reject the trace.  One named deviation, counted in `dev`:
   InvalidThresholdAccepted (see TConfig). *)
EXTENDS Looping, TLC, Json, IOUtils, SequencesExt, FiniteSetsExt

TraceLog == ndJsonDeserialize(IOEnv.TRACE)
N == Len(TraceLog)

VARIABLES l,      \* next record
          inrun,  \* between Config and End
          conf,   \* Config record of the current run
          slots,  \* slot -> [ev, tid, c] : the track last seen in the slot and its counter
          viol, cnt, stat, cells,
          dev     \* number of Config records explained only by the named deviation
vars == <<l, inrun, conf, slots, viol, cnt, stat, cells, dev>>
Rec == TraceLog[l]

Inc(f, k) == [x \in (DOMAIN f) \cup {k} |-> IF x = k THEN (IF k \in DOMAIN f THEN f[k] ELSE 0) + 1 ELSE f[x]]
IncAll(f, ks) == FoldLeft(Inc, f, SetToSeq(ks))
Note(names, id) ==
  /\ cnt' = IncAll(cnt, names)
  /\ viol' = viol \cup {<<n, id, l>> : n \in {m \in names : (IF m \in DOMAIN cnt THEN cnt[m] ELSE 0) < 3}}

Stat0 == [runs |-> 0, refused |-> 0, steps |-> 0, first |-> 0, loop |-> 0, boundary |-> 0, full |-> 0, short |-> 0,
          stopped |-> 0, unexplained |-> 0, cut |-> 0, cutbelow |-> 0, cutanti |-> 0, stopover |-> 0,
          poked |-> 0, nocanloop |-> 0, infloop |-> 0, infshort |-> 0, reusenz |-> 0, arc |-> 0, given |-> 0, inferred |-> 0, reuse |-> 0, clauses |-> 0]

Init == l = 1 /\ inrun = FALSE /\ conf = <<>> /\ slots = <<>> /\ viol = {} /\ cnt = <<>> /\ stat = Stat0 /\ cells = {} /\ dev = 0

\* ---------------------------------------------------------------- Config
Abs(x) == IF x < 0 THEN -x ELSE x
\* the table SimParams built: for every particle the user's entry for its PDG, else the defaults
ThrMatches(c) ==
  \A i \in DOMAIN c.parts :
     LET p == c.parts[i]
         given == {j \in DOMAIN c.thr_in : c.thr_in[j].pdg = p.pdg}
     IN ("thr" \in DOMAIN p) =>
          IF given # {}
            THEN \E j \in given : /\ p.thr.mss = c.thr_in[j].mss /\ p.thr.ms = c.thr_in[j].ms
                                  /\ p.thr.rE_thr = c.thr_in[j].rE_thr
            ELSE /\ p.thr.mss = DefaultThreshold.mss /\ p.thr.ms = DefaultThreshold.ms
                 /\ p.thr.rE_thr = c.rE_d250
\* ... and every entry of a constructed SimParams is a valid LoopingThreshold
ThrValid(c) ==
  \A i \in DOMAIN c.parts :
     LET p == c.parts[i] IN
     ("thr" \in DOMAIN p) =>
        ValidThreshold([mss |-> p.thr.mss, ms |-> p.thr.ms, thr |-> p.thr.rE_thr - c.rE_zero])
(* NAMED DEVIATION InvalidThresholdAccepted (finding F-LOOP-1): SimParams(Input) accepts a user entry
   for which LoopingThreshold::operator bool is false (max_steps = 0, max_subthreshold_steps = 0 or a
   negative threshold energy) instead of refusing it.  Scoped exactly: the table matches the input
   (ThrMatches) and the only invalid entries are the user's own; counted in `dev`, never hidden.
   A table that differs from the input, or an invalid entry nobody asked for, is the VIOLATION
   X02.ThresholdTable. *)
InvalidThresholdAccepted(c) == ThrMatches(c) /\ ~ThrValid(c)

TConfig ==
  /\ Rec.e = "Config" /\ ~inrun
  /\ inrun' = TRUE /\ conf' = Rec /\ slots' = <<>>
  /\ Note(IF ThrMatches(Rec) THEN {} ELSE {"X02.ThresholdTable"}, Rec.run)
  /\ dev' = dev + (IF InvalidThresholdAccepted(Rec) THEN 1 ELSE 0)
  /\ stat' = [stat EXCEPT !.runs = @ + 1, !.clauses = @ + 2]
  /\ UNCHANGED cells

\* the constructor refused the thresholds it was given: legitimate only for an invalid entry
TRefused ==
  /\ Rec.e = "Refused" /\ ~inrun
  /\ Note(IF \E j \in DOMAIN Rec.thr_in :
               ~ValidThreshold([mss |-> Rec.thr_in[j].mss, ms |-> Rec.thr_in[j].ms, thr |-> Rec.thr_in[j].rE_thr - Rec.rE_zero])
            THEN {} ELSE {"X02.ValidThresholdRefused"}, Rec.run)
  /\ stat' = [stat EXCEPT !.refused = @ + 1, !.clauses = @ + 1]
  /\ UNCHANGED <<inrun, conf, slots, dev, cells>>

TEnd == Rec.e = "End" /\ inrun /\ inrun' = FALSE /\ slots' = <<>> /\ UNCHANGED <<conf, viol, cnt, stat, cells, dev>>

\* ---------------------------------------------------------------- Step
Part(r) == conf.parts[r.pt + 1]
CanLoop(r) == conf.canloop /\ Part(r).q # 0 /\ r.hasctr
Thr(r) == LET p == Part(r) IN
          IF "thr" \in DOMAIN p THEN [mss |-> p.thr.mss, ms |-> p.thr.ms, rE |-> p.thr.rE_thr]
          ELSE [mss |-> DefaultThreshold.mss, ms |-> DefaultThreshold.ms, rE |-> conf.rE_d250]
Below(r) == r.rE_E0 < Thr(r).rE

Given(r) == "ret" \in DOMAIN r
GivenKind(r) ==
  IF r.lim0 THEN "stopped" ELSE IF r.ret.loop THEN "loop" ELSE IF r.ret.bnd THEN "boundary"
  ELSE IF r.ret.rL_dist < r.rL_lim THEN "short" ELSE "full"

Obs(r) == [c0 |-> r.c0, c1 |-> r.c1, act0 |-> r.act0, act1 |-> r.act1, below |-> Below(r),
           stable |-> r.stable, lim0 |-> r.lim0, lenLtLim |-> r.rL_len < r.rL_lim,
           lenEqLim |-> r.rL_len = r.rL_lim, onb |-> r.onb1, stopped1 |-> r.stopped1,
           hasAtRest |-> r.atrest, bumpLen |-> Given(r) \/ r.rL_len <= conf.rL_bump]

KindOrder == <<"stopped", "loop", "boundary", "full", "short">>
Explaining(r) ==
  LET t == Thr(r) IN
  SelectSeq(KindOrder, LAMBDA k : Explain(Obs(r), CanLoop(r), t, k) = {})
\* the most plausible kind of a step nothing explains (only used to name the violated clauses)
Guess(r) ==
  IF r.lim0 THEN "stopped"
  ELSE IF CanLoop(r) /\ r.c1 = r.c0 + 1 THEN "loop"
  ELSE IF r.onb1 /\ r.act1 = ActBoundary THEN "boundary"
  ELSE IF r.rL_len = r.rL_lim THEN "full"
  ELSE IF CanLoop(r) /\ ~(r.rL_len <= conf.rL_bump) THEN "loop"
  ELSE "short"

Cut(r) == r.act1 = ActCut /\ r.st1 = "alive"

StepClauses(r, kind) ==
  LET p == Part(r)  t == Thr(r)
      prev == IF r.slot \in DOMAIN slots THEN slots[r.slot] ELSE [ev |-> -1, tid |-> -1, c |-> 0]
      same == prev.ev = r.ev /\ prev.tid = r.tid
  IN
     \* reset at track initialisation
     (IF r.ns0 = 0 /\ r.cprev # InitCounter THEN {"X02.InitReset"} ELSE {})
     \* between two steps of one track nobody touches the counter; nor between along-step and post-step
     \cup (IF r.ns0 > 0 /\ same /\ r.cprev # prev.c THEN {"X02.CounterContinuity"} ELSE {})
     \cup (IF r.c2 # r.c1 THEN {"X02.CounterContinuity"} ELSE {})
     \cup (IF r.ns0 > 0 /\ ~same THEN {"X02.TraceProtocol"} ELSE {})
     \* the tracking-cut selected by the along-step runs, kills, and deposits what is left
     \cup (IF Cut(r) => (r.act2 = ActCut /\ r.st2 = "killed" /\ r.Eq2 = 0 /\ r.nsec = 0) THEN {} ELSE {"X02.CutKills"})
     \cup (IF Cut(r) => Abs(r.depq2 - r.depq1 - r.Eq1 - (IF p.anti THEN p.twomq ELSE 0)) <= 2
             THEN {} ELSE {"X02.CutDeposits"})
     \* user-facing consequence: a stable track still alive after a looping step is below its limit
     \cup (IF (kind = "loop" /\ CanLoop(r) /\ r.stable /\ r.st2 = "alive" /\ ~r.stopped1)
                => r.c1 < Limit([mss |-> t.mss, ms |-> t.ms], Below(r))
             THEN {} ELSE {"X02.BoundedLooping"})
     \* the recorded step length is a path length: not shorter than the chord ...
     \cup (IF r.lim0 \/ r.rL_chordlo <= r.rL_len THEN {} ELSE {"X02.ChordWithinStep"})
     \* ... and (Oracle, uniform field) equal to the arc length the conserved parallel velocity implies
     \cup (IF r.arc => (r.rL_arclo <= r.rL_len /\ r.rL_len <= r.rL_archi) THEN {} ELSE {"X02.Oracle.ArcLength"})
     \* scripted: the step length of a shortened step is exactly the distance the propagator returned
     \cup (IF (Given(r) /\ kind \in {"loop", "boundary", "short"}) => r.rL_len = r.ret.rL_dist
             THEN {} ELSE {"X02.StepLengthIsDistance"})

TStep ==
  /\ Rec.e = "Step" /\ inrun
  /\ LET r == Rec
         t == Thr(r)
         tt == [mss |-> t.mss, ms |-> t.ms]
         ex == IF Given(r) THEN <<>> ELSE Explaining(r)
         kind == IF Given(r) THEN GivenKind(r) ELSE IF Len(ex) > 0 THEN ex[1] ELSE Guess(r)
         bad == IF Given(r) \/ Len(ex) = 0 THEN Explain(Obs(r), CanLoop(r), tt, kind) ELSE {}
         looped == kind = "loop" /\ CanLoop(r)
         lim == Limit(tt, Below(r))
     IN
     /\ Note(bad \cup StepClauses(r, kind), <<conf.run, r.ev, r.tid, r.ns0>>)
     /\ slots' = [x \in (DOMAIN slots) \cup {r.slot} |->
                    IF x = r.slot THEN [ev |-> r.ev, tid |-> r.tid, c |-> r.c2] ELSE slots[x]]
     /\ cells' = IF looped
                   THEN cells \cup {<<IF Below(r) THEN "below" ELSE "notbelow",
                                      IF r.c1 < lim THEN "lt" ELSE IF r.c1 = lim THEN "eq" ELSE "gt", r.act1>>}
                   ELSE cells
     /\ stat' = [stat EXCEPT !.steps = @ + 1, ![kind] = @ + 1, !.clauses = @ + 13,
                   !.first = @ + (IF r.ns0 = 0 THEN 1 ELSE 0),
                   !.unexplained = @ + (IF bad # {} THEN 1 ELSE 0),
                   !.cut = @ + (IF Cut(r) THEN 1 ELSE 0),
                   !.cutbelow = @ + (IF Cut(r) /\ Below(r) THEN 1 ELSE 0),
                   !.cutanti = @ + (IF Cut(r) /\ Part(r).anti THEN 1 ELSE 0),
                   !.stopover = @ + (IF looped /\ r.stopped1 THEN 1 ELSE 0),
                   !.poked = @ + (IF r.poked THEN 1 ELSE 0),
                   !.nocanloop = @ + (IF CanLoop(r) THEN 0 ELSE 1),
                   !.arc = @ + (IF r.arc THEN 1 ELSE 0),
                   !.given = @ + (IF Given(r) THEN 1 ELSE 0),
                   !.infloop = @ + (IF ~Given(r) /\ looped THEN 1 ELSE 0),
                   !.infshort = @ + (IF ~Given(r) /\ kind = "short" THEN 1 ELSE 0),
                   !.inferred = @ + (IF Given(r) THEN 0 ELSE 1),
                   !.reuse = @ + (IF r.ns0 = 0 /\ r.slot \in DOMAIN slots THEN 1 ELSE 0),
                   !.reusenz = @ + (IF r.ns0 = 0 /\ r.slot \in DOMAIN slots /\ slots[r.slot].c > 0 THEN 1 ELSE 0)]
  /\ UNCHANGED <<inrun, conf, dev>>

TClose == Rec.e = "Close" /\ ~inrun /\ l = N /\ UNCHANGED <<inrun, conf, slots, viol, cnt, stat, cells, dev>>

Next == l <= N /\ l' = l + 1 /\ (TConfig \/ TRefused \/ TStep \/ TEnd \/ TClose)
Spec == Init /\ [][Next]_vars

Accepted ==
  LET d == TLCGet("stats").diameter IN
  IF d - 1 = N /\ TraceLog[N].e = "Close" THEN TRUE
  ELSE /\ PrintT(<<"REJECTED", d, TraceLog[IF d <= N THEN d ELSE N]>>)
       /\ FALSE
Report == (l = N + 1) => PrintT(<<"SUMMARY", ToJson([viol |-> viol, cnt |-> cnt, stat |-> stat, cells |-> cells, dev |-> dev])>>)
=============================================================================
