------------------------------- MODULE Optical -------------------------------
(* Property C20: "Generated optical photons are physically valid".

   Two layers.

   (1) The Generate action for ONE (charged-particle step, optical material, process):
       given   the step  [pre/post speed, pre/post position, pre-step time, step length,
                          charge, optical material, energy deposit]
       the pre-generator (CerenkovOffload / ScintillationOffload) returns a distribution
               [num_photons, stored step data, valid]
       and the generator (CerenkovGenerator / ScintillationGenerator) returns photons
               [energy, position, direction, polarisation, time].
       The record r is what harness/voptical.cc observed for one such call of the REAL
       classes.  Numbers reach the spec the way DESIGN.md section 0 prescribes:
         * order relations: dense ranks within the record (field rk and the per-photon ranks);
           brackets (few-ulp slack, 1/beta(1 +- 4 eps), n_max(1 - 1e-6), support windows)
           are ranked next to the values;
         * equality of stored data: interned bit tokens (fields in / dist);
         * counts: integers.
       SPEC-DECIDED clauses (ranks, tokens, integers): NoPhotonsBelowThreshold,
       NoScintillationWithoutDeposit, DndxThreshold, OffloadNotSilent,
       DistributionStoresStep, GeneratedCount, DrawBound, EnergyFinitePositive,
       EnergyInTableRange, TimeNotBeforePreStep, PositionOnSegment (betweenness part),
       ScintillationComponentValid.
       ORACLE-DECIDED clauses (the harness evaluates a real-valued identity from the
       documented definition with plain arithmetic; the spec only compares the rank of the
       residual with the rank of its tolerance): UnitDirection, UnitPolarisation,
       PolarisationPerpendicular, CerenkovCone, PositionOnSegment (collinearity part),
       TimeConsistentWithParent, DndxMatchesDefinition, CountWithinLaw.

   (2) The bookkeeping of the offload buffers as a state machine (Offload appends the valid
       distributions of one step, Generate turns a buffer into photon initializers through
       prefix sums, LocalWork and DistIndex, Launch consumes the initializers).  The
       operators below are used by OpticalMC.tla (design check) and OpticalTrace.tla
       (validation of the real remove_if_invalid / count_num_photons /
       inclusive_scan_photons / find_distribution_index / LocalWorkCalculator).

   Clauses(r) is the SET OF VIOLATED CLAUSE NAMES (empty = allowed). *)
EXTENDS Integers, Sequences, FiniteSets, SequencesExt

Named(ok, name) == IF ok THEN {} ELSE {name}
Sum(s) == FoldLeft(LAMBDA a, b : a + b, 0, s)
Smaller(a, b) == IF a < b THEN a ELSE b

Procs == {"cer", "scint"}
Coords == 1..3

-----------------------------------------------------------------------------
(* ---- (1a) the pre-generator ---- *)
IsCer(r) == r.proc = "cer"

\* 1/beta_mean (1 - 4 eps) > n_max: certainly below the Cerenkov threshold
Below(r) == IsCer(r) /\ r.rk.invblo > r.rk.nmax
\* 1/beta_mean (1 + 4 eps) < n_max (1 - 1e-6): certainly above it
ClearlyAbove(r) == IsCer(r) /\ r.rk.invbhi < r.rk.nmaxlo

NothingRequested(r) == r.dist.n = 0 /\ ~r.dist.valid /\ r.gen = 0

\* below threshold (mean speed), neutral particle or zero step length: no Cerenkov photons
NoPhotonsBelowThreshold(r) ==
  (IsCer(r) /\ (Below(r) \/ r.charge = 0 \/ r.lenzero)) => NothingRequested(r)

NoScintillationWithoutDeposit(r) ==
  (~IsCer(r) /\ r.edepzero) => NothingRequested(r)

\* dN/dx at the mean speed: finite, never negative, zero below threshold.  (Positivity above
\* threshold is NOT claimed: with the documented trapezoid/linear interpolation of the angle
\* integral the clamped value is 0 for some speeds above threshold on coarse tables -- the
\* same discretisation as Geant4; OffloadNotSilent covers the live side.)
DndxThreshold(r) ==
  (IsCer(r) /\ r.called) =>
     /\ r.dndxfin /\ r.rk.dndx >= r.rk.zero
     /\ Below(r) => r.rk.dndx = r.rk.zero

\* oracle-decided: |dN/dx - documented integral| <= 1e-9 dN/dx(beta = 1)
DndxMatchesDefinition(r) == (IsCer(r) /\ r.called) => r.rk.dres <= r.rk.dtol

\* the other side of the threshold rule: a step whose documented mean photon number is at
\* least `loud` (>= 50 and >= 10 standard deviations) requests photons
OffloadNotSilent(r) ==
  (r.called /\ ~r.lenzero /\ r.rk.mean >= r.rk.loud) => (r.dist.n > 0 /\ r.dist.valid)

\* oracle-decided mean: the sampled number lies in the support bracket of the documented law
CountWithinLaw(r) == ~r.dist.nbig /\ r.rk.nlo <= r.rk.n /\ r.rk.n <= r.rk.nhi

TokensEqual(a, b) ==
  /\ a.time = b.time /\ a.len = b.len /\ a.charge = b.charge /\ a.mat = b.mat
  /\ a.bpre = b.bpre /\ a.bpost = b.bpost /\ a.pre = b.pre /\ a.post = b.post

\* a non-empty distribution carries exactly the step it was made for and is valid iff the
\* step has a length; an empty one is invalid
DistributionStoresStep(r) ==
  /\ r.dist.n >= 0
  /\ r.dist.n > 0 => (TokensEqual(r.dist, r.in) /\ (r.dist.valid <=> ~r.lenzero))
  /\ r.dist.n = 0 => ~r.dist.valid

GeneratedCount(r) ==
  /\ Len(r.phot) = r.gen
  /\ ~r.aborted => r.gen = (IF r.dist.valid THEN Smaller(r.dist.n, r.maxphot) ELSE 0)

DrawBound(r) == ~r.aborted

-----------------------------------------------------------------------------
(* ---- (1b) the photons ---- *)
EnergyFinitePositive(r, p) == p.Efin /\ p.E > r.rk.zero
EnergyInTableRange(r, p) == IsCer(r) => (p.E >= r.rk.emin /\ p.E <= r.rk.emax)
TimeNotBeforePreStep(r, p) == p.tfin /\ p.t >= r.rk.t0
\* oracle-decided bracket: not before the parent can have reached the emission point
\* (u L / v_max) and, for Cerenkov light, not after it must have (u L / v_min)
TimeConsistentWithParent(r, p) ==
  /\ p.t >= p.tlo
  /\ (IsCer(r) /\ p.hasup) => p.t <= p.thi
\* per coordinate between the end points (few-ulp slack) + oracle-decided distance from the line
PositionOnSegment(r, p) ==
  /\ p.pfin
  /\ \A c \in Coords : r.seg.lo[c] <= p.pos[c] /\ p.pos[c] <= r.seg.hi[c]
  /\ p.col <= r.rk.coltol
UnitDirection(r, p) == p.dfin /\ p.rN <= r.rk.ntol
UnitPolarisation(r, p) == p.polfin /\ p.rP <= r.rk.ntol
PolarisationPerpendicular(r, p) == p.dfin /\ p.polfin /\ p.rDP <= r.rk.dptol
CerenkovCone(r, p) == IsCer(r) => p.cone <= r.rk.conetol
\* the photon energy lies in the support window of one of the material's components
ScintillationComponentValid(r, p) ==
  ~IsCer(r) =>
     /\ Len(r.comps) >= 1
     /\ \E i \in DOMAIN r.comps :
           /\ p.E >= r.comps[i].elo
           /\ r.comps[i].bounded => p.E <= r.comps[i].ehi

PhotonClauses(r, p) ==
       Named(EnergyFinitePositive(r, p), "C20.EnergyFinitePositive")
  \cup Named(EnergyInTableRange(r, p), "C20.EnergyInTableRange")
  \cup Named(TimeNotBeforePreStep(r, p), "C20.TimeNotBeforePreStep")
  \cup Named(TimeConsistentWithParent(r, p), "C20.TimeConsistentWithParent")
  \cup Named(PositionOnSegment(r, p), "C20.PositionOnSegment")
  \cup Named(UnitDirection(r, p), "C20.UnitDirection")
  \cup Named(UnitPolarisation(r, p), "C20.UnitPolarisation")
  \cup Named(PolarisationPerpendicular(r, p), "C20.PolarisationPerpendicular")
  \cup Named(CerenkovCone(r, p), "C20.CerenkovCone")
  \cup Named(ScintillationComponentValid(r, p), "C20.ScintillationComponentValid")

StepClauses(r) ==
       Named(NoPhotonsBelowThreshold(r), "C20.NoPhotonsBelowThreshold")
  \cup Named(NoScintillationWithoutDeposit(r), "C20.NoScintillationWithoutDeposit")
  \cup Named(DndxThreshold(r), "C20.DndxThreshold")
  \cup Named(DndxMatchesDefinition(r), "C20.DndxMatchesDefinition")
  \cup Named(OffloadNotSilent(r), "C20.OffloadNotSilent")
  \cup Named(CountWithinLaw(r), "C20.CountWithinLaw")
  \cup Named(DistributionStoresStep(r), "C20.DistributionStoresStep")
  \cup Named(GeneratedCount(r), "C20.GeneratedCount")
  \cup Named(DrawBound(r), "C20.DrawBound")

Clauses(r) ==
  IF r.proc \notin Procs THEN {"C20.Malformed"}
  ELSE StepClauses(r) \cup UNION {PhotonClauses(r, r.phot[j]) : j \in DOMAIN r.phot}

OracleDecided == {"C20.UnitDirection", "C20.UnitPolarisation", "C20.PolarisationPerpendicular",
                  "C20.CerenkovCone", "C20.PositionOnSegment", "C20.TimeConsistentWithParent",
                  "C20.DndxMatchesDefinition", "C20.CountWithinLaw"}

-----------------------------------------------------------------------------
(* ---- named deviations (known findings): exactly scoped, counted, never hidden ---- *)

\* ScintillationGenerator samples the wavelength from N(lambda_mean, lambda_sigma) without
\* truncation; a component with lambda_mean - 8.6 sigma <= 0 (accepted by
\* ScintillationParams: only sigma > 0 is required) yields wavelengths <= 0, i.e. photons of
\* negative (or infinite) energy.  Scope: scintillation, the material has such a component,
\* and the only thing wrong with the photons is the sign / finiteness of the energy.
DevWideSpectrum(r) ==
  /\ r.proc = "scint"
  /\ \E i \in DOMAIN r.comps : ~r.comps[i].bounded

\* CerenkovGenerator rotates the sampled direction about make_unit_vector(post - pre).  For a
\* step EXACTLY parallel to the z axis (x and y displacement bit-equal zero) whose normalised z
\* component rounds to +-(1 - eps/2), corecel rotate() computes sin(theta) = sqrt(1 - z^2) =
\* 1.5e-8 > 0 and then the azimuth as x / sqrt(x^2 + y^2) = 0/0: direction and polarisation
\* of every photon of the step are NaN.  Scope: Cerenkov, x and y of pre/post bit-equal, and
\* nothing but the two vectors is wrong with the photons.
DevStepAlongZ(r) ==
  /\ r.proc = "cer"
  /\ r.in.pre[1] = r.in.post[1] /\ r.in.pre[2] = r.in.post[2]
  /\ \A j \in DOMAIN r.phot : ~r.phot[j].dfin /\ ~r.phot[j].polfin

\* F-ROT-1 (registered for C04, repair withdrawn because it changes pinned gold values):
\* corecel rotate() loses the sign of the reference direction's y component when that
\* direction is within sin(theta) < 0.005 of the z axis.  CerenkovGenerator rotates the cone
\* about the step direction, so for such a step with a negative y displacement every photon is
\* emitted about the mirrored axis: the cone residual is up to 2 sin(theta).  Scope: Cerenkov,
\* 0 < sin(theta_step) < 0.005 (1 + 1e-9), y component of the step direction negative; only
\* the cone clause.
DevRotateNearPole(r) ==
  /\ r.proc = "cer" /\ "axis" \in DOMAIN r
  /\ r.axis.near /\ r.axis.yneg

Deviations(r) ==
  IF r.proc \notin Procs THEN {}
  ELSE (IF DevWideSpectrum(r)
        THEN {[name |-> "ScintNonPositiveWavelength",
               covers |-> {"C20.EnergyFinitePositive", "C20.ScintillationComponentValid"}]}
        ELSE {})
       \cup
       (IF DevStepAlongZ(r)
        THEN {[name |-> "CerenkovStepAlongZNaN",
               covers |-> {"C20.UnitDirection", "C20.UnitPolarisation",
                           "C20.PolarisationPerpendicular"}]}
        ELSE {})
       \cup
       (IF DevRotateNearPole(r)
        THEN {[name |-> "RotateNearPoleNegativeY", covers |-> {"C20.CerenkovCone"}]}
        ELSE {})

Explaining(r, V) == {d.name : d \in {e \in Deviations(r) : e.covers \cap V # {}}}
Explained(r, V) == V \subseteq UNION {d.covers : d \in Deviations(r)}

-----------------------------------------------------------------------------
(* ---- (2) bookkeeping of the offload buffers ----
   A buffer is a sequence of [sid, n]: distribution of step-slot `sid` asking for n photons. *)

Entry(d) == [sid |-> d.sid, n |-> d.n]
\* compaction keeps exactly the valid distributions, in slot order
Compact(slots) == LET kept == SelectSeq(slots, LAMBDA d : d.valid)
                  IN [k \in DOMAIN kept |-> Entry(kept[k])]
Total(buf) == Sum([k \in DOMAIN buf |-> buf[k].n])
\* inclusive prefix sums of the requested photon numbers
PrefixSums(buf) == [k \in DOMAIN buf |-> Sum([j \in 1..k |-> buf[j].n])]

\* property level: photon number idx (0-based) of a flush belongs to THE distribution k with
\* offs[k-1] <= idx < offs[k]  (offs[0] = 0); 0 if there is none
SpecDistIndex(offs, idx) ==
  LET S == {k \in DOMAIN offs : (IF k = 1 THEN 0 ELSE offs[k - 1]) <= idx /\ idx < offs[k]}
  IN IF S = {} THEN 0 ELSE CHOOSE k \in S : \A j \in S : k <= j

\* as coded (detail::find_distribution_index, 1-based here): lower_bound, then one step to
\* the right when the value equals the bound
LowerBound(offs, v) ==
  LET S == {k \in DOMAIN offs : offs[k] >= v}
  IN IF S = {} THEN Len(offs) + 1 ELSE CHOOSE k \in S : \A j \in S : k <= j
CodedDistIndex(offs, v, bump) ==
  LET lb == LowerBound(offs, v)
  IN IF bump /\ lb <= Len(offs) /\ offs[lb] = v THEN lb + 1 ELSE lb

\* LocalWorkCalculator: share of worker tid (0-based) of `total` items over W workers, and
\* the items it handles (i W + tid)
LocalWork(total, W, tid) == (total \div W) + (IF tid < total % W THEN 1 ELSE 0)
ThreadItems(total, W, tid) == {i * W + tid : i \in 0..(LocalWork(total, W, tid) - 1)}

(* clauses of one BOffload record: buf = buffer before, pending = pending photons before *)
OffloadClauses(rec, buf, pending) ==
  LET add == Compact(rec.slots)
      got == [k \in DOMAIN rec.buf |-> Entry(rec.buf[k])]
  IN   Named(/\ rec.size_before = Len(buf)
             /\ rec.size_after = Len(buf) + Len(add)
             /\ got = buf \o add
             /\ \A k \in DOMAIN rec.buf : rec.buf[k].valid /\ rec.buf[k].n > 0,
             "C20.BufferAppend")
  \cup Named(/\ rec.counted = Total(add)
             /\ rec.pending_after = pending + Total(add),
             "C20.CountConsistent")
  \cup Named(\A t \in DOMAIN rec.slots :
                /\ ~rec.slots[t].called => (rec.slots[t].n = 0 /\ ~rec.slots[t].valid)
                /\ rec.slots[t].valid => rec.slots[t].n > 0,
             "C20.NothingForInvalid")

AllItems(rec) == UNION {{<<rec.work[w].tid, rec.work[w].items[i]>> : i \in DOMAIN rec.work[w].items}
                        : w \in DOMAIN rec.work}

(* clauses of one flushed BGenerate record *)
GenerateClauses(rec, buf, pending, ninit, S, initcap) ==
  LET offs == PrefixSums(buf)
      total == Total(buf)
      items == AllItems(rec)
      idxs == {it[2].idx : it \in items}
  IN   Named(/\ rec.offsets = offs
             /\ rec.count = total,
             "C20.OffsetsArePrefixSums")
  \cup Named(/\ Len(rec.work) = S
             /\ {rec.work[w].tid : w \in DOMAIN rec.work} = 0..(S - 1)
             /\ \A w \in DOMAIN rec.work :
                   /\ rec.work[w].local = LocalWork(total, S, rec.work[w].tid)
                   /\ Len(rec.work[w].items) = rec.work[w].local
                   /\ {rec.work[w].items[i].idx : i \in DOMAIN rec.work[w].items}
                        = ThreadItems(total, S, rec.work[w].tid)
             /\ idxs = 0..(total - 1)
             /\ Cardinality(items) = total
             /\ \A it \in items : it[2].init = ninit + it[2].idx /\ it[2].init < initcap,
             "C20.OffsetsDisjoint")
  \cup Named(/\ \A it \in items :
                   /\ it[2].dist + 1 = SpecDistIndex(offs, it[2].idx)
                   /\ it[2].dist + 1 \in DOMAIN buf
                   /\ it[2].sid = buf[it[2].dist + 1].sid
             /\ \A k \in DOMAIN buf :
                   Cardinality({it \in items : it[2].dist + 1 = k}) = buf[k].n
             /\ rec.pending_after = pending - total
             /\ rec.ninit_after = ninit + total,
             "C20.CountConsistent")
  \cup Named(\A it \in items : it[2].ok, "C20.PhotonFromItsDistribution")
=============================================================================
