SPECIFICATION Spec
CONSTANTS
  Slots = 2
  Cap = 4
  InitCap = 6
  AutoFlush = 3
  MaxN = 2
  MaxSteps = 2
  Compaction = TRUE
  Bump = TRUE
  GuardEmpty = TRUE
INVARIANT WithinCapacity
INVARIANT PendingExact
INVARIANT CountsConserved
INVARIANT NoEmptyScan
INVARIANT NoRangeError
INVARIANT BuffersHoldValidOnly
CHECK_DEADLOCK FALSE
