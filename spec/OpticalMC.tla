------------------------------ MODULE OpticalMC ------------------------------
(* Design check for C20.

   (A) The offload bookkeeping as a state machine (the index arithmetic of
       {Cerenkov,Scint}OffloadAction::step_impl, {Cerenkov,Scint}GeneratorAction::step_impl,
       the generator executors and OpticalLaunchAction, transcribed):

         per core step   off_cer, off_scint : every track slot writes a distribution at
                                              buffer[size + slot]; the environment picks what
                                              each pre-generator returned (0 = empty/invalid,
                                              1..MaxN photons); compaction; pending += count
                         gen_cer, gen_scint : if initializers + pending >= AutoFlush: prefix
                                              sums, every photon index finds its distribution
                                              (CodedDistIndex), initializers are written,
                                              counters move, buffer size := 0
                         launch             : the optical loop consumes the initializers

       Invariants: capacities respected, pending = sum over both buffers, every distribution's
       photons are generated exactly once and only for valid distributions (CountsConserved at
       the end of every flush), no generator runs on an empty buffer.
       Constants make the transcription switchable: Compaction (remove_if_invalid), Bump (the
       `if (value == *iter) ++iter` of find_distribution_index), GuardEmpty (skip a generator
       whose own buffer is empty).  OpticalMC.cfg = as intended (all TRUE) must hold;
       OpticalMC_nocompact / _nobump are seeded design mutants that MUST be refuted (vacuity
       guards); OpticalMC_ascoded (GuardEmpty = FALSE: the code has CELER_ASSERT(buffer_size
       > 0) and, in release, takes offsets.back() of an empty span) MUST be refuted by
       NoEmptyScan -- a design-level observation reported by the check.

   (B) ASSUMEs, evaluated once: the work decomposition LocalWork/ThreadItems partitions
       0..total-1; CodedDistIndex = SpecDistIndex on strictly increasing offsets; and the
       vacuity guard of the clause definitions of Optical.tla: a canonical good record of
       either process violates nothing, and each seeded single fault fires exactly its
       clause(s). *)
EXTENDS Optical, TLC

CONSTANTS Slots, Cap, InitCap, AutoFlush, MaxN, MaxSteps, Compaction, Bump, GuardEmpty

VARIABLES cbuf, sbuf,     \* the two distribution buffers: Seq([sid, n])
          pending,        \* OffloadBufferSize::num_photons
          ninit,          \* optical counters.num_initializers
          made,           \* ghost: sid -> photons generated for it so far
          req,            \* ghost: sid -> photons requested (0 = invalid distribution)
          phase, step, err
vars == <<cbuf, sbuf, pending, ninit, made, req, phase, step, err>>

Init ==
  /\ cbuf = <<>> /\ sbuf = <<>> /\ pending = 0 /\ ninit = 0
  /\ made = <<>> /\ req = <<>>
  /\ phase = "off_cer" /\ step = 1 /\ err = "none"

NextPhase(p) == CASE p = "off_cer" -> "off_scint" [] p = "off_scint" -> "gen_cer"
                  [] p = "gen_cer" -> "gen_scint" [] p = "gen_scint" -> "launch"
                  [] p = "launch" -> "off_cer"

Offload(buf, isCer) ==
  IF Len(buf) + Slots > Cap
  THEN /\ err' = "capacity"
       /\ UNCHANGED <<cbuf, sbuf, pending, ninit, made, req, phase, step>>
  ELSE \E outs \in [1..Slots -> 0..MaxN] :
         LET base == Len(req)
             new == [t \in 1..Slots |-> [sid |-> base + t, n |-> outs[t], valid |-> outs[t] > 0]]
             kept == IF Compaction THEN Compact(new) ELSE [t \in 1..Slots |-> Entry(new[t])]
         IN /\ IF isCer THEN cbuf' = buf \o kept /\ UNCHANGED sbuf
                        ELSE sbuf' = buf \o kept /\ UNCHANGED cbuf
            /\ pending' = pending + Sum(outs)
            /\ req' = req \o outs
            /\ made' = made \o [t \in 1..Slots |-> 0]
            /\ phase' = NextPhase(phase)
            /\ UNCHANGED <<ninit, step, err>>

Skip == phase' = NextPhase(phase) /\ UNCHANGED <<cbuf, sbuf, pending, ninit, made, req, step, err>>
Fail(e) == err' = e /\ UNCHANGED <<cbuf, sbuf, pending, ninit, made, req, phase, step>>

Generate(buf, isCer) ==
  IF ninit + pending < AutoFlush THEN Skip
  ELSE IF ninit + pending > InitCap THEN Fail("initcap")
  ELSE IF Len(buf) = 0 THEN (IF GuardEmpty THEN Skip ELSE Fail("emptyscan"))
  ELSE LET offs == PrefixSums(buf)
           total == offs[Len(offs)]
           di(idx) == CodedDistIndex(offs, idx, Bump)
       IN IF \E idx \in 0..(total - 1) : di(idx) > Len(buf)
          THEN Fail("distrange")        \* CELER_ASSERT(dist_idx < size)
          ELSE /\ made' = [s \in DOMAIN made |->
                             made[s] + Cardinality({idx \in 0..(total - 1) : buf[di(idx)].sid = s})]
               /\ ninit' = ninit + total
               /\ pending' = pending - total
               /\ IF isCer THEN cbuf' = <<>> /\ UNCHANGED sbuf ELSE sbuf' = <<>> /\ UNCHANGED cbuf
               /\ phase' = NextPhase(phase)
               /\ UNCHANGED <<req, step, err>>

Launch ==
  /\ ninit' = 0
  /\ step' = step + 1
  /\ phase' = NextPhase(phase)
  /\ UNCHANGED <<cbuf, sbuf, pending, made, req, err>>

Next ==
  /\ err = "none" /\ step <= MaxSteps
  /\ CASE phase = "off_cer" -> Offload(cbuf, TRUE)
       [] phase = "off_scint" -> Offload(sbuf, FALSE)
       [] phase = "gen_cer" -> Generate(cbuf, TRUE)
       [] phase = "gen_scint" -> Generate(sbuf, FALSE)
       [] phase = "launch" -> Launch
Spec == Init /\ [][Next]_vars

-----------------------------------------------------------------------------
InBuf(s) == Cardinality({k \in DOMAIN cbuf : cbuf[k].sid = s}) + Cardinality({k \in DOMAIN sbuf : sbuf[k].sid = s})
Waiting(s) == Sum([k \in DOMAIN cbuf |-> IF cbuf[k].sid = s THEN cbuf[k].n ELSE 0])
              + Sum([k \in DOMAIN sbuf |-> IF sbuf[k].sid = s THEN sbuf[k].n ELSE 0])

WithinCapacity == Len(cbuf) <= Cap /\ Len(sbuf) <= Cap /\ ninit <= InitCap
PendingExact == pending = Total(cbuf) + Total(sbuf)
\* every requested photon is either still waiting in a buffer or has been generated, exactly
\* once, and nothing is generated for an invalid (empty) distribution
CountsConserved ==
  err = "none" => \A s \in DOMAIN req : made[s] + Waiting(s) = req[s]
NoEmptyScan == err # "emptyscan"
NoRangeError == err # "distrange"
BuffersHoldValidOnly ==
  Compaction => /\ \A k \in DOMAIN cbuf : cbuf[k].n > 0
                /\ \A k \in DOMAIN sbuf : sbuf[k].n > 0

-----------------------------------------------------------------------------
(* ---- (B) lemmas ---- *)
PartitionLemma ==
  \A W \in 1..4 : \A total \in 0..13 :
     /\ UNION {ThreadItems(total, W, t) : t \in 0..(W - 1)} = 0..(total - 1)
     /\ Sum([t \in 1..W |-> LocalWork(total, W, t - 1)]) = total
     /\ \A t1, t2 \in 0..(W - 1) : t1 # t2 => ThreadItems(total, W, t1) \cap ThreadItems(total, W, t2) = {}

SmallBufs == UNION {[1..len -> 1..3] : len \in 1..4}
AsBuf(f) == [k \in DOMAIN f |-> [sid |-> k, n |-> f[k]]]
DistIndexLemma ==
  \A f \in SmallBufs :
     LET offs == PrefixSums(AsBuf(f))
     IN \A idx \in 0..(offs[Len(offs)] - 1) :
           /\ CodedDistIndex(offs, idx, TRUE) = SpecDistIndex(offs, idx)
           /\ SpecDistIndex(offs, idx) \in DOMAIN offs
\* without the bump the first photon of every later distribution is misattributed
NoBumpIsWrong == CodedDistIndex(<<2, 3>>, 2, FALSE) # SpecDistIndex(<<2, 3>>, 2)

(* ---- vacuity guard of the clauses: canonical records and single faults ---- *)
Z == 1
GoodPhot(isCer) ==
  [Efin |-> TRUE, E |-> 12, tfin |-> TRUE, t |-> 9, pfin |-> TRUE, dfin |-> TRUE, polfin |-> TRUE,
   pos |-> <<21, 22, 23>>, rN |-> Z, rP |-> Z, rDP |-> Z, cone |-> Z, col |-> Z,
   tlo |-> 8, hasup |-> TRUE, thi |-> 10]
Tok == [time |-> 1, len |-> 2, charge |-> 3, mat |-> 4, bpre |-> 5, pre |-> <<6, 7, 8>>,
        bpost |-> 9, post |-> <<10, 11, 12>>]
Good(isCer) ==
  [e |-> "Step", k |-> 0, proc |-> (IF isCer THEN "cer" ELSE "scint"), var |-> "x", charge |-> -1,
   called |-> TRUE, lenzero |-> FALSE, edepzero |-> FALSE, dndxfin |-> TRUE, maxphot |-> 6,
   in |-> Tok,
   dist |-> Tok @@ [n |-> 2, nbig |-> FALSE, valid |-> TRUE],
   gen |-> 2, aborted |-> FALSE, draws |-> 20,
   seg |-> [lo |-> <<20, 20, 20>>, hi |-> <<24, 24, 24>>],
   comps |-> (IF isCer THEN <<>> ELSE <<[elo |-> 11, ehi |-> 13, bounded |-> TRUE]>>),
   phot |-> <<GoodPhot(isCer), GoodPhot(isCer)>>,
   rk |-> [zero |-> Z, ntol |-> 3, dptol |-> 3, conetol |-> 3, coltol |-> 3, t0 |-> 7, len |-> 5,
           invblo |-> 14, invbhi |-> 15, nmax |-> 17, nmaxlo |-> 16, emin |-> 11, emax |-> 13,
           dndx |-> 6, dres |-> Z, dtol |-> 3, mean |-> 8, loud |-> 9, nlo |-> 4, nhi |-> 9, n |-> 6]]
Empty(isCer) ==
  [Good(isCer) EXCEPT !.dist = Tok @@ [n |-> 0, nbig |-> FALSE, valid |-> FALSE], !.gen = 0,
                      !.phot = <<>>, !.rk.n = Z, !.rk.nlo = 0, !.rk.mean = Z]
BelowRec == [Empty(TRUE) EXCEPT !.rk.invblo = 18, !.rk.invbhi = 19, !.rk.dndx = Z]

Faults(isCer) ==
  LET r == Good(isCer) IN
  {<<"negative energy", [r EXCEPT !.phot[1].E = 0],
     {"C20.EnergyFinitePositive"} \cup (IF isCer THEN {"C20.EnergyInTableRange"} ELSE {"C20.ScintillationComponentValid"})>>,
   <<"NaN energy", [r EXCEPT !.phot[2].Efin = FALSE], {"C20.EnergyFinitePositive"}>>,
   <<"energy above the table", [r EXCEPT !.phot[1].E = 14],
     IF isCer THEN {"C20.EnergyInTableRange"} ELSE {"C20.ScintillationComponentValid"}>>,
   <<"time before the pre-step time", [r EXCEPT !.phot[1].t = 6, !.phot[1].tlo = 5],
     {"C20.TimeNotBeforePreStep"}>>,
   <<"time before the parent arrives", [r EXCEPT !.phot[1].tlo = 10],
     {"C20.TimeConsistentWithParent"}>>,
   <<"time after the parent has passed", [r EXCEPT !.phot[1].thi = 8],
     IF isCer THEN {"C20.TimeConsistentWithParent"} ELSE {}>>,
   <<"position beyond the post-step point", [r EXCEPT !.phot[2].pos = <<21, 25, 23>>],
     {"C20.PositionOnSegment"}>>,
   <<"position off the line", [r EXCEPT !.phot[2].col = 4], {"C20.PositionOnSegment"}>>,
   <<"direction not unit", [r EXCEPT !.phot[1].rN = 4], {"C20.UnitDirection"}>>,
   <<"NaN direction", [r EXCEPT !.phot[1].dfin = FALSE],
     {"C20.UnitDirection", "C20.PolarisationPerpendicular"}>>,
   <<"polarisation not unit", [r EXCEPT !.phot[1].rP = 4], {"C20.UnitPolarisation"}>>,
   <<"polarisation not perpendicular", [r EXCEPT !.phot[1].rDP = 4], {"C20.PolarisationPerpendicular"}>>,
   <<"off the cone", [r EXCEPT !.phot[1].cone = 4], IF isCer THEN {"C20.CerenkovCone"} ELSE {}>>,
   <<"stored step differs", [r EXCEPT !.dist.bpost = 99], {"C20.DistributionStoresStep"}>>,
   <<"valid with zero length", [r EXCEPT !.lenzero = TRUE],
     {"C20.DistributionStoresStep"} \cup (IF isCer THEN {"C20.NoPhotonsBelowThreshold"} ELSE {})>>,
   <<"fewer photons than requested", [r EXCEPT !.gen = 1, !.phot = <<GoodPhot(isCer)>>], {"C20.GeneratedCount"}>>,
   <<"aborted", [r EXCEPT !.aborted = TRUE], {"C20.DrawBound"}>>,
   <<"count outside the law", [r EXCEPT !.rk.n = 10], {"C20.CountWithinLaw"}>>,
   <<"silent although the mean is large", [Empty(isCer) EXCEPT !.rk.mean = 9, !.rk.nhi = 10],
     {"C20.OffloadNotSilent"}>>}
  \cup (IF isCer THEN
   {<<"photons below threshold", [r EXCEPT !.rk.invblo = 18, !.rk.invbhi = 19],
      {"C20.NoPhotonsBelowThreshold", "C20.DndxThreshold"}>>,
    <<"photons for a neutral particle", [r EXCEPT !.charge = 0], {"C20.NoPhotonsBelowThreshold"}>>,
    <<"negative dN/dx", [r EXCEPT !.rk.dndx = 0], {"C20.DndxThreshold"}>>,
    <<"dN/dx off the definition", [r EXCEPT !.rk.dres = 4], {"C20.DndxMatchesDefinition"}>>}
   ELSE
   {<<"photons without deposit", [r EXCEPT !.edepzero = TRUE], {"C20.NoScintillationWithoutDeposit"}>>,
    <<"no component", [r EXCEPT !.comps = <<>>], {"C20.ScintillationComponentValid"}>>})

ClauseLemma ==
  /\ \A c \in BOOLEAN : Clauses(Good(c)) = {} /\ Clauses(Empty(c)) = {}
  /\ Clauses(BelowRec) = {}
  /\ \A c \in BOOLEAN : \A f \in Faults(c) :
        \/ Clauses(f[2]) = f[3]
        \/ PrintT(<<"UNEXPECTED", c, f[1], Clauses(f[2]), f[3]>>) /\ FALSE
  \* scoping of the named deviation: only scintillation, only with an unbounded component,
  \* only the energy clauses
  /\ LET wide == [Good(FALSE) EXCEPT !.comps = <<[elo |-> 11, ehi |-> 0, bounded |-> FALSE]>>,
                                     !.phot[1].E = 0]
     IN /\ Clauses(wide) = {"C20.EnergyFinitePositive", "C20.ScintillationComponentValid"}
        /\ Explained(wide, Clauses(wide))
        /\ Explaining(wide, Clauses(wide)) = {"ScintNonPositiveWavelength"}
        /\ ~Explained(wide, {"C20.UnitDirection"})
        /\ ~Explained([Good(FALSE) EXCEPT !.phot[1].E = 0], {"C20.EnergyFinitePositive"})
        /\ ~Explained([Good(TRUE) EXCEPT !.phot[1].E = 0], {"C20.EnergyFinitePositive"})
  /\ LET nan(p) == [p EXCEPT !.dfin = FALSE, !.polfin = FALSE]
         alongz == [Good(TRUE) EXCEPT !.in.post = <<6, 7, 12>>, !.dist.post = <<6, 7, 12>>,
                                      !.phot = <<nan(GoodPhot(TRUE)), nan(GoodPhot(TRUE))>>]
         V == {"C20.UnitDirection", "C20.UnitPolarisation", "C20.PolarisationPerpendicular"}
     IN /\ Clauses(alongz) = V
        /\ Explained(alongz, V) /\ Explaining(alongz, V) = {"CerenkovStepAlongZNaN"}
        \* a generic step, only some photons NaN, or anything else wrong: not explained
        /\ ~Explained([alongz EXCEPT !.in.post = <<10, 7, 12>>, !.dist.post = <<10, 7, 12>>], V)
        /\ ~Explained([alongz EXCEPT !.phot[2] = GoodPhot(TRUE)], V)
        /\ ~Explained(alongz, V \cup {"C20.PositionOnSegment"})
        /\ ~Explained([alongz EXCEPT !.proc = "scint"], V)
  /\ LET offcone == [Good(TRUE) EXCEPT !.phot[1].cone = 4] @@ [axis |-> [near |-> TRUE, yneg |-> TRUE]]
     IN /\ Clauses(offcone) = {"C20.CerenkovCone"}
        /\ Explained(offcone, {"C20.CerenkovCone"})
        /\ Explaining(offcone, {"C20.CerenkovCone"}) = {"RotateNearPoleNegativeY"}
        /\ ~Explained([offcone EXCEPT !.axis.yneg = FALSE], {"C20.CerenkovCone"})
        /\ ~Explained([offcone EXCEPT !.axis.near = FALSE], {"C20.CerenkovCone"})
        /\ ~Explained([Good(TRUE) EXCEPT !.phot[1].cone = 4], {"C20.CerenkovCone"})
        /\ ~Explained(offcone, {"C20.CerenkovCone", "C20.UnitDirection"})
NFaults == Cardinality(Faults(TRUE)) + Cardinality(Faults(FALSE))

ASSUME PartitionLemma
ASSUME DistIndexLemma
ASSUME NoBumpIsWrong
ASSUME ClauseLemma
ASSUME PrintT(<<"LEMMAS", "faults", NFaults, "bufs", Cardinality(SmallBufs)>>)
=============================================================================
