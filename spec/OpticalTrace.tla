---------------------------- MODULE OpticalTrace ----------------------------
(* Trace validation for C20: every record logged by harness/voptical.cc is judged by
   Optical.tla.

   mode steps: one Step record = one call of a REAL pre-generator plus the photons the REAL
     generator made from its distribution -> Optical!Clauses.
   mode book:  BConfig / BOffload / BGenerate / BLaunch / BError / BEmptyGenerate / BAbort / BEnd
     records of the offload bookkeeping; the trace spec carries the abstract buffers
     (bk.cer, bk.scint: Seq([sid, n]), pending, ninit) and checks every record against the
     Offload / Generate operators of Optical.tla.

   The whole trace is always examined: violated clauses are accumulated in `viol` (first
   occurrence per <<clause, variant>> with the record number, plus counts); records explained
   by a named deviation (known finding) are COUNTED in `dev`, never hidden.  Structural
   problems (no Config first, record out of protocol, missing Close) reject the trace. *)
EXTENDS Optical, TLC, Json, IOUtils

TraceLog == ndJsonDeserialize(IOEnv.TRACE)
N == Len(TraceLog)

VARIABLES l,      \* next record
          pc,     \* "config" | "run" | "closed"
          viol,   \* set of [clause, var, k]
          nviol,  \* number of violating (unexplained) records
          dev,    \* set of [name, n, k]
          stat,   \* counters
          bk      \* bookkeeping model state of the current run (mode book)
vars == <<l, pc, viol, nviol, dev, stat, bk>>

Rec == TraceLog[l]

NoRun == [on |-> FALSE, cer |-> <<>>, scint |-> <<>>, pending |-> 0, ninit |-> 0,
          slots |-> 0, cap |-> 0, initcap |-> 0, autoflush |-> 0]

Init ==
  /\ l = 1 /\ pc = "config" /\ viol = {} /\ nviol = 0 /\ dev = {} /\ bk = NoRun
  /\ stat = [steps |-> 0, photons |-> 0, cer |-> 0, scint |-> 0, cerphot |-> 0, scintphot |-> 0,
             below |-> 0, above |-> 0, nosource |-> 0, aborted |-> 0,
             runs |-> 0, offloads |-> 0, flushes |-> 0, skips |-> 0, launches |-> 0,
             bookphotons |-> 0, caperr |-> 0, initerr |-> 0, emptygen |-> 0, recs |-> 0]

TConfig ==
  /\ pc = "config" /\ Rec.e = "Config"
  /\ pc' = "run"
  /\ UNCHANGED <<viol, nviol, dev, stat, bk>>

DevBump(names, k) ==
  {d \in dev : d.name \notin names}
  \cup {[name |-> n,
         n |-> (IF \E d \in dev : d.name = n THEN (CHOOSE d \in dev : d.name = n).n ELSE 0) + 1,
         k |-> (IF \E d \in dev : d.name = n THEN (CHOOSE d \in dev : d.name = n).k ELSE k)]
        : n \in names}

Fresh(V, var) == {c \in V : ~\E v \in viol : v.clause = c /\ v.var = var}
Record(V, var, k) ==
  IF V = {} THEN UNCHANGED <<viol, nviol>>
  ELSE /\ viol' = viol \cup {[clause |-> c, var |-> var, k |-> k] : c \in Fresh(V, var)}
       /\ nviol' = nviol + 1

TStep ==
  /\ pc = "run" /\ Rec.e = "Step" /\ ~bk.on
  /\ LET V == Clauses(Rec)
         explained == V # {} /\ Explained(Rec, V)
         isCer == Rec.proc = "cer"
     IN
     /\ IF V = {} THEN UNCHANGED <<viol, nviol, dev>>
        ELSE IF explained
             THEN dev' = DevBump(Explaining(Rec, V), Rec.k) /\ UNCHANGED <<viol, nviol>>
             ELSE Record(V, Rec.var, Rec.k) /\ UNCHANGED dev
     /\ stat' = [stat EXCEPT
                   !.steps = @ + 1, !.recs = @ + 1,
                   !.photons = @ + Len(Rec.phot),
                   !.cer = @ + (IF isCer THEN 1 ELSE 0),
                   !.scint = @ + (IF isCer THEN 0 ELSE 1),
                   !.cerphot = @ + (IF isCer THEN Len(Rec.phot) ELSE 0),
                   !.scintphot = @ + (IF isCer THEN 0 ELSE Len(Rec.phot)),
                   !.below = @ + (IF Below(Rec) THEN 1 ELSE 0),
                   !.above = @ + (IF ClearlyAbove(Rec) THEN 1 ELSE 0),
                   !.nosource = @ + (IF (isCer /\ (Rec.charge = 0 \/ Rec.lenzero))
                                        \/ (~isCer /\ Rec.edepzero) THEN 1 ELSE 0),
                   !.aborted = @ + (IF Rec.aborted THEN 1 ELSE 0)]
  /\ UNCHANGED <<pc, bk>>

-----------------------------------------------------------------------------
(* ---- bookkeeping records ---- *)
BVar == "book"

TBConfig ==
  /\ pc = "run" /\ Rec.e = "BConfig" /\ ~bk.on
  /\ Rec.slots >= 1 /\ Rec.cap >= 1
  \* resize(OffloadStateData): per-slot pre-step data, enabled buffers and offsets of capacity
  /\ LET V == Named(Rec.bufsizes = <<IF Rec.cer THEN Rec.cap ELSE 0,
                                     IF Rec.scint THEN Rec.cap ELSE 0, Rec.cap, Rec.slots>>,
                    "C20.BufferAppend")
     IN Record(V, BVar, l)
  /\ bk' = [on |-> TRUE, cer |-> <<>>, scint |-> <<>>, pending |-> 0, ninit |-> 0,
            slots |-> Rec.slots, cap |-> Rec.cap, initcap |-> Rec.initcap,
            autoflush |-> Rec.autoflush]
  /\ stat' = [stat EXCEPT !.runs = @ + 1, !.recs = @ + 1]
  /\ UNCHANGED <<pc, dev>>

Buf(p) == IF p = "cer" THEN bk.cer ELSE bk.scint

TBOffload ==
  /\ pc = "run" /\ Rec.e = "BOffload" /\ bk.on /\ Rec.proc \in Procs
  /\ Len(Rec.slots) = bk.slots
  /\ LET buf == Buf(Rec.proc)
         add == Compact(Rec.slots)
         V == OffloadClauses(Rec, buf, bk.pending)
                \cup Named(Len(buf) + bk.slots <= bk.cap, "C20.BufferAppend")
     IN /\ Record(V, BVar, l)
        \* follow the implementation's log
        /\ bk' = [bk EXCEPT !.cer = IF Rec.proc = "cer" THEN [k \in DOMAIN Rec.buf |-> Entry(Rec.buf[k])] ELSE @,
                            !.scint = IF Rec.proc = "scint" THEN [k \in DOMAIN Rec.buf |-> Entry(Rec.buf[k])] ELSE @,
                            !.pending = Rec.pending_after]
  /\ stat' = [stat EXCEPT !.offloads = @ + 1, !.recs = @ + 1]
  /\ UNCHANGED <<pc, dev>>

TBGenerate ==
  /\ pc = "run" /\ Rec.e = "BGenerate" /\ bk.on /\ Rec.proc \in Procs
  /\ LET buf == Buf(Rec.proc)
         mustFlush == bk.ninit + bk.pending >= bk.autoflush
         V == Named(/\ Rec.ninit_before = bk.ninit /\ Rec.pending_before = bk.pending
                    /\ Rec.size = Len(buf) /\ Rec.flushed = mustFlush,
                    "C20.CountConsistent")
              \cup (IF Rec.flushed
                    THEN GenerateClauses(Rec, buf, bk.pending, bk.ninit, bk.slots, bk.initcap)
                    ELSE Named(Rec.ninit_after = bk.ninit /\ Rec.pending_after = bk.pending
                               /\ Rec.count = 0, "C20.CountConsistent"))
     IN /\ Record(V, BVar, l)
        /\ bk' = [bk EXCEPT !.cer = IF Rec.flushed /\ Rec.proc = "cer" THEN <<>> ELSE @,
                            !.scint = IF Rec.flushed /\ Rec.proc = "scint" THEN <<>> ELSE @,
                            !.pending = Rec.pending_after, !.ninit = Rec.ninit_after]
  /\ stat' = [stat EXCEPT !.flushes = @ + (IF Rec.flushed THEN 1 ELSE 0),
                          !.skips = @ + (IF Rec.flushed THEN 0 ELSE 1),
                          !.bookphotons = @ + Rec.count, !.recs = @ + 1]
  /\ UNCHANGED <<pc, dev>>

\* the generator of a process whose own buffer is empty although the flush condition holds:
\* the harness does not drive the code there (undefined behaviour as coded); counted
TBEmptyGenerate ==
  /\ pc = "run" /\ Rec.e = "BEmptyGenerate" /\ bk.on /\ Rec.proc \in Procs
  /\ Len(Buf(Rec.proc)) = 0 /\ bk.ninit + bk.pending >= bk.autoflush
  /\ stat' = [stat EXCEPT !.emptygen = @ + 1, !.recs = @ + 1]
  /\ UNCHANGED <<pc, viol, nviol, dev, bk>>

TBLaunch ==
  /\ pc = "run" /\ Rec.e = "BLaunch" /\ bk.on
  /\ Record(Named(Rec.ninit = bk.ninit /\ bk.ninit > 0, "C20.CountConsistent"), BVar, l)
  /\ bk' = [bk EXCEPT !.ninit = 0]
  /\ stat' = [stat EXCEPT !.launches = @ + 1, !.recs = @ + 1]
  /\ UNCHANGED <<pc, dev>>

\* an error raised by the (transcribed) capacity checks must be justified; the run ends
TBError ==
  /\ pc = "run" /\ Rec.e = "BError" /\ bk.on /\ Rec.proc \in Procs
  /\ LET ok == IF Rec.kind = "capacity" THEN Len(Buf(Rec.proc)) + bk.slots > bk.cap
               ELSE Rec.kind = "initcap" /\ bk.ninit + bk.pending > bk.initcap
     IN Record(Named(ok, "C20.BufferAppend"), BVar, l)
  /\ stat' = [stat EXCEPT !.caperr = @ + (IF Rec.kind = "capacity" THEN 1 ELSE 0),
                          !.initerr = @ + (IF Rec.kind = "initcap" THEN 1 ELSE 0), !.recs = @ + 1]
  /\ UNCHANGED <<pc, dev, bk>>

\* a generator of a flush did not return within the draw cap (2e6 words): the run ends
TBAbort ==
  /\ pc = "run" /\ Rec.e = "BAbort" /\ bk.on
  /\ Record({"C20.DrawBound"}, BVar, l)
  /\ stat' = [stat EXCEPT !.aborted = @ + 1, !.recs = @ + 1]
  /\ UNCHANGED <<pc, dev, bk>>

TBEnd ==
  /\ pc = "run" /\ Rec.e = "BEnd" /\ bk.on
  /\ bk' = NoRun
  /\ stat' = [stat EXCEPT !.recs = @ + 1]
  /\ UNCHANGED <<pc, viol, nviol, dev>>

TClose ==
  /\ pc = "run" /\ Rec.e = "Close" /\ ~bk.on
  /\ Rec.n = stat.recs
  /\ pc' = "closed"
  /\ UNCHANGED <<viol, nviol, dev, stat, bk>>

Next ==
  /\ l <= N /\ l' = l + 1
  /\ \/ TConfig \/ TStep \/ TBConfig \/ TBOffload \/ TBGenerate \/ TBEmptyGenerate
     \/ TBLaunch \/ TBError \/ TBAbort \/ TBEnd \/ TClose
Spec == Init /\ [][Next]_vars

Accepted ==
  LET d == TLCGet("stats").diameter IN
  IF d - 1 = N /\ TraceLog[N].e = "Close" THEN TRUE
  ELSE /\ PrintT(<<"REJECTED", d, TraceLog[IF d <= N THEN d ELSE N]>>)
       /\ FALSE
Report == (l = N + 1) =>
   PrintT(<<"SUMMARY", ToJson([viol |-> viol, nviol |-> nviol, dev |-> dev, stat |-> stat])>>)
=============================================================================
