------------------------------ MODULE PhysSelect ------------------------------
(* X07  Discrete-process and model selection of the physics step (reference semantics).

   Subject (read from the code and its documentation, not transcribed from a test):
     PhysicsParams::PhysicsParams(Input)          Buildable / ProcsOf / Tiles / AtRest / ElossP /
       (build_ids, build_xs, build_model_xs)      IntegralOn / EMaxPos / HasMicro ; Proj = what one
                                                  track (particle, material) sees of the result
     PhysicsTrackView::operator=(Initializer)     InitTrack        mfp := 0
     PhysicsTrackView::interaction_mfp(x)         SetMfp           mfp := x  (x > 0)
     PhysicsTrackView::reset_interaction_mfp()    ResetMfp         mfp := 0
     PhysicsTrackView::calc_xs / calc_max_xs      CalcXs / CalcMaxXs
     PhysicsTrackView::make_model_finder          FindModel        (GridIdFinder)
     calc_physics_step_limit                      PerProcessXs / StepLimit
     detail::TrackUpdater (along-step)            AlongUpdate      mfp -:= step * total
     detail::DiscreteSelectExecutor +
       select_discrete_interaction                Select           (Selector, integral rejection,
                                                                    model, TabulatedElementSelector)

   Numbers.  Everything is exact integer arithmetic:
     * energies are POSITIONS on a logarithmic axis: 0 = stopped (E = 0); positions p >= 1 are
       strictly increasing energies; the tabulated quantities are plateau functions of the
       position: level k = positions 2k and 2k+1, clamped to 1..NL below / above the table (what
       XsCalculator does outside its grid).  Scaling an energy by min_eprime_over_e = xi moves it
       down by 2d positions (xi = ratio^-d).
     * cross sections are small naturals; lengths and mean free paths are integers in units of
       1/LS; a step limit is a rational [n, d] (d = 0: infinite).
     * a uniform deviate is a/D, a in 0..D-1; a = D stands for the largest double below one, for
       which  u*x > y  <=>  x > y  and  y > u*x  <=>  y >= x  on naturals.

   A configuration `cfg` is the record the check hands to the harness (JSON):
     nl, d, fixed (0 = no fixed step limiter), disable_integral,
     procs[i] = [label, integral, models, xs, eloss]             (i = ProcessId + 1)
       models[j] = [label, micro, apps]   apps[k] = [pt, lo, hi]  energy range [lo, hi) of particle pt
                   micro = <<>> or per element of the two-element material the micro xs per level
       xs[pt+1][mat+1]    = <<>> | per-level macroscopic cross section
       eloss[pt+1][mat+1] = <<>> | per-level range (the process then has dE/dx + range tables)

   One operator per public call / critical section, so that the trace spec can bind a logged call
   to it and the design check (PhysSelectMC) can compose them into a per-track machine. *)
EXTENDS Integers, Sequences, FiniteSets, SequencesExt

Max2(a, b) == IF a >= b THEN a ELSE b
SumSeq(s) == FoldLeft(LAMBDA a, b : a + b, 0, s)

\* action labels as registered by PhysicsParams
ActDiscrete == "physics-discrete-select"
ActRange    == "eloss-range"
ActReject   == "physics-integral-rejected"
ActFixed    == "physics-fixed-step"
ActNone     == "none"

\* number fractions of the elements of material index 1 ("two"), in quarters; material 0 has one element
ElWeights == <<1, 3>>
NumElements(mat) == IF mat = 0 THEN 1 ELSE 2

\* ---------------------------------------------------------------- PhysicsParams: structure
\* ranges of process i that apply to particle pt: one record per (model, applicability)
RangesOf(cfg, i, pt) ==
  LET ms == cfg.procs[i].models IN
  {[lo |-> ms[j].apps[k].lo, hi |-> ms[j].apps[k].hi, label |-> ms[j].label,
    micro |-> Len(ms[j].micro) > 0, mj |-> j, k |-> 100 * j + k]
     : <<j, k>> \in {jk \in (DOMAIN ms) \X (1..8) :
                        jk[2] \in DOMAIN ms[jk[1]].apps /\ ms[jk[1]].apps[jk[2]].pt = pt}}

Applies(cfg, i, pt) == RangesOf(cfg, i, pt) # {}

\* ParticleProcessId order = ascending ProcessId (build_ids keeps a std::map)
ProcsOf(cfg, pt) == SetToSortSeq({i \in DOMAIN cfg.procs : Applies(cfg, i, pt)}, <)

\* build_ids sorts (lower, upper, id) and demands that every range starts where the previous ended
SortedRanges(cfg, i, pt) ==
  SetToSortSeq(RangesOf(cfg, i, pt),
               LAMBDA a, b : \/ a.lo < b.lo
                             \/ (a.lo = b.lo /\ a.hi < b.hi)
                             \/ (a.lo = b.lo /\ a.hi = b.hi /\ a.k < b.k))
Tiles(rs) == \A n \in 1..(Len(rs) - 1) : rs[n + 1].lo = rs[n].hi

Tab(t, pt, mat) == IF pt + 1 \in DOMAIN t /\ mat + 1 \in DOMAIN t[pt + 1] THEN t[pt + 1][mat + 1] ELSE <<>>
XsTab(cfg, i, pt, mat) == Tab(cfg.procs[i].xs, pt, mat)
RangeTab(cfg, i, pt, mat) == Tab(cfg.procs[i].eloss, pt, mat)

Materials == {0, 1}

\* PhysicsParams refuses (RuntimeError): non-contiguous / overlapping model energy ranges of one
\* process for one particle; a process that has neither a cross section nor an energy loss for a
\* particle it applies to, in some material
Buildable(cfg, particles) ==
  \A pt \in particles : \A i \in DOMAIN cfg.procs :
     Applies(cfg, i, pt) =>
        /\ Tiles(SortedRanges(cfg, i, pt))
        /\ \A mat \in Materials : XsTab(cfg, i, pt, mat) # <<>> \/ RangeTab(cfg, i, pt, mat) # <<>>

\* preconditions of the constructor that are assertions only (the generator respects them)
WellFormed(cfg, particles) ==
  /\ \A i \in DOMAIN cfg.procs : Len(cfg.procs[i].models) > 0
  /\ \A i \in DOMAIN cfg.procs : \A pt \in particles : \A r \in RangesOf(cfg, i, pt) : r.lo < r.hi
  /\ \A pt \in particles :
       Cardinality({i \in DOMAIN cfg.procs :
                       Applies(cfg, i, pt) /\ \E mat \in Materials : RangeTab(cfg, i, pt, mat) # <<>>}) <= 1

\* ---------------------------------------------------------------- tables
Lvl(nl, e) == LET k == e \div 2 IN IF k < 1 THEN 1 ELSE IF k > nl THEN nl ELSE k

\* PhysicsTrackView::calc_xs for a tabulated process (0 without a table)
CalcXs(tab, e) == IF tab = <<>> THEN 0 ELSE tab[Lvl(Len(tab), e)]

\* build_xs: energy of the largest cross section = FIRST grid point with the largest value
\* (position 2k of the first maximal level k; 0 when the table is empty or all zero)
EMaxPos(tab) ==
  IF tab = <<>> THEN 0
  ELSE LET mx == CHOOSE v \in {tab[k] : k \in DOMAIN tab} : \A k \in DOMAIN tab : tab[k] <= v IN
       IF mx = 0 THEN 0
       ELSE 2 * (CHOOSE k \in DOMAIN tab : tab[k] = mx /\ \A j \in 1..(k - 1) : tab[j] < mx)

\* PhysicsTrackView::calc_max_xs: sigma_max over [xi E, E): the global maximum if it lies in
\* [xi E, E), else the larger of sigma(E), sigma(xi E)
CalcMaxXs(tab, e, d) ==
  LET em == EMaxPos(tab)
      xi == e - 2 * d
  IN IF e > 0 /\ em > 0 /\ em >= xi /\ em < e THEN CalcXs(tab, em)
     ELSE Max2(CalcXs(tab, e), CalcXs(tab, IF e = 0 THEN 0 ELSE xi))

IntegralOn(cfg, i) == cfg.procs[i].integral /\ ~cfg.disable_integral

\* has_at_rest is a property of the PARTICLE: some process has a non-zero cross section at zero
\* energy in SOME material
AtRest(cfg, pt) ==
  \E i \in DOMAIN cfg.procs : Applies(cfg, i, pt) /\ \E mat \in Materials : CalcXs(XsTab(cfg, i, pt, mat), 0) > 0

\* eloss_ppid: index (in ProcsOf) of the process with dE/dx and range tables, 0 if none
ElossP(cfg, pt) ==
  LET ps == ProcsOf(cfg, pt)
      S == {n \in DOMAIN ps : \E mat \in Materials : RangeTab(cfg, ps[n], pt, mat) # <<>>}
  IN IF S = {} THEN 0 ELSE CHOOSE n \in S : TRUE

\* ---------------------------------------------------------------- model lookup (GridIdFinder)
\* exactly the model whose [lower, upper) contains E; the upper end of the LAST model belongs to it;
\* 0 = no model (outside the process' energy range)
FindModel(rs, e) ==
  IF rs = <<>> \/ e < rs[1].lo \/ e > rs[Len(rs)].hi THEN 0
  ELSE IF e = rs[Len(rs)].hi THEN Len(rs)
  ELSE CHOOSE n \in DOMAIN rs : rs[n].lo <= e /\ e < rs[n].hi

\* a cross-section CDF table is stored for a model with micro xs in a material of > 1 element
HasMicro(r, mat) == r.micro /\ NumElements(mat) > 1

(* Precondition on a configuration (an input obligation of PhysicsParams' user, not checked by the
   code): wherever a process can be selected its model lookup succeeds, i.e. the tabulated cross
   section vanishes at every track energy outside the process' model ranges (at zero energy too:
   XsCalculator clamps below its grid, so a non-zero first table value makes the particle an
   at-rest candidate).  `energies` = the energies a track of that particle can have. *)
XsWithinModels(cfg, pt, energies) ==
  \A i \in DOMAIN cfg.procs : Applies(cfg, i, pt) =>
     \A mat \in Materials : \A e \in energies :
        CalcXs(XsTab(cfg, i, pt, mat), e) > 0 => FindModel(SortedRanges(cfg, i, pt), e) # 0

\* ---------------------------------------------------------------- projection on one track
(* What a track of particle pt in material mat sees of the constructed PhysicsParams:
   procs[n] (n = ParticleProcessId + 1) = [id, integral, xs, rs (sorted model ranges), micro (per model)],
   elossp, range table, at-rest flag, fixed limiter, d, number of elements. *)
Proj(cfg, pt, mat) ==
  LET ps == ProcsOf(cfg, pt)
      ep == ElossP(cfg, pt)
  IN [np |-> Len(ps),
      procs |-> [n \in DOMAIN ps |->
                   LET i == ps[n] IN
                   [id |-> i, integral |-> IntegralOn(cfg, i), xs |-> XsTab(cfg, i, pt, mat),
                    rs |-> SortedRanges(cfg, i, pt),
                    micro |-> [j \in DOMAIN cfg.procs[i].models |-> cfg.procs[i].models[j].micro]]],
      elossp |-> ep,
      range |-> IF ep = 0 THEN <<>> ELSE RangeTab(cfg, ps[ep], pt, mat),
      atrest |-> AtRest(cfg, pt), fixed |-> cfg.fixed, d |-> cfg.d, nel |-> NumElements(mat)]

\* ---------------------------------------------------------------- PhysicsTrackView: MFP
InitTrack(t) == [t EXCEPT !.mfp = 0]
SetMfp(t, x) == [t EXCEPT !.mfp = x]
ResetMfp(t) == [t EXCEPT !.mfp = 0]
HasMfp(t) == t.mfp > 0

\* ---------------------------------------------------------------- calc_physics_step_limit
PerProcessXs(P, e) ==
  [n \in DOMAIN P.procs |->
     IF P.procs[n].integral THEN CalcMaxXs(P.procs[n].xs, e, P.d) ELSE CalcXs(P.procs[n].xs, e)]

\* rationals [n, d], d >= 0 (d = 0: infinite)
Inf == [n |-> 1, d |-> 0]
Rat(n, d) == [n |-> n, d |-> d]
LeQ(a, b) == IF b.d = 0 THEN TRUE ELSE IF a.d = 0 THEN FALSE ELSE a.n * b.d <= b.n * a.d
LtQ(a, b) == ~LeQ(b, a)
EqQ(a, b) == LeQ(a, b) /\ LeQ(b, a)

\* m = remaining mean free paths (x LS), tot = total macroscopic cross section.
\* Result [step (rational, x LS), act, range (x LS, 0 = not evaluated)].
\*   stopped particle: step 0, discrete (the at-rest interaction)
\*   distance to interaction m / tot
\*   a particle with an energy loss process: the range wins a TIE against the interaction;
\*   the fixed step limiter applies only to those particles and only when strictly smaller
\*   a particle without any process: no action
StepLimit(P, e, m, tot) ==
  LET disc == IF tot = 0 THEN Inf ELSE Rat(m, tot) IN
  IF e = 0 THEN [step |-> Rat(0, 1), act |-> ActDiscrete, range |-> 0]
  ELSE IF P.elossp # 0 THEN
     LET r == CalcXs(P.range, e)
         s1 == IF LeQ(Rat(r, 1), disc) THEN [step |-> Rat(r, 1), act |-> ActRange]
               ELSE [step |-> disc, act |-> ActDiscrete]
         s2 == IF P.fixed > 0 /\ LtQ(Rat(P.fixed, 1), s1.step)
               THEN [step |-> Rat(P.fixed, 1), act |-> ActFixed] ELSE s1
     IN [step |-> s2.step, act |-> s2.act, range |-> r]
  ELSE IF P.np = 0 THEN [step |-> disc, act |-> ActNone, range |-> 0]
  ELSE [step |-> disc, act |-> ActDiscrete, range |-> 0]

\* ---------------------------------------------------------------- TrackUpdater
\* len (x LS) = step actually taken, act = post-step action after the along-step.  The remaining
\* MFP is reduced unless the discrete interaction is about to happen (which resets it itself).
AlongUpdate(t, len, act) == IF act = ActDiscrete THEN t ELSE [t EXCEPT !.mfp = t.mfp - len * t.tot]

\* ---------------------------------------------------------------- select_discrete_interaction
\* u = a/D (a = D: just below one)
GtU(D, a, x, y) == IF a = D THEN x > y ELSE a * x > D * y       \* u * x > y
CumExceeds(D, a, c, tot) == IF a = D THEN c >= tot ELSE D * c > a * tot   \* c > u * tot

\* Selector: the first process whose cumulative cross section exceeds u * total; the last
\* process otherwise
SelectProcWith(D, pp, tot, a, CumEx(_, _, _, _)) ==
  LET np == Len(pp)
      Cum(n) == SumSeq(SubSeq(pp, 1, n))
      S == {n \in 1..(np - 1) : CumEx(D, a, Cum(n), tot)}
  IN IF S = {} THEN np ELSE CHOOSE n \in S : \A q \in S : n <= q
SelectProc(D, pp, tot, a) == SelectProcWith(D, pp, tot, a, CumExceeds)

\* TabulatedElementSelector on the stored CDF: first element whose CDF value exceeds u, else the last
SelectElement(D, micro, e, a) ==
  LET nl == Len(micro[1])
      w == [x \in DOMAIN micro |-> micro[x][Lvl(nl, e)] * ElWeights[x]]
      tot == SumSeq(w)
      Cum(n) == SumSeq(SubSeq(w, 1, n))
      S == {n \in 1..(Len(w) - 1) : tot > 0 /\ CumExceeds(D, a, Cum(n), tot)}
  IN (IF S = {} THEN Len(w) ELSE CHOOSE n \in S : \A q \in S : n <= q) - 1

\* integral approach: rejected <=> the process has an energy loss partner (integral) and
\* u * sigma_max > sigma(E1)
RejectTest(integ, D, a, smax, xs1) == integ /\ GtU(D, a, smax, xs1)

(* pp, tot: the per-process cross sections STORED AT THE PRE-STEP; e1: post-step energy.
   Result [n (ParticleProcessId + 1), reject, model (index in the sorted ranges, 0 = none), act, el
   (-1 = not sampled), draws].
     integral approach: for a process with energy loss the stored value is an estimate of the
     maximum over the step; the interaction is REJECTED with probability 1 - sigma(E1)/sigma_max:
     rejected  <=>  u2 * sigma_max > sigma(E1)   -- never for other processes
     the model is looked up at the POST-step energy
   a1, a2, a3 are the uniforms IN THE ORDER DRAWN: a1 selects the process; an integral process draws
   the next one for the rejection test; the element selector draws the next one after that.
   The three operator parameters are the decision points (the design check seeds wrong variants). *)
SelectWith(P, D, pp, tot, e1, a1, a2, a3, CumEx(_, _, _, _), Find(_, _), Rej(_, _, _, _, _)) ==
  LET n == SelectProcWith(D, pp, tot, a1, CumEx)
      pr == P.procs[n]
      xs1 == CalcXs(pr.xs, e1)
      rej == Rej(pr.integral, D, a2, pp[n], xs1)
      fm == Find(pr.rs, e1)
      sample == ~rej /\ fm # 0 /\ P.nel > 1 /\ pr.rs[fm].micro
      el == IF rej \/ fm = 0 THEN -1
            ELSE IF P.nel = 1 THEN 0
            ELSE IF sample THEN SelectElement(D, pr.micro[pr.rs[fm].mj], e1, IF pr.integral THEN a3 ELSE a2)
            ELSE -1
  IN [n |-> n, proc |-> pr.id, integral |-> pr.integral, xs1 |-> xs1, reject |-> rej, model |-> fm,
      act |-> IF rej THEN ActReject ELSE IF fm = 0 THEN "NO-MODEL" ELSE pr.rs[fm].label,
      el |-> el,
      draws |-> 1 + (IF pr.integral THEN 1 ELSE 0) + (IF sample THEN 1 ELSE 0)]

Select(P, D, pp, tot, e1, a1, a2, a3) ==
  SelectWith(P, D, pp, tot, e1, a1, a2, a3, CumExceeds, FindModel, RejectTest)

\* ---------------------------------------------------------------- design properties (per call)
\* the selected process has a positive stored cross section
SelectedHasXs(pp, s) == pp[s.n] > 0
\* an accepted interaction has a model whose range contains the post-step energy
ModelContains(P, s, e1) ==
  (~s.reject /\ s.model # 0) =>
     LET rs == P.procs[s.n].rs IN
     /\ rs[s.model].lo <= e1
     /\ (e1 < rs[s.model].hi \/ (s.model = Len(rs) /\ e1 = rs[s.model].hi))
     /\ \A q \in DOMAIN rs : q # s.model => ~(rs[q].lo <= e1 /\ e1 < rs[q].hi)
\* a rejection happens only for a process treated with the integral approach and only when the
\* post-step cross section is smaller than the stored estimate
RejectAllowed(pp, s) == s.reject => (s.integral /\ s.xs1 < pp[s.n])
=============================================================================
