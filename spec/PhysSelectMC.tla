---------------------------- MODULE PhysSelectMC ----------------------------
(* Design check for X07 (no code involved) and generator of the replay scenarios.

   One track of one particle in one material is followed through its physics steps, for every
   configuration of IOEnv.CFGS (a JSON list written by tools/checks/x07.py: hand-picked edge
   configurations + seeded ones), every start energy, every sampled distance and every outcome
   of the environment:

     Pick      configuration, particle, material, start energy (0 = at rest when the particle has an
               at-rest process); PhysicsTrackView::operator= : mfp := 0
     PreStep   PreStepExecutor: sample the MFP when there is none (any distance in Dists x total),
               calc_physics_step_limit: per-process xs, total, step limit and action
     Along     the along-step: the full step (its action) or a shorter one (geometry), any lower
               post-step energy for a particle with continuous loss, stopping at the end of a
               range-limited step (at-rest process: forced discrete interaction, else killed);
               TrackUpdater reduces the MFP unless the discrete interaction is due
     SelectStep DiscreteSelectExecutor: reset the MFP; Selector over the STORED per-process xs with
               any uniform a1/D; integral rejection with a2/D; model at the post-step energy;
               element with a3/D
     Post      rejected: the track continues unchanged; accepted: the model absorbs the particle
               or leaves it with any lower-or-equal energy

   Invariants (the design properties):
     MfpNonNegative       the remaining MFP is never negative; positive after every pre-step
     Ledger               remaining MFP = sampled MFP - sum(step * total xs) over the steps since
     DiscreteWhenDue      the discrete interaction is selected exactly when the MFP is used up by
                          the step (or the particle came to rest)
     StepIsMinimum        the step limit is the smallest candidate and the action names it
                          (range wins a tie with the interaction, the fixed limit must be smaller)
     SelectedHasXs        the selected process has a positive stored cross section
     ModelContainsE       the chosen model's [lower, upper) contains the post-step energy (upper end
                          of the last model included) and no other model of the process does
     RejectOnlyAllowed    integral rejection only for an integral process whose post-step cross
                          section is below the stored estimate
     RejectLeavesTrack    a rejection changes nothing but the (reset) MFP
     NoModelOnlyAtEdge    under the precondition XsWithinModels, a selected process without a model
                          at the post-step energy is possible only for (a) a process NOT treated with
                          the integral approach whose particle lost energy along the step, (b) an
                          integral process with sigma(E1) = 0 and the uniform exactly 0
   Variant (CONSTANT) seeds plausible wrong algorithms that MUST be refuted (vacuity guard):
     "sel_ge"      Selector tests accum >= 0                      -> SelectedHasXs
     "model_upper" model ranges (lower, upper]                    -> ModelContainsE
     "rej_all"     rejection test also for non-integral processes -> RejectOnlyAllowed
     "rej_flip"    rejected <=> u * sigma_max < sigma(E1)          -> RejectOnlyAllowed
     "dec_never"   TrackUpdater forgets the decrement              -> Ledger
     "disc_late"   distance to interaction (mfp + 1)/total          -> DiscreteWhenDue
     "nosample"    the pre-step does not resample a used-up MFP    -> MfpNonNegative
     "fixed_le"    the fixed limiter also wins a tie               -> StepIsMinimum

   Emit (an invariant with a side effect) prints one replay scenario per first pre-step state
   whose numbers are exact in floating point: (configuration, particle, material, energy, MFP) and
   EVERY selection input reachable from it; harness/vphysselect.cc replays each on the real
   classes and PhysSelectTrace validates the log. *)
EXTENDS PhysSelect, TLC, Json, IOUtils

CONSTANTS D,          \* uniforms a/D, a in 0..D
          LS,         \* lengths in units of 1/LS
          Dists,      \* sampled distances to interaction (x LS)
          MaxSteps,
          Variant,
          EmitScenarios

Cfgs == JsonDeserialize(IOEnv.CFGS)
Particles == {0, 1, 2}

VARIABLES phase,  \* "pick" | "pre" | "limited" | "along" | "selected" | "done" | "bad"
          who,    \* [ci, pt, mat]
          trk,    \* [e, mfp, pp, tot, step, act, alive, len, forced, e0]
          sel,    \* result of the last selection
          snap,   \* ghost: the track at the selection
          led,    \* ghost: [s (sampled), u (used)]
          nstep
vars == <<phase, who, trk, sel, snap, led, nstep>>

Cfg == Cfgs[who.ci]
OddUpTo(e) == {x \in 3..e : x % 2 = 1}
TrackEnergies(cfg, pt) == OddUpTo(2 * cfg.nl + 1) \cup (IF ElossP(cfg, pt) # 0 THEN {0} ELSE {})

\* ---- seeded variants of the decision points
VCumEx(DD, a, c, tot) == IF Variant = "sel_ge" THEN (IF a = DD THEN c >= tot ELSE DD * c >= a * tot)
                         ELSE CumExceeds(DD, a, c, tot)
VFind(rs, e) ==
  IF Variant = "model_upper"
  THEN (IF rs = <<>> \/ e < rs[1].lo \/ e > rs[Len(rs)].hi THEN 0
        ELSE IF e = rs[1].lo THEN 1
        ELSE CHOOSE n \in DOMAIN rs : rs[n].lo < e /\ e <= rs[n].hi)
  ELSE FindModel(rs, e)
VRej(integ, DD, a, smax, xs1) ==
  CASE Variant = "rej_all" -> GtU(DD, a, smax, xs1)
    [] Variant = "rej_flip" -> integ /\ (IF a = DD THEN smax <= xs1 /\ smax < xs1 ELSE a * smax < DD * xs1)
    [] OTHER -> RejectTest(integ, DD, a, smax, xs1)
VSelect(e1, a1, a2, a3) ==
  SelectWith(Cfg, D, who.pt, who.mat, trk.pp, trk.tot, e1, a1, a2, a3, VCumEx, VFind, VRej)
VLimit(e, m, tot) ==
  LET l == StepLimit(Cfg, who.pt, who.mat, e, m, tot) IN
  IF Variant = "fixed_le" /\ ElossP(Cfg, who.pt) # 0 /\ e # 0 /\ Cfg.fixed > 0 /\ l.act # ActFixed
     /\ EqQ(Rat(Cfg.fixed, 1), l.step)
  THEN [l EXCEPT !.act = ActFixed]
  ELSE IF Variant = "disc_late" /\ l.act = ActDiscrete /\ e # 0 /\ tot > 0
  THEN [l EXCEPT !.step = Rat(m + 1, tot)]
  ELSE l
VAlong(t, len, act) ==
  IF Variant = "dec_never" THEN t ELSE AlongUpdate(t, len, act)

NoTrk == [e |-> 0, mfp |-> 0, pp |-> <<>>, tot |-> 0, step |-> Inf, act |-> ActNone, alive |-> FALSE,
          len |-> 0, forced |-> FALSE, e0 |-> 0]
NoSel == [n |-> 0, proc |-> 0, integral |-> FALSE, xs1 |-> 0, reject |-> FALSE, model |-> 0, act |-> ActNone,
          el |-> -1, draws |-> 0, e1 |-> 0, a2 |-> 0]

Init == /\ phase = "pick" /\ who = [ci |-> 0, pt |-> 0, mat |-> 0] /\ trk = NoTrk /\ sel = NoSel
        /\ snap = NoTrk /\ led = [s |-> 0, u |-> 0] /\ nstep = 0

\* total cross section a stopped particle of this kind would see
TotAtRest(cfg, pt, mat) == SumSeq(PerProcessXs(cfg, pt, mat, 0))

Pick ==
  /\ phase = "pick"
  /\ \E ci \in DOMAIN Cfgs, pt \in Particles, mat \in Materials :
       LET cfg == Cfgs[ci] IN
       /\ Buildable(cfg, Particles)
       /\ Assert(WellFormed(cfg, Particles), <<"configuration not well formed", cfg.id>>)
       /\ Assert(XsWithinModels(cfg, pt, TrackEnergies(cfg, pt)), <<"XsWithinModels fails", cfg.id, pt>>)
       /\ \E e0 \in OddUpTo(2 * cfg.nl + 1)
                    \cup (IF ElossP(cfg, pt) # 0 /\ AtRest(cfg, pt) /\ TotAtRest(cfg, pt, mat) > 0 THEN {0} ELSE {}) :
            /\ who' = [ci |-> ci, pt |-> pt, mat |-> mat]
            \* the state is poisoned before the initializer runs
            /\ trk' = InitTrack([NoTrk EXCEPT !.e = e0, !.mfp = 7, !.alive = TRUE, !.e0 = e0])
  /\ phase' = "pre" /\ UNCHANGED <<sel, snap, led, nstep>>

PreStep ==
  /\ phase = "pre" /\ trk.alive /\ nstep < MaxSteps
  /\ LET pp == PerProcessXs(Cfg, who.pt, who.mat, trk.e)
         tot == SumSeq(pp)
     IN /\ (trk.e = 0 => tot > 0)
        /\ \E m \in IF HasMfp(trk) THEN {trk.mfp}
                    ELSE IF Variant = "nosample" THEN {0}
                    ELSE IF tot = 0 THEN {LS} ELSE {s * tot : s \in Dists} :
             LET lim == VLimit(trk.e, m, tot) IN
             /\ trk' = [SetMfp(trk, m) EXCEPT !.pp = pp, !.tot = tot, !.step = lim.step, !.act = lim.act,
                                              !.len = 0, !.forced = FALSE, !.e0 = trk.e]
             /\ led' = IF HasMfp(trk) THEN led ELSE [s |-> m, u |-> 0]
  /\ phase' = "limited" /\ UNCHANGED <<who, sel, snap, nstep>>

IsInt(q) == q.d # 0 /\ q.n % q.d = 0
HasEloss == ElossP(Cfg, who.pt) # 0

Along ==
  /\ phase = "limited"
  /\ \/ \* a particle at rest does not move
        /\ trk.e = 0
        /\ trk' = [trk EXCEPT !.len = 0]
        /\ phase' = "along"
     \/ \* the full step
        /\ trk.e # 0 /\ trk.step.d # 0 /\ (trk.act # ActDiscrete => IsInt(trk.step))
        /\ \E e1 \in IF HasEloss THEN OddUpTo(trk.e) ELSE {trk.e} :
             /\ trk' = [VAlong(trk, trk.step.n \div trk.step.d, trk.act) EXCEPT !.e = e1,
                           !.len = IF IsInt(trk.step) THEN trk.step.n \div trk.step.d ELSE -1]
             /\ phase' = IF trk.act = ActDiscrete THEN "along" ELSE "pre"
     \/ \* the end of the range: the particle stops
        /\ trk.e # 0 /\ trk.act = ActRange
        /\ (AtRest(Cfg, who.pt) => trk.tot > 0)
        /\ LET len == trk.step.n \div trk.step.d IN
           IF AtRest(Cfg, who.pt)
           THEN /\ trk' = [VAlong(trk, len, ActDiscrete) EXCEPT !.e = 0, !.act = ActDiscrete, !.forced = TRUE,
                                                               !.len = len]
                /\ phase' = "along"
           ELSE /\ trk' = [VAlong(trk, len, ActRange) EXCEPT !.e = 0, !.alive = FALSE, !.len = len]
                /\ phase' = "done"
     \/ \* a shorter step (geometry boundary)
        /\ trk.e # 0
        /\ \E len \in {x \in 1..3 : LtQ(Rat(x, 1), trk.step)} :
           \E e1 \in IF HasEloss THEN OddUpTo(trk.e) ELSE {trk.e} :
             /\ trk' = [VAlong(trk, len, "geo-boundary") EXCEPT !.e = e1, !.act = "geo-boundary", !.len = len]
             /\ phase' = "pre"
  /\ led' = IF trk'.act = ActDiscrete THEN led
            ELSE [led EXCEPT !.u = @ + trk'.len * trk.tot]
  /\ nstep' = nstep + 1 /\ UNCHANGED <<who, sel, snap>>

SelectStep ==
  /\ phase = "along" /\ trk.alive /\ trk.act = ActDiscrete
  /\ \E a1 \in 0..D, a2 \in 0..D, a3 \in 0..D :
       LET s == VSelect(trk.e, a1, a2, a3) IN
       /\ sel' = [s EXCEPT !.draws = s.draws] @@ [e1 |-> trk.e, a2 |-> a2]
       /\ phase' = IF ~s.reject /\ s.model = 0 THEN "bad" ELSE "selected"
  /\ snap' = trk
  /\ trk' = ResetMfp(trk)
  /\ UNCHANGED <<who, led, nstep>>

Post ==
  /\ phase = "selected"
  /\ IF sel.reject
     THEN trk' = trk /\ phase' = "pre"
     ELSE \/ trk' = [trk EXCEPT !.alive = FALSE] /\ phase' = "done"
          \/ /\ trk.e # 0
             /\ \E e2 \in OddUpTo(trk.e) : trk' = [trk EXCEPT !.e = e2]
             /\ phase' = "pre"
  /\ UNCHANGED <<who, sel, snap, led, nstep>>

Next == Pick \/ PreStep \/ Along \/ SelectStep \/ Post
Spec == Init /\ [][Next]_vars

\* ---------------------------------------------------------------- invariants
TypeOK ==
  /\ phase \in {"pick", "pre", "limited", "along", "selected", "done", "bad"}
  /\ nstep \in 0..MaxSteps

MfpNonNegative ==
  /\ trk.mfp >= 0
  /\ phase = "limited" => trk.mfp > 0

Ledger == (phase \in {"pre", "limited"} /\ trk.mfp > 0 /\ trk.alive) => trk.mfp = led.s - led.u

\* at the selection: the step used up exactly the MFP that was left, or the particle stopped
DiscreteWhenDue ==
  (phase = "along" /\ trk.e0 # 0 /\ ~trk.forced)
     => (trk.step.d # 0 /\ trk.step.n * trk.tot = trk.mfp * trk.step.d)

\* the limit is a candidate, no candidate is smaller, and the action names a smallest one with
\* the documented tie rules
StepIsMinimum ==
  phase = "limited" =>
    LET disc == IF trk.tot = 0 THEN Inf ELSE Rat(trk.mfp, trk.tot)
        ep == ElossP(Cfg, who.pt)
        rng == IF ep = 0 THEN Inf
               ELSE Rat(CalcXs(RangeTab(Cfg, ProcsOf(Cfg, who.pt)[ep], who.pt, who.mat), trk.e), 1)
        fix == IF ep = 0 \/ Cfg.fixed = 0 THEN Inf ELSE Rat(Cfg.fixed, 1)
    IN IF trk.e = 0 THEN trk.step.n = 0 /\ trk.act = ActDiscrete
       ELSE /\ LeQ(trk.step, disc) /\ LeQ(trk.step, rng) /\ LeQ(trk.step, fix)
            /\ CASE trk.act = ActDiscrete -> EqQ(trk.step, disc) /\ (ep = 0 \/ LtQ(disc, rng)) /\ LeQ(disc, fix)
                 [] trk.act = ActRange -> EqQ(trk.step, rng) /\ LeQ(rng, disc) /\ LeQ(rng, fix)
                 [] trk.act = ActFixed -> EqQ(trk.step, fix) /\ LtQ(fix, disc) /\ LtQ(fix, rng)
                 [] trk.act = ActNone -> Len(trk.pp) = 0 /\ trk.step.d = 0
                 [] OTHER -> FALSE

AtSelection == phase \in {"selected", "bad"}
SelectedHasXsInv == AtSelection => SelectedHasXs(snap.pp, sel)
ModelContainsE == AtSelection => ModelContains(Cfg, who.pt, sel, sel.e1)
RejectOnlyAllowed == AtSelection => RejectAllowed(snap.pp, sel)
RejectLeavesTrack ==
  (phase = "selected" /\ sel.reject) => trk = ResetMfp(snap)
NoModelOnlyAtEdge ==
  phase = "bad" =>
     \/ (~sel.integral /\ sel.e1 < snap.e0)
     \/ (sel.integral /\ sel.xs1 = 0 /\ sel.a2 = 0)

\* ---------------------------------------------------------------- replay scenarios
\* every selection input whose decision the real code can be asked for (a model exists)
SelInputs ==
  LET e1s == IF trk.e = 0 THEN {0}
             ELSE (IF trk.act = ActDiscrete /\ trk.tot > 0
                   THEN (IF HasEloss THEN OddUpTo(trk.e) ELSE {trk.e}) ELSE {})
                  \cup (IF trk.act = ActRange /\ AtRest(Cfg, who.pt) /\ trk.tot > 0 THEN {0} ELSE {})
  IN {<<e1, a1, a2, a3>> \in e1s \X (0..D) \X (0..D) \X {0, 2, D \div 2, D - 1, D} :
        LET s0 == Select(Cfg, D, who.pt, who.mat, trk.pp, trk.tot, e1, a1, 0, 0)
            s == Select(Cfg, D, who.pt, who.mat, trk.pp, trk.tot, e1, a1, a2, a3)
        IN /\ (s0.integral \/ a2 = 0)                       \* a2 matters only for an integral process
           /\ (s.draws = 1 + (IF s.integral THEN 1 ELSE 0) => a3 = 0)   \* a3 only when an element is sampled
           /\ (s.reject \/ s.model # 0)}
Emit ==
  (EmitScenarios /\ phase = "limited" /\ nstep = 0 /\ (trk.tot = 0 \/ trk.mfp % trk.tot = 0)) =>
     PrintT(<<"SCEN", ToJson([c |-> Cfg.id, pt |-> who.pt, mat |-> who.mat, e0 |-> trk.e, m |-> trk.mfp,
                              sel |-> SetToSeq(SelInputs)])>>)
=============================================================================
