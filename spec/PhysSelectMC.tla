---------------------------- MODULE PhysSelectMC ----------------------------
(* Design check for X07 (no code involved) and generator of the replay scenarios.

   One track of one particle in one material is followed through its physics steps, for every
   configuration of IOEnv.CFGS (a JSON list written by tools/checks/x07.py: hand-picked edge
   configurations + seeded ones), every start energy, every sampled distance and every outcome
   of the environment:

     Pick      configuration, particle, material, start energy (0 = at rest when the particle has an
               at-rest process); PhysicsTrackView::operator= : mfp := 0
     PreStep   PreStepExecutor: sample the MFP when there is none (any distance in Dists x total),
               calc_physics_step_limit: per-process xs, total, step limit and action
     Along     the along-step: the full step (its action) or a shorter one (geometry), any lower
               post-step energy for a particle with continuous loss, stopping at the end of a
               range-limited step (at-rest process: forced discrete interaction, else killed);
               TrackUpdater reduces the MFP unless the discrete interaction is due
     SelectStep DiscreteSelectExecutor: reset the MFP; Selector over the STORED per-process xs with
               any uniform a1/D; integral rejection with a2/D; model at the post-step energy;
               element with a3/D
     Post      rejected: the track continues unchanged; accepted: the model absorbs the particle
               or leaves it with any lower-or-equal energy

   Invariants (the design properties):
     MfpNonNegative       the remaining MFP is never negative; positive after every pre-step
     Ledger               remaining MFP = sampled MFP - sum(step * total xs) over the steps since
     DiscreteWhenDue      the discrete interaction is selected exactly when the MFP is used up by
                          the step (or the particle came to rest)
     StepIsMinimum        the step limit is the smallest candidate and the action names it
                          (range wins a tie with the interaction, the fixed limit must be smaller)
     SelectedHasXs        the selected process has a positive stored cross section
     ModelContainsE       the chosen model's [lower, upper) contains the post-step energy (upper end
                          of the last model included) and no other model of the process does
     RejectOnlyAllowed    integral rejection only for an integral process whose post-step cross
                          section is below the stored estimate
     RejectLeavesTrack    a rejection changes nothing but the (reset) MFP
     NoModelOnlyAtEdge    under the precondition XsWithinModels, a selected process without a model
                          at the post-step energy is possible only for (a) a process NOT treated with
                          the integral approach whose particle lost energy along the step, (b) an
                          integral process with sigma(E1) = 0 and the uniform exactly 0
   Variant (CONSTANT) seeds plausible wrong algorithms that MUST be refuted (vacuity guard):
     "sel_ge"      Selector tests accum >= 0                      -> SelectedHasXs
     "model_upper" model ranges (lower, upper]                    -> ModelContainsE
     "rej_all"     rejection test also for non-integral processes -> RejectOnlyAllowed
     "rej_flip"    rejected <=> u * sigma_max < sigma(E1)          -> RejectOnlyAllowed
     "dec_never"   TrackUpdater forgets the decrement              -> Ledger
     "disc_late"   distance to interaction (mfp + 1)/total          -> DiscreteWhenDue
     "nosample"    the pre-step does not resample a used-up MFP    -> MfpNonNegative
     "fixed_le"    the fixed limiter also wins a tie               -> StepIsMinimum

   Emit (an invariant with a side effect) prints one replay scenario per first pre-step state
   whose numbers are exact in floating point: (configuration, particle, material, energy, MFP) and
   EVERY selection input reachable from it; harness/vphysselect.cc replays each on the real
   classes and PhysSelectTrace validates the log. *)
EXTENDS PhysSelect, TLC, Json, IOUtils

CONSTANTS D,          \* uniforms a/D, a in 0..D
          LS,         \* lengths in units of 1/LS
          Dists,      \* sampled distances to interaction (x LS)
          MaxSteps,
          Variant,
          EmitScenarios

Cfgs == JsonDeserialize(IOEnv.CFGS)
Particles == {0, 1, 2}

VARIABLES phase,  \* "pick" | "pre" | "limited" | "along" | "selected" | "done" | "bad"
          who,    \* [c (configuration id), pt, mat]
          P,      \* the projection Proj(cfg, pt, mat), constant along a behaviour
          trk,    \* [e, mfp, alive] + scratch of the current step [pp, tot, step, act, len, forced, e0]
          sel,    \* result of the selection (while phase is "selected" / "bad")
          snap,   \* ghost: the track at the selection
          due,    \* ghost: sampled MFP - sum(step * total) since
          nstep
vars == <<phase, who, P, trk, sel, snap, due, nstep>>

OddUpTo(e) == {x \in 3..e : x % 2 = 1}
TrackEnergies(cfg, pt) == OddUpTo(2 * cfg.nl + 1) \cup (IF ElossP(cfg, pt) # 0 THEN {0} ELSE {})
HasEloss == P.elossp # 0

\* ---- seeded variants of the decision points
VCumEx(DD, a, c, tot) == IF Variant = "sel_ge" THEN (IF a = DD THEN c >= tot ELSE DD * c >= a * tot)
                         ELSE CumExceeds(DD, a, c, tot)
VFind(rs, e) ==
  IF Variant = "model_upper"
  THEN (IF rs = <<>> \/ e < rs[1].lo \/ e > rs[Len(rs)].hi THEN 0
        ELSE IF e = rs[1].lo THEN 1
        ELSE CHOOSE n \in DOMAIN rs : rs[n].lo < e /\ e <= rs[n].hi)
  ELSE FindModel(rs, e)
VRej(integ, DD, a, smax, xs1) ==
  CASE Variant = "rej_all" -> GtU(DD, a, smax, xs1)
    [] Variant = "rej_flip" -> integ /\ (IF a = DD THEN smax < xs1 ELSE a * smax < DD * xs1)
    [] OTHER -> RejectTest(integ, DD, a, smax, xs1)
VSelect(e1, a1, a2, a3) == SelectWith(P, D, trk.pp, trk.tot, e1, a1, a2, a3, VCumEx, VFind, VRej)
VLimit(e, m, tot) ==
  LET l == StepLimit(P, e, m, tot) IN
  IF Variant = "fixed_le" /\ HasEloss /\ e # 0 /\ P.fixed > 0 /\ l.act # ActFixed /\ EqQ(Rat(P.fixed, 1), l.step)
  THEN [l EXCEPT !.act = ActFixed]
  ELSE IF Variant = "disc_late" /\ l.act = ActDiscrete /\ e # 0 /\ tot > 0
  THEN [l EXCEPT !.step = Rat(m + 1, tot)]
  ELSE l
VAlong(t, len, act) == IF Variant = "dec_never" THEN t ELSE AlongUpdate(t, len, act)

NoScratch == [pp |-> <<>>, tot |-> 0, step |-> Inf, act |-> ActNone, len |-> 0, forced |-> FALSE, e0 |-> 0]
NoTrk == [e |-> 0, mfp |-> 0, alive |-> FALSE] @@ NoScratch
Clear(t) == [e |-> t.e, mfp |-> t.mfp, alive |-> t.alive] @@ NoScratch
NoSel == [n |-> 0, proc |-> 0, integral |-> FALSE, xs1 |-> 0, reject |-> FALSE, model |-> 0, act |-> ActNone,
          el |-> -1, draws |-> 0, e1 |-> 0, a2 |-> 0]
NoP == [np |-> 0]

Init == /\ phase = "pick" /\ who = [c |-> 0, pt |-> 0, mat |-> 0] /\ P = NoP /\ trk = NoTrk /\ sel = NoSel
        /\ snap = NoTrk /\ due = 0 /\ nstep = 0

Pick ==
  /\ phase = "pick"
  /\ \E ci \in DOMAIN Cfgs, pt \in Particles, mat \in Materials :
       LET cfg == Cfgs[ci]
           pj == Proj(cfg, pt, mat)
       IN
       /\ Buildable(cfg, Particles)
       /\ Assert(WellFormed(cfg, Particles), <<"configuration not well formed", cfg.id>>)
       /\ Assert(XsWithinModels(cfg, pt, TrackEnergies(cfg, pt)), <<"XsWithinModels fails", cfg.id, pt>>)
       /\ \E e0 \in OddUpTo(2 * cfg.nl + 1)
                    \cup (IF pj.elossp # 0 /\ pj.atrest /\ SumSeq(PerProcessXs(pj, 0)) > 0 THEN {0} ELSE {}) :
            /\ who' = [c |-> cfg.id, pt |-> pt, mat |-> mat]
            /\ P' = pj
            \* the state is poisoned before the initializer runs
            /\ trk' = InitTrack([NoTrk EXCEPT !.e = e0, !.mfp = 7, !.alive = TRUE])
  /\ phase' = "pre" /\ UNCHANGED <<sel, snap, due, nstep>>

PreStep ==
  /\ phase = "pre" /\ trk.alive /\ nstep < MaxSteps
  /\ LET pp == PerProcessXs(P, trk.e)
         tot == SumSeq(pp)
     IN /\ (trk.e = 0 => tot > 0)
        /\ \E m \in IF HasMfp(trk) THEN {trk.mfp}
                    ELSE IF Variant = "nosample" THEN {0}
                    ELSE IF tot = 0 THEN {LS} ELSE {s * tot : s \in Dists} :
             LET lim == VLimit(trk.e, m, tot) IN
             /\ trk' = [SetMfp(trk, m) EXCEPT !.pp = pp, !.tot = tot, !.step = lim.step, !.act = lim.act,
                                              !.len = 0, !.forced = FALSE, !.e0 = trk.e]
             /\ due' = IF HasMfp(trk) THEN due ELSE m
  /\ phase' = "limited" /\ UNCHANGED <<who, P, sel, snap, nstep>>

IsInt(q) == q.d # 0 /\ q.n % q.d = 0
PostEnergies == IF HasEloss THEN OddUpTo(trk.e) ELSE {trk.e}

\* t = the track after TrackUpdater; going on to the next pre-step forgets the scratch
Continue(t) == /\ trk' = Clear(t) /\ phase' = "pre"

Along ==
  /\ phase = "limited"
  /\ \/ \* a particle at rest does not move
        /\ trk.e = 0
        /\ trk' = trk /\ phase' = "along" /\ due' = due
     \/ \* the full step is the distance to the interaction
        /\ trk.e # 0 /\ trk.step.d # 0 /\ trk.act = ActDiscrete
        /\ \E e1 \in PostEnergies :
             trk' = [VAlong(trk, 0, ActDiscrete) EXCEPT !.e = e1]
        /\ phase' = "along" /\ due' = due
     \/ \* the full step is limited by the range or the fixed limiter
        /\ trk.e # 0 /\ trk.act \in {ActRange, ActFixed}
        /\ LET len == trk.step.n \div trk.step.d IN
           /\ \E e1 \in PostEnergies : Continue([VAlong(trk, len, trk.act) EXCEPT !.e = e1])
           /\ due' = due - len * trk.tot
     \/ \* the end of the range: the particle stops
        /\ trk.e # 0 /\ trk.act = ActRange
        /\ (P.atrest => trk.tot > 0)
        /\ LET len == trk.step.n \div trk.step.d IN
           IF P.atrest
           THEN /\ trk' = [VAlong(trk, len, ActDiscrete) EXCEPT !.e = 0, !.act = ActDiscrete, !.forced = TRUE,
                                                               !.len = len]
                /\ phase' = "along" /\ due' = due
           ELSE /\ trk' = Clear([trk EXCEPT !.e = 0, !.alive = FALSE, !.mfp = 0])
                /\ phase' = "done" /\ due' = 0
     \/ \* a shorter step (geometry boundary)
        /\ trk.e # 0
        /\ \E len \in {x \in 1..3 : LtQ(Rat(x, 1), trk.step)} :
             /\ \E e1 \in PostEnergies : Continue([VAlong(trk, len, "geo-boundary") EXCEPT !.e = e1])
             /\ due' = due - len * trk.tot
  /\ nstep' = nstep + 1 /\ UNCHANGED <<who, P, sel, snap>>

ElSet == {0, 2, D \div 2, D - 1, D}
\* the uniforms that matter, in the order drawn (the others are fixed to 0)
A2Set(s0) == IF s0.integral \/ Variant = "rej_all" THEN 0..D
             ELSE IF s0.draws > 1 THEN ElSet ELSE {0}
A3Set(s1) == IF s1.integral /\ s1.draws > 2 THEN ElSet ELSE {0}

SelectStep ==
  /\ phase = "along" /\ trk.alive /\ trk.act = ActDiscrete
  /\ \E a1 \in 0..D :
       \E a2 \in A2Set(VSelect(trk.e, a1, 0, 0)) :
          \E a3 \in A3Set(VSelect(trk.e, a1, a2, 0)) :
             LET s == VSelect(trk.e, a1, a2, a3) IN
             /\ sel' = s @@ [e1 |-> trk.e, a2 |-> a2]
             /\ phase' = IF ~s.reject /\ s.model = 0 THEN "bad" ELSE "selected"
  /\ snap' = trk
  /\ trk' = ResetMfp(trk)
  /\ due' = 0
  /\ UNCHANGED <<who, P, nstep>>

Post ==
  /\ phase = "selected"
  /\ IF sel.reject
     THEN Continue(trk)
     ELSE \/ trk' = Clear([trk EXCEPT !.alive = FALSE]) /\ phase' = "done"
          \/ /\ trk.e # 0
             /\ \E e2 \in OddUpTo(trk.e) : Continue([trk EXCEPT !.e = e2])
  /\ sel' = NoSel /\ snap' = NoTrk
  /\ UNCHANGED <<who, P, due, nstep>>

Next == Pick \/ PreStep \/ Along \/ SelectStep \/ Post
Spec == Init /\ [][Next]_vars

\* ---------------------------------------------------------------- invariants
TypeOK ==
  /\ phase \in {"pick", "pre", "limited", "along", "selected", "done", "bad"}
  /\ nstep \in 0..MaxSteps

MfpNonNegative ==
  /\ trk.mfp >= 0
  /\ phase = "limited" => trk.mfp > 0

Ledger == (phase \in {"pre", "limited", "along"} /\ trk.alive /\ trk.mfp > 0) => trk.mfp = due

\* at the selection: the step used up exactly the MFP that was left, or the particle stopped
DiscreteWhenDue ==
  (phase = "along" /\ trk.e0 # 0 /\ ~trk.forced)
     => (trk.step.d # 0 /\ trk.step.n * trk.tot = trk.mfp * trk.step.d)

\* the limit is a candidate, no candidate is smaller, and the action names a smallest one with
\* the documented tie rules
StepIsMinimum ==
  phase = "limited" =>
    LET disc == IF trk.tot = 0 THEN Inf ELSE Rat(trk.mfp, trk.tot)
        rng == IF ~HasEloss THEN Inf ELSE Rat(CalcXs(P.range, trk.e), 1)
        fix == IF ~HasEloss \/ P.fixed = 0 THEN Inf ELSE Rat(P.fixed, 1)
    IN IF trk.e = 0 THEN trk.step.n = 0 /\ trk.act = ActDiscrete
       ELSE /\ LeQ(trk.step, disc) /\ LeQ(trk.step, rng) /\ LeQ(trk.step, fix)
            /\ CASE trk.act = ActDiscrete -> EqQ(trk.step, disc) /\ (~HasEloss \/ LtQ(disc, rng)) /\ LeQ(disc, fix)
                 [] trk.act = ActRange -> EqQ(trk.step, rng) /\ LeQ(rng, disc) /\ LeQ(rng, fix)
                 [] trk.act = ActFixed -> EqQ(trk.step, fix) /\ LtQ(fix, disc) /\ LtQ(fix, rng)
                 [] trk.act = ActNone -> P.np = 0 /\ trk.step.d = 0
                 [] OTHER -> FALSE

AtSelection == phase \in {"selected", "bad"}
SelectedHasXsInv == AtSelection => SelectedHasXs(snap.pp, sel)
ModelContainsE == AtSelection => ModelContains(P, sel, sel.e1)
RejectOnlyAllowed == AtSelection => RejectAllowed(snap.pp, sel)
RejectLeavesTrack == (phase = "selected" /\ sel.reject) => trk = ResetMfp(snap)
NoModelOnlyAtEdge ==
  phase = "bad" =>
     \/ (~sel.integral /\ sel.e1 < snap.e0)
     \/ (sel.integral /\ sel.xs1 = 0 /\ sel.a2 = 0)

\* ---------------------------------------------------------------- replay scenarios
\* every selection input whose decision the real code can be asked for (a model exists)
SelInputs ==
  LET e1s == IF trk.e = 0 THEN {0}
             ELSE (IF trk.act = ActDiscrete /\ trk.tot > 0 THEN PostEnergies ELSE {})
                  \cup (IF trk.act = ActRange /\ P.atrest /\ trk.tot > 0 THEN {0} ELSE {})
  IN UNION {
       UNION {
          LET s1 == Select(P, D, trk.pp, trk.tot, e1, a1, a2, 0) IN
          IF ~s1.reject /\ s1.model = 0 THEN {}
          ELSE {<<e1, a1, a2, a3>> : a3 \in A3Set(s1)}
          : a2 \in A2Set(Select(P, D, trk.pp, trk.tot, e1, a1, 0, 0))}
       : <<e1, a1>> \in e1s \X (0..D)}
Emit ==
  (EmitScenarios /\ phase = "limited" /\ nstep = 0 /\ (trk.tot = 0 \/ trk.mfp % trk.tot = 0)) =>
     PrintT(<<"SCEN", ToJson([c |-> who.c, pt |-> who.pt, mat |-> who.mat, e0 |-> trk.e, m |-> trk.mfp,
                              sel |-> SetToSeq(SelInputs)])>>)
=============================================================================
