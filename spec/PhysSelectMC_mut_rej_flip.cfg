SPECIFICATION Spec
CONSTANTS
  D = 8
  LS = 2
  Dists = {1, 2, 3, 4, 6}
  MaxSteps = 2
  Variant = "rej_flip"
  EmitScenarios = FALSE
INVARIANT TypeOK
INVARIANT MfpNonNegative
INVARIANT Ledger
INVARIANT DiscreteWhenDue
INVARIANT StepIsMinimum
INVARIANT SelectedHasXsInv
INVARIANT ModelContainsE
INVARIANT RejectOnlyAllowed
INVARIANT RejectLeavesTrack
INVARIANT NoModelOnlyAtEdge
INVARIANT Emit
CHECK_DEADLOCK FALSE
