--------------------------- MODULE PhysSelectTrace ---------------------------
(* Trace validation for X07: every record logged by harness/vphysselect.cc must be explained by
   the reference semantics of PhysSelect.tla.  One record = one step (l' = l + 1).

   api trace  (hand-made processes with plateau tables, scripted uniforms: exact integers)
     Open     D, LS
     Config   a configuration, whether PhysicsParams accepted it, and what the track views of the
              constructed object say (read-back)                       -> Build clauses
     Pre      InitTrack ; SetMfp(m) ; calc_physics_step_limit at energy e0, then for every scripted
              (e1, a1, a2, a3): ResetMfp ; select_discrete_interaction  -> Pre / Select clauses
   loop trace (real stepping loop, real EM processes: doubles as dense ranks per run, classes
              E energy, X cross section, L length, M mean free paths, D deposit)
     LConfig  processes per particle with the models' applicability (Model::applicability())
     LStep    one track-step seen after pre-step, along-step, discrete-select and post-step
     LEnd
   Close    last record of every trace.

   The spec FOLLOWS the log (the expected values are computed from the logged arguments) and
   accumulates the names of violated clauses with the record of first occurrence; SUMMARY is
   printed at the last record.  Structural problems (unknown record, Abort, missing Close)
   reject the trace.  There is no named deviation: the unchanged tree satisfies every clause. *)
EXTENDS PhysSelect, TLC, Json, IOUtils

TraceLog == ndJsonDeserialize(IOEnv.TRACE)
N == Len(TraceLog)

VARIABLES l,      \* next record
          cfg,    \* api: current configuration record (<<>> none / refused); loop: LConfig record
          dd,     \* api: [D, LS]
          viol, cnt, stat
vars == <<l, cfg, dd, viol, cnt, stat>>
Rec == TraceLog[l]

Inc(f, k) == [x \in (DOMAIN f) \cup {k} |-> IF x = k THEN (IF k \in DOMAIN f THEN f[k] ELSE 0) + 1 ELSE f[x]]
IncAll(f, ks) == FoldLeft(Inc, f, SetToSeq(ks))
AddN(f, k, n) == [x \in (DOMAIN f) \cup {k} |-> IF x = k THEN (IF k \in DOMAIN f THEN f[k] ELSE 0) + n ELSE f[x]]
Note(names) ==
  /\ cnt' = IncAll(cnt, names)
  /\ viol' = viol \cup {<<n, l>> : n \in {m \in names : (IF m \in DOMAIN cnt THEN cnt[m] ELSE 0) < 3}}

Init == l = 1 /\ cfg = <<>> /\ dd = [D |-> 8, LS |-> 2] /\ viol = {} /\ cnt = <<>> /\ stat = <<>>

Particles == {0, 1, 2}
Bad(name, ok) == IF ok THEN {} ELSE {name}

\* ---------------------------------------------------------------- api: Open / Config
TOpen ==
  /\ Rec.e = "Open"
  /\ dd' = [D |-> Rec.D, LS |-> Rec.LS]
  /\ UNCHANGED <<cfg, viol, cnt, stat>>

\* what the views of the constructed PhysicsParams must say for (particle, material)
ReadbackNames(c, r) ==
  UNION {
    LET rb == r.rb[pt + 1].mats[mat + 1]
        P == Proj(c, pt, mat)
        same == rb.np = P.np /\ Len(rb.procs) = P.np
    IN
    Bad("X07.ProcessGroups", same /\ \A n \in 1..P.np : rb.procs[n].proc = P.procs[n].id)
    \cup Bad("X07.AtRestFlag", rb.atrest = P.atrest)
    \cup Bad("X07.ElossProcess", rb.elossp = P.elossp)
    \cup (IF ~same THEN {} ELSE UNION {
           LET q == rb.procs[n]
               pr == P.procs[n]
           IN
           Bad("X07.IntegralFlag", q.integral = pr.integral)
           \cup Bad("X07.EnergyMaxXs", pr.integral => q.emaxpos = EMaxPos(pr.xs))
           \cup Bad("X07.TablePresence", q.hasxs = (pr.xs # <<>>) /\ q.hasrange = (n = P.elossp))
           \* model lookup at every position of the energy axis (record index - 1 = position)
           \cup Bad("X07.ModelLookup",
                    \A x \in DOMAIN q.fm :
                       LET m == FindModel(pr.rs, x - 1) IN
                       /\ q.fm[x].m = (IF m = 0 THEN "none" ELSE pr.rs[m].label)
                       /\ q.fm[x].rt
                       /\ q.fm[x].t = (m # 0 /\ HasMicro(pr.rs[m], mat)))
           : n \in 1..P.np})
    : <<pt, mat>> \in Particles \X Materials}

ConfigNames(r) ==
  LET c == r.cfg
      ok == Buildable(c, Particles)
  IN Bad("X07.BuildRefusal", r.built = ok)
     \cup (IF r.built /\ ok
           THEN ReadbackNames(c, r)
                \cup Bad("X07.ActionLabels",
                         /\ r.acts.discrete = ActDiscrete /\ r.acts.range = ActRange /\ r.acts.reject = ActReject
                         /\ r.acts.fixed = (IF c.fixed > 0 THEN ActFixed ELSE ActNone)
                         /\ r.acts.nmodels = SumSeq([i \in DOMAIN c.procs |-> Len(c.procs[i].models)])
                         /\ \A pt \in Particles : Len(ProcsOf(c, pt)) <= r.acts.maxpp
                         /\ \E pt \in Particles : Len(ProcsOf(c, pt)) = r.acts.maxpp)
           ELSE {})

TConfig ==
  /\ Rec.e = "Config"
  /\ Assert(WellFormed(Rec.cfg, Particles), <<"harness input not well formed", Rec.cfg.id>>)
  /\ Note(ConfigNames(Rec))
  /\ cfg' = IF Rec.built THEN Rec.cfg ELSE <<>>
  /\ stat' = Inc(Inc(stat, "configs"), IF Rec.built THEN "built" ELSE "refused")
  /\ UNCHANGED dd

\* ---------------------------------------------------------------- api: Pre (+ selections)
LabelsOf(pr) == {pr.rs[x].label : x \in DOMAIN pr.rs}

SelNames(P, r, o) ==
  LET s == Select(P, dd.D, r.pp, r.tot, o.e1, o.a[1], o.a[2], o.a[3]) IN
  Bad("X07.ScenarioPrecondition", s.act # "NO-MODEL" /\ r.tot > 0)
  \cup (IF o.act = s.act THEN {}
        ELSE IF (o.act = ActReject) # s.reject THEN {"X07.IntegralRejection"}
        ELSE IF o.act \in LabelsOf(P.procs[s.n]) THEN {"X07.ModelAtPostStepEnergy"}
        ELSE {"X07.ProcessSelection"})
  \cup Bad("X07.ElementSelection", o.act # s.act \/ o.el = s.el)
  \cup Bad("X07.RngDraws", o.act # s.act \/ (o.used = 2 * s.draws /\ o.over = 0))
  \cup Bad("X07.SelectLeavesState", ~o.hm2 /\ o.same)

PreNames(r) ==
  LET P == Proj(cfg, r.pt, r.mat)
      pp == PerProcessXs(P, r.e0)
      tot == SumSeq(pp)
      lim == StepLimit(P, r.e0, r.m, tot)
  IN Bad("X07.InitResetsMfp", ~r.hm0)
     \cup Bad("X07.SetMfp", r.hm1 /\ r.m1 = r.m)
     \cup Bad("X07.PerProcessXs", r.pp = pp)
     \cup Bad("X07.TotalXs", r.tot = SumSeq(r.pp))
     \cup Bad("X07.StepLimitValue", IF lim.step.d = 0 THEN r.stepinf
                                    ELSE ~r.stepinf /\ r.step * lim.step.d = lim.step.n)
     \cup Bad("X07.StepLimitAction", r.act = lim.act)
     \cup Bad("X07.RangeSaved", (P.elossp # 0 /\ r.e0 # 0) => r.rng = lim.range)
     \cup Bad("X07.ExactArithmetic", r.inexact = 0)
     \cup Bad("X07.ScratchIsolation", r.others)
     \cup (IF Len(r.pp) # P.np THEN {}
           ELSE UNION {SelNames(P, r, r.sel[x]) : x \in DOMAIN r.sel})

PreStat(r) ==
  LET P == Proj(cfg, r.pt, r.mat)
      rej == Cardinality({x \in DOMAIN r.sel : r.sel[x].act = ActReject})
      els == Cardinality({x \in DOMAIN r.sel : r.sel[x].el > 0})
      ties == Cardinality({x \in DOMAIN r.sel : r.tot > 0 /\ r.sel[x].a[1] < dd.D /\
                              \E n \in 1..(Len(r.pp) - 1) :
                                  dd.D * SumSeq(SubSeq(r.pp, 1, n)) = r.sel[x].a[1] * r.tot})
      s1 == AddN(AddN(AddN(AddN(stat, "pre", 1), "sel", Len(r.sel)), "rejected", rej), "element2", els)
      s2 == AddN(AddN(s1, "selties", ties), "act:" \o r.act, 1)
  IN AddN(AddN(AddN(s2, "stopped", IF r.e0 = 0 THEN 1 ELSE 0), "atrest_sel",
               Cardinality({x \in DOMAIN r.sel : r.sel[x].e1 = 0})),
          "steptie", IF P.elossp # 0 /\ r.e0 # 0 /\ r.tot > 0 /\ r.rng * r.tot = r.m THEN 1 ELSE 0)

TPre ==
  /\ Rec.e = "Pre"
  /\ cfg # <<>> /\ "id" \in DOMAIN cfg /\ cfg.id = Rec.c
  /\ Note(PreNames(Rec))
  /\ stat' = PreStat(Rec)
  /\ UNCHANGED <<cfg, dd>>

\* ---------------------------------------------------------------- loop: LConfig / LStep / LEnd
TLConfig ==
  /\ Rec.e = "LConfig"
  /\ cfg' = Rec
  /\ Note(Bad("X07.Loop.ActionLabels",
              /\ Rec.acts.discrete = ActDiscrete /\ Rec.acts.range = ActRange /\ Rec.acts.reject = ActReject
              /\ Rec.acts.fixed = (IF Rec.hasfixed THEN ActFixed ELSE ActNone)))
  /\ stat' = Inc(stat, "runs")
  /\ UNCHANGED dd

Abs(x) == IF x < 0 THEN -x ELSE x

\* the selected action after discrete-select is one the selection can produce for SOME uniforms
Possible(c, s, procs) ==
  \/ /\ s.act2 = ActReject
     /\ \E n \in DOMAIN procs : procs[n].integral /\ s.pp[n].rX_v > c.rX_zero /\ s.x1[n].rX_v < s.pp[n].rX_v
  \/ \E n \in DOMAIN procs :
        /\ s.pp[n].rX_v > c.rX_zero
        /\ \E m \in DOMAIN procs[n].models :
              LET md == procs[n].models[m] IN
              /\ md.label = s.act2
              /\ md.rE_lo <= s.rE_E1
              /\ \/ s.rE_E1 < md.rE_hi
                 \/ (s.rE_E1 = md.rE_hi /\ \A q \in DOMAIN procs[n].models : procs[n].models[q].rE_hi <= md.rE_hi)

StepNames(c, s) ==
  LET procs == c.parts[s.pt + 1].procs
      np == Len(procs)
      zeroM == c.rM_zero
      zeroX == c.rX_zero
      zeroL == c.rL_zero
      discrete == c.acts.discrete
      \* limit: the documented minimum with its tie rules, on ranks (infinite candidates rank highest)
      s1 == IF s.haseloss /\ s.rL_rstep <= s.rL_disc THEN [v |-> s.rL_rstep, a |-> c.acts.range]
            ELSE [v |-> s.rL_disc, a |-> discrete]
      s2 == IF s.haseloss /\ c.hasfixed /\ s.rL_fixed < s1.v THEN [v |-> s.rL_fixed, a |-> c.acts.fixed]
            ELSE s1
  IN
  \* MFP: sampled when there is none (new track, after a selection), else carried over unchanged
  Bad("X07.Loop.MfpCarried",
      IF s.cont /\ s.rM_prev > zeroM THEN s.rM_mfp0 = s.rM_prev ELSE s.rM_mfp0 > zeroM)
  \cup Bad("X07.Loop.ProcessCount", Len(s.pp) = np)
  \cup (IF Len(s.pp) # np THEN {} ELSE
     Bad("X07.Loop.PerProcessXs",
         \A n \in 1..np :
            s.pp[n].rX_v =
              (IF procs[n].integral
               THEN (IF ~s.stopped0 /\ s.emax[n].rE_v >= s.rE_xi /\ s.emax[n].rE_v < s.rE_E0
                     THEN s.xem[n].rX_v
                     ELSE (IF s.x0[n].rX_v >= s.xxi[n].rX_v THEN s.x0[n].rX_v ELSE s.xxi[n].rX_v))
               ELSE s.x0[n].rX_v))
     \cup Bad("X07.Loop.TotalXs",
              /\ 2 * Abs(s.totq - SumSeq([n \in 1..np |-> s.ppq[n]])) <= np + 2
              /\ (s.rX_tot > zeroX) = (\E n \in 1..np : s.pp[n].rX_v > zeroX))
     \cup Bad("X07.Loop.StepLimit",
              IF s.stopped0 THEN s.rL_lim = zeroL /\ s.act0 = discrete
              ELSE IF np = 0 THEN s.act0 = ActNone
              ELSE s.rL_lim = s2.v /\ s.act0 = s2.a)
     \cup Bad("X07.Loop.StepTaken",
              /\ s.rL_len <= s.rL_lim
              /\ (s.act1 = discrete => (s.rL_len = s.rL_lim \/ s.stopped1)))
     \cup Bad("X07.Loop.MfpDecrement",
              IF s.st1 # "alive" THEN TRUE
              ELSE IF s.act1 = discrete THEN s.rM_mfp1 = s.rM_mfp0
              ELSE s.rM_declo <= s.rM_mfp1 /\ s.rM_mfp1 <= s.rM_dechi)
     \cup Bad("X07.Loop.MfpNonNegative", s.st1 # "alive" \/ s.rM_mfp1 >= zeroM)
     \cup Bad("X07.Loop.SelectResetsMfp",
              IF s.act1 = discrete /\ s.st1 = "alive" THEN s.rM_mfp2 = zeroM /\ s.rM_mfp3 = zeroM
              ELSE s.rM_mfp2 = s.rM_mfp1)
     \cup Bad("X07.Loop.SelectedAction",
              IF s.act1 = discrete /\ s.st1 = "alive" THEN Possible(c, s, procs) ELSE s.act2 = s.act1)
     \cup Bad("X07.Loop.SelectLeavesTrack", s.rE_E2 = s.rE_E1 /\ s.st2 = s.st1)
     \cup Bad("X07.Loop.ElementSampled",
              (s.act1 = discrete /\ s.st1 = "alive" /\ s.act2 # ActReject /\ c.nel[s.mat + 1] = 1) => s.el2 = 0)
     \cup Bad("X07.Loop.RejectLeavesTrack",
              (s.act2 = ActReject) =>
                 /\ s.rE_E3 = s.rE_E1 /\ s.st3 = "alive" /\ s.nsec = 0 /\ s.rD_dep3 = s.rD_dep1 /\ s.dirsame
                 /\ s.act3 = ActReject))

StepStat(c, s) ==
  LET d == c.acts.discrete
      s1 == AddN(AddN(stat, "steps", 1), "discrete", IF s.act1 = d THEN 1 ELSE 0)
      s2 == AddN(AddN(s1, "rejected", IF s.act2 = ActReject THEN 1 ELSE 0), "carried",
                 IF s.cont /\ s.rM_prev > c.rM_zero THEN 1 ELSE 0)
      s3 == AddN(AddN(s2, "decremented", IF s.st1 = "alive" /\ s.act1 # d THEN 1 ELSE 0), "stopped0",
                 IF s.stopped0 THEN 1 ELSE 0)
      s4 == AddN(AddN(s3, "forced", IF s.act1 = d /\ s.act0 # d THEN 1 ELSE 0), "lact:" \o s.act0, 1)
      s5 == AddN(s4, "emaxbranch",
                 IF \E n \in DOMAIN s.pp : c.parts[s.pt + 1].procs[n].integral /\ ~s.stopped0
                                            /\ s.emax[n].rE_v >= s.rE_xi /\ s.emax[n].rE_v < s.rE_E0 THEN 1 ELSE 0)
  IN AddN(s5, "sel:" \o (IF s.act1 = d THEN s.act2 ELSE "-"), 1)

TLStep ==
  /\ Rec.e = "LStep"
  /\ cfg # <<>> /\ "parts" \in DOMAIN cfg
  /\ Note(StepNames(cfg, Rec))
  /\ stat' = StepStat(cfg, Rec)
  /\ UNCHANGED <<cfg, dd>>

TLEnd ==
  /\ Rec.e = "LEnd"
  /\ cfg' = <<>>
  /\ stat' = AddN(stat, "unfinished", IF Rec.unfinished THEN 1 ELSE 0)
  /\ UNCHANGED <<dd, viol, cnt>>

TClose == Rec.e = "Close" /\ l = N /\ UNCHANGED <<cfg, dd, viol, cnt, stat>>

Next == l <= N /\ l' = l + 1 /\ (TOpen \/ TConfig \/ TPre \/ TLConfig \/ TLStep \/ TLEnd \/ TClose)
Spec == Init /\ [][Next]_vars

Accepted ==
  LET d == TLCGet("stats").diameter IN
  IF d - 1 = N /\ TraceLog[N].e = "Close" THEN TRUE
  ELSE /\ PrintT(<<"REJECTED", d, TraceLog[IF d <= N THEN d ELSE N]>>)
       /\ FALSE
Report == (l = N + 1) => PrintT(<<"SUMMARY", ToJson([viol |-> viol, cnt |-> cnt, stat |-> stat])>>)
=============================================================================
