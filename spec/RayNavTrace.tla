---------------------------- MODULE RayNavTrace ----------------------------
(* C03 / C11 on GENERAL (non-lattice) ORANGE geometries: the bundled .org.json fixtures.
   harness/vnav.cc (mode `fixture`) drives the real OrangeTrackView along straight rays, seeded
   random protocol walks and safety probes; tools/navfacts.py replaces every real-valued
   quantity by discrete ENVIRONMENT FACTS decided by the independent point locator
   tools/oracle_geo.py ("T", "F", or "U" = discarded by the validity gate) and by tolerant
   numeric comparisons.  This module is the 1-D instance of LatticeNav's protocol machine:
   it re-derives the protocol phase from the operations, checks protocol legality (a
   violation of the protocol is a harness fault and rejects the trace), and judges each
   record by the same clauses as LatticeNav.  Facts "U" are never judged.  After a hard
   clause is violated the rest of that history (until the next Init) is not judged.

   Named deviation (counted in `dev`, never hidden): UnionBoundaryDaughterCrossFails
   (finding F-NAV-2) -- cross_boundary reports failure, or find_next_step stops at an internal
   surface of the union, in a geometry that contains a daughter universe whose boundary is a
   union (World.union_boundary, detected from the input by the oracle).  A failed crossing or
   an invented boundary anywhere else is C03.CrossFailed / C03.NoInventedBoundary.

   Named deviation SafetyIgnoresCentredQuadric (finding F-SAFE-1): the reported safety exceeds the true
   distance (or is not finite) at a point for which the oracle reports a sphere / cylinder FACE of the
   point's volume, at some level of its chain, whose gradient vanishes at the local point (the centre of
   the sphere, the axis of the cylinder: Rec.centre).  An over-estimate anywhere else is
   C11.SafetyConservative.

   SafetyMax = find_safety(radius): judged like Safety (what it reports is still a lower bound of the true
   distance).  MoveTo = move_internal(position), legal inside the safety sphere last reported at the
   point (Rec.within; anything else is a harness fault).  Copy = a second track initialised from this one
   (DetailedInitializer) with a new direction (on a boundary: the same direction), which then is the
   track: the protocol phase is unchanged, the cached step is gone. *)
EXTENDS Integers, Sequences, FiniteSets, TLC, Json, IOUtils

TraceLog == ndJsonDeserialize(IOEnv.TRACE)
N == Len(TraceLog)

VARIABLES l, ph, has, nb, ok, ub, viol, dev, stat
vars == <<l, ph, has, nb, ok, ub, viol, dev, stat>>
Rec == TraceLog[l]

Ops == {"Find", "FindMax", "MoveI", "MoveB", "Cross", "SetDir", "Safety", "SafetyMax", "MoveTo", "Copy"}
Kinds == Ops \cup {"Init", "judged", "unjudged", "facts_U", "rays", "sphere_pts", "safety_pos", "histories", "near_bounds",
                   "turns_exiting", "turns_reentrant", "turns_near_tangent", "centre_probes"}

Init ==
  /\ l = 1 /\ ph = "O" /\ has = FALSE /\ nb = FALSE /\ ok = FALSE /\ ub = FALSE
  /\ viol = <<>> /\ dev = <<>> /\ stat = [k \in Kinds |-> 0]

Bump(f, names) ==
  [c \in (DOMAIN f) \cup names |->
     IF c \in names THEN (IF c \in DOMAIN f THEN [f[c] EXCEPT !.n = @ + 1] ELSE [n |-> 1, first |-> l])
     ELSE f[c]]

IfF(fact, name) == IF fact = "F" THEN {name} ELSE {}
NumU(r) == Cardinality({k \in (DOMAIN r) \cap {"f_vol", "f_out", "f_same", "f_change", "f_rev", "sphere_ok", "f_dec"} : r[k] = "U"})

\* after every call
StateClauses(r, phase) ==
  IfF(r.f_out, "C03.ExitsWorld") \cup IfF(r.f_vol, "C03.Sync") \cup IfF(r.f_pos, "C03.Position")
  \cup (IF ~r.out /\ r.onb # (phase \in {"Bm", "Bp"}) THEN {"C03.OnBoundaryFlag"} ELSE {})

FindClauses(r) ==
  IF r.f_rev = "T"
  THEN (IF r.dcls = "zero" /\ r.b THEN {} ELSE {"C03.NextDistance"})
  ELSE IF r.f_rev = "U" THEN {}
  ELSE (IF r.dcls \in {"zero", "neg"} THEN {"C03.NoInventedBoundary"} ELSE {})
       \cup (IF r.dcls = "inf" THEN {"C03.NextDistance"} ELSE {})
       \cup IfF(r.f_same, "C03.NoSkip")
       \cup (IF r.b /\ r.dcls = "pos" THEN IfF(r.f_change, "C03.NoInventedBoundary") ELSE {})

\* the limited search against the unlimited one issued just before in the same state
TruncClauses(r) ==
  IF r.cmp = 9 \/ r.f_rev # "F" THEN {}
  ELSE IF r.cmp = -1 THEN (IF r.d_is = "du" /\ r.b THEN {} ELSE {"C03.Truncation"})
  ELSE IF r.cmp = 1 THEN (IF r.d_is = "m" /\ ~r.b THEN {} ELSE {"C03.Truncation"})
  ELSE (IF r.d_is = "du" THEN {} ELSE {"C03.Truncation"})

Judge(names, devs, e, nu) ==
  /\ viol' = Bump(viol, IF ok THEN names ELSE {})
  /\ dev' = Bump(dev, IF ok THEN devs ELSE {})
  /\ stat' = [stat EXCEPT ![e] = @ + 1, ![IF ok THEN "judged" ELSE "unjudged"] = @ + 1,
                          !["facts_U"] = @ + nu]

\* several fixtures may be concatenated in one trace file: World ... Close World ... Close
TWorld ==
  /\ Rec.e = "World" /\ (IF l = 1 THEN TRUE ELSE TraceLog[l - 1].e = "Close") /\ ub' = Rec.union_boundary
  /\ ph' = "O" /\ has' = FALSE /\ nb' = FALSE /\ ok' = FALSE
  /\ UNCHANGED <<viol, dev, stat>>

TInit ==
  /\ l > 1 /\ Rec.e = "Init"
  /\ LET bad == Rec.failed \/ Rec.out
         cl == (IF Rec.failed /\ Rec.start_valid THEN {"C03.InitFailed"} ELSE {})
               \cup (IF bad THEN {} ELSE StateClauses(Rec, "I"))
     IN /\ ph' = IF bad THEN "O" ELSE "I"
        /\ has' = FALSE /\ nb' = FALSE
        /\ ok' = (cl = {} /\ Rec.start_valid)
        /\ viol' = Bump(viol, cl) /\ dev' = dev
        /\ stat' = [stat EXCEPT !["Init"] = @ + 1, !["histories"] = @ + 1, !["facts_U"] = @ + NumU(Rec)]
  /\ UNCHANGED ub

\* dcls = "tiny": the next surface lies within 100x the geometry tolerance of the track (edge or
\* corner of the geometry): such states are outside the property, the history is not judged further
TFind ==
  /\ l > 1 /\ Rec.e \in {"Find", "FindMax"} /\ ph \in {"I", "Bp"} /\ Rec.pre_ph = ph
  /\ LET cl == IF Rec.dcls = "tiny" THEN {}
               ELSE FindClauses(Rec) \cup (IF Rec.e = "FindMax" THEN TruncClauses(Rec) ELSE {})
                    \cup StateClauses(Rec, ph)
         \* in a geometry with a union-bounded daughter (F-NAV-2) the navigator also stops at the
         \* internal surfaces of that union: same feature, same named deviation, counted
         inv == ub /\ Rec.b /\ Rec.dcls = "pos" /\ Rec.f_rev = "F" /\ Rec.f_change = "F"
         cl2 == IF inv THEN cl \ {"C03.NoInventedBoundary"} ELSE cl
     IN /\ Judge(cl2, IF inv THEN {"UnionBoundaryDaughterCrossFails"} ELSE {}, Rec.e, NumU(Rec))
        /\ ok' = (ok /\ cl = {} /\ Rec.dcls # "tiny")
  /\ has' = (Rec.dcls \in {"pos", "tiny"}) /\ nb' = (Rec.b /\ Rec.dcls \in {"pos", "tiny"})
  /\ ph' = IF Rec.dcls = "inf" THEN "O" ELSE ph
  /\ UNCHANGED ub

TMoveI ==
  /\ l > 1 /\ Rec.e = "MoveI" /\ ph \in {"I", "Bp"} /\ has /\ Rec.x_ok
  /\ LET cl == StateClauses(Rec, "I") IN Judge(cl, {}, "MoveI", NumU(Rec)) /\ ok' = (ok /\ cl = {})
  /\ ph' = "I" /\ has' = Rec.rem /\ nb' = (nb /\ Rec.rem)
  /\ UNCHANGED ub

TMoveB ==
  /\ l > 1 /\ Rec.e = "MoveB" /\ ph \in {"I", "Bp"} /\ has /\ nb /\ Rec.legal
  \* Rec.edge: a second, non-parallel surface within 10 eps of the arrival point (oracle): edge / corner
  \* states are outside the property, the history is not judged further
  /\ LET cl == IF Rec.edge THEN {} ELSE StateClauses(Rec, "Bm")
     IN Judge(cl, {}, "MoveB", NumU(Rec)) /\ ok' = (ok /\ cl = {} /\ ~Rec.edge)
  /\ ph' = "Bm" /\ has' = FALSE /\ nb' = FALSE
  /\ UNCHANGED ub

TCross ==
  /\ l > 1 /\ Rec.e = "Cross" /\ ph = "Bm"
  /\ LET failcl == IF Rec.failed /\ ~ub THEN {"C03.CrossFailed"} ELSE {}
         devs == IF Rec.failed /\ ub THEN {"UnionBoundaryDaughterCrossFails"} ELSE {}
         cl == failcl \cup (IF Rec.failed THEN {} ELSE StateClauses(Rec, "Bp"))
     IN /\ Judge(cl, devs, "Cross", NumU(Rec))
        /\ ok' = (ok /\ cl = {} /\ ~Rec.failed)
  /\ ph' = IF Rec.failed \/ Rec.out THEN "O" ELSE "Bp"
  /\ has' = FALSE /\ nb' = FALSE
  /\ UNCHANGED ub

\* set_dir on a boundary decides whether the pending / completed crossing is exiting or re-entrant by
\* comparing the old and new direction with the surface normal.  That normal is a function of
\* (surface, position LOCAL to the level that owns the surface), rotated to the global frame from THAT
\* level.  f_dec = the navigator's decision (its boundary flag after the call) agrees with the sign of
\* (direction . TRUE normal) supplied by the independent oracle (tools/oracle_geo.py normal_at).
TSetDir ==
  /\ l > 1 /\ Rec.e = "SetDir" /\ ph \in {"I", "Bm", "Bp"}
  /\ LET sc == StateClauses(Rec, ph)
         cl == sc \cup IfF(Rec.f_dec, "C03.ReentrantDecision")
     IN /\ viol' = Bump(viol, IF ok THEN cl ELSE {}) /\ dev' = dev
        /\ stat' = [stat EXCEPT !["SetDir"] = @ + 1, ![IF ok THEN "judged" ELSE "unjudged"] = @ + 1,
                                !["facts_U"] = @ + NumU(Rec),
                                !["turns_exiting"] = @ + (IF ok THEN Rec.dx ELSE 0),
                                !["turns_reentrant"] = @ + (IF ok THEN Rec.dr ELSE 0),
                                !["turns_near_tangent"] = @ + (IF ok THEN Rec.dt ELSE 0)]
        \* a wrong decision does not end the judgement: the volume after cross_boundary is judged too
        /\ ok' = (ok /\ sc = {})
  /\ has' = FALSE /\ nb' = FALSE
  /\ UNCHANGED <<ph, ub>>

TSafety ==
  /\ l > 1 /\ Rec.e \in {"Safety", "SafetyMax"} /\ ph = "I"
  /\ LET \* the reported value exceeds the true distance to the boundary of the point's volume: it is not
         \* finite (the world is bounded), or a ray shot from the point met a boundary sooner, or
         \* s > a confirmed upper bound of the true distance (oracle: closest points of the surrounding
         \* surfaces, confirmed by point location), or a point of the safety sphere lies in another volume
         over == ~Rec.sfin \/ ~Rec.rays_ok \/ ~Rec.near_ok \/ Rec.sphere_ok = "F"
         devs == IF over /\ Rec.centre THEN {"SafetyIgnoresCentredQuadric"} ELSE {}
         cl == (IF Rec.sneg THEN {"C11.SafetyNonNegative"} ELSE {})
               \cup (IF over /\ ~Rec.centre THEN {"C11.SafetyConservative"} ELSE {})
               \cup StateClauses(Rec, "I")
     IN /\ viol' = Bump(viol, IF ok THEN cl ELSE {}) /\ dev' = Bump(dev, IF ok THEN devs ELSE {})
        /\ stat' = [stat EXCEPT ![Rec.e] = @ + 1, ![IF ok THEN "judged" ELSE "unjudged"] = @ + 1,
                                !["facts_U"] = @ + NumU(Rec), !["rays"] = @ + Rec.nrays,
                                !["sphere_pts"] = @ + Rec.nsphere, !["near_bounds"] = @ + Rec.nnear,
                                !["safety_pos"] = @ + (IF Rec.spos THEN 1 ELSE 0),
                                !["centre_probes"] = @ + (IF Rec.centre THEN 1 ELSE 0)]
        /\ ok' = (ok /\ cl = {})
  /\ UNCHANGED <<ph, has, nb, ub>>

\* move_internal(position) inside the safety sphere reported at the point
TMoveTo ==
  /\ l > 1 /\ Rec.e = "MoveTo" /\ ph = "I" /\ Rec.within
  /\ LET cl == StateClauses(Rec, "I") IN Judge(cl, {}, "MoveTo", NumU(Rec)) /\ ok' = (ok /\ cl = {})
  /\ ph' = "I" /\ has' = FALSE /\ nb' = FALSE
  /\ UNCHANGED ub

\* the track handed over to a copy of itself (DetailedInitializer)
TCopy ==
  /\ l > 1 /\ Rec.e = "Copy" /\ ph \in {"I", "Bm", "Bp"}
  /\ LET cl == StateClauses(Rec, ph) IN Judge(cl, {}, "Copy", NumU(Rec)) /\ ok' = (ok /\ cl = {})
  /\ has' = FALSE /\ nb' = FALSE
  /\ UNCHANGED <<ph, ub>>

\* a straight ray that is still inside after 400 crossings
TStuck ==
  /\ l > 1 /\ Rec.e = "Stuck"
  /\ viol' = Bump(viol, IF ok THEN {"C03.ExitsWorld"} ELSE {})
  /\ UNCHANGED <<ph, has, nb, ok, ub, dev, stat>>

TClose ==
  /\ l > 1 /\ Rec.e = "Close"
  /\ UNCHANGED <<ph, has, nb, ok, ub, viol, dev, stat>>

Next ==
  /\ l <= N /\ l' = l + 1
  /\ TWorld \/ TInit \/ TFind \/ TMoveI \/ TMoveB \/ TCross \/ TSetDir \/ TSafety \/ TMoveTo \/ TCopy \/ TStuck \/ TClose
Spec == Init /\ [][Next]_vars

Accepted ==
  LET d == TLCGet("stats").diameter IN
  IF d - 1 = N /\ TraceLog[N].e = "Close" THEN TRUE
  ELSE /\ PrintT(<<"REJECTED", d, TraceLog[IF d <= N THEN d ELSE N]>>)
       /\ FALSE
Report == (l = N + 1) =>
   PrintT(<<"SUMMARY", ToJson([viol |-> viol, dev |-> dev, stat |-> stat])>>)
=============================================================================
