------------------------------ MODULE RoundTrip ------------------------------
(* C19: writing a geometry input to JSON and reading it back is a STUTTERING step on the
   abstract geometry state.

   The abstract state `geo` is the whole OrangeInput as a finite function from field paths
   to value tokens, represented in a canonical order as a sequence of <<path, token>>:
     tol.rel tol.abs | universes.n | u[i].type .label .bbox
     u[i].s[j].type .data .label | u[i].v[j].label .faces .logic .bbox .flags .zorder
     u[i].d[v].universe .transform | u[i].grid[ax] (rectangular arrays)
   Tokens are strings: integers "i:..", strings "s:..", labels "s:name|ext", doubles as the
   16 hex digits of their bit pattern ("d:.."), so equality of tokens is bit equality.  (The
   writer prints doubles with the shortest representation that reads back to the same double,
   nlohmann::json::dump, so exact equality is the claim.)

   `unlisted` holds what the structs carry beyond the fields the property names (today: the
   oriented bounding zones of volumes).  The property does not require them to survive; the
   trace spec reports their fate as an observation. *)
EXTENDS Integers, Sequences, FiniteSets

VARIABLES geo,      \* the abstract geometry (listed fields)
          file      \* "none" or the serialised form (abstractly: the geometry it encodes)
vars == <<geo, file>>

Paths(g) == {g[i][1] : i \in DOMAIN g}
IsFunction(g) == \A i, j \in DOMAIN g : g[i][1] = g[j][1] => i = j       \* every path once

Write == file = "none" /\ file' = geo /\ UNCHANGED geo
Read == file # "none" /\ geo' = file /\ file' = "none"
Next == Write \/ Read
\* the property: no step changes the geometry
RoundTripStutters == [][geo' = geo]_vars

(* What a concrete execution must show (used by RoundTripTrace): the first positions at which
   two canonical sequences disagree, separating a changed value from a missing / extra field. *)
MinLen(a, b) == IF Len(a) < Len(b) THEN Len(a) ELSE Len(b)
DiffIdx(a, b) == {i \in 1..MinLen(a, b) : a[i] # b[i]}
FirstK(S, k) == {i \in S : Cardinality({j \in S : j <= i}) <= k}
\* set of <<clause, path, before, after>>
FieldDiffs(a, b, k) ==
  LET d == DiffIdx(a, b)
      mis == {i \in d : a[i][1] # b[i][1]}          \* paths out of step: a field appeared / vanished
      firstmis == IF mis = {} THEN MinLen(a, b) + 1 ELSE CHOOSE i \in mis : \A j \in mis : i <= j
      val == {i \in d : i < firstmis}                \* same path, different value
  IN {<<"C19.FieldEqual", a[i][1], a[i][2], b[i][2]>> : i \in FirstK(val, k)}
     \cup (IF mis # {} THEN {<<"C19.FieldPresent", a[firstmis][1], "present", "next after: " \o b[firstmis][1]>>}
           ELSE IF Len(a) > Len(b) THEN {<<"C19.FieldPresent", a[Len(b) + 1][1], "present", "missing">>}
           ELSE IF Len(b) > Len(a) THEN {<<"C19.FieldPresent", b[Len(a) + 1][1], "missing", "present">>}
           ELSE {})
=============================================================================
