SPECIFICATION TSpec
INVARIANT Report
POSTCONDITION Accepted
CHECK_DEADLOCK FALSE
