--------------------------- MODULE RoundTripTrace ---------------------------
(* C19 trace validation.  harness/vbuild.cc `roundtrip` logs, for every OrangeInput (bundled
   .org.json fixtures and inputs built by the C09 generator through the construction API):

     RT(name, before, after, unl_before, unl_after)   independent projection of the structs
                                                      before operator<< and after operator>>
     Nav(name, a, b)      the same seeded straight rays traced on the OrangeParams built from
                          the original (a) and from the re-read input (b): per ray the
                          sequence  label, distance-token, label, ...  (tokens intern bit patterns)
     Deviation(name, dev, child) the input contains an involute surface and the reader, tried in
                          a CHILD process, crashed or threw (named deviation, counted); if the
                          child succeeds the harness performs the normal round trip instead
     Error(name, msg)     writer / reader / OrangeParams threw

   Clauses (accumulated, never rejecting): C19.FieldEqual (same path, different value: names
   the path), C19.FieldPresent (a field vanished / appeared), C19.NavigationEqual (names the
   first differing ray), C19.RoundTripCompletes.  RT is RoundTrip!Write followed by
   RoundTrip!Read: the observed `after` must equal `geo`. *)
EXTENDS RoundTrip, TLC, Json, IOUtils

TraceLog == ndJsonDeserialize(IOEnv.TRACE)
N == Len(TraceLog)

VARIABLES l, pc, viol, devs, obs, stat
tvars == <<l, pc, geo, file, viol, devs, obs, stat>>
Rec == TraceLog[l]
MaxNotes == 4

TInit ==
  /\ l = 1 /\ pc = "idle" /\ geo = <<>> /\ file = "none" /\ viol = {} /\ devs = {} /\ obs = {}
  /\ stat = [inputs |-> 0, roundtrips |-> 0, fields |-> 0, unlisted_fields |-> 0, unlisted_changed |-> 0,
             rays |-> 0, ray_items |-> 0, segments |-> 0, deviations |-> 0, errors |-> 0, bytes |-> 0]

\* one RT record = Write ; Read with the concrete projections as witnesses
TRT ==
  /\ pc = "idle" /\ Rec.e = "RT"
  /\ geo' = Rec.before /\ file' = "none"          \* (the abstract Write/Read pair leaves both unchanged)
  /\ LET d == FieldDiffs(Rec.before, Rec.after, MaxNotes)
         ud == DiffIdx(Rec.unl_before, Rec.unl_after)
     IN /\ viol' = viol \cup {<<x[1], Rec.name, x[2], x[3], x[4]>> : x \in d}
                        \cup (IF IsFunction(Rec.before) THEN {} ELSE {<<"C19.ProjectionIsFunction", Rec.name, "", "", "">>})
        /\ obs' = obs \cup (IF ud = {} THEN {}
                            ELSE LET i == CHOOSE k \in ud : \A j \in ud : k <= j
                                 IN {<<"unlisted field not preserved", Rec.kind, Rec.unl_before[i][1]>>})
        /\ stat' = [stat EXCEPT !.inputs = @ + 1, !.roundtrips = @ + 1, !.fields = @ + Len(Rec.before),
                                !.unlisted_fields = @ + Len(Rec.unl_before),
                                !.unlisted_changed = @ + Cardinality(ud) + (IF Len(Rec.unl_before) # Len(Rec.unl_after) THEN 1 ELSE 0),
                                !.bytes = @ + Rec.bytes]
  /\ pc' = "nav" /\ UNCHANGED devs

TNav ==
  /\ pc = "nav" /\ Rec.e = "Nav"
  /\ LET bad == {r \in 1..MinLen(Rec.a, Rec.b) : Rec.a[r] # Rec.b[r]}
         items == LET S[r \in 0..Len(Rec.a)] == IF r = 0 THEN 0 ELSE S[r - 1] + Len(Rec.a[r]) IN S[Len(Rec.a)]
     IN /\ viol' = viol
              \cup (IF Rec.err # "" THEN {<<"C19.RoundTripCompletes", Rec.name, "OrangeParams", Rec.err, "">>} ELSE {})
              \cup (IF Len(Rec.a) # Len(Rec.b) THEN {<<"C19.NavigationEqual", Rec.name, "ray count", "", "">>} ELSE {})
              \cup (IF bad = {} THEN {}
                    ELSE LET r == CHOOSE k \in bad : \A j \in bad : k <= j
                         IN {<<"C19.NavigationEqual", Rec.name, "ray", ToString(r), ToString(Cardinality(bad))>>})
        /\ stat' = [stat EXCEPT !.rays = @ + Len(Rec.a), !.ray_items = @ + items, !.segments = @ + Rec.segments]
  /\ pc' = "idle" /\ UNCHANGED <<geo, file, devs, obs>>

TDeviation ==
  /\ pc = "idle" /\ Rec.e = "Deviation"
  /\ Rec.child # "ok"                       \* the reader, tried in a child process, crashed or threw
  /\ devs' = devs \cup {<<Rec.dev, Rec.name, Rec.stage \o ": reader in child process -> " \o Rec.child>>}
  /\ stat' = [stat EXCEPT !.inputs = @ + 1, !.deviations = @ + 1]
  /\ UNCHANGED <<pc, geo, file, viol, obs>>

TError ==
  /\ pc = "idle" /\ Rec.e = "Error"
  /\ viol' = viol \cup {<<"C19.RoundTripCompletes", Rec.name, Rec.kind, Rec.msg, "">>}
  /\ stat' = [stat EXCEPT !.inputs = @ + 1, !.errors = @ + 1]
  /\ UNCHANGED <<pc, geo, file, devs, obs>>

TClose ==
  /\ pc = "idle" /\ Rec.e = "Close" /\ l = N
  /\ UNCHANGED <<pc, geo, file, viol, devs, obs, stat>>

TNext ==
  /\ l <= N /\ l' = l + 1
  /\ \/ TRT \/ TNav \/ TDeviation \/ TError \/ TClose
TSpec == TInit /\ [][TNext]_tvars

Accepted ==
  LET d == TLCGet("stats").diameter IN
  IF d - 1 = N /\ TraceLog[N].e = "Close" THEN TRUE
  ELSE /\ PrintT(<<"REJECTED", d, TraceLog[IF d <= N THEN d ELSE N].e>>)
       /\ FALSE
Report == (l = N + 1) => PrintT(<<"SUMMARY", ToJson([viol |-> viol, devs |-> devs, obs |-> obs, stat |-> stat])>>)
=============================================================================
