------------------------------- MODULE Sampler -------------------------------
(* C15  Random samplers respect their support and target distributions.

   What this module decides (DESIGN.md section 5, C15):
   (1) EXACT reference semantics, on dyadic canonical uniforms, of the samplers whose
       result is an exact function of the uniform: Selector, BernoulliDistribution,
       RejectionSampler, UniformRealDistribution / UniformBoxDistribution,
       DeltaDistribution, the z component of IsotropicDistribution; the direction of
       monotonicity of the inverse-CDF samplers (exponential, reciprocal, inverse square,
       radial) as statements on order-preserving ranks; the Box-Muller spare-value state
       machine of NormalDistribution (which call consumes uniforms, which value a call
       returns, what move/copy/assignment do to the spare).
   (2) support predicates per distribution on ranks (the harness supplies the ranks of
       the extreme samples and of the documented brackets).
   (3) draw bounds (canonical uniforms consumed per sample).
   (4) the multinomial goodness-of-fit acceptance on INTEGER bin counts:
       sum (O_i - E_i)^2 / E_i <= critical value, evaluated with scaled integers.
   Oracle-decided (NOT decided here): the expected counts E_i, the bin edges and the
   critical value -- inputs computed with scipy from the documented laws.

   A canonical uniform is represented as U = <<h, j>> meaning  h/D + j*2^-53  with D = 8:
   the dyadic grid {0, 1/8, .., 7/8} plus the immediate 2^-53 neighbours (and 1 - 2^-53),
   all of which are exactly representable 53-bit canonical values.  Every comparison below
   is an exact integer comparison.                                                      *)
EXTENDS Integers, Sequences, FiniteSets, SequencesExt

D == 8
JMax == 1
IsU(u) == /\ u[1] \in 0..D /\ u[2] \in (-JMax)..JMax
          /\ (u[1] = 0 => u[2] >= 0) /\ (u[1] = D => u[2] < 0)
AllU == {u \in (0..D) \X ((-JMax)..JMax) : IsU(u)}
GridU == {<<h, 0>> : h \in 0..(D - 1)}
ULess(u, v) == u[1] < v[1] \/ (u[1] = v[1] /\ u[2] < v[2])
ULeq(u, v) == u = v \/ ULess(u, v)
Sgn(x) == IF x > 0 THEN 1 ELSE IF x < 0 THEN -1 ELSE 0
Lo2(a, b) == IF a < b THEN a ELSE b
Hi2(a, b) == IF a < b THEN b ELSE a
SumSeq(s) == FoldLeft(LAMBDA a, b : a + b, 0, s)

\* sign of (c - t*u) for integers c, t >= 0 and u = <<h, j>>: the 2^-53 part only decides ties
CmpCU(c, t, u) ==
  LET d == c * D - t * u[1] IN
  IF d # 0 THEN Sgn(d) ELSE IF t = 0 THEN 0 ELSE -Sgn(u[2])

\* ------------------------------------------------------------------ Selector
(* "first i with cumulative weight > u*total"; the last element is returned without being
   evaluated when none of the first n-1 qualifies (documented: never off the end, even for
   an inconsistent total).  1-based here, the code's index is this minus one. *)
Cum(w, i) == SumSeq(SubSeq(w, 1, i))
SelectorRef(w, total, u) ==
  LET n == Len(w)
      C == {i \in 1..(n - 1) : CmpCU(Cum(w, i), total, u) > 0}
  IN IF C = {} THEN n ELSE CHOOSE i \in C : \A k \in C : i <= k

\* ------------------------------------------------- Bernoulli, RejectionSampler
BernoulliRef(pn, pd, u) == CmpCU(pn, pd, u) > 0          \* u < pn/pd
RejectRef(f, fmax, u) == CmpCU(f, fmax, u) < 0           \* f < fmax*u  (TRUE = try again)

\* --------------------------------------------- UniformReal / UniformBox / Delta
UniformNum(a, b, u) == a * D + (b - a) * u[1]            \* D * (a + u (b - a)) for j = 0

\* ----------------------------------------------------- inverse-CDF directions
\* +1: non-decreasing in u, -1: non-increasing in u, 0: constant
MonoDir(k, p) ==
  CASE k = "uni" -> Sgn(p[2] - p[1])
    [] k = "exp" -> -1                                   \* -log(u)/lambda
    [] k = "recip" -> Sgn(p[2] - p[1])                   \* a (b/a)^u, bounds may be reversed
    [] k = "recip1" -> Sgn(p[1] - p[2])                  \* (num/den)^u : 1 -> num/den
    [] k = "invsq" -> -Sgn(p[2] - p[1])                  \* ab / (a + u (b - a))
    [] k = "radial" -> 1                                 \* R cbrt(u)
(* x values (ranks; us ascending) are monotone in the stated direction: across different grid
   classes h always; inside one 2^-53 cluster only for the samplers that are compositions of
   correctly rounded operations (fma, division) -- libm's log / exp / cbrt are not guaranteed
   monotone in the last bit (glibc cbrt(3/8 - 2^-53) > cbrt(3/8)).  fin[i]: x[i] is finite. *)
ClusterExact(k) == k \in {"uni", "invsq"}
MonoPairsOK(k, dir, us, xs, fin) ==
  \A i, m \in DOMAIN us :
     (i < m /\ fin[i] /\ fin[m] /\ (us[i][1] < us[m][1] \/ ClusterExact(k))) =>
        CASE dir = 1 -> xs[i] <= xs[m]
          [] dir = -1 -> xs[i] >= xs[m]
          [] OTHER -> xs[i] = xs[m]
\* grid classes two or more apart give different values (no collapse of the map)
InjectiveAcrossH(dir, us, xs, fin) ==
  \A i, m \in DOMAIN us : (dir # 0 /\ fin[i] /\ fin[m] /\ us[i][1] + 1 < us[m][1]) => xs[i] # xs[m]

\* --------------------------------------------------------- support predicates
(* Supports are intervals, so "every sample is inside" is equivalent to a statement on the
   smallest and largest sample.  All arguments are ranks (or small integers).  Closedness:
   documented half-open [a, b) for uniform / box / reciprocal (bounds in order); closed where
   the documented formula itself attains the bound (inverse square: x(0) = b; radial;
   reversed reciprocal; cos theta; energy fractions); EnergyLossGaussian: (0, 2 mean].      *)
HiOpen(dist) == dist \in {"uniform", "box", "reciprocal", "selector"}
LoOpen(dist) == dist \in {"elgauss"}
InSupport(loopen, hiopen, vmin, vmax, lo, hi, haslo, hashi) ==
  /\ haslo => (IF loopen THEN lo < vmin ELSE lo <= vmin)
  /\ hashi => (IF hiopen /\ lo # hi THEN vmax < hi ELSE vmax <= hi)

\* ------------------------------------------------------------------ draw bounds
\* canonical uniforms per sample; Fixed: exact count; otherwise [min, cap] with the cap an
\* oracle-decided input for rejection loops (from the analytic acceptance probability)
FixedDraws == [uniform |-> 1, exponential |-> 1, reciprocal |-> 1, invsq |-> 1, radial |-> 1,
               isotropic |-> 2, box |-> 3, bernoulli |-> 1, rejection |-> 1, selector |-> 1,
               delta |-> 0]
MinDraws == [normal |-> 0, poisson |-> 0, gamma |-> 1, tsai |-> 3, elgauss |-> 0, elgamma |-> 1,
             urban |-> 0, moller |-> 2, bhabha |-> 2]
DrawsOK(dist, dmin, dmax, dcap) ==
  IF dist \in DOMAIN FixedDraws THEN dmin = FixedDraws[dist] /\ dmax = FixedDraws[dist]
  ELSE dist \in DOMAIN MinDraws /\ dmin >= MinDraws[dist] /\ dmax <= dcap

\* ------------------------------------------------------ goodness of fit (integers)
(* obs[i]: observed count; es[i] = ceil(16 * E_i) (oracle input); critq = floor(8 * critical
   value) (oracle input).  Each bin contributes a LOWER bound of 8 d^2/E in integers
   (floor, and the divisor rounded up), so acceptance never fails when the real-valued
   statistic is within the critical value; the loss is < 1/8 per bin.  32-bit safe:
   d <= 46340 (else the bin alone exceeds any critical value for E <= 10^7), remainders
   times 128 stay below 2^31 for es < 2^24, sums saturate.                               *)
ES == 16
CQ == 8
Big == 268435456                      \* 2^28
(* dd <= |O - E|:  with E' = es/16 in [E, E + 1/16):  O >= E' gives O - E >= O - E';
   O < E' (then O < E, both being 16ths apart) gives E - O > E' - O - 1/16.              *)
Contribution(o, es) ==
  LET x == o * ES - es
      dd == IF x >= 0 THEN x \div ES ELSE (-x - 1) \div ES
  IN IF dd > 46340 THEN Big
     ELSE LET sq == dd * dd
              a == sq \div es
              r == sq % es
          IN IF a > 1000000 THEN Big ELSE a * (ES * CQ) + (r * (ES * CQ)) \div es
ChiSqLower(obs, es) ==
  FoldLeft(LAMBDA acc, i : IF acc >= Big THEN Big ELSE acc + Contribution(obs[i], es[i]),
           0, [i \in DOMAIN obs |-> i])
\* expected counts >= 50 (chi-square approximation) and inside the 32-bit-safe range
BinsAdequate(es, critq) ==
  /\ \A i \in DOMAIN es : es[i] = 0 \/ (es[i] >= 50 * ES /\ es[i] < 16777216)
  /\ critq > 0 /\ critq < 2000 * CQ
ZeroMassEmpty(obs, es) == \A i \in DOMAIN obs : es[i] = 0 => obs[i] = 0
GoFAccept(obs, es, critq) ==
  LET live == SelectSeq([i \in DOMAIN obs |-> i], LAMBDA i : es[i] > 0)
  IN ChiSqLower([k \in DOMAIN live |-> obs[live[k]]], [k \in DOMAIN live |-> es[live[k]]]) <= critq

\* ------------------------------------------------- NormalDistribution state machine
(* Two instances A and B.  has*: a spare is stored; tok*: index of the fresh sample whose
   cosine partner is stored; par*: which parameter set (1 = A's constructor arguments,
   2 = B's) the instance currently carries; f: number of fresh (uniform-consuming) samples.
   Documented semantics (NormalDistribution.hh):
     sample      spare present -> return it (0 uniforms) and forget it; else draw 2 uniforms,
                 return the sine partner, store the cosine partner
     ccB  B(A)            copy construction: parameters only, no spare  [does not compile in
                          the code under test, so it is in the design model only]
     mcB  B(std::move(A)) move construction: takes the spare, resets A's
     caA  A = B           copy assignment: keep own spare, take parameters
     maB  B = move(A)     move assignment: take parameters; take A's spare iff B has none
   ResetOnUse = FALSE models the mutant "spare returned twice".                          *)
NInit == [hasA |-> FALSE, hasB |-> FALSE, tokA |-> 0, tokB |-> 0, parA |-> 1, parB |-> 2, f |-> 0]
SampleOps == {"sA", "sB"}
RunOps == {"sA", "sB", "mcB", "caA", "maB"}
NoOut == [d |-> -1, f |-> 0, comp |-> "none", par |-> 0]
NStep(st, op, ResetOnUse) ==
  CASE op = "sA" ->
         IF st.hasA THEN [st |-> [st EXCEPT !.hasA = ~ResetOnUse],
                          out |-> [d |-> 0, f |-> st.tokA, comp |-> "cos", par |-> st.parA]]
         ELSE [st |-> [st EXCEPT !.hasA = TRUE, !.tokA = st.f + 1, !.f = st.f + 1],
               out |-> [d |-> 2, f |-> st.f + 1, comp |-> "sin", par |-> st.parA]]
    [] op = "sB" ->
         IF st.hasB THEN [st |-> [st EXCEPT !.hasB = ~ResetOnUse],
                          out |-> [d |-> 0, f |-> st.tokB, comp |-> "cos", par |-> st.parB]]
         ELSE [st |-> [st EXCEPT !.hasB = TRUE, !.tokB = st.f + 1, !.f = st.f + 1],
               out |-> [d |-> 2, f |-> st.f + 1, comp |-> "sin", par |-> st.parB]]
    [] op = "ccB" -> [st |-> [st EXCEPT !.hasB = FALSE, !.parB = st.parA], out |-> NoOut]
    [] op = "mcB" -> [st |-> [st EXCEPT !.hasB = st.hasA, !.tokB = st.tokA, !.parB = st.parA,
                                        !.hasA = FALSE], out |-> NoOut]
    [] op = "caA" -> [st |-> [st EXCEPT !.parA = st.parB], out |-> NoOut]
    [] op = "maB" -> [st |-> IF ~st.hasB /\ st.hasA
                             THEN [st EXCEPT !.parB = st.parA, !.hasB = TRUE, !.tokB = st.tokA,
                                             !.hasA = FALSE]
                             ELSE [st EXCEPT !.parB = st.parA], out |-> NoOut]
\* outputs of the sample operations of an op sequence, in order
NRun(ops, ResetOnUse) ==
  FoldLeft(LAMBDA acc, op :
             LET r == NStep(acc.st, op, ResetOnUse) IN
             [st |-> r.st, outs |-> IF op \in SampleOps THEN Append(acc.outs, r.out) ELSE acc.outs],
           [st |-> NInit, outs |-> <<>>], ops)
\* Box-Muller quadrant: sign of sin / cos of 2 pi h/8 for odd h (off the axes)
SinSign(h) == IF h \in {1, 3} THEN 1 ELSE IF h \in {5, 7} THEN -1 ELSE 0
CosSign(h) == IF h \in {1, 7} THEN 1 ELSE IF h \in {3, 5} THEN -1 ELSE 0
=============================================================================
