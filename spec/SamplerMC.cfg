SPECIFICATION Spec
CONSTANTS
  MaxOps = 5
  ResetOnUse = TRUE
INVARIANTS
  InvSelector
  InvBernoulli
  InvReject
  InvUniform
  InvScripts
  NoSpareReuse
  DrawsAccount
  Alternation
  CopyCarriesNoSpare
  Replayable
POSTCONDITION Emit
CHECK_DEADLOCK FALSE
