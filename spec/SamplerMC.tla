------------------------------ MODULE SamplerMC ------------------------------
(* Design check for Sampler.tla (no code involved) and generator of the abstract scripts
   that harness/vsample.cc runs through the real samplers with a scripted engine.

   Every STATIC case (one per initial state) is a sampler kind + small integer parameters;
   the invariants check the algebra of the reference semantics over ALL dyadic uniforms:
     Selector   the selected index is the unique i with cum(i-1) <= u*total < cum(i), has
                positive weight, is monotone in u, and on the grid {h/8} the cells have
                exactly the widths w_i/total (a partition of [0,1) into consecutive
                half-open intervals); an inconsistent total still yields a valid index
     Bernoulli  #{grid u : true} = p*8, monotone, and RejectionSampler(f,fmax) is its
                complement except exactly on the boundary u*fmax = f
     Rejection  acceptance count on the grid = floor(8 f/fmax) + 1 (capped)
     Uniform    affine, inside [a,b), strictly monotone on the grid; box = per axis
   The NORMAL machine is explored as a real state machine over every operation sequence of
   length <= MaxOps: spares are never returned twice, uniforms consumed = 2 * fresh samples,
   consecutive samples of one instance alternate 2,0, copy construction carries no spare.
   With ResetOnUse = FALSE (SamplerMC_mut.cfg) NoSpareReuse must FAIL (vacuity guard).

   POSTCONDITION Emit writes all scripts (static cases + every runnable op sequence) as
   ndjson to IOEnv.OUT.                                                                   *)
EXTENDS Sampler, TLC, Json, IOUtils
CONSTANTS MaxOps, ResetOnUse

VARIABLES cs,     \* the case: [k, p, w, us, ops] (all sequences; ops = history for "normal")
          ns,     \* normal machine state
          outs    \* normal machine: outputs of the sample ops so far
vars == <<cs, ns, outs>>

Case(k, p, w, us, ops) == [k |-> k, p |-> p, w |-> w, us |-> us, ops |-> ops]
USeq == SetToSortSeq(AllU, ULess)                     \* all 24 uniforms, ascending
OddH == {1, 3, 5, 7}

\* ------------------------------------------------------------------ static cases
Weights == UNION {[1..n -> 0..3] : n \in 1..3}
SelCases == {Case("sel", <<SumSeq(w) + x>>, w, USeq, <<>>) :
               w \in {v \in Weights : SumSeq(v) > 0}, x \in {0, 1}}
Dens == {1, 2, 3, 4, 8}
BernCases == {Case("bern", <<c[1], c[2], c[3]>>, <<>>, USeq, <<>>) :
                c \in {t \in (0..8) \X Dens \X {0, 1} : t[1] <= t[2]}}
RejCases == {Case("rej", <<c[1], c[2]>>, <<>>, USeq, <<>>) :
               c \in {t \in (0..8) \X Dens : t[1] <= t[2]}}
UniCases == {Case("uni", <<c[1], c[2]>>, <<>>, USeq, <<>>) :
               c \in {t \in (-2..2) \X (-2..3) : t[1] <= t[2]}}
BoxCases == {Case("box", b, <<>>, t, <<>>) :
               b \in {<<0, 0, 0, 1, 1, 1>>, <<-2, -1, 0, 2, 3, 0>>, <<1, 1, 1, 1, 2, 3>>},
               t \in {<<<<0, 0>>, <<4, 0>>, <<8, -1>>>>, <<<<3, 1>>, <<0, 1>>, <<7, 0>>>>,
                      <<<<8, -1>>, <<8, -1>>, <<8, -1>>>>, <<<<1, 0>>, <<2, 0>>, <<5, -1>>>>}}
DeltaCases == {Case("delta", <<v>>, <<>>, <<>>, <<>>) : v \in {-3, 0, 7}}
MonoCases ==
     {Case("exp", c, <<>>, USeq, <<>>) : c \in {<<1, 2>>, <<1, 1>>, <<2, 1>>, <<3, 1>>}}
  \cup {Case("recip", c, <<>>, USeq, <<>>) : c \in {<<1, 2>>, <<2, 8>>, <<8, 2>>, <<3, 3>>, <<1, 1>>}}
  \cup {Case("recip1", c, <<>>, USeq, <<>>) : c \in {<<1, 2>>, <<1, 8>>, <<3, 1>>}}
  \cup {Case("invsq", c, <<>>, USeq, <<>>) : c \in {<<1, 2>>, <<2, 8>>, <<3, 3>>}}
  \cup {Case("radial", c, <<>>, USeq, <<>>) : c \in {<<1>>, <<5>>}}
IsoCases == {Case("iso", <<>>, <<>>, <<u, <<h, 0>>>>, <<>>) : u \in AllU, h \in OddH \cup {0}}
\* Gaussian branch of Poisson: angle 3/4 (sine = -1) with radius uniform 2^-53 (the largest
\* radius a canonical uniform can produce) and a benign pair; two samples from one object
PoisGCases == {Case("poisg", <<lam>>, <<>>, t, <<>>) :
                 lam \in {17, 20, 64, 100, 1000},
                 t \in {<<<<6, 0>>, <<0, 1>>, <<2, 0>>, <<4, 0>>>>, <<<<2, 0>>, <<4, 0>>, <<6, 0>>, <<4, 0>>>>}}
\* direct branch: the result is (number of uniforms consumed) - 1
PoisDCases == {Case("poisd", <<lam>>, <<>>, [i \in 1..130 |-> <<h, 0>>], <<>>) :
                 lam \in {1, 4, 16}, h \in {1, 4, 7}}
\* radius uniform exactly 0 (log(0)): two samples from one normal instance
NormZCases == {Case("normz", <<0, 1, 10, 2>>, <<>>, <<<<h, 0>>, <<0, 0>>>>, <<"sA", "sA">>) : h \in {0, 1, 2}}
StaticCases == NormZCases \cup SelCases \cup BernCases \cup RejCases \cup UniCases \cup BoxCases \cup DeltaCases
               \cup MonoCases \cup IsoCases \cup PoisGCases \cup PoisDCases

\* ---------------------------------------------------------------- normal scripts
\* uniforms supplied to a normal script: fresh sample f gets angle (2f-1 mod 8)/8, radius 1/2
NormalUs == [i \in 1..(2 * MaxOps) |-> IF i % 2 = 1 THEN <<(i % 8), 0>> ELSE <<4, 0>>]
NormalPar == <<0, 1, 10, 2>>                          \* A = N(0,1), B = N(10,2)
OpSeqs == UNION {[1..n -> RunOps] : n \in 1..MaxOps}
NormalCases == {Case("normal", NormalPar, <<>>, NormalUs, s) : s \in OpSeqs}
ModelOps == RunOps \cup {"ccB"}

Init == /\ cs \in StaticCases \cup {Case("normal", NormalPar, <<>>, NormalUs, <<>>)}
        /\ ns = NInit /\ outs = <<>>
Next == /\ cs.k = "normal" /\ Len(cs.ops) < MaxOps
        /\ \E op \in ModelOps :
             LET r == NStep(ns, op, ResetOnUse) IN
             /\ cs' = [cs EXCEPT !.ops = Append(@, op)]
             /\ ns' = r.st
             /\ outs' = IF op \in SampleOps THEN Append(outs, r.out) ELSE outs
Spec == Init /\ [][Next]_vars

\* ------------------------------------------------------------------ invariants
InvSelector ==
  cs.k = "sel" =>
    LET w == cs.w  total == cs.p[1]  n == Len(w)
        Sel(u) == SelectorRef(w, total, u)
        consistent == total = SumSeq(w)
    IN /\ \A u \in AllU :
            LET i == Sel(u) IN
            /\ i \in 1..n
            /\ consistent => /\ w[i] > 0
                             /\ CmpCU(Cum(w, i - 1), total, u) <= 0
                             /\ CmpCU(Cum(w, i), total, u) > 0
                             /\ \A k \in 1..n : (CmpCU(Cum(w, k - 1), total, u) <= 0
                                                 /\ CmpCU(Cum(w, k), total, u) > 0) => k = i
            /\ ~consistent => (i = n <=> \A k \in 1..(n - 1) : CmpCU(Cum(w, k), total, u) <= 0)
       /\ \A u, v \in AllU : ULeq(u, v) => Sel(u) <= Sel(v)
       /\ (consistent /\ D % total = 0) =>
             \A i \in 1..n : Cardinality({u \in GridU : Sel(u) = i}) = w[i] * (D \div total)
InvBernoulli ==
  cs.k = "bern" =>
    LET pn == cs.p[1]  pd == cs.p[2] IN
    /\ ((pn * D) % pd = 0) => Cardinality({u \in GridU : BernoulliRef(pn, pd, u)}) = (pn * D) \div pd
    /\ \A u, v \in AllU : (ULeq(u, v) /\ BernoulliRef(pn, pd, v)) => BernoulliRef(pn, pd, u)
    /\ \A u \in AllU : /\ RejectRef(pn, pd, u) => ~BernoulliRef(pn, pd, u)
                       /\ (~RejectRef(pn, pd, u) /\ ~BernoulliRef(pn, pd, u)) => CmpCU(pn, pd, u) = 0
    /\ (pn = 0 => \A u \in AllU : ~BernoulliRef(pn, pd, u))
    /\ (pn = pd => \A u \in AllU : BernoulliRef(pn, pd, u))
InvReject ==
  cs.k = "rej" =>
    LET f == cs.p[1]  fmax == cs.p[2] IN
    /\ Cardinality({u \in GridU : ~RejectRef(f, fmax, u)}) = Lo2(D, (f * D) \div fmax + 1)
    /\ \A u, v \in AllU : (ULeq(u, v) /\ RejectRef(f, fmax, u)) => RejectRef(f, fmax, v)
    /\ (f = fmax => \A u \in AllU : ~RejectRef(f, fmax, u))      \* f = fmax always accepts
InvUniform ==
  cs.k = "uni" =>
    LET a == cs.p[1]  b == cs.p[2] IN
    /\ \A u \in GridU : UniformNum(a, b, u) >= a * D /\ (a < b => UniformNum(a, b, u) < b * D)
    /\ \A u, v \in GridU : (a < b /\ ULess(u, v)) => UniformNum(a, b, u) < UniformNum(a, b, v)
    /\ UniformNum(a, b, <<0, 0>>) = a * D
    /\ MonoDir("uni", cs.p) = Sgn(b - a)
InvScripts ==                       \* every script is well-formed
  /\ \A i \in DOMAIN cs.us : IsU(cs.us[i])
  /\ cs.k \in {"sel", "bern", "rej", "uni", "exp", "recip", "recip1", "invsq", "radial"} =>
        \A i \in 1..(Len(cs.us) - 1) : ULess(cs.us[i], cs.us[i + 1])
  /\ Cardinality(AllU) = 24 /\ Len(USeq) = 24

\* normal machine
Returned == {<<outs[i].f, outs[i].comp>> : i \in DOMAIN outs}
NoSpareReuse == cs.k = "normal" => Cardinality(Returned) = Len(outs)
DrawsAccount ==
  cs.k = "normal" =>
    /\ SumSeq([i \in DOMAIN outs |-> outs[i].d]) = 2 * ns.f
    /\ Len(outs) <= 2 * ns.f
    /\ \A i \in DOMAIN outs : (outs[i].comp = "cos") => \E k \in 1..(i - 1) :
                                  outs[k].comp = "sin" /\ outs[k].f = outs[i].f
    /\ (ns.hasA => ns.tokA \in 1..ns.f) /\ (ns.hasB => ns.tokB \in 1..ns.f)
    /\ (ns.hasA /\ ns.hasB) => ns.tokA # ns.tokB
Alternation ==
  (cs.k = "normal" /\ Len(cs.ops) >= 2) =>
    LET n == Len(cs.ops) IN
    (cs.ops[n] \in SampleOps /\ cs.ops[n - 1] = cs.ops[n]) =>
        {outs[Len(outs)].d, outs[Len(outs) - 1].d} = {0, 2}
CopyCarriesNoSpare ==
  (cs.k = "normal" /\ Len(cs.ops) >= 1 /\ cs.ops[Len(cs.ops)] = "ccB") => ~ns.hasB
Replayable == (cs.k = "normal" /\ cs.ops # <<>> /\ (\A i \in DOMAIN cs.ops : cs.ops[i] \in RunOps)) =>
                 /\ cs \in NormalCases
                 /\ NRun(cs.ops, ResetOnUse).outs = outs

Emit ==
  LET all == SetToSeq(StaticCases) \o SetToSeq(NormalCases)
  IN /\ TLCGet("stats").diameter >= 0          \* (keeps TLC from folding Emit into a constant)
     /\ ndJsonSerialize(IOEnv.OUT, all)
     /\ PrintT(<<"SCRIPTS", Len(all), "static", Cardinality(StaticCases), "normal", Cardinality(NormalCases)>>)
=============================================================================
