SPECIFICATION Spec
CONSTANTS
  MaxOps = 3
  ResetOnUse = FALSE
INVARIANTS
  NoSpareReuse
CHECK_DEADLOCK FALSE
