------------------------------- MODULE Solids -------------------------------
(* C09: the MEANING of the solids offered by celeritas' ORANGE construction API
   (orangeinp: Shape/Solid/PolyCone/PolyPrism/Transformed/AnyObjects/AllObjects/
   NegatedObject/make_subtraction/make_rdv, UnitProto with materials, daughters,
   background and boundary), written from the documented definitions of the shapes --
   NOT from the surface lists the implementation emits -- as exact integer arithmetic
   on a lattice vocabulary, so that TLC decides point membership.

   Points.  A point is a homogeneous integer 4-tuple <<X, Y, Z, D>>, D > 0, standing
   for (X/D, Y/D, Z/D).  Probe points are lattice points (D = 1); D grows (by 5) only
   under the inverse of a Pythagorean (3-4-5) rotation and is reduced when possible.
   Every defining inequality f(p) < 0 of degree k is evaluated as the integer
   F(P) = D^k f(P/D) < 0.  TLC integers are 32-bit and TLC *raises an error* on
   overflow (never wraps), so an out-of-range scene breaks the check, never passes it.

   Objects (JSON records, field k = kind).  All parameters are integers.
     box h=<<hx,hy,hz>> | sphere r | cyl r hh | cone rlo rhi hh | ell r=<<a,b,c>>
     prism4 a hh (regular 4-prism, orientation 0) | trd hh lo=<<x,y>> hi=<<x,y>>
     genprism hh lo=<<<<x,y>>..>> hi=<<..>> | wedge s w (quarter turns, w in 1..2)
     solid out inn(optional) ea=<<s,w>> (w in 1..3; <<>> = full turn)
     polycone / polyprism4  z=<<..>> ro=<<..>> ri=<<..>> or <<>>  ea
     any c=<<objs>> | all c=<<objs>> | not c=obj | sub a b | rdv c=<< <<"in"|"out",obj>> .. >>
     tf t=[m, den, t] c=obj         (parent = (m/den) local + t)

   Near-surface.  A probe is compared only if it is farther than the construction
   tolerance from every surface of every object of every unit it is located in.  This
   is decided exactly: each defining polynomial comes with an integer bound
   B >= D^k sup |grad f|_1 over the unit ball around the point, hence
   dist(p, {f = 0}) >= |F| / B, and  dist <= 1/TolInv  implies  |F| <= B \div TolInv.
   TolInv is a scene parameter: 1/TolInv >= margin x (largest effective soft-equality
   tolerance rel*max(1,|coordinate|) in the scene). *)
EXTENDS Integers, Sequences, FiniteSets

Abs(x) == IF x < 0 THEN -x ELSE x
Sq(x) == x * x
N1(v) == Abs(v[1]) + Abs(v[2])                     \* l1 norm of a 2-vector
Cross2(a, b) == a[1] * b[2] - a[2] * b[1]
Has(o, f) == f \in DOMAIN o

---------------------------------------------------------------------------
(* Transforms: parent = (m/den) local + t with m an integer matrix, m m^T = den^2 I
   (signed permutations: den = 1; Pythagorean rotations: den = 5). *)
Mat3Id == <<<<1, 0, 0>>, <<0, 1, 0>>, <<0, 0, 1>>>>
MulT(m, q) == \* m^T q
  <<m[1][1] * q[1] + m[2][1] * q[2] + m[3][1] * q[3],
    m[1][2] * q[1] + m[2][2] * q[2] + m[3][2] * q[3],
    m[1][3] * q[1] + m[2][3] * q[2] + m[3][3] * q[3]>>
Mul(m, q) == \* m q
  <<m[1][1] * q[1] + m[1][2] * q[2] + m[1][3] * q[3],
    m[2][1] * q[1] + m[2][2] * q[2] + m[2][3] * q[3],
    m[3][1] * q[1] + m[3][2] * q[2] + m[3][3] * q[3]>>
Reduce(P, g) == \* divide a homogeneous point by g when g divides every component
  IF g > 1 /\ P[1] % g = 0 /\ P[2] % g = 0 /\ P[3] % g = 0 /\ P[4] % g = 0
  THEN <<P[1] \div g, P[2] \div g, P[3] \div g, P[4] \div g>> ELSE P
\* local point of a parent point: (m^T/den)(p - t)
InvApply(tf, P) ==
  LET D == P[4]
      q == MulT(tf.m, <<P[1] - D * tf.t[1], P[2] - D * tf.t[2], P[3] - D * tf.t[3]>>)
  IN Reduce(<<q[1], q[2], q[3], D * tf.den>>, tf.den)
\* parent point of a local point: (m/den) q + t
Apply(tf, P) ==
  LET D == P[4]
      q == Mul(tf.m, <<P[1], P[2], P[3]>>)
  IN Reduce(<<q[1] + tf.den * D * tf.t[1], q[2] + tf.den * D * tf.t[2],
              q[3] + tf.den * D * tf.t[3], D * tf.den>>, tf.den)

---------------------------------------------------------------------------
(* Defining polynomials of the convex primitives: Polys = sequence of integers F, the
   point is inside iff every F < 0; Bnds = the aligned gradient bounds B. *)
AllNeg(fs) == \A i \in DOMAIN fs : fs[i] < 0
NearAny(fs, bs, tolinv) == \E i \in DOMAIN fs : Abs(fs[i]) <= bs[i] \div tolinv
SlabP(c, hD) == <<c - hD, -c - hD>>                 \* |c| < hD
SlabB(D) == <<D, D>>

U4(k) == LET j == k % 4 IN
         IF j = 0 THEN <<1, 0>> ELSE IF j = 1 THEN <<0, 1>> ELSE IF j = 2 THEN <<-1, 0>> ELSE <<0, -1>>
\* azimuth strictly between s and s+w quarter turns (w in 1..2): the two bounding half-planes
WedgeP(s, w, P) == LET xy == <<P[1], P[2]>> IN
  IF w = 1 THEN <<-Cross2(U4(s), xy), Cross2(U4(s + 1), xy)>> ELSE <<-Cross2(U4(s), xy)>>
WedgeB(s, w, P) == IF w = 1 THEN <<P[4], P[4]>> ELSE <<P[4]>>

\* cone frustum between planes za < zb with radii ra, rb (not both 0): side polynomial
ConeL(za, zb, ra, rb, P) == ra * (zb * P[4] - P[3]) + rb * (P[3] - za * P[4])
ConeF(za, zb, ra, rb, P) == Sq(zb - za) * (Sq(P[1]) + Sq(P[2])) - Sq(ConeL(za, zb, ra, rb, P))
ConeB(za, zb, ra, rb, P) ==
  LET D == P[4] dl == Abs(rb - ra) IN
  2 * Sq(zb - za) * D * (Abs(P[1]) + Abs(P[2]) + 2 * D)
    + 2 * (Abs(ConeL(za, zb, ra, rb, P)) + dl * D) * dl * D

\* generalised prism: vertices lo (at -hh) and hi (at +hh), same winding
Area2(poly) == LET n == Len(poly)
                   S[i \in 0..n] == IF i = 0 THEN 0
                                    ELSE S[i - 1] + Cross2(poly[i], poly[(i % n) + 1])
               IN S[n]
Winding(o) == LET a == Area2(o.lo) IN
              IF a # 0 THEN (IF a > 0 THEN 1 ELSE -1)
              ELSE (IF Area2(o.hi) > 0 THEN 1 ELSE -1)
GPv(o, i, P) == \* 2 hh D x (vertex i of the cross-section at the point's z)
  LET a == o.hh * P[4] - P[3]  b == o.hh * P[4] + P[3] IN
  <<o.lo[i][1] * a + o.hi[i][1] * b, o.lo[i][2] * a + o.hi[i][2] * b>>
GPcross(o, i, P) == \* Winding x this > 0 iff the point is on the inner side of side i -> i+1
  LET j == (i % Len(o.lo)) + 1
      vi == GPv(o, i, P)  vj == GPv(o, j, P)
      e == <<vj[1] - vi[1], vj[2] - vi[2]>>
      w == <<2 * o.hh * P[1] - vi[1], 2 * o.hh * P[2] - vi[2]>>
  IN Cross2(e, w)
GPbound(o, i, P) ==
  LET D == P[4]
      j == (i % Len(o.lo)) + 1
      vi == GPv(o, i, P)  vj == GPv(o, j, P)
      e == <<vj[1] - vi[1], vj[2] - vi[2]>>
      w == <<2 * o.hh * P[1] - vi[1], 2 * o.hh * P[2] - vi[2]>>
      dv == <<o.hi[i][1] - o.lo[i][1], o.hi[i][2] - o.lo[i][2]>>
      de == <<(o.hi[j][1] - o.lo[j][1]) - dv[1], (o.hi[j][2] - o.lo[j][2]) - dv[2]>>
      ne == N1(e) + D * N1(de)
  IN 2 * o.hh * D * ne + N1(de) * D * (N1(w) + D * (4 * o.hh + N1(dv))) + ne * D * N1(dv)
TrdPoly(o) == [k |-> "genprism", hh |-> o.hh,
               lo |-> <<<<o.lo[1], -o.lo[2]>>, <<o.lo[1], o.lo[2]>>, <<-o.lo[1], o.lo[2]>>, <<-o.lo[1], -o.lo[2]>>>>,
               hi |-> <<<<o.hi[1], -o.hi[2]>>, <<o.hi[1], o.hi[2]>>, <<-o.hi[1], o.hi[2]>>, <<-o.hi[1], -o.hi[2]>>>>]

(* Membership of the convex primitives, stated directly (the second, polynomial form
   `Polys` below is what the near-surface predicate uses; SolidsMC checks that the two
   formulations agree: PrimIn(o, P) = AllNeg(Polys(o, P))). *)
PrimIn(o, P) ==
  LET X == P[1]  Y == P[2]  Z == P[3]  D == P[4] IN
  CASE o.k = "box" -> Abs(X) < o.h[1] * D /\ Abs(Y) < o.h[2] * D /\ Abs(Z) < o.h[3] * D
    [] o.k = "sphere" -> Sq(X) + Sq(Y) + Sq(Z) < Sq(o.r * D)
    [] o.k = "cyl" -> Abs(Z) < o.hh * D /\ Sq(X) + Sq(Y) < Sq(o.r * D)
    [] o.k = "cone" -> \* radius at height z interpolates linearly between rlo (-hh) and rhi (+hh)
         /\ Abs(Z) < o.hh * D
         /\ Sq(2 * o.hh) * (Sq(X) + Sq(Y)) < Sq(o.rlo * (o.hh * D - Z) + o.rhi * (o.hh * D + Z))
    [] o.k = "ell" -> Sq(o.r[2] * o.r[3]) * Sq(X) + Sq(o.r[1] * o.r[3]) * Sq(Y)
                        + Sq(o.r[1] * o.r[2]) * Sq(Z) < Sq(o.r[1] * o.r[2] * o.r[3] * D)
    [] o.k = "prism4" -> Abs(X) < o.a * D /\ Abs(Y) < o.a * D /\ Abs(Z) < o.hh * D
    [] o.k = "trd" -> \* half-widths interpolate linearly between lo (-hh) and hi (+hh)
         /\ Abs(Z) < o.hh * D
         /\ 2 * o.hh * Abs(X) < o.lo[1] * (o.hh * D - Z) + o.hi[1] * (o.hh * D + Z)
         /\ 2 * o.hh * Abs(Y) < o.lo[2] * (o.hh * D - Z) + o.hi[2] * (o.hh * D + Z)
    [] o.k = "genprism" -> \* inside the polygon whose vertices interpolate linearly in z
         /\ Abs(Z) < o.hh * D
         /\ LET w == Winding(o) IN \A i \in 1..Len(o.lo) : w * GPcross(o, i, P) > 0
    [] o.k = "wedge" -> AllNeg(WedgeP(o.s, o.w, P))

Polys(o, P) ==
  LET X == P[1]  Y == P[2]  Z == P[3]  D == P[4] IN
  CASE o.k = "box" -> SlabP(X, o.h[1] * D) \o SlabP(Y, o.h[2] * D) \o SlabP(Z, o.h[3] * D)
    [] o.k = "sphere" -> <<Sq(X) + Sq(Y) + Sq(Z) - Sq(o.r) * Sq(D)>>
    [] o.k = "cyl" -> <<Sq(X) + Sq(Y) - Sq(o.r) * Sq(D)>> \o SlabP(Z, o.hh * D)
    [] o.k = "cone" -> <<ConeF(-o.hh, o.hh, o.rlo, o.rhi, P)>> \o SlabP(Z, o.hh * D)
    [] o.k = "ell" -> <<Sq(o.r[2] * o.r[3]) * Sq(X) + Sq(o.r[1] * o.r[3]) * Sq(Y)
                         + Sq(o.r[1] * o.r[2]) * Sq(Z) - Sq(o.r[1] * o.r[2] * o.r[3]) * Sq(D)>>
    [] o.k = "prism4" -> SlabP(X, o.a * D) \o SlabP(Y, o.a * D) \o SlabP(Z, o.hh * D)
    [] o.k = "trd" -> LET g == TrdPoly(o) w == Winding(g) IN
                      [i \in 1..4 |-> -w * GPcross(g, i, P)] \o SlabP(Z, o.hh * D)
    [] o.k = "genprism" -> LET w == Winding(o) IN
                           [i \in 1..Len(o.lo) |-> -w * GPcross(o, i, P)] \o SlabP(Z, o.hh * D)
    [] o.k = "wedge" -> WedgeP(o.s, o.w, P)

Bnds(o, P) ==
  LET X == P[1]  Y == P[2]  Z == P[3]  D == P[4] IN
  CASE o.k = "box" -> SlabB(D) \o SlabB(D) \o SlabB(D)
    [] o.k = "sphere" -> <<2 * D * (Abs(X) + Abs(Y) + Abs(Z)) + 6 * Sq(D)>>
    [] o.k = "cyl" -> <<2 * D * (Abs(X) + Abs(Y)) + 4 * Sq(D)>> \o SlabB(D)
    [] o.k = "cone" -> <<ConeB(-o.hh, o.hh, o.rlo, o.rhi, P)>> \o SlabB(D)
    [] o.k = "ell" -> <<2 * D * (Sq(o.r[2] * o.r[3]) * (Abs(X) + D) + Sq(o.r[1] * o.r[3]) * (Abs(Y) + D)
                                 + Sq(o.r[1] * o.r[2]) * (Abs(Z) + D))>>
    [] o.k = "prism4" -> SlabB(D) \o SlabB(D) \o SlabB(D)
    [] o.k = "trd" -> LET g == TrdPoly(o) IN [i \in 1..4 |-> GPbound(g, i, P)] \o SlabB(D)
    [] o.k = "genprism" -> [i \in 1..Len(o.lo) |-> GPbound(o, i, P)] \o SlabB(D)
    [] o.k = "wedge" -> WedgeB(o.s, o.w, P)

PrimNear(o, P, tolinv) == NearAny(Polys(o, P), Bnds(o, P), tolinv)

---------------------------------------------------------------------------
(* Enclosed angle <<s, w>>: azimuth in (s, s+w) quarter turns; w = 3 is the complement of
   the closed quarter wedge starting at s+3; <<>> is the full turn. *)
EaIn(ea, P) ==
  IF ea = <<>> THEN TRUE
  ELSE IF ea[2] <= 2 THEN AllNeg(WedgeP(ea[1], ea[2], P))
  ELSE ~AllNeg(WedgeP(ea[1] + 3, 1, P))
EaNear(ea, P, tolinv) ==
  IF ea = <<>> THEN FALSE
  ELSE IF ea[2] <= 2 THEN NearAny(WedgeP(ea[1], ea[2], P), WedgeB(ea[1], ea[2], P), tolinv)
  ELSE NearAny(WedgeP(ea[1] + 3, 1, P), WedgeB(ea[1] + 3, 1, P), tolinv)

\* stacked segments: those with z[i] < z[i+1] (zero-height entries only step the radius)
Segs(o) == {i \in 1..(Len(o.z) - 1) : o.z[i] < o.z[i + 1]}
HasInner(o) == o.ri # <<>>
InZ(o, i, P) == o.z[i] * P[4] < P[3] /\ P[3] < o.z[i + 1] * P[4]
PolyConeIn(o, P) ==
  /\ \E i \in Segs(o) :
        /\ InZ(o, i, P)
        /\ ConeF(o.z[i], o.z[i + 1], o.ro[i], o.ro[i + 1], P) < 0
        /\ HasInner(o) => ~(ConeF(o.z[i], o.z[i + 1], o.ri[i], o.ri[i + 1], P) < 0)
  /\ EaIn(o.ea, P)
PolyConeNear(o, P, tolinv) ==
  \/ \E i \in Segs(o) :
        \/ NearAny(<<P[3] - o.z[i] * P[4], P[3] - o.z[i + 1] * P[4]>>, <<P[4], P[4]>>, tolinv)
        \/ NearAny(<<ConeF(o.z[i], o.z[i + 1], o.ro[i], o.ro[i + 1], P)>>,
                   <<ConeB(o.z[i], o.z[i + 1], o.ro[i], o.ro[i + 1], P)>>, tolinv)
        \/ HasInner(o) /\ NearAny(<<ConeF(o.z[i], o.z[i + 1], o.ri[i], o.ri[i + 1], P)>>,
                                  <<ConeB(o.z[i], o.z[i + 1], o.ri[i], o.ri[i + 1], P)>>, tolinv)
  \/ EaNear(o.ea, P, tolinv)
\* stacked regular 4-prisms: each nondegenerate segment has equal apothems at both ends
PolyPrismIn(o, P) ==
  /\ \E i \in Segs(o) :
        /\ InZ(o, i, P)
        /\ Abs(P[1]) < o.ro[i] * P[4] /\ Abs(P[2]) < o.ro[i] * P[4]
        /\ HasInner(o) => ~(Abs(P[1]) < o.ri[i] * P[4] /\ Abs(P[2]) < o.ri[i] * P[4])
  /\ EaIn(o.ea, P)
PolyPrismNear(o, P, tolinv) ==
  \/ \E i \in Segs(o) :
        LET D == P[4] IN
        \/ NearAny(<<P[3] - o.z[i] * D, P[3] - o.z[i + 1] * D>>, <<D, D>>, tolinv)
        \/ NearAny(SlabP(P[1], o.ro[i] * D) \o SlabP(P[2], o.ro[i] * D), <<D, D, D, D>>, tolinv)
        \/ HasInner(o) /\ NearAny(SlabP(P[1], o.ri[i] * D) \o SlabP(P[2], o.ri[i] * D), <<D, D, D, D>>, tolinv)
  \/ EaNear(o.ea, P, tolinv)

---------------------------------------------------------------------------
(* Membership of an object tree and the exact near-surface predicate.  `env` gives the
   value of the unit's shared placed objects at the point ({"k":"ref","i":j} = the j-th
   entry of the unit's `objs`; users share one object between several region definitions
   in exactly this way): envIn[j] / envNear[j]. *)
RECURSIVE InSolidE(_, _, _)
InSolidE(o, P, env) ==
  CASE o.k = "tf" -> InSolidE(o.c, InvApply(o.t, P), env)
    [] o.k = "ref" -> env[o.i]
    [] o.k = "rdv" -> \A i \in DOMAIN o.c : (o.c[i][1] = "in") = InSolidE(o.c[i][2], P, env)
    [] o.k = "all" -> \A i \in DOMAIN o.c : InSolidE(o.c[i], P, env)
    [] o.k = "any" -> \E i \in DOMAIN o.c : InSolidE(o.c[i], P, env)
    [] o.k = "not" -> ~InSolidE(o.c, P, env)
    [] o.k = "sub" -> InSolidE(o.a, P, env) /\ ~InSolidE(o.b, P, env)
    [] o.k = "solid" -> /\ PrimIn(o.out, P)
                        /\ Has(o, "inn") => ~PrimIn(o.inn, P)
                        /\ EaIn(o.ea, P)
    [] o.k = "polycone" -> PolyConeIn(o, P)
    [] o.k = "polyprism4" -> PolyPrismIn(o, P)
    [] OTHER -> PrimIn(o, P)
InSolid(o, P) == InSolidE(o, P, <<>>)

RECURSIVE NearE(_, _, _, _)
NearE(o, P, tolinv, env) ==
  CASE o.k = "tf" -> NearE(o.c, InvApply(o.t, P), tolinv, env)
    [] o.k = "ref" -> env[o.i]
    [] o.k = "rdv" -> \E i \in DOMAIN o.c : NearE(o.c[i][2], P, tolinv, env)
    [] o.k \in {"any", "all"} -> \E i \in DOMAIN o.c : NearE(o.c[i], P, tolinv, env)
    [] o.k = "not" -> NearE(o.c, P, tolinv, env)
    [] o.k = "sub" -> NearE(o.a, P, tolinv, env) \/ NearE(o.b, P, tolinv, env)
    [] o.k = "solid" -> \/ PrimNear(o.out, P, tolinv)
                        \/ Has(o, "inn") /\ PrimNear(o.inn, P, tolinv)
                        \/ EaNear(o.ea, P, tolinv)
    [] o.k = "polycone" -> PolyConeNear(o, P, tolinv)
    [] o.k = "polyprism4" -> PolyPrismNear(o, P, tolinv)
    [] OTHER -> PrimNear(o, P, tolinv)
OnOrNearSurface(o, P, tolinv) == NearE(o, P, tolinv, <<>>)

---------------------------------------------------------------------------
(* Units.  A scene is [units |-> <<u0, u1, ...>>, tolinv |-> n, ...]; u0 is the global
   unit.  unit = [name, boundary (object), bg (label or ""), objs <<shared placed objects>>,
   daughters <<[unit (0-based index), tf]>>, materials <<[label, obj]>>].

   Meaning (UnitProto.hh): a unit's boundary bounds it; a *daughter* is another unit,
   transformed and placed -- it claims the image of ITS boundary; a *material* claims its
   object; the *background* is everything inside the boundary claimed by nobody; the
   *exterior* of the global unit is everything outside its boundary.  A daughter unit is
   implicitly truncated by its parent's placement (its own exterior is unreachable).
   All claims have the same masking priority (z-order `media`: the construction API
   rejects any other), so a point claimed twice makes the INPUT invalid there: such
   probes are classified "?overlap", and a point claimed by nobody in a unit without
   background "?nowhere"; both are excluded from comparison and counted.
   Reported names: the runtime reports a volume's label with the unit's name as
   extension, "label@unit" (materials and background carry the labels given in the
   scene; the exterior is "[EXTERIOR]@unit"). *)
DaughterInterior(sc, d) == [k |-> "tf", t |-> d.tf, c |-> sc.units[d.unit + 1].boundary]
EnvIn(u, P) == [j \in DOMAIN u.objs |-> InSolid(u.objs[j], P)]
EnvNear(u, P, tolinv) == [j \in DOMAIN u.objs |-> OnOrNearSurface(u.objs[j], P, tolinv)]

RECURSIVE ExpectedVolume(_, _, _, _)
ExpectedVolume(sc, ui, P, global) ==
  LET u == sc.units[ui + 1]
      env == EnvIn(u, P)
      ext == global /\ ~InSolidE(u.boundary, P, env)
      ds == {i \in DOMAIN u.daughters : InSolid(DaughterInterior(sc, u.daughters[i]), P)}
      ms == {i \in DOMAIN u.materials : InSolidE(u.materials[i].obj, P, env)}
      n == (IF ext THEN 1 ELSE 0) + Cardinality(ds) + Cardinality(ms)
  IN IF n > 1 THEN "?overlap"
     ELSE IF ext THEN "[EXTERIOR]@" \o u.name
     ELSE IF ds # {} THEN LET d == u.daughters[CHOOSE i \in ds : TRUE]
                          IN ExpectedVolume(sc, d.unit, InvApply(d.tf, P), FALSE)
     ELSE IF ms # {} THEN u.materials[CHOOSE i \in ms : TRUE].label \o "@" \o u.name
     ELSE IF u.bg # "" THEN u.bg \o "@" \o u.name
     ELSE "?nowhere"

\* near a surface of any object of any unit on the point's path
RECURSIVE NearInScene(_, _, _)
NearInScene(sc, ui, P) ==
  LET u == sc.units[ui + 1]
      env == EnvNear(u, P, sc.tolinv)
      ds == {i \in DOMAIN u.daughters : InSolid(DaughterInterior(sc, u.daughters[i]), P)}
  IN \/ \E j \in DOMAIN env : env[j]
     \/ NearE(u.boundary, P, sc.tolinv, env)
     \/ \E i \in DOMAIN u.daughters : OnOrNearSurface(DaughterInterior(sc, u.daughters[i]), P, sc.tolinv)
     \/ \E i \in DOMAIN u.materials : NearE(u.materials[i].obj, P, sc.tolinv, env)
     \/ \E i \in ds : NearInScene(sc, u.daughters[i].unit, InvApply(u.daughters[i].tf, P))
=============================================================================
