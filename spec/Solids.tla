------------------------------- MODULE Solids -------------------------------
(* C09: the MEANING of the solids offered by celeritas' ORANGE construction API
   (orangeinp: Shape/Solid/PolyCone/PolyPrism/Transformed/AnyObjects/AllObjects/
   NegatedObject/make_subtraction/make_rdv, UnitProto with materials, daughters,
   background and boundary), written from the documented definitions of the shapes --
   NOT from the surface lists the implementation emits -- as exact integer arithmetic
   on a lattice vocabulary, so that TLC decides point membership.

   Points.  A point is a homogeneous integer 4-tuple <<X, Y, Z, D>>, D > 0, standing
   for (X/D, Y/D, Z/D).  Probe points are half-lattice points (D = 2); D grows (by 5)
   only under the inverse of a Pythagorean (3-4-5) rotation and is reduced when possible.
   Every defining inequality f(p) < 0 of degree k is evaluated as the integer
   F(P) = D^k f(P/D) < 0.  TLC integers are 32-bit and TLC *raises an error* on
   overflow (never wraps), so an out-of-range scene breaks the check, never passes it.

   Objects (JSON records, field k = kind).  All parameters are integers.
     box h=<<hx,hy,hz>> | sphere r | cyl r hh | cone rlo rhi hh | ell r=<<a,b,c>>
     prism4 a hh (regular 4-prism, orientation 0) | trd hh lo=<<x,y>> hi=<<x,y>>
     genprism hh lo=<<<<x,y>>..>> hi=<<..>> | wedge s w (quarter turns, w in 1..2)
     solid out inn(optional) ea=<<s,w>> (w in 1..3; <<>> = full turn)
     polycone / polyprism4  z=<<..>> ro=<<..>> ri=<<..>> or <<>>  ea
     any c=<<objs>> | all c=<<objs>> | not c=obj | sub a b | rdv c=<< <<"in"|"out",obj>> .. >>
     tf t=[m, den, t] c=obj         (parent = (m/den) local + t)
     ref i                          (the i-th shared placed object of the enclosing unit)

   Near-surface.  A probe is compared only if it is farther than the construction
   tolerance from every surface of every object of every unit it is located in.  This
   is decided exactly.  Let R bound every coordinate magnitude met while locating a probe
   (scene parameter `scale`; a point outside the bound counts as near).  Each defining
   polynomial f of degree k comes with an integer B(o, D) >= D^k sup |grad f|_1 over
   |x|_inf <= R + 1, hence dist(p, {f = 0}) >= |F| / B, and dist <= 1/tolinv implies
   |F| <= B \div tolinv.  `tolinv` is a scene parameter: 1/tolinv >= margin x (largest
   effective soft-equality tolerance rel*max(1,|coordinate|) of the scene). *)
EXTENDS Integers, Sequences, FiniteSets

Abs(x) == IF x < 0 THEN -x ELSE x
Sq(x) == x * x
N1(v) == Abs(v[1]) + Abs(v[2])                     \* l1 norm of a 2-vector
Cross2(a, b) == a[1] * b[2] - a[2] * b[1]
Has(o, f) == f \in DOMAIN o

---------------------------------------------------------------------------
(* Transforms: parent = (m/den) local + t with m an integer matrix, m m^T = den^2 I
   (signed permutations: den = 1; Pythagorean rotations: den = 5). *)
MulT(m, q) == \* m^T q
  <<m[1][1] * q[1] + m[2][1] * q[2] + m[3][1] * q[3],
    m[1][2] * q[1] + m[2][2] * q[2] + m[3][2] * q[3],
    m[1][3] * q[1] + m[2][3] * q[2] + m[3][3] * q[3]>>
Mul(m, q) == \* m q
  <<m[1][1] * q[1] + m[1][2] * q[2] + m[1][3] * q[3],
    m[2][1] * q[1] + m[2][2] * q[2] + m[2][3] * q[3],
    m[3][1] * q[1] + m[3][2] * q[2] + m[3][3] * q[3]>>
Reduce(P, g) == \* divide a homogeneous point by g when g divides every component
  IF g > 1 /\ P[1] % g = 0 /\ P[2] % g = 0 /\ P[3] % g = 0 /\ P[4] % g = 0
  THEN <<P[1] \div g, P[2] \div g, P[3] \div g, P[4] \div g>> ELSE P
\* local point of a parent point: (m^T/den)(p - t)
InvApply(tf, P) ==
  LET D == P[4]
      q == MulT(tf.m, <<P[1] - D * tf.t[1], P[2] - D * tf.t[2], P[3] - D * tf.t[3]>>)
  IN Reduce(<<q[1], q[2], q[3], D * tf.den>>, tf.den)
\* parent point of a local point: (m/den) q + t
Apply(tf, P) ==
  LET D == P[4]
      q == Mul(tf.m, <<P[1], P[2], P[3]>>)
  IN Reduce(<<q[1] + tf.den * D * tf.t[1], q[2] + tf.den * D * tf.t[2],
              q[3] + tf.den * D * tf.t[3], D * tf.den>>, tf.den)

---------------------------------------------------------------------------
(* Building blocks *)
U4(k) == LET j == k % 4 IN
         IF j = 0 THEN <<1, 0>> ELSE IF j = 1 THEN <<0, 1>> ELSE IF j = 2 THEN <<-1, 0>> ELSE <<0, -1>>
\* azimuth strictly between s and s+w quarter turns (w in 1..2): bounded by the half-plane
\* counterclockwise of direction U4(s) and (w = 1) the one clockwise of U4(s+1)
WedgeA(s, P) == Cross2(U4(s), <<P[1], P[2]>>)       \* > 0: counterclockwise of U4(s)
WedgeIn(s, w, P) == WedgeA(s, P) > 0 /\ (w = 1 => WedgeA(s + 1, P) < 0)
WedgeNear(s, w, P, k) == Abs(WedgeA(s, P)) <= k \/ (w = 1 /\ Abs(WedgeA(s + 1, P)) <= k)

\* cone frustum between planes za < zb with radii ra, rb (not both 0):
\* the radius interpolates linearly; (zb - za) rho < ra (zb - z) + rb (z - za), squared
ConeL(za, zb, ra, rb, P) == ra * (zb * P[4] - P[3]) + rb * (P[3] - za * P[4])
ConeF(za, zb, ra, rb, P) == Sq(zb - za) * (Sq(P[1]) + Sq(P[2])) - Sq(ConeL(za, zb, ra, rb, P))
ConeB(za, zb, ra, rb, D, R) ==
  LET dl == Abs(rb - ra)
      lmax == ra * (Abs(zb) + R + 1) + rb * (Abs(za) + R + 1)
  IN 2 * Sq(zb - za) * Sq(D) * 2 * (R + 1) + 2 * lmax * dl * Sq(D)

\* generalised prism: vertices lo (at -hh) and hi (at +hh), same winding
Area2(poly) == LET n == Len(poly)
                   S[i \in 0..n] == IF i = 0 THEN 0
                                    ELSE S[i - 1] + Cross2(poly[i], poly[(i % n) + 1])
               IN S[n]
Winding(o) == LET a == Area2(o.lo) IN
              IF a # 0 THEN (IF a > 0 THEN 1 ELSE -1)
              ELSE (IF Area2(o.hi) > 0 THEN 1 ELSE -1)
GPv(o, i, P) == \* 2 hh D x (vertex i of the cross-section at the point's z)
  LET a == o.hh * P[4] - P[3]  b == o.hh * P[4] + P[3] IN
  <<o.lo[i][1] * a + o.hi[i][1] * b, o.lo[i][2] * a + o.hi[i][2] * b>>
GPcross(o, i, P) == \* Winding x this > 0 iff the point is on the inner side of side i -> i+1
  LET j == (i % Len(o.lo)) + 1
      vi == GPv(o, i, P)  vj == GPv(o, j, P)
  IN Cross2(<<vj[1] - vi[1], vj[2] - vi[2]>>, <<2 * o.hh * P[1] - vi[1], 2 * o.hh * P[2] - vi[2]>>)
\* f = cross(e(z), w(x,y,z)), e = v_j - v_i, w = 2hh p - v_i, v_k(z) = lo_k (hh - z) + hi_k (hh + z):
\* |grad f|_1 <= 2hh |e|_1 + |e'|_1 |w|_1 + |e|_1 |v_i'|_1
GPB(o, D, R) ==
  LET n == Len(o.lo)
      m[k \in 0..n] == IF k = 0 THEN 0 ELSE
                       LET c == N1(o.lo[k]) + N1(o.hi[k]) IN IF c > m[k - 1] THEN c ELSE m[k - 1]
      M == m[n]                               \* |v_k'|_1 <= M, |v_k|_1 <= (hh + R + 1) M
      V == (o.hh + R + 1) * M
  IN Sq(D) * (2 * o.hh * 2 * V + 2 * M * (4 * o.hh * (R + 1) + V) + 2 * V * M)
TrdPoly(o) == [k |-> "genprism", hh |-> o.hh,
               lo |-> <<<<o.lo[1], -o.lo[2]>>, <<o.lo[1], o.lo[2]>>, <<-o.lo[1], o.lo[2]>>, <<-o.lo[1], -o.lo[2]>>>>,
               hi |-> <<<<o.hi[1], -o.hi[2]>>, <<o.hi[1], o.hi[2]>>, <<-o.hi[1], o.hi[2]>>, <<-o.hi[1], -o.hi[2]>>>>]

NearSlab(c, hD, k) == Abs(c - hD) <= k \/ Abs(c + hD) <= k
InRange(P, R) == Abs(P[1]) <= R * P[4] /\ Abs(P[2]) <= R * P[4] /\ Abs(P[3]) <= R * P[4]

---------------------------------------------------------------------------
(* Membership of the convex primitives, from their definitions *)
EllF(o, P) == Sq(o.r[2] * o.r[3]) * Sq(P[1]) + Sq(o.r[1] * o.r[3]) * Sq(P[2])
                + Sq(o.r[1] * o.r[2]) * Sq(P[3]) - Sq(o.r[1] * o.r[2] * o.r[3] * P[4])
PrimIn(o, P) ==
  LET X == P[1]  Y == P[2]  Z == P[3]  D == P[4] IN
  CASE o.k = "box" -> Abs(X) < o.h[1] * D /\ Abs(Y) < o.h[2] * D /\ Abs(Z) < o.h[3] * D
    [] o.k = "sphere" -> Sq(X) + Sq(Y) + Sq(Z) < Sq(o.r * D)
    [] o.k = "cyl" -> Abs(Z) < o.hh * D /\ Sq(X) + Sq(Y) < Sq(o.r * D)
    [] o.k = "cone" -> Abs(Z) < o.hh * D /\ ConeF(-o.hh, o.hh, o.rlo, o.rhi, P) < 0
    [] o.k = "ell" -> EllF(o, P) < 0
    [] o.k = "prism4" -> Abs(X) < o.a * D /\ Abs(Y) < o.a * D /\ Abs(Z) < o.hh * D
    [] o.k = "trd" -> \* half-widths interpolate linearly between lo (-hh) and hi (+hh)
         /\ Abs(Z) < o.hh * D
         /\ 2 * o.hh * Abs(X) < o.lo[1] * (o.hh * D - Z) + o.hi[1] * (o.hh * D + Z)
         /\ 2 * o.hh * Abs(Y) < o.lo[2] * (o.hh * D - Z) + o.hi[2] * (o.hh * D + Z)
    [] o.k = "genprism" -> \* inside the polygon whose vertices interpolate linearly in z
         /\ Abs(Z) < o.hh * D
         /\ LET w == Winding(o) IN \A i \in 1..Len(o.lo) : w * GPcross(o, i, P) > 0
    [] o.k = "wedge" -> WedgeIn(o.s, o.w, P)

\* on or within 1/tolinv of one of the primitive's defining surfaces (extended to all of space)
PrimNear(o, P, par) ==
  LET X == P[1]  Y == P[2]  Z == P[3]  D == P[4]  R == par.scale
      k1 == D \div par.tolinv                       \* planes with unit normal
  IN
  CASE o.k = "box" -> NearSlab(X, o.h[1] * D, k1) \/ NearSlab(Y, o.h[2] * D, k1) \/ NearSlab(Z, o.h[3] * D, k1)
    [] o.k = "sphere" -> Abs(Sq(X) + Sq(Y) + Sq(Z) - Sq(o.r * D)) <= (6 * Sq(D) * (R + 1)) \div par.tolinv
    [] o.k = "cyl" -> \/ NearSlab(Z, o.hh * D, k1)
                      \/ Abs(Sq(X) + Sq(Y) - Sq(o.r * D)) <= (4 * Sq(D) * (R + 1)) \div par.tolinv
    [] o.k = "cone" -> \/ NearSlab(Z, o.hh * D, k1)
                       \/ Abs(ConeF(-o.hh, o.hh, o.rlo, o.rhi, P))
                            <= ConeB(-o.hh, o.hh, o.rlo, o.rhi, D, R) \div par.tolinv
    [] o.k = "ell" -> Abs(EllF(o, P)) <= (2 * Sq(D) * (R + 1) * (Sq(o.r[2] * o.r[3]) + Sq(o.r[1] * o.r[3])
                                                              + Sq(o.r[1] * o.r[2]))) \div par.tolinv
    [] o.k = "prism4" -> NearSlab(X, o.a * D, k1) \/ NearSlab(Y, o.a * D, k1) \/ NearSlab(Z, o.hh * D, k1)
    [] o.k = "trd" -> LET g == TrdPoly(o)  kk == GPB(g, D, R) \div par.tolinv IN
                      NearSlab(Z, o.hh * D, k1) \/ \E i \in 1..4 : Abs(GPcross(g, i, P)) <= kk
    [] o.k = "genprism" -> LET kk == GPB(o, D, R) \div par.tolinv IN
                      NearSlab(Z, o.hh * D, k1) \/ \E i \in 1..Len(o.lo) : Abs(GPcross(o, i, P)) <= kk
    [] o.k = "wedge" -> WedgeNear(o.s, o.w, P, k1)

---------------------------------------------------------------------------
(* Enclosed angle <<s, w>>: azimuth in (s, s+w) quarter turns; w = 3 is the complement of
   the closed quarter wedge starting at s+3; <<>> is the full turn. *)
EaIn(ea, P) ==
  IF ea = <<>> THEN TRUE
  ELSE IF ea[2] <= 2 THEN WedgeIn(ea[1], ea[2], P)
  ELSE ~WedgeIn(ea[1] + 3, 1, P)
EaNear(ea, P, par) ==
  IF ea = <<>> THEN FALSE
  ELSE IF ea[2] <= 2 THEN WedgeNear(ea[1], ea[2], P, P[4] \div par.tolinv)
  ELSE WedgeNear(ea[1] + 3, 1, P, P[4] \div par.tolinv)

\* stacked segments: those with z[i] < z[i+1] (zero-height entries only step the radius)
Segs(o) == {i \in 1..(Len(o.z) - 1) : o.z[i] < o.z[i + 1]}
HasInner(o) == o.ri # <<>>
InZ(o, i, P) == o.z[i] * P[4] < P[3] /\ P[3] < o.z[i + 1] * P[4]
PolyConeIn(o, P) ==
  /\ \E i \in Segs(o) :
        /\ InZ(o, i, P)
        /\ ConeF(o.z[i], o.z[i + 1], o.ro[i], o.ro[i + 1], P) < 0
        /\ HasInner(o) => ~(ConeF(o.z[i], o.z[i + 1], o.ri[i], o.ri[i + 1], P) < 0)
  /\ EaIn(o.ea, P)
PolyConeNear(o, P, par) ==
  LET D == P[4]  R == par.scale  k1 == D \div par.tolinv IN
  \/ \E i \in Segs(o) :
        \/ Abs(P[3] - o.z[i] * D) <= k1 \/ Abs(P[3] - o.z[i + 1] * D) <= k1
        \/ Abs(ConeF(o.z[i], o.z[i + 1], o.ro[i], o.ro[i + 1], P))
             <= ConeB(o.z[i], o.z[i + 1], o.ro[i], o.ro[i + 1], D, R) \div par.tolinv
        \/ HasInner(o) /\ Abs(ConeF(o.z[i], o.z[i + 1], o.ri[i], o.ri[i + 1], P))
                            <= ConeB(o.z[i], o.z[i + 1], o.ri[i], o.ri[i + 1], D, R) \div par.tolinv
  \/ EaNear(o.ea, P, par)
\* stacked regular 4-prisms: each nondegenerate segment has equal apothems at both ends
PolyPrismIn(o, P) ==
  /\ \E i \in Segs(o) :
        /\ InZ(o, i, P)
        /\ Abs(P[1]) < o.ro[i] * P[4] /\ Abs(P[2]) < o.ro[i] * P[4]
        /\ HasInner(o) => ~(Abs(P[1]) < o.ri[i] * P[4] /\ Abs(P[2]) < o.ri[i] * P[4])
  /\ EaIn(o.ea, P)
PolyPrismNear(o, P, par) ==
  LET D == P[4]  k1 == D \div par.tolinv IN
  \/ \E i \in Segs(o) :
        \/ Abs(P[3] - o.z[i] * D) <= k1 \/ Abs(P[3] - o.z[i + 1] * D) <= k1
        \/ NearSlab(P[1], o.ro[i] * D, k1) \/ NearSlab(P[2], o.ro[i] * D, k1)
        \/ HasInner(o) /\ (NearSlab(P[1], o.ri[i] * D, k1) \/ NearSlab(P[2], o.ri[i] * D, k1))
  \/ EaNear(o.ea, P, par)

---------------------------------------------------------------------------
(* Membership of an object tree and the exact near-surface predicate.  `env` gives the
   value of the unit's shared placed objects at the point ({"k":"ref","i":j} = the j-th
   entry of the unit's `objs`; users share one object between several region definitions
   in exactly this way). *)
RECURSIVE InSolidE(_, _, _)
InSolidE(o, P, env) ==
  CASE o.k = "tf" -> InSolidE(o.c, InvApply(o.t, P), env)
    [] o.k = "ref" -> env[o.i]
    [] o.k = "rdv" -> \A i \in DOMAIN o.c : (o.c[i][1] = "in") = InSolidE(o.c[i][2], P, env)
    [] o.k = "all" -> \A i \in DOMAIN o.c : InSolidE(o.c[i], P, env)
    [] o.k = "any" -> \E i \in DOMAIN o.c : InSolidE(o.c[i], P, env)
    [] o.k = "not" -> ~InSolidE(o.c, P, env)
    [] o.k = "sub" -> InSolidE(o.a, P, env) /\ ~InSolidE(o.b, P, env)
    [] o.k = "solid" -> /\ PrimIn(o.out, P)
                        /\ Has(o, "inn") => ~PrimIn(o.inn, P)
                        /\ EaIn(o.ea, P)
    [] o.k = "polycone" -> PolyConeIn(o, P)
    [] o.k = "polyprism4" -> PolyPrismIn(o, P)
    [] OTHER -> PrimIn(o, P)
InSolid(o, P) == InSolidE(o, P, <<>>)

\* par = [tolinv |-> n, scale |-> R]
RECURSIVE NearE(_, _, _, _)
NearE(o, P, par, env) ==
  CASE o.k = "tf" -> NearE(o.c, InvApply(o.t, P), par, env)
    [] o.k = "ref" -> env[o.i]
    [] o.k = "rdv" -> \E i \in DOMAIN o.c : NearE(o.c[i][2], P, par, env)
    [] o.k \in {"any", "all"} -> \E i \in DOMAIN o.c : NearE(o.c[i], P, par, env)
    [] o.k = "not" -> NearE(o.c, P, par, env)
    [] o.k = "sub" -> NearE(o.a, P, par, env) \/ NearE(o.b, P, par, env)
    [] OTHER -> \/ ~InRange(P, par.scale)
                \/ CASE o.k = "solid" -> \/ PrimNear(o.out, P, par)
                                         \/ Has(o, "inn") /\ PrimNear(o.inn, P, par)
                                         \/ EaNear(o.ea, P, par)
                     [] o.k = "polycone" -> PolyConeNear(o, P, par)
                     [] o.k = "polyprism4" -> PolyPrismNear(o, P, par)
                     [] OTHER -> PrimNear(o, P, par)
OnOrNearSurface(o, P, par) == NearE(o, P, par, <<>>)

---------------------------------------------------------------------------
(* Units.  A scene is [units |-> <<u0, u1, ...>>, tolinv |-> n, scale |-> R, ...]; u0 is
   the global unit.  unit = [name, boundary (object), bg (label or ""), objs <<shared placed
   objects>>, daughters <<[unit (0-based index), tf]>>, materials <<[label, obj]>>].

   Meaning (UnitProto.hh): a unit's boundary bounds it; a *daughter* is another unit,
   transformed and placed -- it claims the image of ITS boundary; a *material* claims its
   object; the *background* is everything inside the boundary claimed by nobody; the
   *exterior* of the global unit is everything outside its boundary.  A daughter unit is
   implicitly truncated by its parent's placement (its own exterior is unreachable).
   All claims have the same masking priority (z-order `media`: the construction API
   rejects any other), so a point claimed twice makes the INPUT invalid there: such
   probes are classified "?overlap", and a point claimed by nobody in a unit without
   background "?nowhere"; both are excluded from comparison and counted.
   Reported names: the runtime reports a volume's label with the unit's name as
   extension, "label@unit" (materials and background carry the labels given in the
   scene; the exterior is "[EXTERIOR]@unit"). *)
DaughterInterior(sc, d) == [k |-> "tf", t |-> d.tf, c |-> sc.units[d.unit + 1].boundary]
Par(sc) == [tolinv |-> sc.tolinv, scale |-> sc.scale]
EnvIn(u, P) == [j \in DOMAIN u.objs |-> InSolid(u.objs[j], P)]
EnvNear(u, P, par) == [j \in DOMAIN u.objs |-> OnOrNearSurface(u.objs[j], P, par)]

RECURSIVE ExpectedVolume(_, _, _, _)
ExpectedVolume(sc, ui, P, global) ==
  LET u == sc.units[ui + 1]
      env == EnvIn(u, P)
      ext == global /\ ~InSolidE(u.boundary, P, env)
      ds == {i \in DOMAIN u.daughters : InSolid(DaughterInterior(sc, u.daughters[i]), P)}
      ms == {i \in DOMAIN u.materials : InSolidE(u.materials[i].obj, P, env)}
      n == (IF ext THEN 1 ELSE 0) + Cardinality(ds) + Cardinality(ms)
  IN IF n > 1 THEN "?overlap"
     ELSE IF ext THEN "[EXTERIOR]@" \o u.name
     ELSE IF ds # {} THEN LET d == u.daughters[CHOOSE i \in ds : TRUE]
                          IN ExpectedVolume(sc, d.unit, InvApply(d.tf, P), FALSE)
     ELSE IF ms # {} THEN u.materials[CHOOSE i \in ms : TRUE].label \o "@" \o u.name
     ELSE IF u.bg # "" THEN u.bg \o "@" \o u.name
     ELSE "?nowhere"

\* near a surface of any object of any unit on the point's path
RECURSIVE NearInScene(_, _, _)
NearInScene(sc, ui, P) ==
  LET u == sc.units[ui + 1]
      env == EnvNear(u, P, Par(sc))
      ds == {i \in DOMAIN u.daughters : InSolid(DaughterInterior(sc, u.daughters[i]), P)}
  IN \/ \E j \in DOMAIN env : env[j]
     \/ NearE(u.boundary, P, Par(sc), env)
     \/ \E i \in DOMAIN u.daughters : OnOrNearSurface(DaughterInterior(sc, u.daughters[i]), P, Par(sc))
     \/ \E i \in DOMAIN u.materials : NearE(u.materials[i].obj, P, Par(sc), env)
     \/ \E i \in ds : NearInScene(sc, u.daughters[i].unit, InvApply(u.daughters[i].tf, P))
=============================================================================
