------------------------------ MODULE SolidsMC ------------------------------
(* Design check of the C09 vocabulary (spec/Solids.tla): TLC verifies, on small parameter
   ranges and every point of a lattice cube (integer and half-integer points), the algebraic
   laws the membership semantics must satisfy -- so that the reference used to judge the
   implementation is itself coherent (vacuity / transcription guard):

     DeMorgan, Subtraction (= intersection with the negation = region definition vector),
     TransformRoundTrip  InSolid(tf(t,a), Apply(t,q)) = InSolid(a,q) and InvApply o Apply = id,
     TransformCompose    tf(t1, tf(t2, a)) = tf(t1 o t2, a),
     Orthogonal          m m^T = den^2 I for every transform of the exact set (48 + Pythagorean),
     Homogeneous         membership does not depend on the representative of a rational point,
     Alternative definitions: prism4 = box, sphere = ellipsoid(r,r,r), cylinder / cone =
       one-segment polycone, polycone / polyprism = union of translated cones / prisms,
       trd = generalised prism on rectangles = direct interpolated half-widths, clockwise
       generalised prism = its reversal, hollow solid = outer minus inner, enclosed angle =
       quadrant count, 3/4 turn = complement of the missing quarter,
     NearIsZero          with tolerance 0 the near-surface predicate is "some defining
                         polynomial vanishes"; membership of a convex primitive flips between
                         lattice neighbours only across such a zero or a sign change.

   State = one case <<law group, objects, transforms, point>>; the initial states put the point
   at the low corner, Next walks it over the whole half-lattice cube (states = cases). *)
EXTENDS Solids, TLC

CONSTANTS Big,     \* FALSE: quick ranges, TRUE: thorough ranges
          Tiny     \* TRUE: only the alternative-definition group (smoke run for mutation demonstrations)

Rng == IF Big THEN 3 ELSE 2
Coords == (IF Big THEN -5 ELSE -3)..(IF Big THEN 5 ELSE 3)      \* half-lattice: coordinate = c/2
Pts == {<<x, y, z, 2>> : x \in Coords, y \in Coords, z \in Coords}
PtsTf == {P \in Pts : Abs(P[1]) <= 3 /\ Abs(P[2]) <= 2 /\ Abs(P[3]) <= 2}
Par0 == [tolinv |-> 1000000000, scale |-> 96]    \* zero tolerance: near = on a surface

Prims ==
  {[k |-> "box", h |-> <<a, b, 1>>] : a \in 1..2, b \in {1, 3}}
  \cup {[k |-> "sphere", r |-> r] : r \in 1..Rng}
  \cup {[k |-> "cyl", r |-> r, hh |-> h] : r \in 1..2, h \in 1..2}
  \cup {c \in {[k |-> "cone", rlo |-> a, rhi |-> b, hh |-> h] : a \in 0..2, b \in 0..2, h \in 1..2} : c.rlo # c.rhi}
  \cup {[k |-> "ell", r |-> r] : r \in {<<1, 2, 3>>, <<2, 2, 1>>, <<2, 1, 2>>}}
  \cup {[k |-> "prism4", a |-> a, hh |-> h] : a \in 1..2, h \in 1..2}
  \cup {[k |-> "trd", hh |-> 2, lo |-> l, hi |-> h] : l \in {<<1, 2>>, <<2, 1>>}, h \in {<<2, 2>>, <<1, 1>>}}
  \cup {[k |-> "genprism", hh |-> 2, lo |-> <<<<-2, -1>>, <<2, -1>>, <<0, 2>>>>, hi |-> <<<<-1, -1>>, <<1, -1>>, <<0, 1>>>>],
        [k |-> "genprism", hh |-> 1, lo |-> <<<<0, 2>>, <<2, -1>>, <<-2, -1>>>>, hi |-> <<<<0, 2>>, <<2, -1>>, <<-2, -1>>>>],   \* clockwise
        [k |-> "genprism", hh |-> 2, lo |-> <<<<-2, -2>>, <<2, -2>>, <<2, 2>>, <<-2, 2>>>>, hi |-> <<<<0, 0>>, <<0, 0>>, <<0, 0>>, <<0, 0>>>>], \* pyramid
        [k |-> "genprism", hh |-> 2, lo |-> <<<<-2, -2>>, <<2, -2>>, <<2, 2>>, <<-2, 2>>>>, hi |-> <<<<-2, -1>>, <<1, -2>>, <<2, 1>>, <<-1, 2>>>>], \* twisted
        [k |-> "genprism", hh |-> 2, lo |-> <<<<1, 0>>, <<1, 0>>, <<1, 0>>>>, hi |-> <<<<-2, 2>>, <<2, 1>>, <<-1, -2>>>>],   \* apex at -z, clockwise
        [k |-> "genprism", hh |-> 1, lo |-> <<<<-2, 0>>, <<2, 0>>, <<2, 0>>, <<-2, 0>>>>, hi |-> <<<<-2, -2>>, <<2, -2>>, <<2, 2>>, <<-2, 2>>>>], \* ridge at -z
        [k |-> "genprism", hh |-> 1, lo |-> <<<<-2, 2>>, <<2, 2>>, <<2, -2>>, <<-2, -2>>>>, hi |-> <<<<-2, 1>>, <<2, 1>>, <<2, 1>>, <<-2, 1>>>>]}  \* ridge at +z, clockwise
Wedges == {[k |-> "wedge", s |-> s, w |-> w] : s \in 0..3, w \in 1..2}
Eas == {<<>>} \cup {<<s, w>> : s \in -1..4, w \in 1..3}
Solids1 ==
  {[k |-> "solid", out |-> [k |-> "cyl", r |-> 2, hh |-> 2], inn |-> [k |-> "cyl", r |-> 1, hh |-> h], ea |-> e] : h \in 1..2, e \in Eas}
  \cup {[k |-> "solid", out |-> [k |-> "sphere", r |-> 2], ea |-> e] : e \in Eas \ {<<>>}}
  \cup {[k |-> "solid", out |-> [k |-> "cone", rlo |-> 2, rhi |-> 1, hh |-> 2], inn |-> [k |-> "cone", rlo |-> 1, rhi |-> 0, hh |-> 1], ea |-> <<>>]}
Polys1 ==
  {[k |-> "polycone", z |-> <<-2, 0, 2>>, ro |-> <<1, 2, 0>>, ri |-> <<>>, ea |-> <<>>],
   [k |-> "polycone", z |-> <<-2, 0, 0, 2>>, ro |-> <<2, 2, 1, 2>>, ri |-> <<1, 1, 0, 1>>, ea |-> <<1, 3>>],
   [k |-> "polycone", z |-> <<0, 2>>, ro |-> <<2, 1>>, ri |-> <<>>, ea |-> <<0, 1>>],
   [k |-> "polyprism4", z |-> <<-2, 0, 0, 2>>, ro |-> <<2, 2, 1, 1>>, ri |-> <<>>, ea |-> <<>>],
   [k |-> "polyprism4", z |-> <<-2, 0, 0, 2>>, ro |-> <<2, 2, 2, 2>>, ri |-> <<1, 1, 1, 1>>, ea |-> <<2, 2>>]}
Objs == Prims \cup Solids1 \cup Polys1
Leaves2 == IF Big THEN {o \in Prims : o.k \in {"box", "sphere", "cone", "genprism", "ell", "trd"}} \cup Polys1
           ELSE {o \in Prims : \/ o.k = "genprism"
                               \/ o.k = "ell" /\ o.r[1] = 1
                               \/ o.k = "cone" /\ o.hh = 2 /\ o.rlo = 2
                               \/ o.k = "box" /\ o.h[1] = 2 /\ o.h[2] = 3}
                \cup {o \in Polys1 : o.ri # <<>>}
LeavesB == {o \in Leaves2 : o.k \in {"box", "cone", "polycone"} \/ (o.k = "genprism" /\ o.hh = 1)}

\* ---- the exact transform set
Perm3 == {<<1, 2, 3>>, <<1, 3, 2>>, <<2, 1, 3>>, <<2, 3, 1>>, <<3, 1, 2>>, <<3, 2, 1>>}
Sgn3 == {<<a, b, c>> : a \in {1, -1}, b \in {1, -1}, c \in {1, -1}}
PermMat(p, s) == [i \in 1..3 |-> [j \in 1..3 |-> IF p[i] = j THEN s[i] ELSE 0]]
SignedPerms == {PermMat(p, s) : p \in Perm3, s \in Sgn3}
MatMul(a, b) == [i \in 1..3 |-> [j \in 1..3 |-> a[i][1] * b[1][j] + a[i][2] * b[2][j] + a[i][3] * b[3][j]]]
Pyth == <<<<3, -4, 0>>, <<4, 3, 0>>, <<0, 0, 5>>>>
PythMats == {MatMul(a, MatMul(Pyth, b)) : a \in SignedPerms, b \in {PermMat(<<1, 2, 3>>, <<1, 1, 1>>), PermMat(<<3, 1, 2>>, <<1, -1, 1>>)}}
Transp(m) == [i \in 1..3 |-> [j \in 1..3 |-> m[j][i]]]
ASSUME Count48 == Cardinality(SignedPerms) = 48
ASSUME Orthogonal ==
  /\ \A m \in SignedPerms : MatMul(m, Transp(m)) = PermMat(<<1, 2, 3>>, <<1, 1, 1>>)
  /\ \A m \in PythMats : MatMul(m, Transp(m)) = PermMat(<<1, 2, 3>>, <<25, 25, 25>>)

Trans == {<<0, 0, 0>>, <<1, 0, -1>>, <<5, -5, 0>>}
Tfs1 == {[m |-> m, den |-> 1, t |-> t] : m \in SignedPerms, t \in IF Big THEN Trans ELSE {<<1, 0, -1>>}}
Tfs5 == {[m |-> m, den |-> 5, t |-> t] : m \in (IF Big THEN PythMats ELSE {m \in PythMats : m[3][3] # 0}), t \in {<<0, 0, 0>>, <<5, -5, 0>>}}
Tfs == Tfs1 \cup Tfs5
TfsSmall == {t \in Tfs1 : t.m[1][2] = -1 /\ t.m[2][3] = 1 /\ t.m[3][1] = 1 /\ t.t[1] = 1}
              \cup {t \in Tfs5 : t.m[1][1] = 3 /\ t.m[2][2] = 3 /\ t.m[3][3] = 5 /\ t.t[1] = 5}
TfsGen == IF Big THEN Tfs ELSE {t \in Tfs5 : t.m[3][3] = 5 /\ t.t[1] = 5} \cup {t \in Tfs1 : t.m[1][1] + t.m[2][2] + t.m[3][3] = 1}
\* composition t1 o t2 (t2's translation a multiple of den1 so that it stays integral)
Compose(t1, t2) ==
  LET mt == Mul(t1.m, t2.t) IN
  [m |-> MatMul(t1.m, t2.m), den |-> t1.den * t2.den,
   t |-> <<t1.t[1] + mt[1] \div t1.den, t1.t[2] + mt[2] \div t1.den, t1.t[3] + mt[3] \div t1.den>>]
Composable(t1, t2) == LET mt == Mul(t1.m, t2.t) IN \A i \in 1..3 : mt[i] % t1.den = 0

Tf(t, o) == [k |-> "tf", t |-> t, c |-> o]
Not(o) == [k |-> "not", c |-> o]
Any2(a, b) == [k |-> "any", c |-> <<a, b>>]
All2(a, b) == [k |-> "all", c |-> <<a, b>>]
Tr(z) == [m |-> <<<<1, 0, 0>>, <<0, 1, 0>>, <<0, 0, 1>>>>, den |-> 1, t |-> <<0, 0, z>>]
SamePoint(P, Q) == \A i \in 1..3 : P[i] * Q[4] = Q[i] * P[4]
Near0(o, P) == OnOrNearSurface(o, P, Par0)

\* ---- alternative definitions
Quadrant(P) == IF P[1] > 0 /\ P[2] > 0 THEN 0 ELSE IF P[1] < 0 /\ P[2] > 0 THEN 1
               ELSE IF P[1] < 0 /\ P[2] < 0 THEN 2 ELSE IF P[1] > 0 /\ P[2] < 0 THEN 3 ELSE -1
EaQuad(ea, P) == ea = <<>> \/ ((Quadrant(P) - ea[1]) % 4) < ea[2]
Rev(s) == [i \in DOMAIN s |-> s[Len(s) + 1 - i]]
AltOK(o, P) ==
  CASE o.k = "prism4" -> InSolid(o, P) = InSolid([k |-> "box", h |-> <<o.a, o.a, o.hh>>], P)
    [] o.k = "sphere" -> InSolid(o, P) = InSolid([k |-> "ell", r |-> <<o.r, o.r, o.r>>], P)
    [] o.k = "cyl" -> InSolid(o, P) = InSolid([k |-> "polycone", z |-> <<-o.hh, o.hh>>, ro |-> <<o.r, o.r>>, ri |-> <<>>, ea |-> <<>>], P)
    [] o.k = "cone" -> InSolid(o, P) = InSolid([k |-> "polycone", z |-> <<-o.hh, o.hh>>, ro |-> <<o.rlo, o.rhi>>, ri |-> <<>>, ea |-> <<>>], P)
    [] o.k = "trd" -> InSolid(o, P) = InSolid(TrdPoly(o), P)
    [] o.k = "genprism" -> InSolid(o, P) = InSolid([o EXCEPT !.lo = Rev(o.lo), !.hi = Rev(o.hi)], P)
    [] o.k = "box" -> InSolid(o, P) = InSolid([k |-> "genprism", hh |-> o.h[3],
                         lo |-> <<<<o.h[1], -o.h[2]>>, <<o.h[1], o.h[2]>>, <<-o.h[1], o.h[2]>>, <<-o.h[1], -o.h[2]>>>>,
                         hi |-> <<<<o.h[1], -o.h[2]>>, <<o.h[1], o.h[2]>>, <<-o.h[1], o.h[2]>>, <<-o.h[1], -o.h[2]>>>>], P)
    [] o.k = "solid" -> \* outer minus inner, azimuth by quadrant counting (off the axis planes)
         (Quadrant(P) # -1) =>
            InSolid(o, P) = (/\ InSolid(o.out, P) /\ (Has(o, "inn") => ~InSolid(o.inn, P)) /\ EaQuad(o.ea, P))
    [] o.k = "polycone" -> \* union of translated cone segments (even spans), minus inner ones
         (Quadrant(P) # -1 /\ ~Near0(o, P)) =>
            InSolid(o, P) =
              (/\ \E i \in Segs(o) :
                     LET hz == (o.z[i + 1] - o.z[i]) \div 2  zc == (o.z[i + 1] + o.z[i]) \div 2
                         seg(r) == IF r[i] = r[i + 1] THEN Tf(Tr(zc), [k |-> "cyl", r |-> r[i], hh |-> hz])
                                   ELSE Tf(Tr(zc), [k |-> "cone", rlo |-> r[i], rhi |-> r[i + 1], hh |-> hz])
                     IN InSolid(seg(o.ro), P) /\ (HasInner(o) => ~InSolid(seg(o.ri), P))
               /\ EaQuad(o.ea, P))
    [] o.k = "polyprism4" ->
         (Quadrant(P) # -1 /\ ~Near0(o, P)) =>
            InSolid(o, P) =
              (/\ \E i \in Segs(o) :
                     LET hz == (o.z[i + 1] - o.z[i]) \div 2  zc == (o.z[i + 1] + o.z[i]) \div 2
                         seg(r) == Tf(Tr(zc), [k |-> "prism4", a |-> r[i], hh |-> hz])
                     IN InSolid(seg(o.ro), P) /\ (HasInner(o) => ~InSolid(seg(o.ri), P))
               /\ EaQuad(o.ea, P))
    [] OTHER -> TRUE
WedgeOK(o, P) == (Quadrant(P) # -1) => (InSolid(o, P) = (((Quadrant(P) - o.s) % 4) < o.w))

Corner(S) == CHOOSE q \in S : \A r \in S : q[1] <= r[1] /\ q[2] <= r[2] /\ q[3] <= r[3]
VARIABLES grp, a, b, t1, t2, p
vars == <<grp, a, b, t1, t2, p>>
T0 == CHOOSE t \in Tfs1 : TRUE
O0 == CHOOSE o \in Prims : TRUE

Init ==
  \/ ~Tiny /\ grp = "bool" /\ a \in Leaves2 /\ b \in LeavesB /\ t1 \in TfsSmall /\ t2 = T0 /\ p = Corner(Pts)
  \/ ~Tiny /\ grp = "tf" /\ a \in Leaves2 /\ b = O0 /\ t1 \in TfsGen /\ t2 \in TfsSmall /\ p = Corner(PtsTf)
  \/ grp = "alt" /\ a \in Objs \cup Wedges /\ b = O0 /\ t1 = T0 /\ t2 = T0 /\ p = Corner(Pts)
\* the point walks from the low corner over the whole point set of the group
Next ==
  /\ \E i \in 1..3 :
        /\ [p EXCEPT ![i] = @ + 1] \in (IF grp = "tf" THEN PtsTf ELSE Pts)
        /\ p' = [p EXCEPT ![i] = @ + 1]
  /\ UNCHANGED <<grp, a, b, t1, t2>>
Spec == Init /\ [][Next]_vars

Bt == Tf(t1, b)      \* the second operand displaced, so that the operands are in general position
DeMorgan == grp = "bool" =>
  /\ InSolid(Not(Any2(a, Bt)), p) = InSolid(All2(Not(a), Not(Bt)), p)
  /\ InSolid(Not(All2(a, Bt)), p) = InSolid(Any2(Not(a), Not(Bt)), p)
  /\ InSolid(Not(Not(a)), p) = InSolid(a, p)
Subtraction == grp = "bool" =>
  /\ InSolid([k |-> "sub", a |-> a, b |-> Bt], p) = InSolid(All2(a, Not(Bt)), p)
  /\ InSolid([k |-> "sub", a |-> a, b |-> Bt], p) = InSolid([k |-> "rdv", c |-> <<<<"in", a>>, <<"out", Bt>>>>], p)
  /\ InSolid([k |-> "sub", a |-> a, b |-> Bt], p) = (InSolid(a, p) /\ ~InSolid(Bt, p))
  /\ OnOrNearSurface([k |-> "sub", a |-> a, b |-> Bt], p, Par0) = (Near0(a, p) \/ Near0(Bt, p))
TransformRoundTrip == grp = "tf" =>
  /\ SamePoint(InvApply(t1, Apply(t1, p)), p)
  /\ SamePoint(Apply(t1, InvApply(t1, p)), p)
  /\ InSolid(Tf(t1, a), Apply(t1, p)) = InSolid(a, p)
  /\ Near0(Tf(t1, a), Apply(t1, p)) = Near0(a, p)
TransformCompose == (grp = "tf" /\ Composable(t1, t2)) =>
  /\ InSolid(Tf(t1, Tf(t2, a)), p) = InSolid(Tf(Compose(t1, t2), a), p)
  /\ SamePoint(InvApply(t2, InvApply(t1, p)), InvApply(Compose(t1, t2), p))
Homogeneous == grp = "alt" =>
  \A k \in {2, 5} : LET q == <<k * p[1], k * p[2], k * p[3], k * p[4]>> IN
     /\ (a.k # "wedge" => InSolid(a, q) = InSolid(a, p))
     /\ (a.k # "wedge" => Near0(a, q) = Near0(a, p))
Alternatives == grp = "alt" => IF a.k = "wedge" THEN WedgeOK(a, p) ELSE AltOK(a, p)
\* membership of a convex primitive can only differ between neighbouring half-lattice points of a
\* line if a defining polynomial vanishes or changes sign in between: at least it is not constant
NearIsZero == (grp = "alt" /\ a \in Prims) =>
  /\ Near0(a, p) = (\/ ~InRange(p, Par0.scale)
                    \/ PrimNear(a, p, Par0))
  /\ (PrimIn(a, p) /\ Near0(a, p)) = FALSE     \* open sets: a point on a defining surface is not inside
=============================================================================
