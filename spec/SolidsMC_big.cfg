SPECIFICATION Spec
CONSTANT Big = TRUE
CONSTANT Tiny = FALSE
INVARIANT DeMorgan
INVARIANT Subtraction
INVARIANT TransformRoundTrip
INVARIANT TransformCompose
INVARIANT Homogeneous
INVARIANT Alternatives
INVARIANT NearIsZero
CHECK_DEADLOCK FALSE
