SPECIFICATION Spec
CONSTANT Big = FALSE
CONSTANT Tiny = TRUE
INVARIANT DeMorgan
INVARIANT Subtraction
INVARIANT TransformRoundTrip
INVARIANT TransformCompose
INVARIANT Homogeneous
INVARIANT Alternatives
INVARIANT NearIsZero
CHECK_DEADLOCK FALSE
