---------------------------- MODULE SolidsTrace ----------------------------
(* C09 trace validation.  harness/vbuild.cc `probe` builds each generated scene through the
   public orangeinp API and reports, for every lattice probe point, the label of the volume
   the real track view is initialised in.  This module recomputes the volume the point MUST
   be in from spec/Solids.tla (exact integer membership) and accumulates the names of the
   violated clauses:

     C09.ConstructionSucceeds   a valid scene failed to build (exception message logged)
     C09.PointInExpectedVolume  reported label # ExpectedVolume(p), p clear of every surface

   Probes in an overlap of the input or claimed by nobody in a unit without background are
   excluded and counted.  The near-surface exclusion is decided LAZILY: a probe whose
   reported label equals the expected one needs no excuse (agreeing on or near a surface is
   more than the property asks); a DISAGREEING probe is a violation unless
   Solids!NearInScene holds for it (then it is excluded and counted as `near`).  For the
   record, the middle z-slab of every scene is classified in full (`slab_probes`,
   `slab_near`): the fraction of probes the property does not quantify over.
   Structural problems (records out of order, Abort, missing Close) reject the trace.

   ORACLE-DECIDED part (labelled as such; real-valued geometry is outside what TLC can own):
   scenes of the family "oracle" (regular prisms with any number of sides and orientation,
   parallelepipeds, general trapezoids built with GenPrism::from_trap, general rotations) arrive with the expected label of every probe computed
   by analytic membership functions in the harness, written from the documented definitions
   (`ora`; -1 = within 1e-5 of a face: excluded).  TLC only compares:
     C09.OraclePointInVolume    reported label # oracle label
   Named deviations, counted, never hidden (a disagreement is attributed to one only if the
   reported label equals the label under that precise description of the deviating behaviour):
     ParallelepipedAlphaYExtent (F-PARA-1)  `alt`: the parallelepiped's y faces lie at
        +-hy*cos(alpha) instead of the documented +-hy
     ParallelepipedBBoxTooSmall (F-PARA-2)  `alt2`: in addition the shape is clipped by its
        bounding box, which is built from edge vectors of the wrong length when alpha or theta # 0

   Records: Scene(scene) Built(ok,msg,names) (Probes(iz,lab,fail) | OProbes(iz,lab,fail,ora,alt))*
            EndScene ... Close *)
EXTENDS Solids, TLC, Json, IOUtils, SequencesExt

TraceLog == ndJsonDeserialize(IOEnv.TRACE)
N == Len(TraceLog)

VARIABLES l, pc, sc, names, viol, stat, dev
vars == <<l, pc, sc, names, viol, stat, dev>>
Rec == TraceLog[l]

MaxNotes == 6     \* failing probes recorded per scene (all are counted)

PointOf(g, iz, i) ==
  LET ix == (i - 1) % g.n
      iy == (i - 1) \div g.n
  IN \* half-lattice: coordinate = lo + i*step + off/2 per axis (off in {0, 1}), homogeneous with D = 2
     <<2 * (g.lo[1] + ix * g.step[1]) + g.off[1], 2 * (g.lo[2] + iy * g.step[2]) + g.off[2],
       2 * (g.lo[3] + iz * g.step[3]) + g.off[3], 2>>

\* <<class, expected, reported, point>>
Classify(rec, i) ==
  LET P == PointOf(sc.grid, rec.iz, i)
      exp == ExpectedVolume(sc, 0, P, TRUE)
      got == IF \E k \in DOMAIN rec.fail : rec.fail[k] = i - 1 THEN "!failed"
             ELSE names[rec.lab[i] + 1]
      cls == IF exp = "?overlap" THEN "overlap"
             ELSE IF exp = "?nowhere" THEN "nowhere"
             ELSE IF got = exp THEN "ok"
             ELSE IF NearInScene(sc, 0, P) THEN "near" ELSE "bad"
  IN <<cls, exp, got, P>>

Count(res, c) == Cardinality({i \in DOMAIN res : res[i][1] = c})

Init ==
  /\ l = 1 /\ pc = "idle" /\ sc = <<>> /\ names = <<>> /\ viol = {} /\ dev = {}
  /\ stat = [scenes |-> 0, built |-> 0, failed_builds |-> 0, probes |-> 0, compared |-> 0,
             near |-> 0, overlap |-> 0, nowhere |-> 0, bad |-> 0, init_failed |-> 0,
             slab_probes |-> 0, slab_near |-> 0,
             oracle_scenes |-> 0, oracle_probes |-> 0, oracle_compared |-> 0, oracle_near |-> 0, oracle_bad |-> 0,
             oracle_deviation |-> 0, oracle_deviation_bbox |-> 0,
             in_exterior |-> 0, in_background |-> 0, in_material |-> 0, in_daughter |-> 0]

TScene ==
  /\ pc = "idle" /\ Rec.e = "Scene"
  /\ sc' = Rec.scene /\ pc' = "built" /\ names' = <<>>
  /\ stat' = [stat EXCEPT !.scenes = @ + 1, !.oracle_scenes = @ + (IF "oracle" \in DOMAIN Rec.scene THEN 1 ELSE 0)]
  /\ UNCHANGED <<viol, dev>>

TBuilt ==
  /\ pc = "built" /\ Rec.e = "Built"
  /\ names' = Rec.names
  /\ IF Rec.ok
     THEN /\ pc' = (IF "oracle" \in DOMAIN sc THEN "oprobes" ELSE "probes") /\ UNCHANGED viol
          /\ stat' = [stat EXCEPT !.built = @ + 1]
     ELSE /\ pc' = "end"
          /\ viol' = viol \cup {<<"C09.ConstructionSucceeds", sc.id, Rec.msg>>}
          /\ stat' = [stat EXCEPT !.failed_builds = @ + 1]
  /\ UNCHANGED <<sc, dev>>

\* which kind of volume an (agreed) label names: coverage accounting only
UnitLabels(k) == {sc.units[k].materials[m].label \o "@" \o sc.units[k].name : m \in DOMAIN sc.units[k].materials}
                   \cup {sc.units[k].bg \o "@" \o sc.units[k].name}
IsMaterialLabel(s) == \E m \in DOMAIN sc.units[1].materials : s = sc.units[1].materials[m].label \o "@u0"
IsDaughterLabel(s) == \E k \in 2..Len(sc.units) : s \in UnitLabels(k)

TProbes ==
  /\ pc = "probes" /\ Rec.e = "Probes"
  /\ Len(Rec.lab) = sc.grid.n * sc.grid.n
  /\ Rec.iz >= 0 /\ Rec.iz < sc.grid.n
  /\ LET res == [i \in 1..Len(Rec.lab) |-> Classify(Rec, i)]
         bad == {i \in DOMAIN res : res[i][1] = "bad"}
         have == Cardinality({v \in viol : v[1] = "C09.PointInExpectedVolume" /\ v[2] = sc.id})
         room == IF have >= MaxNotes THEN 0 ELSE MaxNotes - have
         noted == IF Cardinality(bad) <= room THEN bad
                  ELSE {i \in bad : Cardinality({j \in bad : j <= i}) <= room}
         full == Rec.iz = sc.grid.n \div 2          \* the slab classified in full
         slabnear == IF full THEN Cardinality({i \in DOMAIN res : NearInScene(sc, 0, res[i][4])}) ELSE 0
     IN
     /\ viol' = viol \cup {<<"C09.PointInExpectedVolume", sc.id,
                             [p2 |-> <<res[i][4][1], res[i][4][2], res[i][4][3]>>,
                              expected |-> res[i][2], reported |-> res[i][3]]>> : i \in noted}
     /\ stat' = [stat EXCEPT !.probes = @ + Len(Rec.lab),
                             !.compared = @ + Count(res, "ok") + Count(res, "bad"),
                             !.near = @ + Count(res, "near"),
                             !.overlap = @ + Count(res, "overlap"),
                             !.nowhere = @ + Count(res, "nowhere"),
                             !.bad = @ + Count(res, "bad"),
                             !.init_failed = @ + Len(Rec.fail),
                             !.slab_probes = @ + (IF full THEN Len(Rec.lab) ELSE 0),
                             !.slab_near = @ + slabnear,
                             !.in_exterior = @ + Cardinality({i \in DOMAIN res : res[i][1] = "ok" /\ res[i][2] = "[EXTERIOR]@u0"}),
                             !.in_background = @ + Cardinality({i \in DOMAIN res : res[i][1] = "ok" /\ res[i][2] = sc.units[1].bg \o "@u0"}),
                             !.in_material = @ + Cardinality({i \in DOMAIN res : res[i][1] = "ok" /\ IsMaterialLabel(res[i][2])}),
                             !.in_daughter = @ + Cardinality({i \in DOMAIN res : res[i][1] = "ok" /\ IsDaughterLabel(res[i][2])})]
  /\ UNCHANGED <<pc, sc, names, dev>>

\* oracle-decided scenes: the expectation is an environment fact of the trace
TOProbes ==
  /\ pc = "oprobes" /\ Rec.e = "OProbes"
  /\ Len(Rec.lab) = sc.grid.n * sc.grid.n /\ Len(Rec.ora) = Len(Rec.lab) /\ Len(Rec.alt) = Len(Rec.lab)
  /\ Len(Rec.alt2) = Len(Rec.lab)
  /\ LET got(i) == IF \E k \in DOMAIN Rec.fail : Rec.fail[k] = i - 1 THEN -2 ELSE Rec.lab[i]
         near == {i \in DOMAIN Rec.lab : Rec.ora[i] = -1}
         ok == {i \in DOMAIN Rec.lab : Rec.ora[i] # -1 /\ got(i) = Rec.ora[i]}
         devi == {i \in DOMAIN Rec.lab : Rec.ora[i] # -1 /\ got(i) # Rec.ora[i] /\ Rec.alt[i] # -1 /\ got(i) = Rec.alt[i]}
         devb == {i \in DOMAIN Rec.lab : Rec.ora[i] # -1 /\ got(i) # Rec.ora[i] /\ i \notin devi
                                          /\ Rec.alt2[i] # -1 /\ got(i) = Rec.alt2[i]}
         bad == (DOMAIN Rec.lab) \ (near \cup ok \cup devi \cup devb)
         have == Cardinality({v \in viol : v[1] = "C09.OraclePointInVolume" /\ v[2] = sc.id})
         room == IF have >= MaxNotes THEN 0 ELSE MaxNotes - have
         noted == {i \in bad : Cardinality({j \in bad : j <= i}) <= room}
         name(k) == IF k = -2 THEN "!failed" ELSE IF k = -1 THEN "?" ELSE names[k + 1]
     IN
     /\ viol' = viol \cup {<<"C09.OraclePointInVolume", sc.id,
                             [p2 |-> <<PointOf(sc.grid, Rec.iz, i)[1], PointOf(sc.grid, Rec.iz, i)[2], PointOf(sc.grid, Rec.iz, i)[3]>>,
                              expected |-> name(Rec.ora[i]), reported |-> name(got(i))]>> : i \in noted}
     /\ dev' = dev \cup (IF devi = {} THEN {}
                          ELSE LET i == CHOOSE k \in devi : \A j \in devi : k <= j
                               IN {<<"ParallelepipedAlphaYExtent", sc.id,
                                     [p2 |-> <<PointOf(sc.grid, Rec.iz, i)[1], PointOf(sc.grid, Rec.iz, i)[2], PointOf(sc.grid, Rec.iz, i)[3]>>,
                                      expected |-> name(Rec.ora[i]), reported |-> name(got(i))]>>})
                   \cup (IF devb = {} THEN {}
                          ELSE LET i == CHOOSE k \in devb : \A j \in devb : k <= j
                               IN {<<"ParallelepipedBBoxTooSmall", sc.id,
                                     [p2 |-> <<PointOf(sc.grid, Rec.iz, i)[1], PointOf(sc.grid, Rec.iz, i)[2], PointOf(sc.grid, Rec.iz, i)[3]>>,
                                      expected |-> name(Rec.ora[i]), reported |-> name(got(i))]>>})
     /\ stat' = [stat EXCEPT !.oracle_probes = @ + Len(Rec.lab), !.oracle_near = @ + Cardinality(near),
                             !.oracle_compared = @ + Cardinality(ok) + Cardinality(devi) + Cardinality(devb) + Cardinality(bad),
                             !.oracle_bad = @ + Cardinality(bad), !.oracle_deviation = @ + Cardinality(devi),
                             !.oracle_deviation_bbox = @ + Cardinality(devb),
                             !.init_failed = @ + Len(Rec.fail)]
  /\ UNCHANGED <<pc, sc, names>>

TEndScene ==
  /\ pc \in {"probes", "oprobes", "end"} /\ Rec.e = "EndScene"
  /\ pc' = "idle" /\ sc' = <<>> /\ names' = <<>>
  /\ UNCHANGED <<viol, stat, dev>>

TClose ==
  /\ pc = "idle" /\ Rec.e = "Close" /\ l = N
  /\ UNCHANGED <<pc, sc, names, viol, stat, dev>>

Next ==
  /\ l <= N /\ l' = l + 1
  /\ \/ TScene \/ TBuilt \/ TProbes \/ TOProbes \/ TEndScene \/ TClose
Spec == Init /\ [][Next]_vars

Accepted ==
  LET d == TLCGet("stats").diameter IN
  IF d - 1 = N /\ TraceLog[N].e = "Close" THEN TRUE
  ELSE /\ PrintT(<<"REJECTED", d, TraceLog[IF d <= N THEN d ELSE N].e>>)
       /\ FALSE
Report == (l = N + 1) => PrintT(<<"SUMMARY", ToJson([viol |-> viol, dev |-> dev, stat |-> stat])>>)
=============================================================================
