----------------------------- MODULE StackAlloc -----------------------------
(* The lock-free secondary allocator (src/corecel/data/StackAllocator.hh, operator()):

       start = atomic_add(&size, count);
       if (start + count > capacity) {            // out of memory
           if (start <= capacity) size = start;   // plain store: restore
           return nullptr;
       }
       placement-new the entries [start, start + count); return &storage[start];

   under concurrent callers (GPU threads / OpenMP track-level parallelism).  One process
   per calling thread; labels = the atomic steps of the code (FetchAdd is the atomic
   read-modify-write, Restore a separate plain store, Construct the initialisation of the
   granted entries).  `owner` records which thread wrote which storage entry.

   Variant (constant) selects the algorithm as coded or a seeded design mutant (vacuity guard
   for the invariants):
     "ascoded"     the code above
     "norestore"   a failed call never restores the size
     "writefirst"  entries are constructed before the capacity check *)
EXTENDS Integers, FiniteSets, Sequences, TLC

CONSTANTS Threads, MaxCap, MaxCount, Variant

(* --algorithm alloc
variables Cap \in 1..MaxCap,                     \* capacity of the storage
          size = 0,
          granted = {},                          \* set of <<thread, start, count>>
          owner = [i \in 0..(MaxCount * (Cardinality(Threads) + 1)) |-> {}],
          req \in [Threads -> 1..MaxCount];
process t \in Threads
variables start = 0, res = "pending";
begin
 FetchAdd: start := size; size := size + req[self];          \* atomic_add
 Early:    if Variant = "writefirst" then
             owner := [i \in DOMAIN owner |->
                         IF i >= start /\ i < start + req[self] THEN owner[i] \cup {self} ELSE owner[i]];
           end if;
 Check:    if start + req[self] > Cap then
             if start <= Cap /\ Variant # "norestore" then
 Restore:      size := start;                                 \* plain store
             end if;
 Fail:       res := "null";
           else
 Construct:  if Variant # "writefirst" then
               owner := [i \in DOMAIN owner |->
                           IF i >= start /\ i < start + req[self] THEN owner[i] \cup {self} ELSE owner[i]];
             end if;
 Grant:      granted := granted \cup {<<self, start, req[self]>>}; res := "ok";
           end if;
end process; end algorithm; *)
\* BEGIN TRANSLATION
VARIABLES pc, Cap, size, granted, owner, req, start, res

vars == << pc, Cap, size, granted, owner, req, start, res >>

ProcSet == (Threads)

Init == (* Global variables *)
        /\ Cap \in 1..MaxCap
        /\ size = 0
        /\ granted = {}
        /\ owner = [i \in 0..(MaxCount * (Cardinality(Threads) + 1)) |-> {}]
        /\ req \in [Threads -> 1..MaxCount]
        (* Process t *)
        /\ start = [self \in Threads |-> 0]
        /\ res = [self \in Threads |-> "pending"]
        /\ pc = [self \in ProcSet |-> "FetchAdd"]

FetchAdd(self) == /\ pc[self] = "FetchAdd"
                  /\ start' = [start EXCEPT ![self] = size]
                  /\ size' = size + req[self]
                  /\ pc' = [pc EXCEPT ![self] = "Early"]
                  /\ UNCHANGED << Cap, granted, owner, req, res >>

Early(self) == /\ pc[self] = "Early"
               /\ IF Variant = "writefirst"
                     THEN /\ owner' = [i \in DOMAIN owner |->
                                         IF i >= start[self] /\ i < start[self] + req[self] THEN owner[i] \cup {self} ELSE owner[i]]
                     ELSE /\ TRUE
                          /\ owner' = owner
               /\ pc' = [pc EXCEPT ![self] = "Check"]
               /\ UNCHANGED << Cap, size, granted, req, start, res >>

Check(self) == /\ pc[self] = "Check"
               /\ IF start[self] + req[self] > Cap
                     THEN /\ IF start[self] <= Cap /\ Variant # "norestore"
                                THEN /\ pc' = [pc EXCEPT ![self] = "Restore"]
                                ELSE /\ pc' = [pc EXCEPT ![self] = "Fail"]
                     ELSE /\ pc' = [pc EXCEPT ![self] = "Construct"]
               /\ UNCHANGED << Cap, size, granted, owner, req, start, res >>

Fail(self) == /\ pc[self] = "Fail"
              /\ res' = [res EXCEPT ![self] = "null"]
              /\ pc' = [pc EXCEPT ![self] = "Done"]
              /\ UNCHANGED << Cap, size, granted, owner, req, start >>

Construct(self) == /\ pc[self] = "Construct"
                   /\ IF Variant # "writefirst"
                         THEN /\ owner' = [i \in DOMAIN owner |->
                                             IF i >= start[self] /\ i < start[self] + req[self] THEN owner[i] \cup {self} ELSE owner[i]]
                         ELSE /\ TRUE
                              /\ owner' = owner
                   /\ pc' = [pc EXCEPT ![self] = "Grant"]
                   /\ UNCHANGED << Cap, size, granted, req, start, res >>

Grant(self) == /\ pc[self] = "Grant"
               /\ granted' = (granted \cup {<<self, start[self], req[self]>>})
               /\ res' = [res EXCEPT ![self] = "ok"]
               /\ pc' = [pc EXCEPT ![self] = "Done"]
               /\ UNCHANGED << Cap, size, owner, req, start >>

Restore(self) == /\ pc[self] = "Restore"
                 /\ size' = start[self]
                 /\ pc' = [pc EXCEPT ![self] = "Fail"]
                 /\ UNCHANGED << Cap, granted, owner, req, start, res >>

t(self) == FetchAdd(self) \/ Early(self) \/ Check(self) \/ Fail(self)
              \/ Construct(self) \/ Grant(self) \/ Restore(self)

(* Allow infinite stuttering to prevent deadlock on termination. *)
Terminating == /\ \A self \in ProcSet: pc[self] = "Done"
               /\ UNCHANGED vars

Next == (\E self \in Threads: t(self))
           \/ Terminating

Spec == Init /\ [][Next]_vars

Termination == <>(\A self \in ProcSet: pc[self] = "Done")

\* END TRANSLATION

Done == \A th \in Threads : pc[th] = "Done"
Span(g) == g[2]..(g[2] + g[3] - 1)
RECURSIVE SumCounts(_)
SumCounts(S) == IF S = {} THEN 0 ELSE LET g == CHOOSE x \in S : TRUE IN g[3] + SumCounts(S \ {g})

\* successful spans are pairwise disjoint ...
Disjoint == \A a, b \in granted : a # b => Span(a) \cap Span(b) = {}
\* ... and lie within the capacity
Within == \A a \in granted : a[2] >= 0 /\ a[2] + a[3] <= Cap
\* after all calls have finished the size is exactly what was granted ...
FinalSizeExact == Done => size = SumCounts(granted)
\* ... and the granted entries are exactly the first `size` entries
Contiguous == Done => UNION {Span(a) : a \in granted} = 0..(size - 1)
\* a failed call writes nothing; a successful call writes only its own span; no entry is
\* written by two threads
FailedWritesNothing ==
  /\ \A th \in Threads : res[th] = "null" => \A i \in DOMAIN owner : th \notin owner[i]
  /\ \A i \in DOMAIN owner : Cardinality(owner[i]) <= 1
  /\ \A th \in Threads : res[th] = "ok" =>
        \A i \in DOMAIN owner : th \in owner[i] => \E g \in granted : g[1] = th /\ i \in Span(g)
TypeOK == /\ size \in 0..(MaxCount * Cardinality(Threads))
          /\ res \in [Threads -> {"pending", "null", "ok"}]
Symm == Permutations(Threads)
=============================================================================
