SPECIFICATION Spec
CONSTANTS
  Threads = {t1, t2, t3}
  MaxCap = 4
  MaxCount = 3
  Variant = "writefirst"
SYMMETRY Symm
INVARIANT TypeOK
INVARIANT Disjoint
INVARIANT Within
INVARIANT FinalSizeExact
INVARIANT Contiguous
INVARIANT FailedWritesNothing
CHECK_DEADLOCK FALSE
