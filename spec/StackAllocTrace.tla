-------------------------- MODULE StackAllocTrace --------------------------
(* Sequential binding of StackAlloc.tla to the real StackAllocator<Secondary>
   (harness/vinteract.cc, mode alloc).  In this build (host, CELERITAS_OPENMP=event) the
   allocator's atomic_add is a plain read-modify-write and concurrent callers are outside
   its contract, so the real template is driven from one thread: every call executes the
   PlusCal steps FetchAdd; Check; (Restore; Fail | Construct; Grant) without overlap.
   Composed sequentially those steps give exactly:
       start = size;  if start + count > cap then (size' = size, null, nothing written)
                      else (size' = size + count, start, entries default-constructed).
   Each logged call must be that step; violated clause names are accumulated. *)
EXTENDS Integers, Sequences, FiniteSets, TLC, Json, IOUtils

TraceLog == ndJsonDeserialize(IOEnv.TRACE)
N == Len(TraceLog)
VARIABLES l, cap, size, viol, stat
vars == <<l, cap, size, viol, stat>>
Rec == TraceLog[l]

Init == l = 1 /\ cap = 0 /\ size = 0 /\ viol = {} /\ stat = [calls |-> 0, ok |-> 0, null |-> 0, clears |-> 0, rounds |-> 0]

TInit == /\ Rec.e = "AllocInit" /\ cap' = Rec.cap /\ size' = 0
         /\ stat' = [stat EXCEPT !.rounds = @ + 1] /\ UNCHANGED viol
TClear == /\ Rec.e = "AllocClear" /\ size' = 0
          /\ viol' = viol \cup (IF Rec.size = 0 THEN {} ELSE {<<"C04.AllocClear", l>>})
          /\ stat' = [stat EXCEPT !.clears = @ + 1] /\ UNCHANGED cap
TCall ==
  /\ Rec.e = "AllocCall"
  /\ LET fits == size + Rec.count <= cap
         expStart == IF fits THEN size ELSE -1
         expSize == IF fits THEN size + Rec.count ELSE size
         bad == (IF Rec.start = expStart THEN {} ELSE {"C04.AllocStart"})
                \cup (IF Rec.size = expSize THEN {} ELSE {"C04.AllocSize"})
                \cup (IF Rec.untouched THEN {} ELSE {"C04.AllocWritesOutsideGrant"})
                \cup (IF fits => Rec.fresh_false THEN {} ELSE {"C04.AllocFreshEntriesFalse"})
     IN /\ viol' = viol \cup {<<c, l>> : c \in {b \in bad : ~\E v \in viol : v[1] = b}}
        /\ size' = Rec.size           \* follow the implementation
        /\ stat' = [stat EXCEPT !.calls = @ + 1, !.ok = @ + (IF Rec.start >= 0 THEN 1 ELSE 0),
                                !.null = @ + (IF Rec.start < 0 THEN 1 ELSE 0)]
  /\ UNCHANGED cap
TClose == Rec.e = "Close" /\ Rec.n = stat.calls /\ UNCHANGED <<cap, size, viol, stat>>

Next == l <= N /\ l' = l + 1 /\ (TInit \/ TClear \/ TCall \/ TClose)
Spec == Init /\ [][Next]_vars
Accepted ==
  LET d == TLCGet("stats").diameter IN
  IF d - 1 = N /\ TraceLog[N].e = "Close" THEN TRUE
  ELSE PrintT(<<"REJECTED", d, TraceLog[IF d <= N THEN d ELSE N]>>) /\ FALSE
Report == (l = N + 1) => PrintT(<<"SUMMARY", ToJson([viol |-> viol, stat |-> stat])>>)
=============================================================================
