----------------------------- MODULE StreamStore -----------------------------
(* Per-stream lazily created states and reductions over them (corecel/data/StreamStore.hh:
   StreamStore::state(stream, size), state(stream) -> pointer or null, apply_to_all_streams,
   accumulate_over_streams; users: ActionDiagnostic, StepDiagnostic, SimpleCalo).

   A store has NStreams slots.  A slot is created by the first state(stream, size) call of ITS stream
   (a stream that never steps never creates its slot: sparse event->stream assignments leave gaps).
   Tally(s, d, v) adds v to component d of stream s's state; Reduce computes the per-component totals
   the way accumulate_over_streams does: visit every stream id in order, skip the ones without a state.
   Clear resets every existing state.

   Variant selects the reduction loop:
     "ascoded"   for s in 0..N-1: if state(s) exists: add                    (the code)
     "stopfirst" ... stop at the first stream without a state                 (seeded change C07_02)
     "dense"     assume the created states are exactly streams 0..k-1        (a plausible "optimisation")
     "lastonly"  return the state of the highest created stream                (wrong aggregation)
   The invariant ReduceIsSum (the reported total of every component equals the sum of everything tallied
   since the last Clear, whatever the allocation pattern) must hold for "ascoded" and be refuted for the
   others. *)
EXTENDS Integers, Sequences, FiniteSets, TLC

CONSTANTS NStreams, NComp, MaxTally, Variant

Streams == 0..(NStreams - 1)
Comps == 1..NComp
VARIABLES created,   \* [Streams -> BOOLEAN]
          st,        \* [Streams -> [Comps -> Nat]]   per-stream state (meaningful when created)
          truth,     \* [Comps -> Nat]                everything tallied since the last Clear (ghost)
          ntally,    \* number of Tally actions taken (bound)
          reported   \* last Reduce result or <<>>
vars == <<created, st, truth, ntally, reported>>

ZeroC == [d \in Comps |-> 0]
Init == /\ created = [s \in Streams |-> FALSE] /\ st = [s \in Streams |-> ZeroC]
        /\ truth = ZeroC /\ ntally = 0 /\ reported = <<>>

\* state(stream, size): create on first use, then tally (one executor launch of that stream)
Tally(s, d) ==
  /\ ntally < MaxTally
  /\ created' = [created EXCEPT ![s] = TRUE]
  /\ st' = [st EXCEPT ![s][d] = @ + 1]
  /\ truth' = [truth EXCEPT ![d] = @ + 1]
  /\ ntally' = ntally + 1
  /\ reported' = <<>>

RECURSIVE SumUpTo(_, _, _)
SumUpTo(d, s, stopAtGap) ==          \* sum of component d over streams s..N-1 as the loop visits them
  IF s >= NStreams THEN 0
  ELSE IF created[s] THEN st[s][d] + SumUpTo(d, s + 1, stopAtGap)
  ELSE IF stopAtGap THEN 0
  ELSE SumUpTo(d, s + 1, stopAtGap)

NCreated == Cardinality({s \in Streams : created[s]})
ReduceValue(d) ==
  CASE Variant = "ascoded" -> SumUpTo(d, 0, FALSE)
    [] Variant = "stopfirst" -> SumUpTo(d, 0, TRUE)
    [] Variant = "dense" ->
         LET RECURSIVE F(_)
             F(s) == IF s >= NCreated THEN 0 ELSE (IF created[s] THEN st[s][d] ELSE 0) + F(s + 1)
         IN F(0)
    [] Variant = "lastonly" ->
         IF NCreated = 0 THEN 0
         ELSE LET m == CHOOSE s \in Streams : created[s] /\ \A u \in Streams : created[u] => u <= s
              IN st[m][d]

Reduce == /\ reported' = [d \in Comps |-> ReduceValue(d)]
          /\ UNCHANGED <<created, st, truth, ntally>>

\* clear(): apply_to_all_streams(fill 0); existing states stay created
Clear == /\ st' = [s \in Streams |-> ZeroC] /\ truth' = ZeroC /\ reported' = <<>>
         /\ UNCHANGED <<created, ntally>>

Next == (\E s \in Streams, d \in Comps : Tally(s, d)) \/ Reduce \/ Clear
Spec == Init /\ [][Next]_vars

ReduceIsSum == reported # <<>> => reported = truth
\* a stream's state is only ever written by that stream (slot discipline): st[s] = 0 unless created[s]
SlotDiscipline == \A s \in Streams : ~created[s] => st[s] = ZeroC
=============================================================================
