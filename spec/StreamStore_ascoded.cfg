SPECIFICATION Spec
CONSTANTS NStreams = 4
  NComp = 2
  MaxTally = 4
  Variant = "ascoded"
INVARIANTS ReduceIsSum SlotDiscipline
CHECK_DEADLOCK FALSE
