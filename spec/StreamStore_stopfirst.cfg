SPECIFICATION Spec
CONSTANTS NStreams = 4
  NComp = 2
  MaxTally = 4
  Variant = "stopfirst"
INVARIANTS ReduceIsSum SlotDiscipline
CHECK_DEADLOCK FALSE
