------------------------------- MODULE Streams -------------------------------
(* C07: concurrent streams sharing one set of problem parameters.

   Threads (one per stream) execute, at CALL granularity, the program
       Construct (Stepper ctor: CoreState + begin_run of every action)  ;  ( Reseed+Step* )* per event
   and, at ACCESS granularity inside begin_run, the lazy initialisation of the shared objects
   that are not built before the first Stepper exists:
       ActionDiagnostic::store_   (StreamStore of tally params/states)
       StatusChecker::data_       (CollectionMirror of action orders)
   Everything else reachable from CoreParams is immutable after setup, per-stream state lives
   in per-stream slots (StreamStore::state(stream), AuxStateVec of the CoreState) and is only
   touched by its own stream.

   The access discipline is checked by a happens-before race detector: every access to a shared
   object records (thread, kind, vector clock); two accesses to the same object by different
   threads, at least one a write, must be ordered by happens-before (program order + mutex
   release/acquire).  Constant Variant selects the lazy initialisers AS CODED at the pinned
   commit ("ascoded": ActionDiagnostic tests store_ outside its mutex -- double-checked locking
   on a non-atomic; StatusChecker rebuilds data_ in every begin_run with no lock) or REPAIRED
   ("fixed": test and build under the mutex).  TLC must refute NoRace for "ascoded" (findings
   F-MT-1, F-MT-2: that run is kept as a vacuity guard) and prove it for "fixed".

   The functional half (per-event results independent of the interleaving and of the
   event -> stream assignment) is SerialEquivalence: an event's result is a function of the
   event only, because Step reads only per-stream state and immutable params, and Reseed
   depends on (seed, event, slot).  The model carries a `taint' per stream state: the set of
   foreign streams whose writes it has observed -- which must stay empty. *)
EXTENDS Integers, Sequences, FiniteSets, TLC, Json

CONSTANTS Threads,        \* e.g. {0,1,2}
          Assign,         \* [Threads -> Seq(events)]
          Variant,        \* "ascoded" | "fixed"
          WithDiag, WithChecker,   \* BOOLEAN: ActionDiagnostic / StatusChecker registered
          MaxSteps,       \* Stepper calls per event (abstract length of an event)
          SlotOf          \* [Threads -> index of the per-stream state slot used by that stream]
                          \* (the code: StreamStore::state(state.stream_id()), one slot per StreamId)

Objs == {"diag.store", "checker.data"}
Locks == {"diag.mutex", "checker.mutex"}

VARIABLES pc,        \* [Threads -> program counter]
          evi,       \* [Threads -> index of the current event in Assign[t]]
          stepk,     \* [Threads -> steps taken in the current event]
          init,      \* [Objs -> BOOLEAN]  object has been built
          seen,      \* [Threads -> [Objs -> BOOLEAN]] result of the unlocked test (local)
          holder,    \* [Locks -> thread or -1]
          vc,        \* [Threads -> [Threads -> Nat]] vector clocks
          lvc,       \* [Locks -> vector clock of the last release]
          acc,       \* [Objs -> set of [t, w, c]] recorded accesses (w = write?, c = clock snapshot)
          race,      \* set of objects on which a race was detected
          done,      \* [Threads -> set of events completed]
          taint,     \* [Threads -> set of foreign threads whose per-stream writes were read]
          store,     \* [slot index -> last thread that wrote the per-stream state in it, or -1]
          sched      \* ghost: sequence of thread ids, one per CALL (construct / step), for replay
vars == <<pc, evi, stepk, init, seen, holder, vc, lvc, acc, race, done, taint, store, sched>>

Zero == [t \in Threads |-> 0]
Init ==
  /\ pc = [t \in Threads |-> "ctor"] /\ evi = [t \in Threads |-> 1] /\ stepk = [t \in Threads |-> 0]
  /\ init = [o \in Objs |-> FALSE] /\ seen = [t \in Threads |-> [o \in Objs |-> FALSE]]
  /\ holder = [k \in Locks |-> -1]
  /\ vc = [t \in Threads |-> [u \in Threads |-> IF u = t THEN 1 ELSE 0]]
  /\ lvc = [k \in Locks |-> Zero]
  /\ acc = [o \in Objs |-> {}] /\ race = {} /\ done = [t \in Threads |-> {}]
  /\ taint = [t \in Threads |-> {}] /\ sched = <<>>
  /\ store = [i \in {SlotOf[t] : t \in Threads} |-> -1]

Leq(a, b) == \A u \in Threads : a[u] <= b[u]
Join(a, b) == [u \in Threads |-> IF a[u] > b[u] THEN a[u] ELSE b[u]]
Tick(t) == [vc EXCEPT ![t][t] = @ + 1]

\* record an access and detect unordered conflicting accesses (FastTrack-style, full history)
Access(t, o, w) ==
  LET conflicts == {a \in acc[o] : a.t # t /\ (a.w \/ w) /\ ~Leq(a.c, vc[t])}
  IN /\ acc' = [acc EXCEPT ![o] = @ \cup {[t |-> t, w |-> w, c |-> vc[t]]}]
     /\ race' = IF conflicts # {} THEN race \cup {o} ELSE race

Acquire(t, k) == /\ holder[k] = -1 /\ holder' = [holder EXCEPT ![k] = t]
                 /\ vc' = [vc EXCEPT ![t] = Join(@, lvc[k])] /\ UNCHANGED lvc
Release(t, k) == /\ holder[k] = t /\ holder' = [holder EXCEPT ![k] = -1]
                 /\ lvc' = [lvc EXCEPT ![k] = vc[t]] /\ vc' = Tick(t)

Goto(t, l) == pc' = [pc EXCEPT ![t] = l]
Same == UNCHANGED <<evi, stepk, done, taint, store>>

\* ---- Stepper constructor: CoreState (per stream, private) then begin_run of each action ----
Ctor(t) == /\ pc[t] = "ctor" /\ Goto(t, IF WithDiag THEN "d.test" ELSE IF WithChecker THEN "c.enter" ELSE "run")
           /\ sched' = Append(sched, t)
           /\ UNCHANGED <<init, seen, holder, vc, lvc, acc, race>> /\ Same

\* ActionDiagnostic::begin_run_impl
\*   ascoded:  if (!store_) { lock; if (!store_) { build; store_ = ...; } unlock }
\*   fixed:    lock; if (!store_) { build } unlock
DTest(t) == /\ pc[t] = "d.test"
            /\ IF Variant = "ascoded"
               THEN /\ Access(t, "diag.store", FALSE)                    \* unlocked read of store_
                    /\ seen' = [seen EXCEPT ![t]["diag.store"] = init["diag.store"]]
                    /\ Goto(t, IF init["diag.store"] THEN "d.done" ELSE "d.lock")
               ELSE /\ Goto(t, "d.lock") /\ UNCHANGED <<acc, race, seen>>
            /\ UNCHANGED <<init, holder, vc, lvc, sched>> /\ Same
DLock(t) == /\ pc[t] = "d.lock" /\ Acquire(t, "diag.mutex") /\ Goto(t, "d.build")
            /\ UNCHANGED <<init, seen, acc, race, sched>> /\ Same
DBuild(t) == /\ pc[t] = "d.build"
             /\ IF init["diag.store"]
                THEN Access(t, "diag.store", FALSE) /\ UNCHANGED init
                ELSE Access(t, "diag.store", TRUE) /\ init' = [init EXCEPT !["diag.store"] = TRUE]
             /\ Goto(t, "d.unlock") /\ UNCHANGED <<seen, holder, vc, lvc, sched>> /\ Same
DUnlock(t) == /\ pc[t] = "d.unlock" /\ Release(t, "diag.mutex") /\ Goto(t, "d.done")
              /\ UNCHANGED <<init, seen, acc, race, sched>> /\ Same
DDone(t) == /\ pc[t] = "d.done" /\ Goto(t, IF WithChecker THEN "c.enter" ELSE "run")
            /\ UNCHANGED <<init, seen, holder, vc, lvc, acc, race, sched>> /\ Same

\* StatusChecker::begin_run_impl
\*   ascoded:  build host_val; data_ = ...          (every begin_run, no lock)
\*   fixed:    lock; if (!data_) { build }; unlock
CEnter(t) == /\ pc[t] = "c.enter"
             /\ IF Variant = "ascoded"
                THEN /\ Access(t, "checker.data", TRUE) /\ init' = [init EXCEPT !["checker.data"] = TRUE]
                     /\ Goto(t, "run") /\ UNCHANGED <<holder, vc, lvc>>
                ELSE /\ Acquire(t, "checker.mutex") /\ Goto(t, "c.build") /\ UNCHANGED <<acc, race, init>>
             /\ UNCHANGED <<seen, sched>> /\ Same
CBuild(t) == /\ pc[t] = "c.build"
             /\ IF init["checker.data"]
                THEN Access(t, "checker.data", FALSE) /\ UNCHANGED init
                ELSE Access(t, "checker.data", TRUE) /\ init' = [init EXCEPT !["checker.data"] = TRUE]
             /\ Goto(t, "c.unlock") /\ UNCHANGED <<seen, holder, vc, lvc, sched>> /\ Same
CUnlock(t) == /\ pc[t] = "c.unlock" /\ Release(t, "checker.mutex") /\ Goto(t, "run")
              /\ UNCHANGED <<init, seen, acc, race, sched>> /\ Same

\* ---- transport: each Step reads the shared objects (diag params, checker orders) -------------
Step(t) ==
  /\ pc[t] = "run" /\ evi[t] <= Len(Assign[t])
  /\ sched' = Append(sched, t)
  /\ IF WithDiag /\ WithChecker
     THEN \* two reads in one call: record both
          LET c1 == {a \in acc["diag.store"] : a.t # t /\ a.w /\ ~Leq(a.c, vc[t])}
              c2 == {a \in acc["checker.data"] : a.t # t /\ a.w /\ ~Leq(a.c, vc[t])}
          IN /\ acc' = [o \in Objs |-> acc[o] \cup {[t |-> t, w |-> FALSE, c |-> vc[t]]}]
             /\ race' = race \cup (IF c1 # {} THEN {"diag.store"} ELSE {}) \cup (IF c2 # {} THEN {"checker.data"} ELSE {})
     ELSE IF WithDiag THEN Access(t, "diag.store", FALSE)
     ELSE IF WithChecker THEN Access(t, "checker.data", FALSE)
     ELSE UNCHANGED <<acc, race>>
  /\ IF stepk[t] + 1 = MaxSteps
     THEN /\ stepk' = [stepk EXCEPT ![t] = 0] /\ evi' = [evi EXCEPT ![t] = @ + 1]
          /\ done' = [done EXCEPT ![t] = @ \cup {Assign[t][evi[t]]}]
     ELSE /\ stepk' = [stepk EXCEPT ![t] = @ + 1] /\ UNCHANGED <<evi, done>>
  \* per-stream tallies / step buffers: read-modify-write of this stream's slot
  /\ taint' = [taint EXCEPT ![t] = IF store[SlotOf[t]] \notin {-1, t} THEN @ \cup {store[SlotOf[t]]} ELSE @]
  /\ store' = [store EXCEPT ![SlotOf[t]] = t]
  /\ UNCHANGED <<pc, init, seen, holder, vc, lvc>>

Next == \E t \in Threads :
          Ctor(t) \/ DTest(t) \/ DLock(t) \/ DBuild(t) \/ DUnlock(t) \/ DDone(t)
          \/ CEnter(t) \/ CBuild(t) \/ CUnlock(t) \/ Step(t)
Spec == Init /\ [][Next]_vars

Finished == \A t \in Threads : pc[t] = "run" /\ evi[t] > Len(Assign[t])
NoRace == race = {}
\* no stream ever consumes another stream's mutable state
SerialEquivalence == \A t \in Threads : taint[t] = {}
AllEventsDone == Finished => UNION {done[t] : t \in Threads} = UNION {{Assign[t][i] : i \in DOMAIN Assign[t]} : t \in Threads}
MutexSafe == \A k \in Locks : holder[k] \in Threads \cup {-1}
\* emit the call-level schedule of every completed behaviour (for the baton replay)
EmitSchedule == Finished => PrintT(<<"SCHEDULE", ToJson(sched)>>)
\* the fingerprint ignores the ghost schedule when only safety is checked
View == <<pc, evi, stepk, init, seen, holder, vc, lvc, acc, race, done, taint, store>>
=============================================================================
