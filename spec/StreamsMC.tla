------------------------------ MODULE StreamsMC ------------------------------
EXTENDS Streams
AssignDef == [t \in Threads |-> IF t = 0 THEN <<0, 3>> ELSE IF t = 1 THEN <<1>> ELSE <<2>>]
AssignSched == [t \in Threads |-> IF t = 0 THEN <<0>> ELSE IF t = 1 THEN <<1>> ELSE <<2>>]
SlotById == [t \in Threads |-> t]
SlotShared == [t \in Threads |-> 0]     \* mutant: per-stream store indexed by a constant
=============================================================================
