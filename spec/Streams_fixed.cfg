SPECIFICATION Spec
CONSTANTS
  Threads = {0, 1, 2}
  Assign <- AssignDef
  Variant = "fixed"
  WithDiag = TRUE
  WithChecker = TRUE
  MaxSteps = 2
  SlotOf <- SlotById
INVARIANT NoRace
INVARIANT SerialEquivalence
INVARIANT AllEventsDone
INVARIANT MutexSafe
VIEW View
CHECK_DEADLOCK FALSE
