----------------------------- MODULE SurfDedupe -----------------------------
(* Extension X05: soft de-duplication of surfaces while a unit is being built
   (src/orange/orangeinp/detail/LocalSurfaceInserter.{hh,cc}, SurfaceGridHash.{hh,cc},
   src/orange/surf/SoftSurfaceEqual.{hh,cc}; consumer CsgUnitBuilder::insert_surface).

   VOCABULARY (exact).  A surface is <<t, k>>: a type (index or name) and ONE characteristic length
   (position of an axis-aligned plane, radius of a centred sphere / cylinder) given in integer quanta.
   A run has a base offset B: the surface <<t, k>> sits at (B + k) quanta.  The tolerance is
       abs = G.A quanta (the checks use A = 4: q = abs/4),   rel = 1/G.R
   so SoftEqual's comparison  |a-b| < max(abs, rel*max(|a|,|b|))  (STRICT, corecel/math/SoftEqual.hh)
   is the integer predicate SoftEqK.  All quantities are dyadic in the harness, so the doubles the
   real code compares are exactly these integers times q.

   STATE MACHINE.  One public call, LocalSurfaceInserter::operator()(surface), with the three
   documented cases as three actions (see SurfDedupeMC):
       Exact    an exactly equal surface is already stored: do not insert, return the id that was
                returned for it the first time
       Near     soft-equal to a stored surface but identical to none: insert AND return the
                (canonical) id of the match, so that nearby surfaces can be chained
       Unique   soft-equal to no stored surface: insert and return the new id
   AlgStep is the algorithm; Variant "ref" is the reference semantics (hash-free: every stored
   surface of the same type is compared), "coded" adds the grid hash as coded (SurfaceGridHash:
   own bin first, then the one adjacent bin reached by -eps or else +eps; within a bin the
   std::unordered_multimap order G.order), the "mut_*" variants are plausible wrong algorithms
   used as vacuity guards.

   CLAUSES (property level, hash-free, functions of the call history only: the surfaces passed,
   the ids returned and the vector sizes after every call) -- StepViolations returns the names of
   the violated ones for call n:
     X05.VectorOnlyGrows    size after \in {size before, size before + 1}
     X05.IdInRange          0 <= returned id < size after
     X05.ExactNoGrow        an exactly equal surface was passed before => the vector does not grow
     X05.ExactSameId        ... and the id is the one returned for its first occurrence
     X05.GrowsUnlessExact   no exactly equal earlier surface => the vector grows by one
     X05.SameType           the surface stored under the returned id has the type of the argument
     X05.OwnRepresentative  (a) the returned id is its own representative: the call that stored
                            that surface returned that very id
     X05.ChainConnected     (b) the argument is connected to the surface stored under the returned id
                            by a chain of pairwise soft-equal surfaces of its type passed so far
     X05.RepOfNear          when an existing id is returned (not exact) it is the id that was returned
                            for some earlier surface soft-equal to the argument
     X05.FreshIfUnique      (c) soft-equal to no earlier surface of its type => fresh id (= old size)
     X05.MergeIfNear        soft-equal to some earlier surface of its type => an existing id
     X05.ChoiceNewestNear   WHICH representative when several earlier surfaces (possibly with different
                            representatives) are soft-equal: the one of the most recently STORED
                            soft-equal surface ("newest near"; this is what the code does whenever
                            the hash reach covers the tolerance: first hit in a multimap bucket
                            that lists newest first)
   Together the clauses make the result a function of the insertion sequence and the soft-equality
   relation only (Ref); in particular it is independent of where hash-bin edges fall and of a
   common translation that preserves the relation (X05.TranslationInvariant, stated in the trace
   spec between runs of one sequence at different bases).

   GRID HASH (integers).  Bin width W = Wn/Wd quanta, reach eps = En/Ed quanta; bin(x) =
   floor((x + W/2) / W) (SurfaceGridHash::calc_bin), keys(x) = <<bin(x)>> followed by bin(x-eps) if it
   differs, else bin(x+eps) if it differs (operator()).  Hash collisions between different bins
   (hash_combine) only add candidates that are then compared, so they cannot change a result and
   are not modelled.

   NAMED DEVIATION GridHashMiss (finding F-DEDUPE-1): the coded reach is eps = 2*rel taken as an
   ABSOLUTE length while the tolerance is max(abs, rel*|x|); where the tolerance exceeds the reach a
   soft-equal earlier surface across a bin edge is not filed under the new surface's own key
   (Demoted).  Only X05.MergeIfNear / X05.ChoiceNewestNear can fail that way (DevEligible). *)
EXTENDS Integers, Sequences, FiniteSets, SequencesExt

AbsV(x) == IF x < 0 THEN -x ELSE x
Max2(a, b) == IF a >= b THEN a ELSE b
MaxOfSet(S) == CHOOSE x \in S : \A y \in S : y <= x
MinOfSet(S) == CHOOSE x \in S : \A y \in S : x <= y

TypeOf(s) == s[1]
PosOf(s) == s[2]

-----------------------------------------------------------------------------
(* soft equality of two lengths in quanta: |a-b| < max(abs, rel*max(|a|,|b|)), times G.R *)
SoftEqK(G, a, b) == AbsV(a - b) * G.R < Max2(G.A * G.R, Max2(AbsV(a), AbsV(b)))
SoftLeK(G, a, b) == AbsV(a - b) * G.R <= Max2(G.A * G.R, Max2(AbsV(a), AbsV(b)))   \* mutant
SoftEq(G, B, s1, s2) == TypeOf(s1) = TypeOf(s2) /\ SoftEqK(G, B + PosOf(s1), B + PosOf(s2))

(* grid hash: bin of (K + sgn*eps) quanta *)
BinOf(G, K, sgn) ==
  ((2 * G.Wd) * (K * G.Ed + sgn * G.En) + G.Wn * G.Ed) \div (2 * G.Wn * G.Ed)
Keys(G, K) ==
  LET o == BinOf(G, K, 0)  lft == BinOf(G, K, -1)  rgt == BinOf(G, K, 1) IN
  IF lft # o THEN <<o, lft>> ELSE IF rgt # o THEN <<o, rgt>> ELSE <<o>>
KeySet(G, K) == LET ks == Keys(G, K) IN {ks[i] : i \in DOMAIN ks}
(* a lattice point (or its +-eps neighbour) exactly on a bin edge: the floating-point bin is then
   not determined by the integers; generators avoid these *)
OnEdge(G, K) ==
  \E sgn \in {-1, 0, 1} :
     ((2 * G.Wd) * (K * G.Ed + sgn * G.En) + G.Wn * G.Ed) % (2 * G.Wn * G.Ed) = 0

-----------------------------------------------------------------------------
(* THE ALGORITHM.  st = [vec, rep, seq, rets, sizes]: the stored surfaces, for each stored surface the
   id returned when it was stored (merged_ resolved: rep[i] = i-1 for an original), and the
   ghost history.  Ids are 0-based, sequences 1-based. *)
AlgInit == [vec |-> <<>>, rep |-> <<>>, seq |-> <<>>, rets |-> <<>>, sizes |-> <<>>]

AlgStep(V, G, B, st, s) ==
  LET vec == st.vec
      rep == st.rep
      m == Len(vec)
      K == B + PosOf(s)
      ks == Keys(G, K)
      hashed == V = "coded"
      soft(i) == /\ (V = "mut_notype" \/ TypeOf(vec[i]) = TypeOf(s))
                 /\ IF V = "mut_le" THEN SoftLeK(G, B + PosOf(vec[i]), K)
                                    ELSE SoftEqK(G, B + PosOf(vec[i]), K)
      filed(i, key) == TypeOf(vec[i]) = TypeOf(s) /\ key \in KeySet(G, B + PosOf(vec[i]))
      ownN == {i \in 1..m : soft(i) /\ (~hashed \/ filed(i, ks[1]))}
      secN == IF hashed /\ Len(ks) = 2 THEN {i \in 1..m : soft(i) /\ filed(i, ks[2])} ELSE {}
      newestFirst == (G.order = "newest") # (V = "mut_oldest")
      pick(S) == IF newestFirst THEN MaxOfSet(S) ELSE MinOfSet(S)
      ex == {i \in 1..m : vec[i] = s}
      nm == IF ownN # {} THEN pick(ownN) ELSE IF secN # {} THEN pick(secN) ELSE 0
      pushed(r) == [vec |-> Append(vec, s), rep |-> Append(rep, r)]
      same == [vec |-> vec, rep |-> rep]
  IN
  IF ex # {}
  THEN \* exactly equal to a stored surface: find_merged(exact_match), nothing stored
       LET e == pick(ex)
           r == IF V = "mut_exactret" THEN e - 1 ELSE rep[e] IN
       [case |-> "exact", ret |-> r, nx |-> IF V = "mut_exactgrows" THEN pushed(r) ELSE same]
  ELSE IF nm # 0
  THEN \* soft-equal to a stored surface: store it, merge_impl(source, near_match)
       LET r == IF V = "mut_noresolve" THEN nm - 1 ELSE rep[nm] IN
       [case |-> "near", ret |-> r, nx |-> IF V = "mut_nochain" THEN same ELSE pushed(r)]
  ELSE [case |-> "unique", ret |-> m, nx |-> pushed(m)]

AlgNext(V, G, B, st, s) ==
  LET o == AlgStep(V, G, B, st, s) IN
  [vec |-> o.nx.vec, rep |-> o.nx.rep, seq |-> Append(st.seq, s),
   rets |-> Append(st.rets, o.ret), sizes |-> Append(st.sizes, Len(o.nx.vec))]

AlgRun(V, G, B, seq) == FoldLeft(LAMBDA st, s : AlgNext(V, G, B, st, s), AlgInit, seq)

(* reference semantics: a function of the sequence and the soft-equality relation only *)
Ref(G, B, seq) == AlgRun("ref", G, B, seq)

-----------------------------------------------------------------------------
(* CLAUSES over a history (seq, rets, sizes), call n *)
SizeBefore(sizes, n) == IF n = 1 THEN 0 ELSE sizes[n - 1]
ExactEarlier(seq, n) == {j \in 1..(n - 1) : seq[j] = seq[n]}
Firsts(seq, n) == {j \in 1..(n - 1) : \A i \in 1..(j - 1) : seq[i] # seq[j]}    \* first occurrences before n
Near(G, B, seq, n) == {j \in Firsts(seq, n) : SoftEq(G, B, seq[j], seq[n])}
(* calls that stored the vector element id *)
Pushers(sizes, n, id) == {j \in 1..n : SizeBefore(sizes, j) = id /\ sizes[j] = id + 1}

Reach(N, E(_, _), start) ==
  FoldLeft(LAMBDA S, i : S \cup {y \in N : \E x \in S : E(x, y)}, {start}, [i \in 1..Cardinality(N) |-> i])

Named(ok, name) == IF ok THEN {} ELSE {name}

StepViolations(G, B, seq, rets, sizes, n) ==
  LET s == seq[n]
      r == rets[n]
      m == SizeBefore(sizes, n)
      m2 == sizes[n]
      ex == ExactEarlier(seq, n)
      nr == Near(G, B, seq, n)
      ps == Pushers(sizes, n, r)
      sane == m2 \in {m, m + 1} /\ r >= 0 /\ r < m2 /\ ps # {}
      p == IF sane THEN MinOfSet(ps) ELSE n
      comp == Reach(1..n, LAMBDA x, y : SoftEq(G, B, seq[x], seq[y]), n)
  IN
  Named(m2 \in {m, m + 1}, "X05.VectorOnlyGrows")
  \cup Named(r >= 0 /\ r < m2, "X05.IdInRange")
  \cup Named(ex # {} => m2 = m, "X05.ExactNoGrow")
  \cup Named(ex # {} => r = rets[MinOfSet(ex)], "X05.ExactSameId")
  \cup Named(ex = {} => m2 = m + 1, "X05.GrowsUnlessExact")
  \cup (IF ~sane THEN {} ELSE
        Named(TypeOf(seq[p]) = TypeOf(s), "X05.SameType")
        \cup Named(rets[p] = r, "X05.OwnRepresentative")
        \cup Named(p \in comp, "X05.ChainConnected"))
  \cup Named((ex = {} /\ r < m) => \E j \in nr : rets[j] = r, "X05.RepOfNear")
  \cup Named(nr = {} => (r = m /\ m2 = m + 1), "X05.FreshIfUnique")
  \cup Named(nr # {} => r < m, "X05.MergeIfNear")
  \cup Named((ex = {} /\ nr # {}) => r = rets[MaxOfSet(nr)], "X05.ChoiceNewestNear")

RunViolations(G, B, seq, rets, sizes) ==
  UNION {StepViolations(G, B, seq, rets, sizes, n) : n \in 1..Len(seq)}

(* two different representatives among the soft-equal earlier surfaces: the choice matters *)
ChoiceMatters(G, B, seq, rets, n) ==
  Cardinality({rets[j] : j \in Near(G, B, seq, n)}) >= 2

-----------------------------------------------------------------------------
(* NAMED DEVIATION GridHashMiss: a soft-equal earlier surface that is not filed under the new
   surface's own key (it is invisible, or only seen after every surface of the own bin) *)
Demoted(G, B, seq, n) ==
  \E j \in Near(G, B, seq, n) :
     Keys(G, B + PosOf(seq[n]))[1] \notin KeySet(G, B + PosOf(seq[j]))
DevEligible == {"X05.MergeIfNear", "X05.ChoiceNewestNear"}
(* the violated clauses of call n are explained by the deviation *)
HashMissExplains(G, B, seq, rets, sizes, n) ==
  /\ StepViolations(G, B, seq, rets, sizes, n) \subseteq DevEligible
  /\ Demoted(G, B, seq, n)
(* the reach covers the tolerance for every surface of the sequence (then no surface is demoted) *)
ReachCovers(G, B, seq) ==
  \A n \in DOMAIN seq :
     LET K == AbsV(B + PosOf(seq[n])) + G.A IN
     Max2(G.A * G.R, K) * G.Ed <= G.En * G.R
(* same soft-equality relation at two bases: the contract demands the same result *)
SameSoftGraph(G, B1, B2, seq) ==
  \A i, j \in DOMAIN seq : SoftEq(G, B1, seq[i], seq[j]) = SoftEq(G, B2, seq[i], seq[j])
=============================================================================
