---------------------------- MODULE SurfDedupeMC ----------------------------
(* Design check for spec/SurfDedupe.tla (extension X05) -- no code involved.

   TLC enumerates EVERY insertion sequence of at most MaxLen surfaces over the alphabet
   {<<0, k>> : k \in PosA} \cup {<<1, k>> : k \in PosB} (two surface types), for every base offset in
   Bases (the bases put a hash-bin edge at different places inside the position range), runs the
   algorithm variant Variant step by step (one action per documented case of the public call) and
   checks after every call:
     ClausesHold      no clause of SurfDedupe!StepViolations is violated by the call just made
     MatchesRef       ids and sizes equal the reference semantics Ref (hash-free), i.e. the result
                      does not depend on the base / the bin edges
     RepsAreRoots     every stored representative is its own representative (merged_ needs one hop)
     NoDuplicates     the vector never holds two exactly equal surfaces
     Dense            representatives are stored ids
   Configurations (.cfg):
     SurfDedupeMC             Variant "ref": the reference semantics satisfies every clause
     SurfDedupeMC_coded       Variant "coded", grid of Tolerance length scale 1 (reach eps = 2*rel =
                              8 quanta >= tolerance 4 quanta), bases straddling bin edges: all
                              invariants hold -- where the reach covers the tolerance the hash is
                              invisible
     SurfDedupeMC_f1          Variant "coded", length scale 100 (reach 0.08 quanta < tolerance):
                              ClausesHold is REFUTED (finding F-DEDUPE-1 at design level) ...
     SurfDedupeMC_ascoded     ... and ModuloHashMiss holds: every violated clause is explained by the
                              exactly scoped deviation GridHashMiss
     SurfDedupeMC_rel         Variant "coded", length scale 1, positions 16 length units from the
                              origin where the RELATIVE tolerance (64 quanta) governs: ModuloHashMiss
     SurfDedupeMC_mut_*       plausible wrong algorithms, each MUST be refuted (vacuity guards):
        noresolve   returns the near match itself, not its representative   (OwnRepresentative)
        nochain     does not store a near duplicate                          (GrowsUnlessExact / MergeIfNear)
        exactgrows  stores an exact duplicate again                          (ExactNoGrow)
        exactret    returns the exact match itself (find_merged dropped)     (ExactSameId)
        oldest      picks the oldest soft-equal surface                      (ChoiceNewestNear)
        le          soft equality with <= instead of <                       (FreshIfUnique)
        notype      compares across surface types                            (SameType) *)
EXTENDS SurfDedupe, TLC

CONSTANTS PosA, PosB, Step,     \* positions are Step * k quanta for k in PosA / PosB
          MaxLen, Bases, Variant,
          R, A, Wn, Wd, En, Ed, Order

G == [R |-> R, A |-> A, Wn |-> Wn, Wd |-> Wd, En |-> En, Ed |-> Ed, order |-> Order]
Alphabet == {<<0, Step * k>> : k \in PosA} \cup {<<1, Step * k>> : k \in PosB}

VARIABLES phase, base, st, viol, lastcase
vars == <<phase, base, st, viol, lastcase>>

Init == phase = "pick" /\ base = 0 /\ st = AlgInit /\ viol = {} /\ lastcase = "none"

\* LocalSurfaceInserter(&surfaces, tol): empty vector; the base is the environment's choice
Construct ==
  /\ phase = "pick"
  /\ \E b \in Bases : base' = b
  /\ phase' = "run"
  /\ UNCHANGED <<st, viol, lastcase>>

\* operator()(surface) on the current state: what the variant's algorithm does with s
Call(s) == AlgStep(Variant, G, base, st, s)
Commit(s, o) ==
  LET nx == [vec |-> o.nx.vec, rep |-> o.nx.rep, seq |-> Append(st.seq, s),
             rets |-> Append(st.rets, o.ret), sizes |-> Append(st.sizes, Len(o.nx.vec))] IN
  /\ st' = nx
  /\ viol' = StepViolations(G, base, nx.seq, nx.rets, nx.sizes, Len(nx.seq))
  /\ lastcase' = o.case
CanCall == phase = "run" /\ Len(st.seq) < MaxLen

\* the three documented cases of the one public call
InsertExact ==     \* exactly equal to a stored surface: nothing stored, its first id returned
  /\ CanCall
  /\ \E s \in Alphabet : Call(s).case = "exact" /\ Commit(s, Call(s))
  /\ UNCHANGED <<phase, base>>
InsertNear ==      \* soft-equal but identical to none: stored, the canonical id of the match returned
  /\ CanCall
  /\ \E s \in Alphabet : Call(s).case = "near" /\ Commit(s, Call(s))
  /\ UNCHANGED <<phase, base>>
InsertUnique ==    \* soft-equal to nothing stored: stored, fresh id
  /\ CanCall
  /\ \E s \in Alphabet : Call(s).case = "unique" /\ Commit(s, Call(s))
  /\ UNCHANGED <<phase, base>>

Next == Construct \/ InsertExact \/ InsertNear \/ InsertUnique
Spec == Init /\ [][Next]_vars

-----------------------------------------------------------------------------
ClausesHold == viol = {}
MatchesRef ==
  LET ref == Ref(G, base, st.seq) IN st.rets = ref.rets /\ st.sizes = ref.sizes
RepsAreRoots == \A i \in DOMAIN st.rep : st.rep[st.rep[i] + 1] = st.rep[i]
NoDuplicates == \A i, j \in DOMAIN st.vec : i # j => st.vec[i] # st.vec[j]
Dense == /\ Len(st.rep) = Len(st.vec)
         /\ \A i \in DOMAIN st.rep : st.rep[i] >= 0 /\ st.rep[i] < i
ModuloHashMiss ==
  viol # {} => HashMissExplains(G, base, st.seq, st.rets, st.sizes, Len(st.seq))
\* where the reach covers the tolerance no surface is ever demoted
CoverMeansNoDemotion ==
  (st.seq # <<>> /\ ReachCovers(G, base, st.seq)) => ~Demoted(G, base, st.seq, Len(st.seq))
\* the generators must avoid lattice points whose floating-point bin is undetermined
OffEdges == \A s \in Alphabet : \A b \in Bases : ~OnEdge(G, b + PosOf(s))
ASSUME OffEdges
=============================================================================
