SPECIFICATION Spec
CONSTANTS
  PosA = {0, 1, 2, 3, 4, 6, 7, 9, 12}
  PosB = {0, 3, 4}
  Step = 1
  MaxLen = 4
  Bases = {0, 234, 239, 242, 244}
  Variant = "coded"
  R = 4096
  A = 4
  Wn = 4096
  Wd = 25
  En = 2
  Ed = 25
  Order = "newest"
INVARIANT ModuloHashMiss
INVARIANT RepsAreRoots
INVARIANT NoDuplicates
INVARIANT Dense
INVARIANT CoverMeansNoDemotion
CHECK_DEADLOCK FALSE
