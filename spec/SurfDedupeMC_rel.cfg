SPECIFICATION Spec
CONSTANTS
  PosA = {0, 1, 2, 3, 4, 5, 6, 8, 9, 12}
  PosB = {0, 4, 5}
  Step = 16
  MaxLen = 4
  Bases = {262100, 262070}
  Variant = "coded"
  R = 4096
  A = 4
  Wn = 4096
  Wd = 25
  En = 8
  Ed = 1
  Order = "newest"
INVARIANT ModuloHashMiss
INVARIANT RepsAreRoots
INVARIANT NoDuplicates
INVARIANT Dense
INVARIANT CoverMeansNoDemotion
CHECK_DEADLOCK FALSE
