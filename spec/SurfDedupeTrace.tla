-------------------------- MODULE SurfDedupeTrace --------------------------
(* Trace validation for extension X05: every record logged by harness/vsurfdedupe.cc (the REAL
   LocalSurfaceInserter, and the real construction path UnitProto::build -> CsgUnitBuilder::
   insert_surface) must be explained by spec/SurfDedupe.tla.  One record = one step:

     Config  start of a run: mode (enum | list | unit), surface types, base offsets, the integer
             facts of the tolerance and the hash grid (spec: R A Wn Wd En Ed), the observed
             equal_range order of std::unordered_multimap (mm: an environment fact), and for
             mode enum the alphabet, the length and the index range of the enumeration
     Seq     one insertion sequence run on a FRESH inserter once per base: returned ids and vector
             sizes after every call.  In mode enum the sequences must be exactly the sequences of
             indices first .. first+count-1 in order (NextIndex): the enumeration is complete
     Unit    a unit made of boxes inside a sphere, built by the real UnitProto::build: the surfaces
             stored in the unit and, per volume, the surface ids met un-negated / negated
     Close   end of the run (record count; all lattice values exactly representable)

   The spec follows the log and ACCUMULATES the names of violated clauses (first record, count).
   Per run of a sequence:  results = Ref (the reference semantics, hash-free)  => conforming (and the
   clauses are evaluated as well unless FAST=1: SurfDedupeMC proves that Ref satisfies every clause);
   otherwise every clause is evaluated on the logged history and the violated ones are reported --
   unless the run is explained by the exactly scoped named deviation GridHashMiss (finding
   F-DEDUPE-1): results equal the as-coded model (Variant "coded": grid hash with the logged grid),
   only MergeIfNear / ChoiceNewestNear are violated, and at each violating call some soft-equal
   earlier surface is not filed under the new surface's own key.  Deviations are COUNTED (dev),
   never hidden.  X05.TranslationInvariant: runs of one sequence at two bases with the same
   soft-equality relation must give the same ids and sizes.
   Records out of protocol order, an Abort record or a missing Close reject the trace. *)
EXTENDS SurfDedupe, TLC, Json, IOUtils

TraceLog == ndJsonDeserialize(IOEnv.TRACE)
N == Len(TraceLog)
Fast == "FAST" \in DOMAIN IOEnv /\ IOEnv.FAST = "1"

VARIABLES l,      \* next record
          pc,     \* "config" | "run" | "closed"
          cfg,    \* the current Config record
          idx,    \* next enumeration index / record count of the run
          viol,   \* set of [clause, k (first record), n (records)]
          dev,    \* same shape, named deviations
          stat
vars == <<l, pc, cfg, idx, viol, dev, stat>>

Rec == TraceLog[l]

Bump(S, names) ==
  {d \in S : d.clause \notin names}
  \cup {[clause |-> c,
         n |-> (IF \E d \in S : d.clause = c THEN (CHOOSE d \in S : d.clause = c).n ELSE 0) + 1,
         k |-> (IF \E d \in S : d.clause = c THEN (CHOOSE d \in S : d.clause = c).k ELSE l)]
        : c \in names}

ZeroStat == [seqs |-> 0, runs |-> 0, calls |-> 0, exact |-> 0, near |-> 0, unique |-> 0,
             choice |-> 0, demoted |-> 0, devruns |-> 0, conform |-> 0, shiftpairs |-> 0,
             shiftskipped |-> 0, units |-> 0, unitsurfs |-> 0, unitmerged |-> 0, uniterr |-> 0]

Init ==
  /\ l = 1 /\ pc = "config" /\ cfg = [mode |-> "none"] /\ idx = 0 /\ viol = {} /\ dev = {}
  /\ stat = ZeroStat

GridOf(c) == [R |-> c.spec.R, A |-> c.spec.A, Wn |-> c.spec.Wn, Wd |-> c.spec.Wd,
              En |-> c.spec.En, Ed |-> c.spec.Ed, order |-> c.mm]

TConfig ==
  /\ pc \in {"config", "closed"} /\ Rec.e = "Config"
  /\ Rec.mode \in {"enum", "list", "unit"}
  /\ Rec.tol_valid
  /\ Rec.mm \in {"newest", "oldest"}
  /\ pc' = "run" /\ cfg' = Rec
  /\ idx' = IF Rec.mode = "enum" THEN Rec.first ELSE 0
  /\ UNCHANGED <<viol, dev, stat>>

\* digits of the enumeration index, most significant first
Digits(i, base, len) ==
  [p \in 1..len |-> (i \div FoldLeft(LAMBDA a, b : a * base, 1, [x \in 1..(len - p) |-> x])) % base]

RecSeq(r) ==
  IF cfg.mode = "enum" THEN [p \in 1..cfg.len |-> cfg.alpha[r.d[p] + 1]] ELSE r.s

\* outcome of one run: violated clauses, deviation names, statistics
RunOutcome(G, B, seq, rets, sizes) ==
  LET ref == Ref(G, B, seq)
      conform == rets = ref.rets /\ sizes = ref.sizes
      shape == Len(rets) = Len(seq) /\ Len(sizes) = Len(seq)
      steps == [n \in DOMAIN seq |-> IF shape THEN StepViolations(G, B, seq, rets, sizes, n) ELSE {}]
      V == IF ~shape THEN {"X05.RunRecordShape"}
           ELSE IF conform /\ Fast THEN {}
           ELSE UNION {steps[n] : n \in DOMAIN seq}
      coded == AlgRun("coded", G, B, seq)
      explained == /\ shape /\ ~conform /\ V # {}
                   /\ rets = coded.rets /\ sizes = coded.sizes
                   /\ \A n \in DOMAIN seq : steps[n] # {} => HashMissExplains(G, B, seq, rets, sizes, n)
  IN [conform |-> conform,
      v |-> IF explained THEN {}
            ELSE IF ~conform /\ V = {} THEN {"X05.DeterminedByContract"}
            ELSE IF conform /\ V # {} THEN V \cup {"X05.RefSatisfiesClauses"}
            ELSE V,
      d |-> IF explained THEN {"GridHashMiss"} ELSE {}]

TSeq ==
  /\ pc = "run" /\ cfg.mode \in {"enum", "list"} /\ Rec.e = "Seq"
  /\ Rec.i = idx /\ idx' = idx + 1
  /\ cfg.mode = "enum" => Rec.d = Digits(idx, Len(cfg.alpha), cfg.len)
  /\ Len(Rec.runs) = Len(cfg.bases)
  /\ LET G == GridOf(cfg)
         seq == RecSeq(Rec)
         nb == Len(cfg.bases)
         out == [b \in 1..nb |-> RunOutcome(G, cfg.bases[b], seq, Rec.runs[b].ids, Rec.runs[b].sz)]
         \* translation: compare every run with the first one that has the same soft-equality relation
         pairs == {b \in 2..nb : SameSoftGraph(G, cfg.bases[1], cfg.bases[b], seq)}
         differ == {b \in pairs : Rec.runs[b] # Rec.runs[1] /\ out[b].d = {} /\ out[1].d = {}}
         V == UNION {out[b].v : b \in 1..nb} \cup (IF differ # {} THEN {"X05.TranslationInvariant"} ELSE {})
         D == UNION {out[b].d : b \in 1..nb}
         r1 == Rec.runs[1]
         B1 == cfg.bases[1]
         ns == Len(seq)
         grew(n) == r1.sz[n] # SizeBefore(r1.sz, n)
     IN
     /\ viol' = Bump(viol, V)
     /\ dev' = Bump(dev, D)
     /\ stat' = [stat EXCEPT
           !.seqs = @ + 1, !.runs = @ + nb, !.calls = @ + nb * ns,
           !.exact = @ + Cardinality({n \in 1..ns : ~grew(n)}),
           !.near = @ + Cardinality({n \in 1..ns : grew(n) /\ r1.ids[n] # SizeBefore(r1.sz, n)}),
           !.unique = @ + Cardinality({n \in 1..ns : grew(n) /\ r1.ids[n] = SizeBefore(r1.sz, n)}),
           !.choice = @ + Cardinality({n \in 1..ns : ChoiceMatters(G, B1, seq, r1.ids, n)}),
           !.demoted = @ + Cardinality({b \in 1..nb : ~ReachCovers(G, cfg.bases[b], seq)
                                                         /\ \E n \in 1..ns : Demoted(G, cfg.bases[b], seq, n)}),
           !.devruns = @ + Cardinality({b \in 1..nb : out[b].d # {}}),
           !.conform = @ + Cardinality({b \in 1..nb : out[b].conform}),
           !.shiftpairs = @ + Cardinality(pairs),
           !.shiftskipped = @ + (nb - 1 - Cardinality(pairs))]
  /\ UNCHANGED <<pc, cfg>>

(* ---- the real construction path: a sphere of radius R (the boundary, built first) and boxes; a box
   inserts, per axis x y z, the plane at lo (volume on its positive side: un-negated) and then the
   plane at hi (negated).  The unit's surfaces must be Ref's vector, and every volume must use the
   ids Ref returns for its faces. ---- *)
AxisName == <<"px", "py", "pz">>
UnitSeq(r) ==
  <<<<"sc", r.R>>>> \o
  FoldLeft(LAMBDA acc, b : acc \o <<<<"px", b[1][1]>>, <<"px", b[1][2]>>, <<"py", b[2][1]>>,
                                    <<"py", b[2][2]>>, <<"pz", b[3][1]>>, <<"pz", b[3][2]>>>>,
           <<>>, r.boxes)
UnitMatches(r, run) ==
  /\ r.surfs = run.vec
  /\ Len(r.vols) = Len(r.boxes) + 1
  /\ ToSet(r.vols[1].pos) = {run.rets[1]} /\ r.vols[1].neg = <<>>
  /\ \A b \in DOMAIN r.boxes :
        /\ ToSet(r.vols[b + 1].pos) = {run.rets[1 + 6 * (b - 1) + a] : a \in {1, 3, 5}}
        /\ ToSet(r.vols[b + 1].neg) = {run.rets[1 + 6 * (b - 1) + a] : a \in {2, 4, 6}}
\* the input keeps clear of SurfaceSimplifier's snap-to-zero and of degenerate boxes
UnitInputOK(G, r) ==
  \A b \in DOMAIN r.boxes : \A a \in 1..3 :
     AbsV(r.boxes[b][a][1]) >= 2 * G.A /\ AbsV(r.boxes[b][a][2]) >= 2 * G.A
     /\ r.boxes[b][a][2] - r.boxes[b][a][1] >= 2 * G.A

TUnit ==
  /\ pc = "run" /\ cfg.mode = "unit" /\ Rec.e = "Unit"
  /\ Rec.i = idx /\ idx' = idx + 1
  /\ LET G == GridOf(cfg) IN
     IF "error" \in DOMAIN Rec
     THEN /\ viol' = Bump(viol, {"X05.UnitConstructs"}) /\ dev' = dev
          /\ stat' = [stat EXCEPT !.units = @ + 1, !.uniterr = @ + 1]
     ELSE LET seq == UnitSeq(Rec)
              ref == Ref(G, 0, seq)
              coded == AlgRun("coded", G, 0, seq)
              ok == UnitMatches(Rec, ref)
              explained == /\ ~ok /\ UnitMatches(Rec, coded)
                           /\ \A n \in DOMAIN seq :
                                 StepViolations(G, 0, seq, coded.rets, coded.sizes, n) # {}
                                   => HashMissExplains(G, 0, seq, coded.rets, coded.sizes, n)
              V == Named(UnitInputOK(G, Rec), "X05.UnitInputOK")
                   \cup Named(ok \/ explained, "X05.UnitSurfacesAsSpecified") IN
          /\ viol' = Bump(viol, V)
          /\ dev' = Bump(dev, IF explained THEN {"GridHashMiss"} ELSE {})
          /\ stat' = [stat EXCEPT !.units = @ + 1, !.unitsurfs = @ + Len(Rec.surfs),
                                  !.unitmerged = @ + (Len(seq) - Len(Rec.surfs))]
  /\ UNCHANGED <<pc, cfg>>

TClose ==
  /\ pc = "run" /\ Rec.e = "Close"
  /\ Rec.exact
  /\ IF cfg.mode = "enum" THEN idx = cfg.first + cfg.count /\ Rec.n = cfg.count ELSE Rec.n = idx
  /\ pc' = "closed"
  /\ UNCHANGED <<cfg, idx, viol, dev, stat>>

Next ==
  /\ l <= N /\ l' = l + 1
  /\ \/ TConfig \/ TSeq \/ TUnit \/ TClose
Spec == Init /\ [][Next]_vars

Accepted ==
  LET d == TLCGet("stats").diameter IN
  IF d - 1 = N /\ TraceLog[N].e = "Close" THEN TRUE
  ELSE /\ PrintT(<<"REJECTED", d, TraceLog[IF d <= N THEN d ELSE N]>>)
       /\ FALSE
Report == (l = N + 1) =>
   PrintT(<<"SUMMARY", ToJson([viol |-> viol, dev |-> dev, stat |-> stat])>>)
=============================================================================
