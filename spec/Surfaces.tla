------------------------------ MODULE Surfaces ------------------------------
(* Exact integer geometry of the ORANGE surface primitives (C12).

   Every surface type is a quadric  f(x) = x.A.x + b.x + k  and, for INTEGER
   parameters, integer points and integer (un-normalised) directions, everything the
   property says about SIGNS, COUNTS and ORDER is decided here in integer arithmetic:

     Sense(s,p)            = sign f_s(p)
     Ray(q,p,d)            = coefficients of g(t) = f(p + t d) = al t^2 + be t + ga
     NumPos(al,be,ga)      = number of positive parameters at which g changes sign
     Grad(q,p)             = gradient 2A p + b  (the outward normal up to a positive factor)
     Up/Down/RotUp/RotDown = daughter<->parent maps of T : x' = (R/den) x + t,
                             R an integer matrix with R R^T = den^2 I  (den = 1: the 48
                             signed permutations; den = 5, 13, 3, 7: Pythagorean rotations)
     TransformQuad(T,q)    = the quadric of the transformed point set (design check and
                             the scoping of named deviations only; trace validation
                             compares the CODE's transformed surface with Sense(s,p))
     MatMul Transpose Gemv QuarterRot RodriguesScaled Compose InverseT SPermMat SPermValue
                           = the integer matrix algebra behind orange/MatrixUtils, transform
                             composition / inversion and SignedPermutation

   A quadric is the record [a, c, b, k]:
        f(x) = a1 x^2 + a2 y^2 + a3 z^2 + c1 xy + c2 yz + c3 zx + b.x + k
   (the storage order of celeritas' GeneralQuadric).  Quad(s) is a POSITIVE integer
   multiple of the function the C++ class evaluates (planes are multiplied by |n|, cones
   by the denominator of tan^2), so signs agree.

   Surface records  s = [t |-> type, d |-> parameters], types named as celeritas'
   SurfaceType:
     px py pz      <<position>>
     cxc cyc czc   <<radius^2>>
     sc            <<radius^2>>
     cx cy cz      <<origin_u, origin_v, radius^2>>          (u,v as in CylAligned)
     p             <<n1, n2, n3, d>>     n.x - d = 0 , n # 0  (code: n/|n| , d/|n|)
     s             <<ox, oy, oz, radius^2>>
     kx ky kz      <<ox, oy, oz, tn, td>>   tan^2 = tn/td , td > 0
     sq            <<a,b,c, d,e,f, g>>
     gq            <<a,b,c, d,e,f, g,h,i, j>>                 (d,e,f = xy, yz, zx)       *)
EXTENDS Integers, Sequences, FiniteSets

Abs(x) == IF x < 0 THEN -x ELSE x
Sgn(x) == IF x > 0 THEN 1 ELSE IF x < 0 THEN -1 ELSE 0
Dot(u, v) == u[1] * v[1] + u[2] * v[2] + u[3] * v[3]
Unit(i) == [j \in 1..3 |-> IF j = i THEN 1 ELSE 0]
VAdd(u, v) == [i \in 1..3 |-> u[i] + v[i]]
VSub(u, v) == [i \in 1..3 |-> u[i] - v[i]]
VScale(m, v) == [i \in 1..3 |-> m * v[i]]
Zero3 == <<0, 0, 0>>

\* ---------------------------------------------------------------- surface types
PlaneAlignedT == {"px", "py", "pz"}
CylCenteredT == {"cxc", "cyc", "czc"}
CylAlignedT == {"cx", "cy", "cz"}
ConeAlignedT == {"kx", "ky", "kz"}
SurfaceTypes == PlaneAlignedT \cup CylCenteredT \cup CylAlignedT \cup ConeAlignedT
                  \cup {"sc", "p", "s", "sq", "gq"}

\* the axis T of an axis-aligned type, and the other two (U, V) as the C++ templates pick them
TAx(t) == CASE t \in {"px", "cxc", "cx", "kx"} -> 1
            [] t \in {"py", "cyc", "cy", "ky"} -> 2
            [] t \in {"pz", "czc", "cz", "kz"} -> 3
UAx(T) == IF T = 1 THEN 2 ELSE 1
VAx(T) == IF T = 3 THEN 2 ELSE 3

\* ---------------------------------------------------------------- quadric forms
MkQuad(a, c, b, k) == [a |-> a, c |-> c, b |-> b, k |-> k]

\* n.x - d
QPlane(n, d) == MkQuad(Zero3, Zero3, n, -d)
\* sum_i w_i (x_i - o_i)^2 - rsq   (sphere, cylinder, cone are all of this shape)
QCentral(w, o, rsq) ==
  MkQuad(w, Zero3, [i \in 1..3 |-> -2 * w[i] * o[i]],
         w[1] * o[1] * o[1] + w[2] * o[2] * o[2] + w[3] * o[3] * o[3] - rsq)

WellFormed(s) ==
  /\ s.t \in SurfaceTypes
  /\ CASE s.t \in PlaneAlignedT -> Len(s.d) = 1
       [] s.t \in CylCenteredT -> Len(s.d) = 1 /\ s.d[1] > 0
       [] s.t = "sc" -> Len(s.d) = 1 /\ s.d[1] > 0
       [] s.t \in CylAlignedT -> Len(s.d) = 3 /\ s.d[3] > 0
       [] s.t = "p" -> Len(s.d) = 4 /\ <<s.d[1], s.d[2], s.d[3]>> # Zero3
       [] s.t = "s" -> Len(s.d) = 4 /\ s.d[4] > 0
       [] s.t \in ConeAlignedT -> Len(s.d) = 5 /\ s.d[4] > 0 /\ s.d[5] > 0
       [] s.t = "sq" -> Len(s.d) = 7 /\ \E i \in 1..6 : s.d[i] # 0
       [] s.t = "gq" -> Len(s.d) = 10 /\ \E i \in 1..9 : s.d[i] # 0

Quad(s) ==
  LET d == s.d IN
  CASE s.t \in PlaneAlignedT -> QPlane(Unit(TAx(s.t)), d[1])
    [] s.t \in CylCenteredT ->
         QCentral([i \in 1..3 |-> IF i = TAx(s.t) THEN 0 ELSE 1], Zero3, d[1])
    [] s.t = "sc" -> QCentral(<<1, 1, 1>>, Zero3, d[1])
    [] s.t \in CylAlignedT ->
         LET T == TAx(s.t) IN
         QCentral([i \in 1..3 |-> IF i = T THEN 0 ELSE 1],
                  [i \in 1..3 |-> IF i = UAx(T) THEN d[1] ELSE IF i = VAx(T) THEN d[2] ELSE 0],
                  d[3])
    [] s.t = "p" -> QPlane(<<d[1], d[2], d[3]>>, d[4])
    [] s.t = "s" -> QCentral(<<1, 1, 1>>, <<d[1], d[2], d[3]>>, d[4])
    [] s.t \in ConeAlignedT ->        \* td * ( -tan^2 (x-x0)^2 + (y-y0)^2 + (z-z0)^2 )
         QCentral([i \in 1..3 |-> IF i = TAx(s.t) THEN -d[4] ELSE d[5]],
                  <<d[1], d[2], d[3]>>, 0)
    [] s.t = "sq" -> MkQuad(<<d[1], d[2], d[3]>>, Zero3, <<d[4], d[5], d[6]>>, d[7])
    [] s.t = "gq" -> MkQuad(<<d[1], d[2], d[3]>>, <<d[4], d[5], d[6]>>,
                            <<d[7], d[8], d[9]>>, d[10])

\* Are the parameters the C++ object stores exactly the integers / dyadics of s ?
\* (a general plane stores n/|n| and d/|n|: exact only for |n| = 1)
ExactRep(s) == s.t = "p" => s.d[1] * s.d[1] + s.d[2] * s.d[2] + s.d[3] * s.d[3] = 1

QForm(q, d) == q.a[1] * d[1] * d[1] + q.a[2] * d[2] * d[2] + q.a[3] * d[3] * d[3]
               + q.c[1] * d[1] * d[2] + q.c[2] * d[2] * d[3] + q.c[3] * d[3] * d[1]
F(q, p) == QForm(q, p) + Dot(q.b, p) + q.k
Grad(q, p) == << 2 * q.a[1] * p[1] + q.c[1] * p[2] + q.c[3] * p[3] + q.b[1],
                 2 * q.a[2] * p[2] + q.c[1] * p[1] + q.c[2] * p[3] + q.b[2],
                 2 * q.a[3] * p[3] + q.c[2] * p[2] + q.c[3] * p[1] + q.b[3] >>

QSense(q, p) == Sgn(F(q, p))          \* -1 inside, 0 on, +1 outside (SignedSense)
Sense(s, p) == QSense(Quad(s), p)

\* positive multiples have the same sense everywhere
QScale(m, q) == MkQuad(VScale(m, q.a), VScale(m, q.c), VScale(m, q.b), m * q.k)

\* ---------------------------------------------------------------- rays
\* g(t) = f(p + t d) = al t^2 + be t + ga
Ray(q, p, d) == [al |-> QForm(q, d), be |-> Dot(Grad(q, p), d), ga |-> F(q, p)]
Disc(r) == r.be * r.be - 4 * r.al * r.ga

\* Number of parameters t > 0 where g changes sign ( = number of crossings ahead ).
\* A double root (Disc = 0, al # 0) is a tangency, not a crossing: see Tangent.
NumPos(r) ==
  IF r.al = 0
  THEN IF r.be # 0 /\ Sgn(r.be) * Sgn(r.ga) < 0 THEN 1 ELSE 0
  ELSE IF Disc(r) <= 0 THEN 0
  ELSE IF r.ga = 0 THEN (IF Sgn(r.be) * Sgn(r.al) < 0 THEN 1 ELSE 0)       \* roots 0, -be/al
  ELSE IF Sgn(r.ga) * Sgn(r.al) < 0 THEN 1                                   \* opposite signs
  ELSE IF Sgn(r.be) * Sgn(r.al) < 0 THEN 2 ELSE 0                            \* same sign
Tangent(r) == r.al # 0 /\ Disc(r) = 0
\* the double root of a tangent ray is ahead of the start point
TangentAhead(r) == Tangent(r) /\ Sgn(r.be) * Sgn(r.al) < 0

\* sign of g just after t = 0 and for t -> infinity
NearSign(r) == IF r.ga # 0 THEN Sgn(r.ga) ELSE IF r.be # 0 THEN Sgn(r.be) ELSE Sgn(r.al)
FarSign(r) == IF r.al # 0 THEN Sgn(r.al) ELSE IF r.be # 0 THEN Sgn(r.be) ELSE Sgn(r.ga)

\* ---- rational enclosures of reported distances --------------------------------
\* The harness reports each finite distance tau (in units of the integer direction) by an
\* enclosure lo/D < tau < hi/D, D a power of two.  D^2 g(n/D) is evaluated exactly; to stay
\* inside TLC's 32-bit integers the enclosure is coarsened (never refined) until every term
\* fits.
LIM == 268435456      \* 2^28 : three terms of this size still fit in 32 bits
Fits(r, n, D) ==
  /\ Abs(n) <= 32768
  /\ (r.al = 0 \/ n * n <= LIM \div Abs(r.al))
  /\ (r.be = 0 \/ Abs(n) * D <= LIM \div Abs(r.be))
  /\ (r.ga = 0 \/ D * D <= LIM \div Abs(r.ga))
RECURSIVE Coarsen(_, _, _, _)
Coarsen(r, lo, hi, D) ==
  IF D = 1 \/ (Fits(r, lo, D) /\ Fits(r, hi, D)) THEN <<lo, hi, D>>
  ELSE Coarsen(r, lo \div 2, (hi + 1) \div 2, D \div 2)
GAt(r, n, D) == r.al * n * n + r.be * n * D + r.ga * D * D          \* D^2 g(n/D)
DGAt(r, n, D) == 2 * r.al * n + r.be * D                            \* D g'(n/D)
SignAt(r, n, D) == IF n = 0 THEN NearSign(r) ELSE Sgn(GAt(r, n, D))

\* [lo/D, hi/D] (lo >= 0) contains a crossing of g: the sign changes across it, or -- two
\* crossings closer than the enclosure -- it contains the vertex of the parabola
EnclosesCrossing(r, lo0, hi0, D0) ==
  LET e == Coarsen(r, lo0, hi0, D0)
      lo == e[1]  hi == e[2]  D == e[3]
  IN \/ SignAt(r, lo, D) * SignAt(r, hi, D) < 0
     \/ /\ r.al # 0 /\ Disc(r) > 0
        /\ Sgn(DGAt(r, lo, D)) * Sgn(DGAt(r, hi, D)) <= 0
\* ... contains the point of tangency (vertex) of a tangent ray
EnclosesVertex(r, lo0, hi0, D0) ==
  LET e == Coarsen(r, lo0, hi0, D0) IN
  Sgn(DGAt(r, e[1], e[3])) * Sgn(DGAt(r, e[2], e[3])) <= 0

\* exact rational roots when the discriminant is a perfect square (Pythagorean
\* configurations): numerators over the common denominator 2 al
RECURSIVE ISqrtIn(_, _, _)
ISqrtIn(n, lo, hi) ==            \* largest k in lo..hi with k*k <= n  (hi <= 46340)
  IF lo = hi THEN lo
  ELSE LET mid == (lo + hi + 1) \div 2 IN
       IF mid * mid <= n THEN ISqrtIn(n, mid, hi) ELSE ISqrtIn(n, lo, mid - 1)
ISqrt(n) == ISqrtIn(n, 0, 46340)
IsSquare(n) == n >= 0 /\ ISqrt(n) * ISqrt(n) = n
RootNums(r) == {-r.be - ISqrt(Disc(r)), -r.be + ISqrt(Disc(r))}     \* each / (2 al)
NumPosRational(r) == Cardinality({x \in RootNums(r) : Sgn(x) * Sgn(r.al) > 0})

\* ---------------------------------------------------------------- transforms
\* T = [R |-> <<row1,row2,row3>>, den |-> n, t |-> <<..>>] : x' = (R/den) x + t
MatVec(R, v) == <<Dot(R[1], v), Dot(R[2], v), Dot(R[3], v)>>
TMatVec(R, v) == [i \in 1..3 |-> R[1][i] * v[1] + R[2][i] * v[2] + R[3][i] * v[3]]
Det(R) == R[1][1] * (R[2][2] * R[3][3] - R[2][3] * R[3][2])
          - R[1][2] * (R[2][1] * R[3][3] - R[2][3] * R[3][1])
          + R[1][3] * (R[2][1] * R[3][2] - R[2][2] * R[3][1])
IsTransform(T) ==
  /\ T.den > 0
  /\ \A i, j \in 1..3 : Dot(T.R[i], T.R[j]) = (IF i = j THEN T.den * T.den ELSE 0)
IsSignedPerm(T) == IsTransform(T) /\ T.den = 1
IsTranslation(T) == T.den = 1 /\ T.R = <<Unit(1), Unit(2), Unit(3)>>
DivBy(v, n) == \A i \in 1..3 : v[i] % n = 0
VDiv(v, n) == [i \in 1..3 |-> v[i] \div n]

RotUpOK(T, d) == DivBy(MatVec(T.R, d), T.den)
RotUp(T, d) == VDiv(MatVec(T.R, d), T.den)
RotDownOK(T, d) == DivBy(TMatVec(T.R, d), T.den)
RotDown(T, d) == VDiv(TMatVec(T.R, d), T.den)
UpOK(T, p) == RotUpOK(T, p)
Up(T, p) == VAdd(RotUp(T, p), T.t)
DownOK(T, q) == RotDownOK(T, VSub(q, T.t))
Down(T, q) == RotDown(T, VSub(q, T.t))

\* den^2 * f( (R/den)^T (x' - t) ) : the quadric of the transformed point set.
\* M = R (2A) R^T with 2A the doubled symmetric matrix (integer).
TwoA(q) == << <<2 * q.a[1], q.c[1], q.c[3]>>,
              <<q.c[1], 2 * q.a[2], q.c[2]>>,
              <<q.c[3], q.c[2], 2 * q.a[3]>> >>
TransformQuad(T, q) ==
  LET R == T.R
      A2 == TwoA(q)
      M == [i \in 1..3 |-> [j \in 1..3 |-> Dot(R[i], MatVec(A2, R[j]))]]
      Rb == MatVec(R, q.b)
      Mt == MatVec(M, T.t)
  IN MkQuad(<<M[1][1] \div 2, M[2][2] \div 2, M[3][3] \div 2>>,
            <<M[1][2], M[2][3], M[3][1]>>,
            [i \in 1..3 |-> T.den * Rb[i] - Mt[i]],
            T.den * T.den * q.k - T.den * Dot(Rb, T.t) + Dot(T.t, Mt) \div 2)

\* ---------------------------------------------------------------- matrix algebra
\* (orange/MatrixUtils on integer matrices; n x n for n = 3, 4; rows are sequences)
DotN(u, v) == u[1] * v[1] + u[2] * v[2] + u[3] * v[3] + (IF Len(u) = 4 THEN u[4] * v[4] ELSE 0)
ColN(B, j) == [k \in 1..Len(B) |-> B[k][j]]
MatMul(A, B) == [i \in 1..Len(A) |-> [j \in 1..Len(A) |-> DotN(A[i], ColN(B, j))]]
Transpose(A) == [i \in 1..Len(A) |-> ColN(A, i)]
MatVecN(A, v) == [i \in 1..Len(A) |-> DotN(A[i], v)]
Trace3(A) == A[1][1] + A[2][2] + A[3][3]
Ident3 == <<Unit(1), Unit(2), Unit(3)>>
\* alpha A x + beta y   and   alpha A^T x + beta y
Gemv(al, A, x, be, y) == [i \in 1..3 |-> al * Dot(A[i], x) + be * y[i]]
GemvT(al, A, x, be, y) == Gemv(al, Transpose(A), x, be, y)

\* cos / sin of q quarter turns, any integer q
QuarterCos(q) == LET r == ((q % 4) + 4) % 4 IN IF r = 0 THEN 1 ELSE IF r = 2 THEN -1 ELSE 0
QuarterSin(q) == QuarterCos(q - 1)
\* rotation by q quarter turns about cartesian axis ax (1..3), counter-clockwise seen from +ax:
\* with u, v the next two axes cyclically, e_u -> cos e_u + sin e_v
QuarterRot(ax, q) ==
  LET u == (ax % 3) + 1
      v == ((ax + 1) % 3) + 1
      c == QuarterCos(q)
      sn == QuarterSin(q)
  IN [i \in 1..3 |-> [j \in 1..3 |->
        IF i = ax /\ j = ax THEN 1
        ELSE IF i = u /\ j = u THEN c
        ELSE IF i = u /\ j = v THEN -sn
        ELSE IF i = v /\ j = u THEN sn
        ELSE IF i = v /\ j = v THEN c
        ELSE 0]]
\* Rodrigues' formula for an integer axis n with n.n = m^2 and q quarter turns, times m^2:
\*   m^2 R = cos m^2 I + (1 - cos) n n^T + sin m [n]x
CrossMat(n) == << <<0, -n[3], n[2]>>, <<n[3], 0, -n[1]>>, <<-n[2], n[1], 0>> >>
RodriguesScaled(n, m, q) ==
  LET c == QuarterCos(q)  sn == QuarterSin(q)  X == CrossMat(n) IN
  [i \in 1..3 |-> [j \in 1..3 |->
     (IF i = j THEN c * m * m ELSE 0) + (1 - c) * n[i] * n[j] + sn * m * X[i][j]]]

\* composition  A o B  (apply B first) and inverse of lattice transforms; both need the
\* translation parts to stay on the lattice (guards ComposeOK / InverseOK)
ComposeOK(A, B) == DivBy(MatVec(A.R, B.t), A.den)
Compose(A, B) == [R |-> MatMul(A.R, B.R), den |-> A.den * B.den,
                  t |-> VAdd(VDiv(MatVec(A.R, B.t), A.den), A.t)]
InverseOK(T) == DivBy(TMatVec(T.R, T.t), T.den)
InverseT(T) == [R |-> Transpose(T.R), den |-> T.den,
                t |-> VScale(-1, VDiv(TMatVec(T.R, T.t), T.den))]

\* SignedPermutation: ax = <<  <<sign, axis>>, ... >> for the rows x', y', z' (axis 0..2): row i of
\* the daughter-to-parent matrix has the entry `sign` in column axis+1
SPermMat(ax) == [i \in 1..3 |-> [j \in 1..3 |-> IF j = ax[i][2] + 1 THEN ax[i][1] ELSE 0]]
SPermValid(ax) == {ax[i][2] : i \in 1..3} = {0, 1, 2} /\ Det(SPermMat(ax)) = 1
\* documented storage: [flip z'][z' axis][flip y'][y' axis][flip x'][x' axis], bits 8..0
SPermValue(ax) ==
  LET part(i) == ax[i][2] + (IF ax[i][1] < 0 THEN 4 ELSE 0) IN part(1) + 8 * part(2) + 64 * part(3)
=============================================================================
