SPECIFICATION Spec
CONSTANTS
  K = 3
  MaxDepth = 1
INVARIANT SensePreserved
INVARIANT CrossingsPreserved
INVARIANT StepLaw
INVARIANT Parity
INVARIANT RationalRoots
INVARIANT Denormalised
INVARIANT Walk
CHECK_DEADLOCK FALSE
