--------------------------- MODULE SurfacesTrace ---------------------------
(* Trace validation for C12: every record logged by harness/vsurf.cc (the REAL surface
   classes, apply_transform -> SurfaceTranslator / SurfaceTransformer, RecursiveSimplifier
   -> SurfaceSimplifier and the quadric converters, Translation / SignedPermutation /
   Transformation) must be explained by the exact integer geometry of Surfaces.tla.
   One record = one step.

   What is demanded (and no more):
     Surf   calc_sense = sign f at every point off the surface, and = "on" on the surface
            whenever the C++ object stores the integer parameters exactly (ExactRep);
            calc_normal: sign pattern / zero components of the integer gradient, parallel to
            it and of unit length within fixed-point quanta (2^-14; residual bracket);
            calc_intersections(SurfaceState::on iff the point is on the surface): the NUMBER
            of reported distances is the number of crossings ahead (NumPos: discriminant and
            Vieta signs), each is positive, distinct, and its rational enclosure contains a
            crossing of g (sign change of the integer polynomial; residual bracket 2^-10 or
            coarser); two crossings are enclosed in order of their ranks.  The root at 0 of
            an on-surface start is therefore NOT reported.  Tangent rays (double root) may
            report 0, 1 or 2 distances, each positive and at the point of tangency.
     Xform  the surface produced BY THE CODE, evaluated BY THE CODE at q = T.p, has the sense
            of the original at p.
     Simp   the simplified surface has the original's sense, negated iff the simplifier
            reported a flipped Sense.
     Tf     transform_up / transform_down / rotate_up / rotate_down are the exact lattice
            maps (bit-exact for translations and signed permutations, within 1e-9 for
            Pythagorean rotations), down o up = identity.

   Named deviation (counted in dev, never hidden):
     TranslatorSimpleQuadricConstTerm (finding F-SURF-1): SimpleQuadric through the pure
     translation path (SurfaceTranslator); the produced SimpleQuadric has exactly the
     expected second- and first-order coefficients and a constant term that is off by exactly
     sum_i first[i]*t[i] # 0.  Any other disagreement is a rejection. *)
EXTENDS Surfaces, TLC, Json, IOUtils, SequencesExt

TraceLog == ndJsonDeserialize(IOEnv.TRACE)

VARIABLES l,      \* next record
          dev,    \* records explained only by the named deviation
          ncase   \* elementary facts validated
vars == <<l, dev, ncase>>

Rec == TraceLog[l]

\* code's sense `got` against the reference; on the surface only exact arithmetic is bound
SenseAgrees(ref, got, exact) == IF ref # 0 THEN got = ref ELSE (exact => got = 0)

\* ------------------------------------------------------------------ normals
QS == 16384
NormalOK(g, nq) ==
  g # Zero3 =>
    /\ Len(nq) = 3
    /\ \A i \in 1..3 : Sgn(nq[i]) = Sgn(g[i])
    /\ \A i, j \in 1..3 : i < j => Abs(nq[i] * g[j] - nq[j] * g[i]) <= Abs(g[i]) + Abs(g[j])
    /\ Abs(nq[1] * nq[1] + nq[2] * nq[2] + nq[3] * nq[3] - QS * QS) <= 2 * QS

\* ------------------------------------------------------------------ rays
Bracketed(x) == x.D > 0
EncOK(r, x) == Bracketed(x) => EnclosesCrossing(r, x.lo, x.hi, x.D)
\* enclosure a entirely before enclosure b
Before(a, b) == a.hi * b.D <= b.lo * a.D

\* exactrep: the object stores the integer parameters exactly.  decidable: additionally
\* the start point is off the surface, or on it in exact arithmetic.
RayOK(r, ray, exactrep, decidable) ==
  LET xs == ray.r  n == ray.n IN
  /\ n = Len(xs)
  /\ \A i \in DOMAIN xs : xs[i].pos                 \* every reported distance is positive
  /\ decidable =>
       IF ~exactrep /\ r.al = 0 /\ r.be = 0
       THEN \* ray exactly parallel to a plane whose normalised normal is rounded: n.d may be a
            \* rounding residue instead of 0; then a reported crossing is farther than any
            \* enclosure (> 30000 lattice units).  Nothing nearer may be reported.
            n <= 1 /\ \A i \in DOMAIN xs : ~Bracketed(xs[i])
       ELSE IF Tangent(r)
       THEN /\ n <= 2
            \* ahead, or AT the start point (be = 0: whether the rounded b/2 of a normalised
            \* direction is 0 or a positive residue is not decidable; the distance is then ~0)
            /\ n > 0 => (TangentAhead(r) \/ r.be = 0)
            /\ \A i \in DOMAIN xs : Bracketed(xs[i]) =>
                                       EnclosesVertex(r, xs[i].lo, xs[i].hi, xs[i].D)
       ELSE /\ n = NumPos(r)
            /\ \A i \in DOMAIN xs : EncOK(r, xs[i])
            /\ n = 2 =>
                 LET a == IF xs[1].k <= xs[2].k THEN xs[1] ELSE xs[2]
                     b == IF xs[1].k <= xs[2].k THEN xs[2] ELSE xs[1]
                 IN /\ xs[1].k # xs[2].k              \* two distinct distances
                    /\ (Bracketed(a) /\ Bracketed(b)) =>
                         \/ Before(a, b)
                         \* closer than the enclosures: both sit at the vertex
                         \/ /\ ~Before(b, a)
                            /\ EnclosesVertex(r, a.lo, a.hi, a.D)
                            /\ EnclosesVertex(r, b.lo, b.hi, b.D)

PointOK(s, q, pt) ==
  LET ref == QSense(q, pt.p) IN
  /\ SenseAgrees(ref, pt.sn, ExactRep(s))
  /\ NormalOK(Grad(q, pt.p), pt.nq)
  /\ \A j \in DOMAIN pt.rays :
       LET ray == pt.rays[j] IN
       /\ ray.d # Zero3
       /\ ray.st = 1 => pt.sn = 0                 \* protocol: "on" only where the code says on
       /\ RayOK(Ray(q, pt.p, ray.d), ray, ExactRep(s), ExactRep(s) \/ ref # 0)

SurfOK(rec) ==
  /\ WellFormed(rec.s)
  /\ LET q == Quad(rec.s) IN \A i \in DOMAIN rec.pts : PointOK(rec.s, q, rec.pts[i])

TSurf ==
  /\ Rec.e = "Surf"
  /\ SurfOK(Rec) = TRUE          \* (= TRUE: evaluated as a value, not expanded as an action)
  /\ ncase' = ncase + FoldLeft(LAMBDA a, pt : a + 2 + Len(pt.rays), 0, Rec.pts)
  /\ dev' = dev

\* ------------------------------------------------------------------ transformed surfaces
XformPointsOK(rec, sense(_)) ==
  \A i \in DOMAIN rec.pts :
     LET pt == rec.pts[i] IN
     /\ UpOK(rec.T, pt.p) /\ pt.q = Up(rec.T, pt.p)      \* the harness' lattice image
     /\ sense(pt)
XformShapeOK(rec) ==
  /\ WellFormed(rec.s) /\ IsTransform(rec.T)
  /\ rec.via \in {"translator", "transformer"}
  /\ rec.via = "translator" => IsTranslation(rec.T)
XformOK(rec) ==
  LET q == Quad(rec.s)
      exact == ExactRep(rec.s) /\ rec.T.den = 1
  IN /\ XformShapeOK(rec)
     /\ XformPointsOK(rec, LAMBDA pt : SenseAgrees(QSense(q, pt.p), pt.sn, exact))

\* F-SURF-1, exactly scoped
TranslatorSimpleQuadricConstTerm(rec) ==
  /\ XformShapeOK(rec)
  /\ rec.via = "translator" /\ rec.s.t = "sq" /\ IsTranslation(rec.T)
  /\ ~XformOK(rec)
  /\ rec.out.t = "sq" /\ Len(rec.out.d) = 7
  /\ LET q == Quad(rec.s)
         want == TransformQuad(rec.T, q)
         got == Quad(rec.out)
         err == Dot(q.b, rec.T.t)                         \* sum_i first[i] * t[i]
     IN /\ err # 0
        /\ got.a = want.a /\ got.c = want.c /\ got.b = want.b
        /\ got.k = want.k - err
        /\ XformPointsOK(rec, LAMBDA pt : pt.sn = QSense(got, pt.q))

TXform ==
  /\ Rec.e = "Xform"
  /\ IF XformOK(Rec) THEN dev' = dev
     ELSE TranslatorSimpleQuadricConstTerm(Rec) = TRUE /\ dev' = dev + 1
  /\ ncase' = ncase + Len(Rec.pts)

\* ------------------------------------------------------------------ simplification
SimpOK(rec) ==
  /\ WellFormed(rec.s)
  /\ rec.out.t \in SurfaceTypes
  /\ LET q == Quad(rec.s)
         f == IF rec.flip THEN -1 ELSE 1
     IN \A i \in DOMAIN rec.pts :
          LET pt == rec.pts[i]  ref == QSense(q, pt.p) IN ref # 0 => pt.sn = f * ref
TSimp ==
  /\ Rec.e = "Simp"
  /\ SimpOK(Rec) = TRUE
  /\ ncase' = ncase + Len(Rec.pts)
  /\ dev' = dev

\* ------------------------------------------------------------------ transform classes
TfOK(rec) ==
  LET T == rec.T  ex == (T.den = 1) IN
  /\ IsTransform(T)
  /\ rec.cls \in {"Translation", "SignedPermutation", "Transformation"}
  /\ rec.cls = "Translation" => IsTranslation(T)
  /\ rec.cls = "SignedPermutation" => (T.den = 1 /\ T.t = Zero3 /\ Det(T.R) = 1)
  /\ \A i \in DOMAIN rec.pts :
       LET pt == rec.pts[i] IN
       /\ UpOK(T, pt.p) /\ pt.q = Up(T, pt.p)
       /\ pt.up = pt.q /\ pt.upb /\ (ex => pt.upx)          \* transform_up
       /\ DownOK(T, pt.q) /\ Down(T, pt.q) = pt.p           \* (spec: down o up = id)
       /\ pt.dn = pt.p /\ pt.dnb /\ (ex => pt.dnx)          \* transform_down(q)
       /\ pt.du = pt.p /\ pt.dub /\ (ex => pt.dux)          \* transform_down(transform_up(p))
  /\ \A i \in DOMAIN rec.dirs :
       LET dd == rec.dirs[i] IN
       /\ RotUpOK(T, dd.d) /\ dd.r = RotUp(T, dd.d)
       /\ dd.ru = dd.r /\ dd.rub /\ (ex => dd.rux)          \* rotate_up
       /\ dd.rd = dd.d /\ dd.rdb /\ (ex => dd.rdx)          \* rotate_down(rotate_up)
TTf ==
  /\ Rec.e = "Tf"
  /\ TfOK(Rec) = TRUE
  /\ ncase' = ncase + 3 * Len(Rec.pts) + 2 * Len(Rec.dirs)
  /\ dev' = dev

Init == l = 1 /\ dev = 0 /\ ncase = 0
Next ==
  /\ l <= Len(TraceLog)
  /\ l' = l + 1
  /\ \/ TSurf \/ TXform \/ TSimp \/ TTf
Spec == Init /\ [][Next]_vars

Accepted ==
  LET d == TLCGet("stats").diameter IN
  IF d - 1 = Len(TraceLog) THEN TRUE
  ELSE /\ PrintT(<<"REJECTED", d, TraceLog[d]>>)
       /\ FALSE
Report == (l = Len(TraceLog) + 1) => PrintT(<<"SUMMARY", "cases", ncase, "deviations", dev>>)
=============================================================================
