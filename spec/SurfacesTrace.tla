--------------------------- MODULE SurfacesTrace ---------------------------
(* Trace validation for C12: every record logged by harness/vsurf.cc (the REAL surface
   classes, apply_transform -> SurfaceTranslator / SurfaceTransformer, RecursiveSimplifier
   -> SurfaceSimplifier and the quadric converters, Translation / SignedPermutation /
   Transformation) must be explained by the exact integer geometry of Surfaces.tla.
   One record = one step.

   What is demanded (and no more):
     Surf   calc_sense = sign f at every point off the surface, and = "on" on the surface
            whenever the C++ object stores the integer parameters exactly (ExactRep);
            calc_normal: sign pattern / zero components of the integer gradient, parallel to
            it and of unit length within fixed-point quanta (2^-14; residual bracket);
            calc_intersections(SurfaceState::on iff the point is on the surface): the NUMBER
            of reported distances is the number of crossings ahead (NumPos: discriminant and
            Vieta signs), each is positive, distinct, and its rational enclosure contains a
            crossing of g (sign change of the integer polynomial; residual bracket 2^-10 or
            coarser); two crossings are enclosed in order of their ranks.  The root at 0 of
            an on-surface start is therefore NOT reported.  Tangent rays (double root) may
            report 0, 1 or 2 distances, each positive and at the point of tangency.
     Xform  the surface produced BY THE CODE, evaluated BY THE CODE at q = T.p, has the sense
            of the original at p.
     Simp   the simplified surface has the original's sense, negated iff the simplifier
            reported a flipped Sense.
     Tf     transform_up / transform_down / rotate_up / rotate_down are the exact lattice
            maps (bit-exact for translations and signed permutations, within 1e-9 for
            Pythagorean rotations), down o up = identity.
     MDet MMul MVec MTr MRot MRotAx MOrtho   orange/MatrixUtils on integer / quarter-turn /
            Pythagorean inputs: determinant, trace, gemm and gemv (plain and transposed, int and
            real, 3x3 and 4x4), make_transpose, make_rotation (cartesian axis, arbitrary axis,
            applied to a matrix), orthonormalize -- TLC computes every expected matrix itself.
     TfComp TfInv TfSimp TfTol   apply_transform(transform, transform) maps p to L(R(p)) exactly;
            calc_inverse / from_inverse invert; TransformSimplifier and Translation ->
            Transformation promotion act identically on every lattice point; a tiny rotation is
            simplified away only within the documented tolerance.
     SPerm SPermQ   SignedPermutation over all 216 sign/axis assignments (constructible iff one
            of the 24 rotations), storage layout, round trips, make_permutation.

   Named deviation (counted in dev, never hidden):
     TranslatorSimpleQuadricConstTerm (finding F-SURF-1): SimpleQuadric through the pure
     translation path (SurfaceTranslator); the produced SimpleQuadric has exactly the
     expected second- and first-order coefficients and a constant term that is off by exactly
     sum_i first[i]*t[i] # 0.  Any other disagreement is a rejection. *)
EXTENDS Surfaces, TLC, Json, IOUtils, SequencesExt

TraceLog == ndJsonDeserialize(IOEnv.TRACE)

VARIABLES l,      \* next record
          dev,    \* records explained only by the named deviation
          ncase   \* elementary facts validated
vars == <<l, dev, ncase>>

Rec == TraceLog[l]

\* code's sense `got` against the reference; on the surface only exact arithmetic is bound
SenseAgrees(ref, got, exact) == IF ref # 0 THEN got = ref ELSE (exact => got = 0)

\* ------------------------------------------------------------------ normals
QS == 16384
NormalOK(g, nq) ==
  g # Zero3 =>
    /\ Len(nq) = 3
    /\ \A i \in 1..3 : Sgn(nq[i]) = Sgn(g[i])
    /\ \A i, j \in 1..3 : i < j => Abs(nq[i] * g[j] - nq[j] * g[i]) <= Abs(g[i]) + Abs(g[j])
    /\ Abs(nq[1] * nq[1] + nq[2] * nq[2] + nq[3] * nq[3] - QS * QS) <= 2 * QS

\* ------------------------------------------------------------------ rays
Bracketed(x) == x.D > 0
EncOK(r, x) == Bracketed(x) => EnclosesCrossing(r, x.lo, x.hi, x.D)
\* enclosure a entirely before enclosure b
Before(a, b) == a.hi * b.D <= b.lo * a.D

\* exactrep: the object stores the integer parameters exactly.  decidable: additionally
\* the start point is off the surface, or on it in exact arithmetic.
RayOK(r, ray, exactrep, decidable) ==
  LET xs == ray.r  n == ray.n IN
  /\ n = Len(xs)
  /\ \A i \in DOMAIN xs : xs[i].pos                 \* every reported distance is positive
  /\ decidable =>
       IF ~exactrep /\ r.al = 0 /\ r.be = 0
       THEN \* ray exactly parallel to a plane whose normalised normal is rounded: n.d may be a
            \* rounding residue instead of 0; then a reported crossing is farther than any
            \* enclosure (> 30000 lattice units).  Nothing nearer may be reported.
            n <= 1 /\ \A i \in DOMAIN xs : ~Bracketed(xs[i])
       ELSE IF Tangent(r)
       THEN /\ n <= 2
            \* ahead, or AT the start point (be = 0: whether the rounded b/2 of a normalised
            \* direction is 0 or a positive residue is not decidable; the distance is then ~0)
            /\ n > 0 => (TangentAhead(r) \/ r.be = 0)
            /\ \A i \in DOMAIN xs : Bracketed(xs[i]) =>
                                       EnclosesVertex(r, xs[i].lo, xs[i].hi, xs[i].D)
       ELSE /\ n = NumPos(r)
            /\ \A i \in DOMAIN xs : EncOK(r, xs[i])
            /\ n = 2 =>
                 LET a == IF xs[1].k <= xs[2].k THEN xs[1] ELSE xs[2]
                     b == IF xs[1].k <= xs[2].k THEN xs[2] ELSE xs[1]
                 IN /\ xs[1].k # xs[2].k              \* two distinct distances
                    /\ (Bracketed(a) /\ Bracketed(b)) =>
                         \/ Before(a, b)
                         \* closer than the enclosures: both sit at the vertex
                         \/ /\ ~Before(b, a)
                            /\ EnclosesVertex(r, a.lo, a.hi, a.D)
                            /\ EnclosesVertex(r, b.lo, b.hi, b.D)

PointOK(s, q, pt) ==
  LET ref == QSense(q, pt.p) IN
  /\ SenseAgrees(ref, pt.sn, ExactRep(s))
  /\ NormalOK(Grad(q, pt.p), pt.nq)
  /\ \A j \in DOMAIN pt.rays :
       LET ray == pt.rays[j] IN
       /\ ray.d # Zero3
       /\ ray.st = 1 => pt.sn = 0                 \* protocol: "on" only where the code says on
       /\ RayOK(Ray(q, pt.p, ray.d), ray, ExactRep(s), ExactRep(s) \/ ref # 0)

SurfOK(rec) ==
  /\ WellFormed(rec.s)
  /\ LET q == Quad(rec.s) IN \A i \in DOMAIN rec.pts : PointOK(rec.s, q, rec.pts[i])

TSurf ==
  /\ Rec.e = "Surf"
  /\ SurfOK(Rec) = TRUE          \* (= TRUE: evaluated as a value, not expanded as an action)
  /\ ncase' = ncase + FoldLeft(LAMBDA a, pt : a + 2 + Len(pt.rays), 0, Rec.pts)
  /\ dev' = dev

\* ------------------------------------------------------------------ transformed surfaces
XformPointsOK(rec, sense(_)) ==
  \A i \in DOMAIN rec.pts :
     LET pt == rec.pts[i] IN
     /\ UpOK(rec.T, pt.p) /\ pt.q = Up(rec.T, pt.p)      \* the harness' lattice image
     /\ sense(pt)
XformShapeOK(rec) ==
  /\ WellFormed(rec.s) /\ IsTransform(rec.T)
  /\ rec.via \in {"translator", "transformer"}
  /\ rec.via = "translator" => IsTranslation(rec.T)
XformOK(rec) ==
  LET q == Quad(rec.s)
      exact == ExactRep(rec.s) /\ rec.T.den = 1
  IN /\ XformShapeOK(rec)
     /\ XformPointsOK(rec, LAMBDA pt : SenseAgrees(QSense(q, pt.p), pt.sn, exact))

\* F-SURF-1, exactly scoped
TranslatorSimpleQuadricConstTerm(rec) ==
  /\ XformShapeOK(rec)
  /\ rec.via = "translator" /\ rec.s.t = "sq" /\ IsTranslation(rec.T)
  /\ ~XformOK(rec)
  /\ rec.out.t = "sq" /\ Len(rec.out.d) = 7
  /\ LET q == Quad(rec.s)
         want == TransformQuad(rec.T, q)
         got == Quad(rec.out)
         err == Dot(q.b, rec.T.t)                         \* sum_i first[i] * t[i]
     IN /\ err # 0
        /\ got.a = want.a /\ got.c = want.c /\ got.b = want.b
        /\ got.k = want.k - err
        /\ XformPointsOK(rec, LAMBDA pt : pt.sn = QSense(got, pt.q))

TXform ==
  /\ Rec.e = "Xform"
  /\ IF XformOK(Rec) THEN dev' = dev
     ELSE TranslatorSimpleQuadricConstTerm(Rec) = TRUE /\ dev' = dev + 1
  /\ ncase' = ncase + Len(Rec.pts)

\* ------------------------------------------------------------------ simplification
SimpOK(rec) ==
  /\ WellFormed(rec.s)
  /\ rec.out.t \in SurfaceTypes
  /\ LET q == Quad(rec.s)
         f == IF rec.flip THEN -1 ELSE 1
     IN \A i \in DOMAIN rec.pts :
          LET pt == rec.pts[i]  ref == QSense(q, pt.p) IN ref # 0 => pt.sn = f * ref
TSimp ==
  /\ Rec.e = "Simp"
  /\ SimpOK(Rec) = TRUE
  /\ ncase' = ncase + Len(Rec.pts)
  /\ dev' = dev

\* ------------------------------------------------------------------ transform classes
TfOK(rec) ==
  LET T == rec.T  ex == (T.den = 1) IN
  /\ IsTransform(T)
  /\ rec.cls \in {"Translation", "SignedPermutation", "Transformation"}
  /\ rec.cls = "Translation" => IsTranslation(T)
  /\ rec.cls = "SignedPermutation" => (T.den = 1 /\ T.t = Zero3 /\ Det(T.R) = 1)
  /\ \A i \in DOMAIN rec.pts :
       LET pt == rec.pts[i] IN
       /\ UpOK(T, pt.p) /\ pt.q = Up(T, pt.p)
       /\ pt.up = pt.q /\ pt.upb /\ (ex => pt.upx)          \* transform_up
       /\ DownOK(T, pt.q) /\ Down(T, pt.q) = pt.p           \* (spec: down o up = id)
       /\ pt.dn = pt.p /\ pt.dnb /\ (ex => pt.dnx)          \* transform_down(q)
       /\ pt.du = pt.p /\ pt.dub /\ (ex => pt.dux)          \* transform_down(transform_up(p))
  /\ \A i \in DOMAIN rec.dirs :
       LET dd == rec.dirs[i] IN
       /\ RotUpOK(T, dd.d) /\ dd.r = RotUp(T, dd.d)
       /\ dd.ru = dd.r /\ dd.rub /\ (ex => dd.rux)          \* rotate_up
       /\ dd.rd = dd.d /\ dd.rdb /\ (ex => dd.rdx)          \* rotate_down(rotate_up)
TTf ==
  /\ Rec.e = "Tf"
  /\ TfOK(Rec) = TRUE
  /\ ncase' = ncase + 3 * Len(Rec.pts) + 2 * Len(Rec.dirs)
  /\ dev' = dev

\* ------------------------------------------------------------------ matrix utilities
\* (orange/MatrixUtils on integer inputs: TLC owns the algebra.  x: every logged value was an
\* exact integer; b: within 1e-9 of the integer)
IsSq(A, n) == Len(A) = n /\ \A i \in 1..n : Len(A[i]) = n
MDetOK(rec) ==
  /\ IsSq(rec.A, 3) /\ rec.x
  /\ rec.det = Det(rec.A) /\ rec.tr = Trace3(rec.A)
MMulOK(rec) ==
  /\ rec.n \in {3, 4} /\ IsSq(rec.A, rec.n) /\ IsSq(rec.B, rec.n) /\ rec.x
  /\ rec.AB = MatMul(rec.A, rec.B)
  /\ rec.AtB = MatMul(Transpose(rec.A), rec.B)
MVecOK(rec) ==
  /\ IsSq(rec.A, 3) /\ rec.x
  /\ rec.r = Gemv(rec.al, rec.A, rec.v, rec.be, rec.y)
  /\ rec.rt = GemvT(rec.al, rec.A, rec.v, rec.be, rec.y)
  /\ rec.s = MatVec(rec.A, rec.v)
  /\ rec.st = TMatVec(rec.A, rec.v)
MTrOK(rec) == IsSq(rec.A, 3) /\ rec.x /\ rec.T = Transpose(rec.A)
\* make_rotation(Axis, Turn{q/4}) is EXACTLY the quarter-turn matrix (sincospi is exact at
\* multiples of 1/2); with O: make_rotation(ax, turn, O) = R O (applied on the left)
MRotOK(rec) ==
  LET Q == QuarterRot(rec.ax + 1, rec.q) IN
  /\ rec.ax \in 0..2 /\ rec.x
  /\ IsTransform([R |-> Q, den |-> 1, t |-> Zero3]) /\ Det(Q) = 1
  /\ rec.R = (IF "O" \in DOMAIN rec THEN MatMul(Q, rec.O) ELSE Q)
\* make_rotation(n / m, Turn{q/4}): m^2 R is the integer Rodrigues matrix; (m^2 R)(m^2 R)^T = m^4 I
MRotAxOK(rec) ==
  LET W == RodriguesScaled(rec.n, rec.m, rec.q) IN
  /\ rec.m > 0 /\ Dot(rec.n, rec.n) = rec.m * rec.m /\ rec.q \in 0..2 /\ rec.b
  /\ IsTransform([R |-> W, den |-> rec.m * rec.m, t |-> Zero3]) /\ Det(W) = rec.m * rec.m * rec.m * rec.m * rec.m * rec.m
  /\ MatVec(W, rec.n) = VScale(rec.m * rec.m, rec.n)           \* the axis is fixed
  /\ rec.R = W
\* orthonormalize(L R) = R / den for a lower triangular L with positive diagonal (uniqueness of
\* the Gram-Schmidt factorisation)
MOrthoOK(rec) ==
  /\ IsTransform([R |-> rec.R, den |-> rec.den, t |-> Zero3])
  /\ \A i, j \in 1..3 : (j > i => rec.L[i][j] = 0) /\ (j = i => rec.L[i][j] > 0)
  /\ rec.M = MatMul(rec.L, rec.R)
  /\ rec.b /\ rec.out = rec.R
TMat ==
  /\ Rec.e \in {"MDet", "MMul", "MVec", "MTr", "MRot", "MRotAx", "MOrtho"}
  /\ (CASE Rec.e = "MDet" -> MDetOK(Rec)
        [] Rec.e = "MMul" -> MMulOK(Rec)
        [] Rec.e = "MVec" -> MVecOK(Rec)
        [] Rec.e = "MTr" -> MTrOK(Rec)
        [] Rec.e = "MRot" -> MRotOK(Rec)
        [] Rec.e = "MRotAx" -> MRotAxOK(Rec)
        [] Rec.e = "MOrtho" -> MOrthoOK(Rec)) = TRUE
  /\ ncase' = ncase + 1
  /\ dev' = dev

\* ------------------------------------------------------------------ transform algebra
Classes == {"No", "Translation", "Transformation"}
OperandOK(o) ==
  /\ o.cls \in Classes /\ IsTransform(o.T)
  /\ o.cls = "No" => (IsTranslation(o.T) /\ o.T.t = Zero3)
  /\ o.cls = "Translation" => IsTranslation(o.T)
NoShift(T) == [R |-> T.R, den |-> T.den, t |-> Zero3]
\* apply_transform(L, R) must map p to L(R(p)), its inverse map back, and rotate d to L(R(d));
\* exact when both are lattice maps of denominator 1, within 1e-9 otherwise.
\* (The class of the result is not constrained beyond being able to do that.)
TfCompOK(rec) ==
  LET L == rec.L.T  R == rec.R.T  ex == (L.den = 1 /\ R.den = 1) IN
  /\ OperandOK(rec.L) /\ OperandOK(rec.R) /\ rec.out \in Classes
  /\ \A i \in DOMAIN rec.pts :
       LET pt == rec.pts[i] IN
       /\ UpOK(R, pt.p) /\ pt.m = Up(R, pt.p)
       /\ UpOK(L, pt.m) /\ pt.q = Up(L, pt.m)
       /\ (ComposeOK(L, R) /\ L.den * R.den < 100) =>
             (UpOK(Compose(L, R), pt.p) /\ Up(Compose(L, R), pt.p) = pt.q)       \* (spec: law)
       /\ pt.up = pt.q /\ pt.upb /\ (ex => pt.upx)
       /\ pt.dn = pt.p /\ pt.dnb /\ (ex => pt.dnx)
  /\ \A i \in DOMAIN rec.dirs :
       LET dd == rec.dirs[i] IN
       /\ RotUpOK(R, dd.d) /\ RotUpOK(L, RotUp(R, dd.d)) /\ dd.r = RotUp(L, RotUp(R, dd.d))
       /\ dd.ru = dd.r /\ dd.rub /\ (ex => dd.rux)
\* calc_inverse / from_inverse: inverse . forward = identity, and the inverse's `down` is the
\* forward map
TfInvOK(rec) ==
  LET T == rec.T.T  ex == (T.den = 1) IN
  /\ OperandOK(rec.T) /\ rec.via \in {"calc_inverse", "from_inverse", "variant"}
  /\ \A i \in DOMAIN rec.pts :
       LET pt == rec.pts[i] IN
       /\ UpOK(T, pt.p) /\ pt.q = Up(T, pt.p)
       /\ InverseOK(T) => (UpOK(InverseT(T), pt.q) /\ Up(InverseT(T), pt.q) = pt.p)   \* (spec: law)
       /\ pt.iu = pt.p /\ pt.iub /\ (ex => pt.iux)
       /\ pt.id = pt.q /\ pt.idb /\ (ex => pt.idx)
\* a simplified / promoted transform acts identically on every lattice point
TfSimpOK(rec) ==
  LET T == rec.T.T  ex == (T.den = 1) IN
  /\ OperandOK(rec.T) /\ rec.op \in {"simplify", "promote"} /\ rec.out \in Classes
  /\ rec.op = "promote" => (rec.T.cls = "Translation" /\ rec.out = "Transformation")
  /\ \A i \in DOMAIN rec.pts :
       LET pt == rec.pts[i] IN
       /\ UpOK(T, pt.p) /\ pt.q = Up(T, pt.p)
       /\ pt.up = pt.q /\ pt.upb /\ (ex => pt.upx)
\* a rotation by k eps / 4 may only be simplified away if no point at unit distance moves by
\* more than eps (documented criterion of TransformSimplifier)
TfTolOK(rec) == rec.out \in Classes /\ rec.within /\ (rec.k >= 8 => rec.out = "Transformation")
TTfx ==
  /\ Rec.e \in {"TfComp", "TfInv", "TfSimp", "TfTol"}
  /\ (CASE Rec.e = "TfComp" -> TfCompOK(Rec)
        [] Rec.e = "TfInv" -> TfInvOK(Rec)
        [] Rec.e = "TfSimp" -> TfSimpOK(Rec)
        [] Rec.e = "TfTol" -> TfTolOK(Rec)) = TRUE
  /\ ncase' = ncase + (IF Rec.e = "TfTol" THEN 1
                       ELSE IF Rec.e = "TfComp" THEN 2 * Len(Rec.pts) + Len(Rec.dirs)
                       ELSE IF Rec.e = "TfInv" THEN 2 * Len(Rec.pts) ELSE Len(Rec.pts))
  /\ dev' = dev

\* ------------------------------------------------------------------ signed permutations
\* all 6^3 assignments: constructible iff a permutation of determinant +1 (24 of them); then the
\* stored value is the documented bit layout, permutation() and the data() round trip return the
\* input, rotate_up / transform_up are the matrix, rotate_down / transform_down its transpose
SPermOK(rec) ==
  LET M == SPermMat(rec.ax) IN
  /\ rec.ok = SPermValid(rec.ax)
  /\ rec.ok =>
       /\ rec.x /\ rec.val = SPermValue(rec.ax) /\ rec.rt = rec.val /\ rec.perm = rec.ax
       /\ rec.up = M /\ rec.tup = M /\ rec.dn = Transpose(M) /\ rec.tdn = Transpose(M)
\* make_permutation(Axis, QuarterTurn q) is the quarter-turn rotation (the matrix make_rotation
\* gives for Turn{q/4})
SPermQOK(rec) == rec.ok /\ rec.x /\ rec.up = QuarterRot(rec.ax + 1, rec.q)
TSPerm ==
  /\ Rec.e \in {"SPerm", "SPermQ"}
  /\ (IF Rec.e = "SPerm" THEN SPermOK(Rec) ELSE SPermQOK(Rec)) = TRUE
  /\ ncase' = ncase + 1
  /\ dev' = dev

Init == l = 1 /\ dev = 0 /\ ncase = 0
Next ==
  /\ l <= Len(TraceLog)
  /\ l' = l + 1
  /\ \/ TSurf \/ TXform \/ TSimp \/ TTf \/ TMat \/ TTfx \/ TSPerm
Spec == Init /\ [][Next]_vars

Accepted ==
  LET d == TLCGet("stats").diameter IN
  IF d - 1 = Len(TraceLog) THEN TRUE
  ELSE /\ PrintT(<<"REJECTED", d, TraceLog[d]>>)
       /\ FALSE
Report == (l = Len(TraceLog) + 1) => PrintT(<<"SUMMARY", "cases", ncase, "deviations", dev>>)
=============================================================================
