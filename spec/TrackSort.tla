----------------------------- MODULE TrackSort -----------------------------
(* X01  Track-slot reindexing and per-action thread ranges.

   Subject (celeritas): the indirection `track_slots` (thread -> track slot) of CoreStateData and
   everything that writes it or is derived from it:
     CoreTrackData.cc  resize()                 fill_sequence, shuffle_track_slots   (Construct)
     track/detail/TrackSortUtils.cc             sort_tracks                          (SortTracks)
                                                count_tracks_per_action              (CountTracks)
                                                backfill_action_count                (Backfill)
     track/SortTracksAction.cc                  ctor / order() / label() / step()    (Schedule, Step)
     global/CoreState.cc                        ctor (offsets allocation), get_action_range
     global/ActionInterface.hh                  is_action_sorted (both overloads)

   Conventions.  Slots, threads and ids are 0-based integers as in the code; TLA+ sequences are
   1-based, so slot s lives at index s+1.  The invalid OpaqueId (ActionId{}, ThreadId{},
   ParticleId{}) is Null = -1; the code compares the unsigned representation, so Null is the
   LARGEST id (IdLess).  A status is an integer, 0 = TrackStatus::inactive.

   Everything is a post-condition on what a public call may return (std::sort / std::partition are
   not stable, so the permutation itself is not determined); the offsets ARE a function of the
   sorted key sequence and are given twice: declaratively (RefOffsets) and as coded (CountAsCoded,
   with the plausible wrong variants used by the design check).  Named clauses "X01.*" are what
   the trace spec accumulates. *)
EXTENDS Integers, Sequences, FiniteSets, SequencesExt

Null == -1
IdLess(a, b) == IF a = Null THEN FALSE ELSE IF b = Null THEN TRUE ELSE a < b

\* ------------------------------------------------------------------ track orders / schedule
TrackOrders == {"none", "init_charge", "reindex_shuffle", "reindex_status", "reindex_particle_type",
                "reindex_along_step_action", "reindex_step_limit_action", "reindex_both_action"}
\* is_action_sorted(TrackOrder) -- despite its name: "any reindexing order": track_slots exist
\* and CoreState allocates the offsets
Reindexing == TrackOrders \ {"none", "init_charge"}
\* orders a SortTracksAction can be built with (the others throw or are excluded by contract)
SortOrders == {"reindex_status", "reindex_particle_type", "reindex_along_step_action",
               "reindex_step_limit_action"}
ByAction == {"reindex_along_step_action", "reindex_step_limit_action"}       \* is_sort_by_action
\* SortTracksAction(id, order) is REJECTED with a RuntimeError for these (CELER_VALIDATE); for
\* reindex_shuffle / reindex_both_action the constructor is outside its contract (CELER_EXPECT /
\* unreachable) and is never driven
CtorRejected == {"none", "init_charge"}

\* the step phase (StepActionOrder) at which a sort action of a given order runs
SortPhase(o) == CASE o = "reindex_status" -> "sort_start"
                  [] o = "reindex_particle_type" -> "sort_start"
                  [] o = "reindex_along_step_action" -> "sort_pre"
                  [] o = "reindex_step_limit_action" -> "sort_pre_post"
SortLabel(o) == CASE o = "reindex_status" -> "sort-tracks-status"
                  [] o = "reindex_particle_type" -> "sort-tracks-start"
                  [] o = "reindex_along_step_action" -> "sort-tracks-along-step"
                  [] o = "reindex_step_limit_action" -> "sort-tracks-post-step"
SortLabels == {SortLabel(o) : o \in SortOrders}
OrderOfLabel(lb) == CHOOSE o \in SortOrders : SortLabel(o) = lb

\* StepActionOrder, in execution order
Phases == <<"generate", "start", "user_start", "sort_start", "pre", "user_pre", "sort_pre", "along",
            "sort_along", "pre_post", "sort_pre_post", "post", "user_post", "end">>
PhaseSet == {Phases[i] : i \in DOMAIN Phases}
PhaseIdx(p) == CHOOSE i \in DOMAIN Phases : Phases[i] = p

\* the sort actions CoreParams registers for a problem-wide track order: a set, executed in
\* phase order (ActionGroups sorts by StepActionOrder)
Registered(to) == IF to \in SortOrders THEN {to}
                  ELSE IF to = "reindex_both_action"
                       THEN {"reindex_along_step_action", "reindex_step_limit_action"}
                       ELSE {}
\* ... as the sequence of sort orders met while walking through one step
Schedule(to) ==
  LET S == Registered(to) IN
  SelectSeq([i \in DOMAIN Phases |->
               IF \E o \in S : SortPhase(o) = Phases[i]
               THEN CHOOSE o \in S : SortPhase(o) = Phases[i] ELSE "-"],
            LAMBDA x : x # "-")

\* which key array the actions of a phase are selected by (the id an action at that phase is
\* compared with when it decides whether it applies to a track)
PhaseKey(p) == IF p = "along" THEN "along" ELSE IF p = "post" THEN "post" ELSE "-"
SortKey(o) == CASE o = "reindex_along_step_action" -> "along"
                [] o = "reindex_step_limit_action" -> "post"
                [] o = "reindex_particle_type" -> "pt"
                [] OTHER -> "-"
\* is_action_sorted(StepActionOrder, TrackOrder): an action at phase p may be launched on its
\* thread range only.  From first principles: some registered sort (a) sorts by the key the
\* phase selects on and (b) is the LAST sort executed before the phase.
IsActionSorted(p, to) ==
  /\ PhaseKey(p) # "-"
  /\ \E o \in Registered(to) :
        /\ SortKey(o) = PhaseKey(p)
        /\ PhaseIdx(SortPhase(o)) < PhaseIdx(p)
        /\ \A o2 \in Registered(to) :
              PhaseIdx(SortPhase(o2)) < PhaseIdx(p) => PhaseIdx(SortPhase(o2)) <= PhaseIdx(SortPhase(o))

\* ------------------------------------------------------------------ permutations and keys
Identity(n) == [i \in 1..n |-> i - 1]
IsPermutation(ts, n) == Len(ts) = n /\ {ts[i] : i \in 1..n} = 0..(n - 1)
Through(arr, ts) == [i \in DOMAIN ts |-> arr[ts[i] + 1]]       \* what thread i-1 sees
\* c = [st, along, post, pt]: per-slot arrays
KeyArr(c, o) == CASE o = "reindex_along_step_action" -> c.along
                  [] o = "reindex_step_limit_action" -> c.post
                  [] o = "reindex_particle_type" -> c.pt

Partitioned(k) ==              \* k = statuses seen by the threads: not-inactive first
  LET m == Cardinality({i \in DOMAIN k : k[i] # 0}) IN \A i \in DOMAIN k : (i <= m) <=> (k[i] # 0)
Sorted(k) == \A i \in 1..(Len(k) - 1) : ~IdLess(k[i + 1], k[i])

\* ------------------------------------------------------------------ Construct
\* resize(CoreStateData): no indirection unless the order reindexes; identity; shuffled for
\* reindex_shuffle (any permutation; the code seeds mt19937 with the SIZE, so it is a function
\* of n alone: ShuffleDeterministic is checked across constructions in the trace spec).
\* CoreState: offsets allocated (num_actions + 1) iff the order reindexes.
ConstructClauses(to, n, na, ts, offsize, hasrange) ==
     (IF to \in Reindexing /\ ~IsPermutation(ts, n) THEN {"X01.Permutation"} ELSE {})
  \cup (IF to \notin Reindexing /\ ts # <<>> THEN {"X01.NoIndirection"} ELSE {})
  \cup (IF to \in Reindexing \ {"reindex_shuffle"} /\ ts # Identity(n) THEN {"X01.InitIdentity"} ELSE {})
  \cup (IF offsize # (IF to \in Reindexing THEN na + 1 ELSE 0) THEN {"X01.OffsetsAllocated"} ELSE {})
  \cup (IF hasrange # (to \in Reindexing) THEN {"X01.OffsetsAllocated"} ELSE {})

\* ------------------------------------------------------------------ SortTracks
\* detail::sort_tracks(state, o), o in SortOrders: ts1 is a permutation of 0..n-1 (hence of
\* ts0), the statuses / keys read through it are partitioned / non-decreasing; the per-slot
\* arrays are not written (c1 = arrays read back afterwards).
SortClauses(o, n, c, ts1, c1) ==
     (IF ~IsPermutation(ts1, n) THEN {"X01.Permutation"}
      ELSE IF o = "reindex_status"
           THEN (IF Partitioned(Through(c.st, ts1)) THEN {} ELSE {"X01.PartitionedByStatus"})
           ELSE (IF Sorted(Through(KeyArr(c, o), ts1)) THEN {} ELSE {"X01.SortedByKey"}))
  \cup (IF c1 # c THEN {"X01.KeysUntouched"} ELSE {})

\* ------------------------------------------------------------------ offsets: declarative
\* k = keys seen by threads 0..n-1 (1-based sequence), SORTED (precondition of the count)
ThreadsOf(k, a) == {i - 1 : i \in {j \in DOMAIN k : k[j] = a}}
MinOf(S) == CHOOSE x \in S : \A y \in S : x <= y
MaxOf(S) == CHOOSE x \in S : \A y \in S : y <= x
RefOffsets(k, na) ==
  LET n == Len(k)
      f[a \in 0..na] == IF a = na THEN n
                        ELSE IF ThreadsOf(k, a) # {} THEN MinOf(ThreadsOf(k, a)) ELSE f[a + 1]
  IN [i \in 1..(na + 1) |-> f[i - 1]]

RangeOf(off, a) == off[a + 1]..(off[a + 2] - 1)               \* get_action_range(a) as a set
PresentActions(k, na) == {a \in 0..(na - 1) : ThreadsOf(k, a) # {}}

\* defining clauses: Size, Last, RangeStart, Backfill.  Derived (lemmas of the design check,
\* evaluated separately on traces for attribution): AllValid, Monotone, RangeCoversAction (the
\* soundness of a launch restricted to the range), RangeExact, RangesTile.
\* CONTRACT EDGE (as built): threads whose id is Null sort last and are NOT counted, but the
\* last entry is the number of track slots, so they fall into the range of the last present
\* action (or of nobody when no action is present).
CountClauses(k, na, off) ==
  LET n == Len(k)
      sized == Len(off) = na + 1
      valid == sized /\ \A i \in DOMAIN off : off[i] # Null /\ off[i] >= 0 /\ off[i] <= n
      P == PresentActions(k, na)
  IN
  IF ~sized THEN {"X01.OffsetsSize"}
  ELSE IF ~valid THEN {"X01.OffsetsAllValid"}
  ELSE (IF off[na + 1] = n THEN {} ELSE {"X01.OffsetsLast"})
    \cup (IF \A i \in 1..na : off[i] <= off[i + 1] THEN {} ELSE {"X01.OffsetsMonotone"})
    \cup (IF \A a \in P : off[a + 1] = MinOf(ThreadsOf(k, a)) THEN {} ELSE {"X01.RangeStart"})
    \cup (IF \A a \in (0..(na - 1)) \ P : off[a + 1] = off[a + 2] THEN {} ELSE {"X01.Backfill"})
    \cup (IF \A a \in 0..(na - 1) : ThreadsOf(k, a) \subseteq RangeOf(off, a)
          THEN {} ELSE {"X01.RangeCoversAction"})
    \cup (IF \A a \in 0..(na - 1) : \A t \in RangeOf(off, a) :
               t + 1 \in DOMAIN k /\ (k[t + 1] = a \/ (k[t + 1] = Null /\ P # {} /\ a = MaxOf(P)))
          THEN {} ELSE {"X01.RangeExact"})
    \cup (IF off[1] = (IF P = {} THEN n ELSE 0) THEN {} ELSE {"X01.RangesTile"})

\* ------------------------------------------------------------------ offsets: as coded
\* backfill_action_count(offsets, n): last := n, then from the right every invalid entry takes
\* its right neighbour.  Variant "left" (wrong): from the left, taking the left neighbour.
BackfillRef(off, n) ==
  LET L == Len(off)
      f[i \in 1..L] == IF i = L THEN n ELSE IF off[i] # Null THEN off[i] ELSE f[i + 1]
  IN [i \in 1..L |-> f[i]]
BackfillAsCoded(off, n, variant) ==
  LET L == Len(off)
      o1 == [off EXCEPT ![L] = n]
  IN IF variant = "left"
     THEN FoldLeft(LAMBDA acc, i : IF acc[i] = Null /\ i > 1 THEN [acc EXCEPT ![i] = acc[i - 1]] ELSE acc,
                   o1, [j \in 1..L |-> j])
     ELSE FoldLeft(LAMBDA acc, i : IF acc[i] = Null THEN [acc EXCEPT ![i] = acc[i + 1]] ELSE acc,
                   o1, [j \in 1..(L - 1) |-> L - j])
BackfillClauses(off, n, out) == IF out = BackfillRef(off, n) THEN {} ELSE {"X01.BackfillFromRight"}

\* count_tracks_per_action: clear; for i = 1..n-1 (0-based) a valid key that differs from its
\* left neighbour starts its range at i; thread 0 is handled separately; backfill.
\* Variants (wrong): "nofirst" forgets thread 0; "left" backfills from the left;
\* "counted" sets the last entry to the number of threads with a valid key.
CountAsCoded(k, na, variant) ==
  LET n == Len(k)
      cleared == [i \in 1..(na + 1) |-> Null]
      loop == FoldLeft(LAMBDA acc, i :
                          IF k[i + 1] # Null /\ k[i + 1] # k[i] THEN [acc EXCEPT ![k[i + 1] + 1] = i] ELSE acc,
                       cleared, [j \in 1..(n - 1) |-> j])
      first == IF k[1] # Null /\ variant # "nofirst" THEN [loop EXCEPT ![k[1] + 1] = 0] ELSE loop
      last == IF variant = "counted" THEN Cardinality({i \in DOMAIN k : k[i] # Null}) ELSE n
  IN BackfillAsCoded(first, last, variant)

\* ------------------------------------------------------------------ Step (SortTracksAction::step)
\* = SortTracks, then CountTracks iff the order is by action; otherwise the offsets are not
\* written.  get_action_range(a) = [off[a], off[a+1]).
StepClauses(o, n, na, c, ts1, c1, off0, off1) ==
     SortClauses(o, n, c, ts1, c1)
  \cup (IF o \in ByAction
        THEN (IF IsPermutation(ts1, n) /\ Sorted(Through(KeyArr(c, o), ts1))
              THEN CountClauses(Through(KeyArr(c, o), ts1), na, off1) ELSE {})
        ELSE (IF off1 = off0 THEN {} ELSE {"X01.OffsetsUntouched"}))
RangeClauses(off1, ranges) ==
  IF Len(ranges) = Len(off1) - 1 /\ \A a \in 1..Len(ranges) : ranges[a] = <<off1[a], off1[a + 1]>>
  THEN {} ELSE {"X01.RangeIsOffsets"}

\* ------------------------------------------------------------------ use of a range
\* An action `id` at a phase with IsActionSorted may be launched on get_action_range(id) = b..e-1
\* only: k = keys the threads see AT THAT MOMENT.  Sound iff no thread it applies to is left out.
Uncovered(k, id, b, e) == {t \in ThreadsOf(k, id) : ~(b <= t /\ t < e)}
=============================================================================
