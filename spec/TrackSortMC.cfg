\* design check, quick tier: every case with <= 3 slots, one Rekey
SPECIFICATION Spec
CONSTANTS
  MaxN = 3
  NA = 3
  Variant = "ascoded"
  MaxRekey = 1
  ErrorPath = FALSE
INVARIANTS
  TypeOK
  InvPermutation
  InvSorted
  InvOffsets
  InvCodedIsRef
  InvRangeSound
  InvRangesDisjoint
  InvBackfill
  InvSchedule
  InvMutantsRefuted
CHECK_DEADLOCK FALSE
