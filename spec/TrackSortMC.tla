---------------------------- MODULE TrackSortMC ----------------------------
(* Design check for X01 (spec/TrackSort.tla), no code involved, and generator of the cases
   that harness/vtracksort.cc replays on the real functions.

   1. STATE MACHINE, one action per public call, over EVERY case with n <= MaxN slots:
        Pick            choose the per-slot arrays: status in {inactive, active} x id in
                        {0..NA-1, Null} per slot (the three key arrays are bijective images of
                        one enumerated array, so each of them runs through every assignment)
        SortTracks(o)   detail::sort_tracks: ANY permutation allowed by the post-condition
        CountTracks(o)  detail::count_tracks_per_action AS CODED (CountAsCoded, Variant)
        Rekey           the physics overwrites one id / status of one slot (<= MaxRekey times):
                        whatever was sorted by / counted from that array is stale
      Invariants: track_slots is a permutation; while `sortedby` stands the keys read through
      it are partitioned / sorted; while `offby` stands the offsets satisfy EVERY clause of
      CountClauses (incl. the derived ones: they are lemmas) and equal RefOffsets.
   2. LEMMAS evaluated once (in the Pick state): backfill as coded = BackfillRef on every
      offsets array of length 2..4; IsActionSorted (first principles: last sort before the
      phase sorts by the key the phase selects on, and nobody writes that key in between)
      = the formula coded in ActionInterface.hh; Schedule / SortPhase consistency;
      InvMutantsRefuted: each wrong variant of the count differs from the contract on some
      sorted key sequence of <= 3 threads (vacuity guard inside the main run).
   3. MUTANTS (vacuity guard; each cfg MUST be refuted):
        nofirst   the count forgets thread 0                      -> InvOffsets
        left      backfill runs from the left                     -> InvBackfill / InvOffsets
        counted   last entry = number of threads with a valid id  -> InvOffsets (OffsetsLast)
        unsorted  the count is called without sorting first       -> InvOffsets
        errpath   ErrorPath = TRUE: an action of phase `post` rewrites the key of a later
                  action of the same phase (as built, F-SORT-1)   -> InvSchedule
   4. POSTCONDITION Emit (cfg TrackSortMC_emit, env KIND M LO HI OUT): writes one PART of the
      case enumeration to IOEnv.OUT as ndjson:
        wide   every assignment of m slots over the 5 symbols {inactive (Null id), active with
               id 0 / 1 / 2, active with a Null id}, NA = 3: cases LO..HI of 5^m
        main   every (status, id) PRODUCT assignment of m slots, NA = 3: cases LO..HI of 8^m
        quick  small + wide 5 + main 3 (the whole quick tier in one run)
        small  wide m <= 4, main m <= 2, NA in {1, 2, 5} (ids {0..min(NA,3)-1, Null}, n <= 4, all
               active), and Backfill records: every offsets array of length 2..4 over
               {Null, 0..3}, n in {0, 3}                                                     *)
EXTENDS TrackSort, TLC, Json, IOUtils, FiniteSetsExt

CONSTANTS MaxN, NA, Variant, MaxRekey, ErrorPath

VARIABLES pc, n, c, ts, off, sortedby, offby, rekeys
vars == <<pc, n, c, ts, off, sortedby, offby, rekeys>>

Ids(na) == (0..(na - 1)) \cup {Null}
Rev(k) == [i \in DOMAIN k |-> k[Len(k) + 1 - i]]
Rot(k) == [i \in DOMAIN k |-> k[(i % Len(k)) + 1]]
\* active statuses cycle through initializing / alive / errored / killed
Stat(b, i) == IF b = 0 THEN 0 ELSE 1 + (i % 4)
CaseOf(m, na, b, k) ==
  [st |-> [i \in 1..m |-> Stat(b[i], i)], along |-> k, post |-> Rev(k),
   pt |-> [i \in 1..m |-> IF Rot(k)[i] = Null THEN Null ELSE Rot(k)[i] % 3]]

Perms(m) == {p \in [1..m -> 0..(m - 1)] : IsPermutation(p, m)}

Cleared == [i \in 1..(NA + 1) |-> Null]

Init == /\ pc = "pick" /\ n = 0 /\ c = <<>> /\ ts = <<>> /\ off = <<>>
        /\ sortedby = "-" /\ offby = "-" /\ rekeys = 0

Pick == /\ pc = "pick"
        /\ \E m \in 1..MaxN : \E b \in [1..m -> {0, 1}] : \E k \in [1..m -> Ids(NA)] :
              /\ n' = m /\ c' = CaseOf(m, NA, b, k) /\ ts' = Identity(m)
        /\ off' = Cleared
        /\ pc' = "run" /\ UNCHANGED <<sortedby, offby, rekeys>>

SortTracks(o) ==
  /\ pc = "run"
  /\ \E p \in Perms(n) : SortClauses(o, n, c, p, c) = {} /\ ts' = p
  \* the offsets describe the OLD thread order: stale.  Their content is irrelevant from here on
  \* (the next count clears them first), so the model forgets it (keeps the state space small)
  /\ sortedby' = o /\ offby' = "-" /\ off' = Cleared
  /\ UNCHANGED <<pc, n, c, rekeys>>

CountTracks(o) ==
  /\ pc = "run"
  /\ (sortedby = o \/ Variant = "unsorted")
  /\ off' = CountAsCoded(Through(KeyArr(c, o), ts), NA, Variant)
  /\ offby' = o
  /\ UNCHANGED <<pc, n, c, ts, sortedby, rekeys>>

Fields == {"st", "along", "post", "pt"}
FieldOf(o) == IF o = "reindex_status" THEN "st" ELSE IF o = "-" THEN "-" ELSE SortKey(o)
Rekey ==
  /\ pc = "run" /\ rekeys < MaxRekey
  /\ \E f \in Fields : \E s \in 1..n :
       \E v \in (IF f = "st" THEN {0, 2} ELSE IF f = "pt" THEN {0, 1, 2, Null} ELSE Ids(NA)) :
          /\ c[f][s] # v
          /\ c' = [c EXCEPT ![f][s] = v]
          /\ sortedby' = IF FieldOf(sortedby) = f THEN "-" ELSE sortedby
          /\ offby' = IF FieldOf(offby) = f THEN "-" ELSE offby
          /\ off' = IF FieldOf(offby) = f THEN Cleared ELSE off
  /\ rekeys' = rekeys + 1
  /\ UNCHANGED <<pc, n, ts>>

Next == \/ Pick
        \/ \E o \in SortOrders : SortTracks(o)
        \/ \E o \in ByAction : CountTracks(o)
        \/ Rekey
Spec == Init /\ [][Next]_vars

\* ------------------------------------------------------------------ invariants
TypeOK ==
  /\ pc \in {"pick", "run"} /\ sortedby \in SortOrders \cup {"-"} /\ offby \in ByAction \cup {"-"}
  /\ pc = "run" => /\ n \in 1..MaxN /\ Len(off) = NA + 1
                   /\ \A f \in Fields : Len(c[f]) = n
InvPermutation == pc = "run" => IsPermutation(ts, n)
InvSorted ==
  (pc = "run" /\ sortedby # "-") =>
     IF sortedby = "reindex_status" THEN Partitioned(Through(c.st, ts))
     ELSE Sorted(Through(KeyArr(c, sortedby), ts))
KeysNow == Through(KeyArr(c, offby), ts)
InvOffsets == (pc = "run" /\ offby # "-") => CountClauses(KeysNow, NA, off) = {}
InvCodedIsRef == (pc = "run" /\ offby # "-") => off = RefOffsets(KeysNow, NA)
\* what a launch restricted to get_action_range(a) relies on, spelled out
InvRangeSound ==
  (pc = "run" /\ offby # "-") =>
     \A t \in 0..(n - 1) : LET a == KeysNow[t + 1] IN a # Null => t \in RangeOf(off, a)
\* the ranges of distinct actions are disjoint and, when some action is present, tile 0..n-1
InvRangesDisjoint ==
  (pc = "run" /\ offby # "-") =>
     /\ \A a, b \in 0..(NA - 1) : a # b => RangeOf(off, a) \cap RangeOf(off, b) = {}
     /\ (PresentActions(KeysNow, NA) # {} => UNION {RangeOf(off, a) : a \in 0..(NA - 1)} = 0..(n - 1))

\* ---- lemmas, evaluated once
\* vacuity guard inside the design check itself: each wrong variant of the count is told apart
\* from the contract by some SORTED key sequence of <= 3 threads
SortedKeys == {k \in UNION {[1..m -> Ids(NA)] : m \in 1..3} : Sorted(k)}
InvMutantsRefuted ==
  pc = "pick" =>
    /\ \A v \in {"nofirst", "left", "counted"} :
          \E k \in SortedKeys : CountClauses(k, NA, CountAsCoded(k, NA, v)) # {}
    /\ \A k \in SortedKeys : CountClauses(k, NA, CountAsCoded(k, NA, "ascoded")) = {}
OffArrays == UNION {[1..L -> {Null, 0, 1, 2, 3}] : L \in 2..4}
InvBackfill ==
  pc = "pick" =>
    \A o \in OffArrays : \A m \in {0, 3} :
       /\ BackfillAsCoded(o, m, Variant) = BackfillRef(o, m)
       /\ \A i \in DOMAIN o : BackfillRef(o, m)[i] # Null
       /\ BackfillRef(BackfillRef(o, m), m) = BackfillRef(o, m)

\* phases whose actions overwrite a key array on the NORMAL path (PreStepExecutor:
\* along_step_action and the physics step limit; along-step: boundary / range / propagation
\* limit; DiscreteSelect) ...
Writers(key) == IF key = "along" THEN {"pre"} ELSE IF key = "post" THEN {"pre", "along", "pre_post"} ELSE {}
\* ... and phases in which one action rewrites the key that a LATER action of the SAME phase
\* selects on.  ErrorPath = TRUE is the code as built (finding F-SORT-1): the boundary action
\* (phase post) calls CoreTrackView::apply_errored, post_step_action := tracking cut, and the
\* tracking-cut action of the same phase runs after it "by {order, id}" (CoreParams.cc).
WritersWithin(key) == IF ErrorPath /\ key = "post" THEN {"post"} ELSE {}
Between(p, q) == {r \in PhaseSet : PhaseIdx(p) < PhaseIdx(r) /\ PhaseIdx(r) < PhaseIdx(q)}
ValidAt(p, to) ==
  /\ PhaseKey(p) # "-"
  /\ \E o \in Registered(to) :
        /\ SortKey(o) = PhaseKey(p) /\ PhaseIdx(SortPhase(o)) < PhaseIdx(p)
        /\ Between(SortPhase(o), p) \cap Writers(PhaseKey(p)) = {}
        /\ p \notin WritersWithin(PhaseKey(p))
        /\ \A o2 \in Registered(to) \ {o} : SortPhase(o2) \notin Between(SortPhase(o), p)
\* transcribed from ActionInterface.hh
CodedIsActionSorted(p, to) ==
  \/ (p = "post" /\ to = "reindex_step_limit_action")
  \/ (p = "along" /\ to = "reindex_along_step_action")
  \/ (to = "reindex_both_action" /\ p \in {"post", "along"})
InvSchedule ==
  pc = "pick" =>
    /\ \A to \in TrackOrders : \A p \in PhaseSet :
          /\ IsActionSorted(p, to) = CodedIsActionSorted(p, to)
          /\ IsActionSorted(p, to) = ValidAt(p, to)
    /\ \A o \in SortOrders : SortPhase(o) \in PhaseSet /\ OrderOfLabel(SortLabel(o)) = o
    /\ \A to \in TrackOrders : Len(Schedule(to)) = Cardinality(Registered(to))
    /\ Schedule("reindex_both_action") = <<"reindex_along_step_action", "reindex_step_limit_action">>
    \* a sort must come after the last writer of its key within the step
    /\ \A o \in ByAction : \A w \in Writers(SortKey(o)) : PhaseIdx(w) < PhaseIdx(SortPhase(o))
    /\ Registered("reindex_shuffle") = {} /\ "reindex_shuffle" \in Reindexing

\* ------------------------------------------------------------------ case emission
\* One TLC run emits one PART (env KIND, M, LO, HI, OUT), so that tools/checks/x01.py can run
\* emission / replay / validation of the parts side by side; the check verifies that the parts
\* tile every enumeration.  Cases are built by digit arithmetic: case j of kind K with m slots.
EmitKind == IOEnv.KIND
EmitM == atoi(IOEnv.M)
EmitLo == atoi(IOEnv.LO)
EmitHi == atoi(IOEnv.HI)
AllSortOrders == <<"reindex_status", "reindex_along_step_action", "reindex_step_limit_action",
                   "reindex_particle_type">>
Rec(kind, m, na, b, k) ==
  LET cc == CaseOf(m, na, b, k) IN
  [e |-> "Case", kind |-> kind, n |-> m, na |-> na, st |-> cc.st, along |-> cc.along, post |-> cc.post,
   pt |-> cc.pt, ts0 |-> Identity(m), orders |-> AllSortOrders]
RECURSIVE Pow(_, _)
Pow(b, x) == IF x = 0 THEN 1 ELSE b * Pow(b, x - 1)
Digits(j, base, m) == [i \in 1..m |-> ((j - 1) \div Pow(base, i - 1)) % base]
Concat(ss) == FoldLeft(LAMBDA acc, x : acc \o x, <<>>, ss)
\* wide, the 5 symbols of the brief: 0 = inactive (Null id), 1..3 = active with id 0..2,
\* 4 = active with a Null id
WideRec(m, j) == LET d == Digits(j, 5, m) IN
                 Rec("wide", m, 3, [i \in 1..m |-> IF d[i] = 0 THEN 0 ELSE 1],
                     [i \in 1..m |-> IF d[i] \in {0, 4} THEN Null ELSE d[i] - 1])
\* main, the (status, id) product: digit d = 4 * active + (id + 1), id + 1 = 0 for Null
MainRec(m, j) == LET d == Digits(j, 8, m) IN
                 Rec("main", m, 3, [i \in 1..m |-> d[i] \div 4], [i \in 1..m |-> (d[i] % 4) - 1])
\* other numbers of actions: ids {0..min(na,3)-1, Null}, all slots active
NaBase(na) == (IF na < 3 THEN na ELSE 3) + 1
NaRec(na, m, j) == LET d == Digits(j, NaBase(na), m) IN
                   Rec("na", m, na, [i \in 1..m |-> 1], [i \in 1..m |-> d[i] - 1])
Slice(F(_), lo, hi) == [x \in 1..(hi - lo + 1) |-> F(lo + x - 1)]
SmallCases ==
  Concat([m \in 1..4 |-> Slice(LAMBDA j : WideRec(m, j), 1, Pow(5, m))])
  \o Concat([m \in 1..2 |-> Slice(LAMBDA j : MainRec(m, j), 1, Pow(8, m))])
  \o Concat([x \in 1..12 |->
               LET na == <<1, 2, 5>>[((x - 1) \div 4) + 1]  m == ((x - 1) % 4) + 1 IN
               Slice(LAMBDA j : NaRec(na, m, j), 1, Pow(NaBase(na), m))])
  \o SetToSeq({[e |-> "Backfill", off |-> o, n |-> m] : o \in OffArrays, m \in {0, 3}})
Part ==
  CASE EmitKind = "small" -> SmallCases
    [] EmitKind = "quick" -> SmallCases \o Slice(LAMBDA j : WideRec(5, j), 1, Pow(5, 5))
                                        \o Slice(LAMBDA j : MainRec(3, j), 1, Pow(8, 3))
    [] EmitKind = "wide" -> Slice(LAMBDA j : WideRec(EmitM, j), EmitLo, EmitHi)
    [] EmitKind = "main" -> Slice(LAMBDA j : MainRec(EmitM, j), EmitLo, EmitHi)
Emit ==
  LET all == Part
      base == IF EmitKind = "wide" THEN 5 ELSE 8
  IN /\ TLCGet("stats").diameter >= 0
     /\ EmitKind \in {"wide", "main"} => (1 <= EmitLo /\ EmitHi <= Pow(base, EmitM))
     /\ Len(all) = Cardinality({all[i] : i \in DOMAIN all})          \* no repetition
     /\ ndJsonSerialize(IOEnv.OUT, all)
     /\ PrintT(<<"CASES", Len(all)>>)
EmitSpec == Init /\ [][FALSE]_vars
=============================================================================
