\* case emission only (no state exploration): env KIND, M, LO, HI, OUT
SPECIFICATION EmitSpec
CONSTANTS
  MaxN = 1
  NA = 3
  Variant = "ascoded"
  MaxRekey = 0
  ErrorPath = FALSE
POSTCONDITION Emit
CHECK_DEADLOCK FALSE
