\* as built (F-SORT-1): with the error path of the boundary action the range of a later action
\* of phase `post` is not valid although is_action_sorted says so: InvSchedule MUST be refuted
SPECIFICATION Spec
CONSTANTS
  MaxN = 1
  NA = 3
  Variant = "ascoded"
  MaxRekey = 0
  ErrorPath = TRUE
INVARIANTS
  InvSchedule
CHECK_DEADLOCK FALSE
