\* vacuity guard: the wrong variant "left" MUST be refuted
SPECIFICATION Spec
CONSTANTS
  MaxN = 3
  NA = 3
  Variant = "left"
  MaxRekey = 0
  ErrorPath = FALSE
INVARIANTS
  TypeOK
  InvPermutation
  InvSorted
  InvOffsets
  InvBackfill
CHECK_DEADLOCK FALSE
