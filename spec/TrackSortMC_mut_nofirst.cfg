\* vacuity guard: the wrong variant "nofirst" MUST be refuted
SPECIFICATION Spec
CONSTANTS
  MaxN = 3
  NA = 3
  Variant = "nofirst"
  MaxRekey = 0
  ErrorPath = FALSE
INVARIANTS
  TypeOK
  InvPermutation
  InvSorted
  InvOffsets
  InvBackfill
CHECK_DEADLOCK FALSE
