\* vacuity guard: the wrong variant "unsorted" MUST be refuted
SPECIFICATION Spec
CONSTANTS
  MaxN = 3
  NA = 3
  Variant = "unsorted"
  MaxRekey = 0
  ErrorPath = FALSE
INVARIANTS
  TypeOK
  InvPermutation
  InvSorted
  InvOffsets
  InvBackfill
CHECK_DEADLOCK FALSE
