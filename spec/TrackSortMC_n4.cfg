\* design check, thorough tier: every case with <= 4 slots, no Rekey
SPECIFICATION Spec
CONSTANTS
  MaxN = 4
  NA = 3
  Variant = "ascoded"
  MaxRekey = 0
  ErrorPath = FALSE
INVARIANTS
  TypeOK
  InvPermutation
  InvSorted
  InvOffsets
  InvCodedIsRef
  InvRangeSound
  InvRangesDisjoint
  InvBackfill
  InvSchedule
  InvMutantsRefuted
CHECK_DEADLOCK FALSE
