--------------------------- MODULE TrackSortTrace ---------------------------
(* Trace validation for X01: every record logged by harness/vtracksort.cc is judged by
   TrackSort.tla.  One record = one step (l' = l + 1).

   mode cases  Config{first,last} (Case | Backfill)* Close : replay of the cases TLC enumerated
               (TrackSortMC!Emit) on the real detail:: functions; ids must be first..last without
               a gap (the check verifies that the shards tile the whole enumeration)
   mode state  Config IsSorted Ctor* (Construct Step* )* Close : real CoreParams / CoreState
   mode live   Config (Act* StepEnd)* Close : the real stepping loop, one record per action
   A file may hold several Config .. Close segments (concatenated harness runs).

   The whole trace is always examined: violated clauses are accumulated in `viol` (first
   occurrence per <<clause, variant>> with the record number) and counted in `nviol`; records
   explained by a NAMED DEVIATION (known finding) are counted in `dev`, never hidden.
   Structural problems (no Config first, record out of protocol, an Abort record, a gap in the
   case ids, a missing Close) REJECT the trace.

   Named deviation
     StaleRangeAfterErrored   F-SORT-1: live, an action of phase `post` labelled "tracking-cut"
        whose thread range (computed by the sort at sort_pre_post) leaves out threads that DO
        carry its id, all of them with status `errored`: an earlier action of the same phase
        (geo-boundary: CoreTrackView::apply_errored) rewrote their post_step_action after the
        sort.  A launch restricted to the range (device, ActionLauncher) skips them. *)
EXTENDS TrackSort, TLC, Json, IOUtils

TraceLog == ndJsonDeserialize(IOEnv.TRACE)
N == Len(TraceLog)

VARIABLES l,       \* next record
          pc,      \* "config" | "run" | "closed"
          cfg,     \* the Config record
          nextid,  \* mode cases: id of the next Case / Backfill record
          sched,   \* mode live: orders of the sort actions met in the current step
          viol,    \* set of [clause, var, k]
          nviol,   \* number of violating (unexplained) records
          dev,     \* set of [name, n, k]
          stat     \* counters
vars == <<l, pc, cfg, nextid, sched, viol, nviol, dev, stat>>

Rec == TraceLog[l]
Has(r, f) == f \in DOMAIN r

Init ==
  /\ l = 1 /\ pc = "config" /\ cfg = [mode |-> "-", base |-> 0] /\ nextid = 0 /\ sched = <<>>
  /\ viol = {} /\ nviol = 0 /\ dev = {}
  /\ stat = [recs |-> 0, cases |-> 0, sorts |-> 0, counts |-> 0, backfills |-> 0, tables |-> 0,
             ctors |-> 0, constructs |-> 0, steps |-> 0, acts |-> 0, livesorts |-> 0,
             rangeuses |-> 0, rangethreads |-> 0, livesteps |-> 0, nulltail |-> 0]

\* P: set of <<clause, variant>> pairs violated by record k
Fresh(P) == {p \in P : ~\E v \in viol : v.clause = p[1] /\ v.var = p[2]}
Record(P, k) ==
  IF P = {} THEN UNCHANGED <<viol, nviol>>
  ELSE /\ viol' = viol \cup {[clause |-> p[1], var |-> p[2], k |-> k] : p \in Fresh(P)}
       /\ nviol' = nviol + 1
Tag(S, var) == {<<x, var>> : x \in S}
DevBump(name, k) ==
  LET old == {d \in dev : d.name = name} IN
  (dev \ old) \cup {[name |-> name,
                     n |-> (IF old = {} THEN 0 ELSE (CHOOSE d \in old : TRUE).n) + 1,
                     k |-> (IF old = {} THEN k ELSE (CHOOSE d \in old : TRUE).k)]}

SortsOK(sorts, to) ==       \* the SortTracksActions found in the registry, in execution order
  LET s == Schedule(to) IN
  /\ Len(sorts) = Len(s)
  /\ \A i \in DOMAIN s : sorts[i].label = SortLabel(s[i]) /\ sorts[i].ao = SortPhase(s[i])

TConfig ==
  /\ pc \in {"config", "closed"} /\ Rec.e = "Config" /\ Rec.mode \in {"cases", "state", "live"}
  /\ pc' = "run" /\ cfg' = [base |-> stat.recs] @@ Rec
  /\ nextid' = IF Rec.mode = "cases" THEN Rec.first ELSE 0
  /\ sched' = <<>>
  /\ IF Rec.mode = "live"
     THEN Record(IF Rec.torder \in TrackOrders /\ SortsOK(Rec.sorts, Rec.torder) THEN {}
                 ELSE {<<"X01.SortSchedule", Rec.torder>>}, l)
     ELSE UNCHANGED <<viol, nviol>>
  /\ UNCHANGED <<dev, stat>>

\* ------------------------------------------------------------------ mode cases
Arrays(r) == [st |-> r.st, along |-> r.along, post |-> r.post, pt |-> r.pt]
CallPairs(r, call) ==
  LET c == Arrays(r)
      o == call.order
      S == SortClauses(o, r.n, c, call.ts1, call.after)
      sortedOK == IsPermutation(call.ts1, r.n) /\ Sorted(Through(KeyArr(c, o), call.ts1))
  IN Tag(S, o)
     \cup (IF o \in ByAction
           THEN (IF ~Has(call, "off") THEN {<<"X01.OffsetsSize", o>>}
                 ELSE IF sortedOK THEN Tag(CountClauses(Through(KeyArr(c, o), call.ts1), r.na, call.off), o)
                 ELSE {})
           ELSE (IF Has(call, "off") THEN {<<"X01.OffsetsUntouched", o>>} ELSE {}))
\* a Null id that ends up inside the range of the last present action (contract edge, counted)
NullTail(r, call) ==
  IF call.order \in ByAction /\ IsPermutation(call.ts1, r.n)
  THEN LET k == Through(KeyArr(Arrays(r), call.order), call.ts1) IN
       IF PresentActions(k, r.na) # {} /\ \E i \in DOMAIN k : k[i] = Null THEN 1 ELSE 0
  ELSE 0

TCase ==
  /\ pc = "run" /\ cfg.mode = "cases" /\ Rec.e = "Case"
  /\ Rec.id = nextid /\ nextid' = nextid + 1
  /\ Len(Rec.calls) = Len(Rec.orders)
  /\ \A i \in DOMAIN Rec.calls :
        /\ Rec.calls[i].order = Rec.orders[i] /\ Rec.orders[i] \in SortOrders
        /\ Rec.calls[i].ts0 = (IF i = 1 THEN Rec.ts0 ELSE Rec.calls[i - 1].ts1)
  /\ Record(UNION {CallPairs(Rec, Rec.calls[i]) : i \in DOMAIN Rec.calls}, l)
  /\ stat' = [stat EXCEPT !.recs = @ + 1, !.cases = @ + 1, !.sorts = @ + Len(Rec.calls),
                          !.counts = @ + Cardinality({i \in DOMAIN Rec.calls : Rec.calls[i].order \in ByAction}),
                          !.nulltail = @ + Cardinality({i \in DOMAIN Rec.calls : NullTail(Rec, Rec.calls[i]) = 1})]
  /\ UNCHANGED <<pc, cfg, sched, dev>>

TBackfill ==
  /\ pc = "run" /\ cfg.mode = "cases" /\ Rec.e = "Backfill"
  /\ Rec.id = nextid /\ nextid' = nextid + 1
  /\ Record(Tag(BackfillClauses(Rec.off, Rec.n, Rec.out), "backfill"), l)
  /\ stat' = [stat EXCEPT !.recs = @ + 1, !.backfills = @ + 1]
  /\ UNCHANGED <<pc, cfg, sched, dev>>

\* ------------------------------------------------------------------ mode state
TIsSorted ==
  /\ pc = "run" /\ cfg.mode = "state" /\ Rec.e = "IsSorted"
  /\ LET T == {Rec.table[i] : i \in DOMAIN Rec.table}
         R == {Rec.reindex[i] : i \in DOMAIN Rec.reindex}
         ok == /\ {<<t[1], t[2]>> : t \in T} = PhaseSet \X TrackOrders
               /\ \A t \in T : t[3] = IsActionSorted(t[1], t[2])
               /\ {t[1] : t \in R} = TrackOrders
               /\ \A t \in R : t[2] = (t[1] \in Reindexing)
     IN Record(IF ok THEN {} ELSE {<<"X01.IsActionSorted", "table">>}, l)
  /\ stat' = [stat EXCEPT !.recs = @ + 1, !.tables = @ + 1]
  /\ UNCHANGED <<pc, cfg, nextid, sched, dev>>

TCtor ==
  /\ pc = "run" /\ cfg.mode = "state" /\ Rec.e = "Ctor"
  /\ Rec.order \in TrackOrders \ {"reindex_shuffle", "reindex_both_action"}
  /\ LET o == Rec.order
         ok == IF o \in CtorRejected THEN ~Rec.ok
               ELSE Rec.ok /\ Rec.ao = SortPhase(o) /\ Rec.label = SortLabel(o) /\ Rec.id = 7
     IN Record(IF ok THEN {} ELSE {<<"X01.SortSchedule", o>>}, l)
  /\ stat' = [stat EXCEPT !.recs = @ + 1, !.ctors = @ + 1]
  /\ UNCHANGED <<pc, cfg, nextid, sched, dev>>

TConstruct ==
  /\ pc = "run" /\ cfg.mode = "state" /\ Rec.e = "Construct" /\ Rec.order \in TrackOrders
  /\ LET o == Rec.order
         V == ConstructClauses(o, Rec.n, Rec.na, Rec.ts, Rec.offsize, Rec.hasrange)
              \cup (IF Rec.ts2 = Rec.ts THEN {} ELSE {"X01.ShuffleDeterministic"})
              \cup (IF SortsOK(Rec.sorts, o) THEN {} ELSE {"X01.SortSchedule"})
     IN Record(Tag(V, o), l)
  /\ stat' = [stat EXCEPT !.recs = @ + 1, !.constructs = @ + 1]
  /\ UNCHANGED <<pc, cfg, nextid, sched, dev>>

TStep ==
  /\ pc = "run" /\ cfg.mode = "state" /\ Rec.e = "Step" /\ Rec.label \in SortLabels
  /\ LET o == OrderOfLabel(Rec.label)
         V == StepClauses(o, Rec.n, Rec.na, Rec.c, Rec.ts1, Rec.c1, Rec.off0, Rec.off1)
              \cup RangeClauses(Rec.off1, Rec.ranges)
              \cup (IF o \in Registered(Rec.torder) THEN {} ELSE {"X01.SortSchedule"})
     IN Record(Tag(V, o), l)
  /\ stat' = [stat EXCEPT !.recs = @ + 1, !.steps = @ + 1]
  /\ UNCHANGED <<pc, cfg, nextid, sched, dev>>

\* ------------------------------------------------------------------ mode live
HasTs == cfg.torder \in Reindexing
KeyAt(r) == Through(IF r.ao = "along" THEN r.c.along ELSE r.c.post, r.ts0)
StaleRangeAfterErrored(r, U) ==
  /\ r.ao = "post" /\ r.label = "tracking-cut"
  /\ \A t \in U : Through(r.c.st, r.ts0)[t + 1] = 3          \* TrackStatus::errored

TAct ==
  /\ pc = "run" /\ cfg.mode = "live" /\ Rec.e = "Act"
  /\ Len(Rec.ts0) = (IF HasTs THEN cfg.n ELSE 0) /\ Len(Rec.ts1) = Len(Rec.ts0)
  /\ Rec.sort => Rec.label \in SortLabels
  /\ LET o == IF Rec.sort THEN OrderOfLabel(Rec.label) ELSE "-"
         mayuse == HasTs /\ IsActionSorted(Rec.ao, cfg.torder)
         U == IF Rec.uses_range /\ Rec.ao \in {"along", "post"} /\ IsPermutation(Rec.ts0, cfg.n)
              THEN Uncovered(KeyAt(Rec), Rec.id, Rec.range[1], Rec.range[2]) ELSE {}
         known == U # {} /\ StaleRangeAfterErrored(Rec, U)
         P == (IF Rec.sort
               THEN Tag(StepClauses(o, cfg.n, cfg.na, Rec.c, Rec.ts1, Rec.c1, Rec.off0, Rec.off1), o)
                    \cup (IF o \in Registered(cfg.torder) /\ Rec.ao = SortPhase(o) THEN {}
                          ELSE {<<"X01.SortSchedule", Rec.label>>})
               ELSE (IF Rec.ts1 = Rec.ts0 THEN {} ELSE {<<"X01.OnlySortActionsReindex", Rec.label>>}))
              \cup (IF Rec.uses_range = mayuse THEN {} ELSE {<<"X01.IsActionSorted", Rec.ao>>})
              \cup (IF U # {} /\ ~known THEN {<<"X01.RangeCoversAction", Rec.label>>} ELSE {})
     IN /\ Record(P, l)
        /\ dev' = IF known THEN DevBump("StaleRangeAfterErrored", l) ELSE dev
        /\ sched' = IF Rec.sort THEN Append(sched, o) ELSE sched
        /\ stat' = [stat EXCEPT !.recs = @ + 1, !.acts = @ + 1,
                                !.livesorts = @ + (IF Rec.sort THEN 1 ELSE 0),
                                !.rangeuses = @ + (IF Rec.uses_range THEN 1 ELSE 0),
                                !.rangethreads = @ + (IF Rec.uses_range /\ IsPermutation(Rec.ts0, cfg.n)
                                                      THEN Cardinality(ThreadsOf(KeyAt(Rec), Rec.id)) ELSE 0)]
  /\ UNCHANGED <<pc, cfg, nextid>>

TStepEnd ==
  /\ pc = "run" /\ cfg.mode = "live" /\ Rec.e = "StepEnd"
  /\ Record(IF sched = Schedule(cfg.torder) THEN {} ELSE {<<"X01.SortSchedule", cfg.torder>>}, l)
  /\ sched' = <<>>
  /\ stat' = [stat EXCEPT !.recs = @ + 1, !.livesteps = @ + 1]
  /\ UNCHANGED <<pc, cfg, nextid, dev>>

TClose ==
  /\ pc = "run" /\ Rec.e = "Close"
  /\ Rec.n = stat.recs - cfg.base
  /\ cfg.mode = "cases" => nextid = cfg.last + 1
  /\ cfg.mode = "live" => sched = <<>>
  /\ pc' = "closed"
  /\ UNCHANGED <<cfg, nextid, sched, viol, nviol, dev, stat>>

Next ==
  /\ l <= N /\ l' = l + 1
  /\ \/ TConfig \/ TCase \/ TBackfill \/ TIsSorted \/ TCtor \/ TConstruct \/ TStep \/ TAct
     \/ TStepEnd \/ TClose
Spec == Init /\ [][Next]_vars

Accepted ==
  LET d == TLCGet("stats").diameter IN
  IF d - 1 = N /\ TraceLog[N].e = "Close" THEN TRUE
  ELSE /\ PrintT(<<"REJECTED", d, TraceLog[IF d <= N THEN d ELSE N]>>)
       /\ FALSE
Report == (l = N + 1) =>
   PrintT(<<"SUMMARY", ToJson([viol |-> viol, nviol |-> nviol, dev |-> dev, stat |-> stat])>>)
=============================================================================
