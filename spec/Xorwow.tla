------------------------------- MODULE Xorwow -------------------------------
(* C13.  The xorwow generator of celeritas/random/XorwowRngEngine.hh as linear algebra
   over GF(2), written for TLC (32-bit ints): a 32-bit word is <<hi16, lo16>>.

     state      five words <<x, y, z, w, v>> (= XorwowState::xorstate[0..4]) and the Weyl
                word d (= weylstate)
     T = NextS  the xorshift step `next()`
     draw       operator(): s' = T s, d' = d + 362437, result = d' + s'[5]   (mod 2^32)
     skip-ahead T^n s = g(T) s  with  g = z^n mod P,  P the characteristic polynomial of T
                (P(T) = 0 is model-checked for the 160 basis vectors in XorwowMC, hence
                 holds for every state by linearity);  d' = d + (n mod 2^32) * 362437
     tables     jump[i]     = z^(4^i)        mod P     i in 0..31
                jump_sub[i] = z^(2^67 * 4^i) mod P     i in 0..31
                stated as laws:  jump[0] = z, jump[i+1] = jump[i]^4,
                                 jump_sub[0] = jump[31]^(2^5), jump_sub[i+1] = jump_sub[i]^4
   A polynomial over GF(2) of degree < 160 is, like the state, five words: the
   coefficient of z^m is bit (m % 32) of word (m \div 32) -- exactly the packing of
   XorwowRngParams.cc ("split into 5 32-bit integers, ordered from the lower 32 bits").

   Tuples are written out explicitly (not [i \in 1..5 |-> ...]) so that TLC evaluates
   them eagerly; long iterations use FoldLeft. *)
EXTENDS Naturals, Sequences, SequencesExt, Bitwise

M == 65536
H == 32768
Pow2 == <<1, 2, 4, 8, 16, 32, 64, 128, 256, 512, 1024, 2048, 4096, 8192, 16384, 32768, 65536>>
P2(k) == Pow2[k + 1]                                   \* 2^k, k in 0..16

\* ---------------------------------------------------------------- 32-bit words
XorW(a, b) == <<a[1] ^^ b[1], a[2] ^^ b[2]>>
ShlW(a, k) == LET lo == a[2] * P2(k) IN <<((a[1] * P2(k)) % M) + (lo \div M), lo % M>>
ShrW(a, k) == <<a[1] \div P2(k), ((a[1] % P2(k)) * P2(16 - k)) + (a[2] \div P2(k))>>
AddW(a, b) == LET lo == a[2] + b[2] IN <<(a[1] + b[1] + (lo \div M)) % M, lo % M>>
IsWord(a)  == a \in Seq(0..(M - 1)) /\ Len(a) = 2

\* full 32-bit product of two 16-bit limbs, <<hi, lo>>; every intermediate < 2^25
Mul16(x, y) ==
  LET p0 == (x % 256) * y
      p1 == (x \div 256) * y
      lo == p0 + (p1 % 256) * 256
  IN  <<((p1 \div 256) + (lo \div M)) % M, lo % M>>
\* a * b mod 2^32
MulW(a, b) ==
  LET ll == Mul16(a[2], b[2]) IN
  <<(ll[1] + Mul16(a[2], b[1])[2] + Mul16(a[1], b[2])[2]) % M, ll[2]>>

\* ---------------------------------------------------------------- state and step
Zero5 == <<<<0, 0>>, <<0, 0>>, <<0, 0>>, <<0, 0>>, <<0, 0>>>>
Xor5(a, b) == <<XorW(a[1], b[1]), XorW(a[2], b[2]), XorW(a[3], b[3]), XorW(a[4], b[4]),
                XorW(a[5], b[5])>>
IsState(s) == Len(s) = 5 /\ \A i \in 1..5 : IsWord(s[i])

\* XorwowRngEngine::next():  t = x ^ (x >> 2);  v' = (v ^ (v << 4)) ^ (t ^ (t << 1))
NextS(s) == LET t == XorW(s[1], ShrW(s[1], 2)) IN
            <<s[2], s[3], s[4], s[5], XorW(XorW(s[5], ShlW(s[5], 4)), XorW(t, ShlW(t, 1)))>>

\* T^n s, n a (small) natural number
Iterate(s, n) == FoldLeft(LAMBDA acc, k : NextS(acc), s, [k \in 1..n |-> k])

\* Weyl sequence
WeylC == <<5, 34757>>                                   \* 362437 = 5 * 65536 + 34757
\* one call of operator(): new state, new Weyl word, returned value
Draw(s, w) == LET s1 == NextS(s)  w1 == AddW(w, WeylC) IN [s |-> s1, w |-> w1, out |-> AddW(w1, s1[5])]
\* the last `keep` results of n consecutive calls, and the final state
DrawMany(s, w, n, keep) ==
  FoldLeft(LAMBDA acc, k : LET d == Draw(acc.s, acc.w) IN
                           [s |-> d.s, w |-> d.w,
                            outs |-> IF k > n - keep THEN Append(acc.outs, d.out) ELSE acc.outs],
           [s |-> s, w |-> w, outs |-> <<>>], [k \in 1..n |-> k])

\* ---------------------------------------------------------------- 64-bit counts
\* a 64-bit count is four 16-bit limbs, most significant first (harness: limbs64)
IsCount(n) == n \in Seq(0..(M - 1)) /\ Len(n) = 4
\* base-4 digit i (weight 4^i), i in 0..31 -- `static_cast<uint_t>(count) & 3; count >>= 2`
Digit(n, i) == (n[4 - (i \div 8)] \div P2(2 * (i % 8))) % 4
CountOfNat(k) == <<0, 0, k \div M, k % M>>              \* k < 2^31
\* d' = d + static_cast<unsigned int>(count) * 362437u
WeylAfter(w, n) == AddW(w, MulW(<<n[3], n[4]>>, WeylC))
\* event * size + slot mod 2^64 (RngReseed.cc); size, slot < 2^14 keeps limb products < 2^31
MulAdd64(ev, size, slot) ==
  LET t4 == ev[4] * size + slot
      t3 == ev[3] * size + (t4 \div M)
      t2 == ev[2] * size + (t3 \div M)
      t1 == ev[1] * size + (t2 \div M)
  IN  <<t1 % M, t2 % M, t3 % M, t4 % M>>
\* no wrap-around: event * size + slot < 2^64 (precondition of "streams never overlap")
MulAdd64Fits(ev, size, slot) ==
  LET t4 == ev[4] * size + slot
      t3 == ev[3] * size + (t4 \div M)
      t2 == ev[2] * size + (t3 \div M)
  IN  ev[1] * size + (t2 \div M) < M

\* ---------------------------------------------------------------- polynomials over GF(2)
One5 == <<<<0, 1>>, <<0, 0>>, <<0, 0>>, <<0, 0>>, <<0, 0>>>>
Z5   == <<<<0, 2>>, <<0, 0>>, <<0, 0>>, <<0, 0>>, <<0, 0>>>>          \* the polynomial z
\* P = z^160 + PLow = 0x1_00000f0e_0f3c0035_00062121_08610030_00060001  (tools/xorwow_poly.py:
\* Berlekamp-Massey on the step; NOT trusted: XorwowMC checks P(T) e_j = 0 for all j)
PLow == <<<<6, 1>>, <<2145, 48>>, <<6, 8481>>, <<3900, 53>>, <<0, 3854>>>>

\* coefficient of z^m, m in 0..159:  `jump_poly[i] & (1 << j)` with i = m \div 32, j = m % 32
Bit(g, m) == LET w == g[(m \div 32) + 1]
                 j == m % 32
             IN  IF j >= 16 THEN (w[1] \div P2(j - 16)) % 2 = 1 ELSE (w[2] \div P2(j)) % 2 = 1
Idx160 == [m \in 1..160 |-> m - 1]
Rev160 == [m \in 1..160 |-> 160 - m]

\* g(T) s by Horner, exactly the loop of XorwowRngEngine::jump(JumpPoly const&):
\*   for each bit m = 0..159 in order: if set, r ^= x;  then x = T x.   Result r.
\* (.x is T^160 s, used for the degree-160 term of P)
ApplyPolyX(g, s) ==
  FoldLeft(LAMBDA acc, m : [x |-> NextS(acc.x),
                            r |-> IF Bit(g, m) THEN Xor5(acc.r, acc.x) ELSE acc.r],
           [x |-> s, r |-> Zero5], Idx160)
ApplyPoly(g, s) == ApplyPolyX(g, s).r
\* P(T) s
ApplyP(s) == LET a == ApplyPolyX(PLow, s) IN Xor5(a.r, a.x)

\* z * a mod P
TopBit(w) == w[1] \div H
MulZ(a) ==
  LET sh == << <<((a[1][1] * 2) % M) + (a[1][2] \div H), ((a[1][2] * 2) % M)>>,
               <<((a[2][1] * 2) % M) + (a[2][2] \div H), ((a[2][2] * 2) % M) + TopBit(a[1])>>,
               <<((a[3][1] * 2) % M) + (a[3][2] \div H), ((a[3][2] * 2) % M) + TopBit(a[2])>>,
               <<((a[4][1] * 2) % M) + (a[4][2] \div H), ((a[4][2] * 2) % M) + TopBit(a[3])>>,
               <<((a[5][1] * 2) % M) + (a[5][2] \div H), ((a[5][2] * 2) % M) + TopBit(a[4])>> >>
  IN  IF TopBit(a[5]) = 1 THEN Xor5(sh, PLow) ELSE sh
\* a * b mod P (Horner over the coefficients of b, highest first)
Mul(a, b) ==
  FoldLeft(LAMBDA acc, m : LET t == MulZ(acc) IN IF Bit(b, m) THEN Xor5(t, a) ELSE t,
           Zero5, Rev160)
Sqr(a) == Mul(a, a)
Pow4(a) == Sqr(Sqr(a))
SqrN(a, k) == FoldLeft(LAMBDA acc, i : Sqr(acc), a, [i \in 1..k |-> i])       \* a^(2^k)
\* z^k mod P for a small natural k
ZPow(k) == FoldLeft(LAMBDA acc, i : MulZ(acc), One5, [i \in 1..k |-> i])

\* ---------------------------------------------------------------- the jump tables (laws)
TabFrom(first) ==
  FoldLeft(LAMBDA acc, i : Append(acc, Pow4(acc[Len(acc)])), <<first>>, [i \in 1..31 |-> i])
JumpTab    == TabFrom(Z5)                               \* jump[i] = JumpTab[i+1]
JumpSubTab == TabFrom(SqrN(JumpTab[32], 5))             \* z^(4^31 * 32) = z^(2^67)
\* g, g^2, g^3 for each table entry: one base-4 digit d of the count applies entry^d
PowTab(tab) == [i \in 1..32 |-> LET g == tab[i]  q == Sqr(g) IN <<g, q, Mul(q, g)>>]
JumpPow == PowTab(JumpTab)
SubPow  == PowTab(JumpSubTab)

\* z^(sum d_i 4^i) mod P as a product over the base-4 digits
PolyOfCount(n, pw) ==
  FoldLeft(LAMBDA acc, i : LET d == Digit(n, i) IN
                           IF d = 0 THEN acc
                           ELSE IF acc = One5 THEN pw[i + 1][d] ELSE Mul(acc, pw[i + 1][d]),
           One5, [i \in 1..32 |-> i - 1])

\* XorwowRngEngine::jump(ull_int, ArrayJumpPoly const&) as coded: for each digit, lowest
\* first, apply that table entry `digit` times
Times(g, d, s) == IF d = 0 THEN s
                  ELSE IF d = 1 THEN ApplyPoly(g, s)
                  ELSE IF d = 2 THEN ApplyPoly(g, ApplyPoly(g, s))
                  ELSE ApplyPoly(g, ApplyPoly(g, ApplyPoly(g, s)))
DigitLoop(n, tab, s) ==
  FoldLeft(LAMBDA acc, i : Times(tab[i + 1], Digit(n, i), acc), s, [i \in 1..32 |-> i - 1])

\* Specification of discard(n) / discard_subsequence(k): T^n s and T^(k 2^67) s
Discard(n, s)    == ApplyPoly(PolyOfCount(n, JumpPow), s)
DiscardSub(k, s) == ApplyPoly(PolyOfCount(k, SubPow), s)
\* Initializer {seed, subsequence k, offset n} applied to the seed state s0
InitJump(k, n, s0) == ApplyPoly(Mul(PolyOfCount(k, SubPow), PolyOfCount(n, JumpPow)), s0)

\* ---------------------------------------------------------------- canonical reals
\* GenerateCanonical32<double>: v = (upper << 21) ^ lower, result = 2^-53 * double(v).
\* Bit p of v (p in 0..52): bit (p - 21) of upper (for p >= 21) xor bit p of lower
\* (for p <= 31).  upper << 21 < 2^53 and lower < 2^32, so v < 2^53: the conversion
\* to double is exact, the scaling by 2^-53 is exact, and the value is in [0, 1).
WBit(w, j) == IF j >= 16 THEN (w[1] \div P2(j - 16)) % 2 ELSE (w[2] \div P2(j)) % 2
VBit(u, lw, p) == LET a == IF p >= 21 THEN WBit(u, p - 21) ELSE 0
                      b == IF p <= 31 THEN WBit(lw, p) ELSE 0
                  IN  (a + b) % 2
\* position of the leading one of v, or -1
VTop(u, lw) == LET S == {p \in 0..52 : VBit(u, lw, p) = 1} IN
               IF S = {} THEN 0 - 1 ELSE CHOOSE p \in S : \A q \in S : q <= p
\* IEEE-754 binary64 pattern of v * 2^-53 as four 16-bit limbs, most significant first
CanonBits(u, lw) ==
  LET h == VTop(u, lw)
      e == 970 + h                                      \* 1023 + h - 53, at most 1022
      bit(b) == IF b = 63 THEN 0
                ELSE IF b >= 52 THEN (e \div P2(b - 52)) % 2
                ELSE IF b - 52 + h >= 0 THEN VBit(u, lw, b - 52 + h) ELSE 0
      limb(k) == FoldLeft(LAMBDA acc, j : acc * 2 + bit(16 * k + 15 - j), 0, [j \in 1..16 |-> j - 1])
  IN  IF h < 0 THEN <<0, 0, 0, 0>> ELSE <<limb(3), limb(2), limb(1), limb(0)>>
\* pattern order = value order for non-negative doubles
LessBits(a, b) ==
  \E k \in 1..Len(a) : a[k] < b[k] /\ \A j \in 1..(k - 1) : a[j] = b[j]
OneBits64 == <<16368, 0, 0, 0>>                         \* 0x3FF0000000000000 = 1.0
OneBits32 == <<16256, 0>>                               \* 0x3F800000 = 1.0f

\* GenerateCanonical32<float>: result = 2^-32 (exactly representable) * float(u), the
\* conversion rounding to nearest-even to 24 bits.  Returns the binary32 pattern <<hi, lo>>.
CanonBitsF(u) ==
  LET S == {j \in 0..31 : WBit(u, j) = 1} IN
  IF S = {} THEN <<0, 0>> ELSE
  LET h == CHOOSE p \in S : \A q \in S : q <= p IN
  IF h <= 23
  THEN \* exact: mantissa = (u - 2^h) << (23 - h); here u < 2^24 fits an int
       LET uv == u[1] * M + u[2]
           mant == (uv - (IF h >= 16 THEN P2(h - 16) * M ELSE P2(h))) *
                   (IF 23 - h >= 16 THEN P2(23 - h - 16) * M ELSE P2(23 - h))
           pat == (127 + h - 32) * 128 * M + mant
       IN  <<pat \div M, pat % M>>
  ELSE LET sh == h - 23                                 \* 1..8
           q  == u[1] * P2(16 - sh) + (u[2] \div P2(sh))  \* u >> sh, in [2^23, 2^24)
           rm == u[2] % P2(sh)
           hf == P2(sh - 1)
           up == rm > hf \/ (rm = hf /\ q % 2 = 1)
           q1 == IF up THEN q + 1 ELSE q
           h1 == IF q1 = 256 * M THEN h + 1 ELSE h
           m1 == IF q1 = 256 * M THEN 0 ELSE q1 - 128 * M
           pat == (127 + h1 - 32) * 128 * M + m1
       IN  <<pat \div M, pat % M>>
=============================================================================
