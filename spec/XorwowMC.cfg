SPECIFICATION Spec
CONSTANTS
  NDigit = 256
  KMax = 400
  IterMax = 6
  WeylMax = 300
INVARIANT Holds
CHECK_DEADLOCK FALSE
