------------------------------ MODULE XorwowMC ------------------------------
(* Design check for C13 (no code involved): TLC establishes the algebraic facts that the
   trace validation relies on.  One state per fact instance <<kind, idx>>; the invariant
   `Holds` evaluates the fact.

   (a) annihilate  P(T) e_j = 0 for the 160 basis vectors e_j  => P(T) = 0 (linearity), so
                   g(T) depends only on g mod P and z^n mod P acts as T^n.
   (b) table       the spec's tables (defined by the laws jump[0] = z, jump[i+1] = jump[i]^4,
                   jump_sub[0] = jump[31]^(2^5), jump_sub[i+1] = jump_sub[i]^4, computed with
                   Mul mod P) act as the right powers of T on test states:
                   jump[i](T) s = T^(4^i) s by direct iteration for i <= IterMax, and for every
                   i: jump[i](T) s = (jump[i-1](T))^4 s, jump_sub[0](T) s = (jump[31](T))^32 s,
                   jump_sub[i](T) s = (jump_sub[i-1](T))^4 s.  (A non-zero s is a cyclic vector
                   because P is irreducible, so agreement on s is agreement mod P.)
   (c) digits      digit-composition lemma: for all n < NDigit the base-4 digit loop of
                   XorwowRngEngine::jump(count, table) (DigitLoop) and the product form
                   (Discard) both equal n sequential steps; for large fixed counts
                   (2^64-1 included) the loop equals the product form.
   (d) zpow        ApplyPoly(z^k mod P, s) = k sequential steps, k in 0..KMax (reduction
                   modulo P is exercised for k >= 160).
   (e) algebra     z^(2^160) = z (mod P);  jump_sub[0] = z^(2^67) by 67 squarings;
                   Mul is commutative/associative on samples, One5 is neutral, MulZ = Mul by z.
   (f) weyl        32-bit multiply on limbs = repeated addition for small factors; boundary
                   products; n draws advance the Weyl word like WeylAfter(n).
   (g) inj         subsequence = event * size + slot is injective for slot < size (small
                   ranges) and MulAdd64 agrees with natural-number arithmetic.
   (h) canon       extreme word pairs give patterns below 1.0; the known float edge. *)
EXTENDS Xorwow, TLC, FiniteSets

CONSTANTS NDigit, KMax, IterMax, WeylMax

VARIABLES kind, idx
vars == <<kind, idx>>

BasisWord(j, k) ==
  IF j \div 32 # k THEN <<0, 0>>
  ELSE IF j % 32 >= 16 THEN <<P2((j % 32) - 16), 0>> ELSE <<0, P2(j % 32)>>
Basis(j) == <<BasisWord(j, 0), BasisWord(j, 1), BasisWord(j, 2), BasisWord(j, 3), BasisWord(j, 4)>>

SA == <<<<4660, 22136>>, <<39612, 57072>>, <<3870, 11580>>, <<19290, 27000>>, <<34661, 17185>>>>
SB == <<<<65535, 65535>>, <<65535, 65535>>, <<65535, 65535>>, <<65535, 65535>>, <<65535, 65535>>>>
SC == Basis(0)
SD == Basis(159)
TestStates == <<SA, SB, SC, SD>>
NTest == 4

BigCounts == << <<65535, 65535, 65535, 65535>>, <<32768, 0, 0, 1>>, <<21845, 21845, 21845, 21845>>,
                <<43690, 43690, 43690, 43690>>, <<4660, 22136, 39612, 57072>>, <<0, 1, 0, 0>>,
                <<1, 0, 0, 0>>, <<0, 0, 65535, 65535>> >>

Pow4N(i) == FoldLeft(LAMBDA a, k : a * 4, 1, [k \in 1..i |-> k])
Apply4(g, s) == ApplyPoly(g, ApplyPoly(g, ApplyPoly(g, ApplyPoly(g, s))))
ApplyN(g, k, s) == FoldLeft(LAMBDA a, i : ApplyPoly(g, a), s, [i \in 1..k |-> i])

Annihilate(j) == ApplyP(Basis(j)) = Zero5

\* idx in 0..31: jump[idx]; idx in 32..63: jump_sub[idx - 32]
TableLaw(t) ==
  \A q \in 1..NTest :
    LET s == TestStates[q] IN
    IF t = 0 THEN JumpTab[1] = Z5 /\ ApplyPoly(JumpTab[1], s) = NextS(s)
    ELSE IF t < 32
      THEN /\ ApplyPoly(JumpTab[t + 1], s) = Apply4(JumpTab[t], s)
           /\ (t <= IterMax => ApplyPoly(JumpTab[t + 1], s) = Iterate(s, Pow4N(t)))
    ELSE IF t = 32 THEN ApplyPoly(JumpSubTab[1], s) = ApplyN(JumpTab[32], 32, s)
    ELSE ApplyPoly(JumpSubTab[t - 31], s) = Apply4(JumpSubTab[t - 32], s)

DigitLemma(k) ==
  LET n == k % NDigit
      s == TestStates[(k \div NDigit) + 1]
      ref == Iterate(s, n) IN
  /\ DigitLoop(CountOfNat(n), JumpTab, s) = ref
  /\ Discard(CountOfNat(n), s) = ref
BigDigits(k) ==
  LET n == BigCounts[(k % Len(BigCounts)) + 1]
      s == TestStates[(k \div Len(BigCounts)) + 1] IN
  /\ DigitLoop(n, JumpTab, s) = Discard(n, s)
  /\ DigitLoop(n, JumpSubTab, s) = DiscardSub(n, s)

ZPowLemma(k) == \A q \in 1..NTest : ApplyPoly(ZPow(k), TestStates[q]) = Iterate(TestStates[q], k)

Algebra(k) ==
  LET a == JumpTab[7]  b == JumpSubTab[3]  c == JumpTab[20] IN
  CASE k = 0 -> SqrN(Z5, 160) = Z5
    [] k = 1 -> JumpSubTab[1] = SqrN(Z5, 67)
    [] k = 2 -> Mul(a, b) = Mul(b, a)
    [] k = 3 -> Mul(Mul(a, b), c) = Mul(a, Mul(b, c))
    [] k = 4 -> Mul(a, One5) = a /\ Mul(One5, a) = a /\ Mul(a, Zero5) = Zero5
    [] k = 5 -> MulZ(a) = Mul(a, Z5) /\ MulZ(b) = Mul(Z5, b)
    [] k = 6 -> Mul(a, Xor5(b, c)) = Xor5(Mul(a, b), Mul(a, c))
    [] k = 7 -> \A i \in 1..32 : JumpPow[i] = <<JumpTab[i], Mul(JumpTab[i], JumpTab[i]),
                                                 Mul(JumpTab[i], Mul(JumpTab[i], JumpTab[i]))>>
    [] k = 8 -> PolyOfCount(<<65535, 65535, 65535, 65535>>, JumpPow) # One5
    [] OTHER -> TRUE
NAlgebra == 9

WeylLemma(a) ==
  LET rep == FoldLeft(LAMBDA acc, i : AddW(acc, WeylC), <<0, 0>>, [i \in 1..a |-> i])
      w0 == <<54321, 12345>> IN
  /\ MulW(<<0, a>>, WeylC) = rep
  /\ MulW(WeylC, <<0, a>>) = rep
  /\ WeylAfter(w0, CountOfNat(a)) = DrawMany(SA, w0, a, 0).w
  /\ WeylAfter(w0, <<7, 9, 0, a>>) = WeylAfter(w0, CountOfNat(a))     \* only n mod 2^32 matters
  /\ (a = 0 => /\ Mul16(65535, 65535) = <<65534, 1>>
               /\ MulW(<<65535, 65535>>, <<65535, 65535>>) = <<0, 1>>
               /\ MulW(<<65535, 65535>>, WeylC) = <<65530, 30779>>     \* 0xfffa783b
               /\ AddW(<<65535, 65535>>, <<0, 1>>) = <<0, 0>>)

InjLemma ==
  /\ \A size \in 1..5 : \A e1, e2 \in 0..5 : \A s1, s2 \in 0..(size - 1) :
        MulAdd64(CountOfNat(e1), size, s1) = MulAdd64(CountOfNat(e2), size, s2)
            => (e1 = e2 /\ s1 = s2)
  /\ \A size \in {1, 7, 1024, 16383} : \A e \in {0, 1, 5, 65535, 65536, 131071} : \A s \in {0, size - 1} :
        /\ MulAdd64Fits(CountOfNat(e), size, s)
        /\ LET r == MulAdd64(CountOfNat(e), size, s)
               v == e * size + s IN          \* < 2^31
           r = CountOfNat(v)
  /\ MulAdd64(<<15, 65535, 65535, 65535>>, 4096, 4095) = <<65535, 65535, 65535, 65535>>
  /\ MulAdd64Fits(<<15, 65535, 65535, 65535>>, 4096, 4095)   \* (2^52-1) 4096 + 4095 = 2^64-1
  /\ ~MulAdd64Fits(<<16, 0, 0, 0>>, 4096, 0)

CanonLemma ==
  LET X == {<<0, 0>>, <<0, 1>>, <<0, 2047>>, <<0, 2048>>, <<31, 65535>>, <<32, 0>>,
            <<32767, 65535>>, <<32768, 0>>, <<65535, 65534>>, <<65535, 65535>>} IN
  /\ \A u, lw \in X : LessBits(CanonBits(u, lw), OneBits64)
  /\ CanonBits(<<0, 0>>, <<0, 0>>) = <<0, 0, 0, 0>>
  /\ CanonBits(<<0, 0>>, <<0, 1>>) = <<15520, 0, 0, 0>>                   \* 2^-53
  /\ CanonBits(<<0, 1>>, <<0, 0>>) = <<15856, 0, 0, 0>>                   \* 2^-32
  /\ CanonBits(<<32768, 0>>, <<0, 0>>) = <<16352, 0, 0, 0>>               \* 0.5
  /\ CanonBits(<<65535, 65535>>, <<31, 65535>>) = <<16367, 65535, 65535, 65535>>  \* 1 - 2^-53
  /\ CanonBitsF(<<32768, 0>>) = <<16128, 0>>                               \* 0.5f
  /\ CanonBitsF(<<65535, 65407>>) = <<16255, 65535>>                       \* 0xffffff7f -> 1 - 2^-24
  /\ CanonBitsF(<<65535, 65408>>) = OneBits32                              \* 0xffffff80 -> 1.0f (!)
  /\ \A u \in X \ {<<65535, 65534>>, <<65535, 65535>>} : LessBits(CanonBitsF(u), OneBits32)

Holds ==
  CASE kind = "annihilate" -> Annihilate(idx)
    [] kind = "table"      -> TableLaw(idx)
    [] kind = "digits"     -> DigitLemma(idx)
    [] kind = "bigdigits"  -> BigDigits(idx)
    [] kind = "zpow"       -> ZPowLemma(idx)
    [] kind = "algebra"    -> Algebra(idx)
    [] kind = "weyl"       -> WeylLemma(idx)
    [] kind = "inj"        -> InjLemma
    [] kind = "canon"      -> CanonLemma
    [] OTHER               -> TRUE

\* start -> NB bucket states -> the fact instances of that bucket (so that TLC's workers,
\* which check the invariant on the successors they generate, share the work)
NB == 16
Init == kind = "start" /\ idx = 0
Pick(k, S) == kind' = k /\ idx' \in {i \in S : i % NB = idx}
Next ==
  \/ kind = "start" /\ kind' = "bucket" /\ idx' \in 0..(NB - 1)
  \/ /\ kind = "bucket"
     /\ \/ Pick("annihilate", 0..159)
        \/ Pick("table", 0..63)
        \/ Pick("digits", 0..(NDigit * NTest - 1))
        \/ Pick("bigdigits", 0..(Len(BigCounts) * 2 - 1))
        \/ Pick("zpow", 0..KMax)
        \/ Pick("algebra", 0..(NAlgebra - 1))
        \/ Pick("weyl", 0..WeylMax)
        \/ Pick("inj", {0})
        \/ Pick("canon", {1})
Spec == Init /\ [][Next]_vars
=============================================================================
