---------------------------- MODULE XorwowTrace ----------------------------
(* Trace validation for C13: every record logged by harness/vrng.cc (which drives the real
   XorwowRngParams / XorwowRngEngine / Initializer / reseed_rng / GenerateCanonical code)
   is recomputed from spec/Xorwow.tla.  One record = one step.

   Named deviation (counted in `dev`, never hidden): CanonFOne -- the single-precision
   canonical generator returns exactly 1.0f for the 128 largest 32-bit words. *)
EXTENDS Xorwow, TLC, Json, IOUtils

TraceLog == ndJsonDeserialize(IOEnv.TRACE)

VARIABLES l,      \* next record
          dev,    \* records explained only by the named deviation
          cnt     \* records validated, per kind
vars == <<l, dev, cnt>>

Kinds == {"Table", "Jump", "Seq", "Sub", "Reseed", "Canon", "CanonEng", "CanonF", "CanonFEng"}
Rec == TraceLog[l]

Count(k) == cnt' = [cnt EXCEPT ![k] = @ + 1]
Plain(k, ok) == Rec.e = k /\ ok /\ Count(k) /\ dev' = dev

\* ---- the 64 table entries, each one individually: entry i of `jump` is z^(4^i) mod P,
\* entry i of `jump_subsequence` is z^(2^67 4^i) mod P (Xorwow!JumpTab, JumpSubTab: the laws)
TTable ==
  Plain("Table", /\ Rec.i \in 0..31
                 /\ Rec.which \in {"jump", "sub"}
                 /\ IsState(Rec.poly)
                 /\ Rec.poly = (IF Rec.which = "jump" THEN JumpTab ELSE JumpSubTab)[Rec.i + 1])

\* ---- discard(n): T^n s, Weyl word advanced by (n mod 2^32) * 362437
TJump ==
  Plain("Jump", /\ IsState(Rec.s) /\ IsCount(Rec.n)
                /\ Rec.s1 = Discard(Rec.n, Rec.s)
                /\ Rec.w1 = WeylAfter(Rec.w, Rec.n))

\* ---- n calls of operator() (iterating NextS / the Weyl addition; the last results are
\* compared too) reach the same state as discard(n), which in turn equals the polynomial form
TSeq ==
  Plain("Seq", LET n == Rec.n
                   keep == IF n < 8 THEN n ELSE 8
                   dm == DrawMany(Rec.s, Rec.w, n, keep) IN
               /\ n \in 0..65536
               /\ Len(Rec.outs) = keep
               /\ dm.s = Rec.s1 /\ dm.w = Rec.w1 /\ dm.outs = Rec.outs
               /\ Rec.ds1 = Rec.s1 /\ Rec.dw1 = Rec.w1
               /\ Rec.ds1 = Discard(CountOfNat(n), Rec.s)
               /\ Rec.dw1 = WeylAfter(Rec.w, CountOfNat(n)))

\* ---- Initializer {seed, subsequence, offset}: the seed state s0 (same seed, 0, 0; the
\* SplitMix64 seeding itself is not modelled) advanced by subsequence * 2^67 + offset steps
TSub ==
  Plain("Sub", /\ IsState(Rec.s0) /\ Rec.s0 # Zero5
               /\ IsCount(Rec.sub) /\ IsCount(Rec.off)
               /\ Rec.s1 = InitJump(Rec.sub, Rec.off, Rec.s0)
               /\ Rec.w1 = WeylAfter(Rec.w0, Rec.off))

\* ---- reseed_rng: slot i of an event gets subsequence event * size + i of the seed state
TReseed ==
  Plain("Reseed", /\ Rec.size \in 1..16383 /\ Rec.slot \in 0..(Rec.size - 1)
                  /\ IsCount(Rec.ev) /\ MulAdd64Fits(Rec.ev, Rec.size, Rec.slot)
                  /\ IsState(Rec.s0) /\ Rec.s0 # Zero5
                  /\ Rec.s1 = DiscardSub(MulAdd64(Rec.ev, Rec.size, Rec.slot), Rec.s0)
                  /\ Rec.w1 = Rec.w0)

\* ---- canonical reals
CanonOK(bits, expect, one, lt1, ge0) ==
  bits = expect /\ LessBits(bits, one) /\ lt1 /\ ge0
TCanon ==
  Plain("Canon", CanonOK(Rec.bits, CanonBits(Rec.u, Rec.l), OneBits64, Rec.lt1, Rec.ge0))
TCanonEng ==
  Plain("CanonEng", LET d1 == Draw(Rec.s, Rec.w)
                        d2 == Draw(d1.s, d1.w) IN
                    /\ CanonOK(Rec.bits, CanonBits(d1.out, d2.out), OneBits64, Rec.lt1, Rec.ge0)
                    /\ Rec.s1 = d2.s /\ Rec.w1 = d2.w)
\* CanonFOne: the word is one of the 128 largest (>= 0xffffff80), its conversion to float
\* rounds up to 2^32, and the result is exactly 1.0f -- and nothing else is wrong
CanonFOne(u, bits, lt1, ge0) ==
  /\ u[1] = 65535 /\ u[2] >= 65408
  /\ bits = CanonBitsF(u) /\ bits = OneBits32 /\ ~lt1 /\ ge0
TCanonF ==
  /\ Rec.e = "CanonF" /\ Count("CanonF")
  /\ \/ CanonOK(Rec.bits, CanonBitsF(Rec.u), OneBits32, Rec.lt1, Rec.ge0) /\ dev' = dev
     \/ CanonFOne(Rec.u, Rec.bits, Rec.lt1, Rec.ge0) /\ dev' = dev + 1
TCanonFEng ==
  /\ Rec.e = "CanonFEng" /\ Count("CanonFEng")
  /\ LET d1 == Draw(Rec.s, Rec.w) IN
     /\ Rec.s1 = d1.s /\ Rec.w1 = d1.w
     /\ \/ CanonOK(Rec.bits, CanonBitsF(d1.out), OneBits32, Rec.lt1, Rec.ge0) /\ dev' = dev
        \/ CanonFOne(d1.out, Rec.bits, Rec.lt1, Rec.ge0) /\ dev' = dev + 1

Init == l = 1 /\ dev = 0 /\ cnt = [k \in Kinds |-> 0]
Next ==
  /\ l <= Len(TraceLog)
  /\ l' = l + 1
  /\ \/ TTable \/ TJump \/ TSeq \/ TSub \/ TReseed
     \/ TCanon \/ TCanonEng \/ TCanonF \/ TCanonFEng
Spec == Init /\ [][Next]_vars

Accepted ==
  LET d == TLCGet("stats").diameter IN
  IF d - 1 = Len(TraceLog) THEN TRUE
  ELSE /\ PrintT(<<"REJECTED", d, TraceLog[d]>>)
       /\ FALSE
Report ==
  (l = Len(TraceLog) + 1) =>
      PrintT(<<"SUMMARY", "Table", cnt["Table"], "Jump", cnt["Jump"], "Seq", cnt["Seq"],
               "Sub", cnt["Sub"], "Reseed", cnt["Reseed"], "Canon", cnt["Canon"],
               "CanonEng", cnt["CanonEng"], "CanonF", cnt["CanonF"],
               "CanonFEng", cnt["CanonFEng"], "deviations", dev>>)
=============================================================================
