"""C01 Transport conserves energy over every event and every track."""
import coreloop, vlib
LEVEL = "model_checking"


def run(ctx):
    q = ctx.quick
    st, tr = coreloop.design(ctx, [("CoreLoopMC_ledger2", 8)])
    cs = coreloop.base_matrix(ctx.seed, q)
    for i in range(16 if q else 128):
        cs.append(dict(seed=ctx.seed + 2000 + i, slots=[1, 4, 16, 64][i % 4], events=2, prims=[2, 4][i % 2],
                       emax=[3, 30, 300, 3000][i % 4], dets=0, fluct=i % 2, scale=[0.3, 1, 5, 20, 50][i % 5],
                       order=["none", "init_charge", "none", "reindex_shuffle"][(i // 4) % 4], inflight=[0, 2][(i // 2) % 2],
                       maxsteps=60000,
                       secfactor=[3, 3, 0.6, 0.3][i % 4], diag=0, msc=[0, 1][(i // 3) % 2],
                       field=[0, 0, 1][i % 3]))
    # conversions just above threshold: positrons born below their production cut (2mc^2 must be deposited)
    for i in range(6 if q else 40):
        cs.append(dict(seed=ctx.seed + 2500 + i, slots=[4, 16][i % 2], events=6, prims=4, ptype=0, emin=1.03,
                       emax=[1.3, 2.0][i % 2], dets=0, fluct=0, scale=50, order="none", inflight=0, maxsteps=60000, diag=0))
    # many queued mixed-charge initializers against few vacancies: the partitioned initialisation of init_charge
    for i in range(4 if q else 24):
        cs.append(dict(seed=ctx.seed + 2700 + i, slots=[2, 3, 4, 8][i % 4], events=2, prims=[6, 9][i % 2], emax=[30, 300][i % 2],
                       dets=0, fluct=0, scale=[5, 20][i % 2], order="init_charge", inflight=[0, 1][i % 2], maxsteps=60000, diag=0))
    tot, outs = coreloop.validate(ctx, cs, ["C01."], nshards=8)
    # exact ledgers: TLC-simulated behaviours replayed with scripted physics (dyadic energies, sub-cut electrons,
    # photons and positrons, positron parents): the balance must close to the quantum
    rtot, rsamples = coreloop.replay(ctx, [("replay_none2", dict(NSlots=2, InitCap=3, Charge=False)),
                                           ("replay_none3", dict(NSlots=3, InitCap=4, Charge=False)),
                                           ("replay_charge3", dict(NSlots=3, InitCap=4, Charge=True))],
                                     120 if q else 1200, ["C01."], depth=90, per_cfg=200 if q else 3000)
    tot["replay"] = rtot
    ctx.coverage.update({"states": st, "transitions": tr, "traces_validated_against_impl": tot["runs"] + rtot["runs"],
                         "samples": coreloop.sample_records(outs, kinds=("Post",)), "evaluations": tot["steps"],
                         "distinct_nontrivial": tot["tracks"],
                         "rule": "evaluations = track steps whose ledger W_pre = W_post + dep + sum W(secondaries) was evaluated "
                                 "(W = T + 2mc^2 for positrons, fixed-point quanta 2^-28 of the run's total energy, tolerance = "
                                 "rounding bound (n+3)/2 quanta); distinct_nontrivial = distinct tracks; event ledger at every "
                                 "EventsDone",
                         "impl_stats": tot})
    ctx.assumptions += ["energies reach TLC as fixed-point quanta (2^-28 of the total primary energy of the run): leaks below ~4e-9 of that are not seen",
                        "hand-built synthetic tables (seed-scaled); mean and fluctuating loss; linear and uniform-field propagation; with and without Urban MSC (synthetic transport cross section)",
                        "deposits are read from the per-slot step state by an independent observer action and, in C17, compared with what callbacks receive"]
