"""C02 Every primary and secondary is transported exactly once."""
import coreloop, vlib
LEVEL = "model_checking"


def run(ctx):
    q = ctx.quick
    st, tr = coreloop.design(ctx, [("CoreLoopMC_none2", 6), ("CoreLoopMC_charge2", 6)] if q else
                             [("CoreLoopMC_none2", 8), ("CoreLoopMC_charge2", 8), ("CoreLoopMC_none3", 16), ("CoreLoopMC_charge3", 16)])
    cs = coreloop.base_matrix(ctx.seed, q)
    # emphasis: few slots, both layouts, primaries arriving while tracks are in flight, tight (not exceeded) queue
    orders = ["none", "init_charge"]
    for i in range(16 if q else 96):
        cs.append(dict(seed=ctx.seed + 1000 + i, slots=[1, 2, 3, 4][i % 4], events=3, prims=[1, 2, 3][i % 3],
                       emax=[30, 300][i % 2], dets=0, fluct=0, scale=[5, 20, 50][i % 3], order=orders[i % 2],
                       inflight=[0, 1, 3][i % 3], maxsteps=40000))
    tot, outs = coreloop.validate(ctx, cs, ["C02.", "DRIFTX"], nshards=8)
    ctx.coverage.update({"states": st, "transitions": tr, "traces_validated_against_impl": tot["runs"],
                         "samples": coreloop.sample_records(outs), "evaluations": tot["steps"],
                         "distinct_nontrivial": tot["tracks"],
                         "rule": "evaluations = track steps validated; distinct_nontrivial = distinct tracks (event, track id) "
                                 "created in the validated runs; design model states = CoreLoopMC (index arithmetic of the "
                                 "track-initialisation executors, refinement to the CoreLoop clauses, both track layouts)",
                         "impl_stats": tot})
    ctx.assumptions += ["small-scope: design model exhaustive for 2 (quick) / 2-3 (thorough) slots, <=2 secondaries per step, <=5 tracks, 3 iterations",
                        "conformance by trace validation of seeded real-physics runs (hand-built e-/e+/gamma problem), 1-64 slots, 8 track orders",
                        "Terminates: bounded by maxsteps in the harness (Hang event) and finiteness-by-construction in the model"]
