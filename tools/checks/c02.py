"""C02 Every primary and secondary is transported exactly once."""
import coreloop, vlib
LEVEL = "model_checking"


def run(ctx):
    q = ctx.quick
    st, tr = coreloop.design(ctx, [("CoreLoopMC_none2", 6), ("CoreLoopMC_charge2", 6)] if q else
                             [("CoreLoopMC_none2", 8), ("CoreLoopMC_charge2", 8), ("CoreLoopMC_none3", 16), ("CoreLoopMC_charge3", 16), ("CoreLoopMC_live", 4)])
    cs = coreloop.base_matrix(ctx.seed, q)
    # emphasis: few slots, both layouts, primaries arriving while tracks are in flight, tight (not exceeded) queue
    orders = ["none", "init_charge"]
    for i in range(16 if q else 96):
        cs.append(dict(seed=ctx.seed + 1000 + i, slots=[1, 2, 3, 4][i % 4], events=3, prims=[1, 2, 3][i % 3],
                       emax=[30, 300][i % 2], dets=0, fluct=0, scale=[5, 20, 50][i % 3], order=orders[i % 2],
                       inflight=[0, 1, 3][i % 3], maxsteps=40000))
    tot, outs = coreloop.validate(ctx, cs, ["C02.", "DRIFTX"], nshards=8)
    # replay: TLC-simulated behaviours of the design model executed with scripted physics on the real Stepper
    rcfgs = [("replay_none2", dict(NSlots=2, InitCap=3, Charge=False)), ("replay_charge2", dict(NSlots=2, InitCap=3, Charge=True)),
             ("replay_none3", dict(NSlots=3, InitCap=4, Charge=False)), ("replay_none1", dict(NSlots=1, InitCap=2, Charge=False))]
    if not q:
        rcfgs += [("replay_charge3", dict(NSlots=3, InitCap=4, Charge=True)), ("replay_cap2", dict(NSlots=2, InitCap=2, Charge=False))]
    rtot, rsamples = coreloop.replay(ctx, rcfgs, 160 if q else 1600, ["C02.", "C01.", "C05.", "C16.", "C17."], depth=90,
                                     per_cfg=250 if q else 4000)
    ctx.coverage.update({"states": st, "transitions": tr, "traces_validated_against_impl": tot["runs"] + rtot["runs"],
                         "samples": coreloop.sample_records(outs), "evaluations": tot["steps"],
                         "distinct_nontrivial": tot["tracks"],
                         "rule": "evaluations = track steps validated; distinct_nontrivial = distinct tracks (event, track id) "
                                 "created in the validated runs; design model states = CoreLoopMC (index arithmetic of the "
                                 "track-initialisation executors, refinement to the CoreLoop clauses, both track layouts)",
                         "impl_stats": tot, "replay_stats": rtot, "replay_sample_script": rsamples[:1]})
    if rtot.get("impl_drift_runs"):
        vlib.log("DRIFT (informational): %d replayed behaviours differ from CoreLoopMC's predicted slot/queue maps: %s"
                 % (rtot["impl_drift_runs"], rtot["impl_drift_samples"][:1]))
    ctx.assumptions += ["replay: CoreLoopMC behaviours sampled by TLC -simulate (not the full set) are executed with scripted physics "
                        "(public Process/Model API) through the real pre-step/select/InteractionApplier/cutoff/allocator/track-init code; "
                        "the model's predicted slot and queue maps are compared after every Start/End (drift is informational)"]
    ctx.assumptions += ["small-scope: design model exhaustive for 2 (quick) / 2-3 (thorough) slots, <=2 secondaries per step, <=5 tracks, 3 iterations",
                        "conformance by trace validation of seeded real-physics runs (hand-built e-/e+/gamma problem), 1-64 slots, 8 track orders",
                        "Terminates: bounded by maxsteps in the harness (Hang event) and finiteness-by-construction in the model"]
