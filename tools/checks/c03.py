"""C03 Geometry navigation matches true point location along every ray.

spec/LatticeNav.tla     exact point location VolPath from a lattice-world definition + the
                        navigator protocol (DESIGN 4.4 table) with the expected observation of
                        every call: clauses C03.Sync / SyncPath / NextDistance / NoSkip /
                        NoInventedBoundary / Truncation / LimitInclusive / OnBoundaryFlag /
                        ExitsWorld / Position / CrossFailed / InitFailed (and C11.*).
spec/LatticeNavMC.tla   design check: implementation-shaped multi-level algorithm refines the
                        abstract navigator under all protocol interleavings (fixed); with
                        set_dir's level loop AS CODED it must be refuted (vacuity guard, F-NAV-1).
spec/LatticeNavTrace    trace validation of the real OrangeTrackView on lattice worlds built
                        through orangeinp (exhaustive over the protocol-state graph + random walks).
spec/RayNavTrace        bundled fixtures, facts from the independent oracle tools/oracle_geo.py.
"""
import os

import latticenav as L
import vlib

LEVEL = "model_checking"


def run(ctx):
    q = ctx.quick
    vlib.build(["vnav"])
    files = L.make_worlds(ctx, 5 if q else 200, big=not q)
    by_name = {os.path.splitext(os.path.basename(f))[0]: f for f in files}
    st, tr, dinfo, guard = L.design(ctx, by_name, with_guard=True)
    tot, samples = L.replay(ctx, files, "both", ["C03."], explore_bound=0, maxcalls=300000 if q else 600000,
                            nwalks=25 if q else 80, walklen=50 if q else 120, maxpar=8 if q else 12)
    curved = [] if L.skip("fixtures") else L.curved_files(ctx, 3 if q else 40)
    ftot, fsamples = L.fixtures(ctx, ["C03."], nrays=300 if q else 20000, nwalks=250 if q else 6000,
                                nprobes=0, nturns=350 if q else 12000, maxpar=8 if q else 12, nshards=6 if q else 12,
                                extra_files=curved)
    ctx.coverage.update({
        "traces_validated_against_impl": tot["traces"] + ftot["fixtures"],
        "samples": samples + fsamples,
        "evaluations": tot["calls"] + tot["inits"] + ftot["stat"].get("judged", 0),
        "distinct_nontrivial": tot["states"],
        "rule": "evaluations = navigator calls replayed on lattice worlds (each judged by LatticeNav against exact point "
                "location) + fixture calls judged through oracle facts; distinct_nontrivial = distinct protocol states "
                "(position, direction, phase, cached step, reference direction) whose every legal operation was executed on "
                "the real OrangeTrackView (exhaustive over the reachable protocol-state graph of each world, all cell "
                "centres x 6 directions as start states); states/transitions = LatticeNavMC design model (all protocol "
                "interleavings, unbounded depth, on %s)" % ", ".join(L.MC_WORLDS),
        "exhaustive": tot["truncated_worlds"] == 0,
        "design": dinfo, "vacuity_guard_ascoded": guard,
        "lattice": {k: tot[k] for k in ("traces", "calls", "inits", "judged", "unjudged", "states", "exhaustive_worlds",
                                         "truncated_worlds", "per_op", "other_clauses")},
        "lattice_worlds": len(files), "curved_worlds": len(curved),
        "fixtures": {k: ftot[k] for k in ("fixtures", "records", "oracle_queries", "discarded", "normals", "facts", "skipped", "stat",
                                           "dev", "other_clauses")},
    })
    if st:
        ctx.coverage.update({"states": st, "transitions": tr})
    knobs = {k: os.environ[k] for k in ("VERIF_NAV_WORLDS", "VERIF_NAV_SKIP", "VERIF_NAV_FIXTURES") if os.environ.get(k)}
    if knobs:
        ctx.coverage["restricted_by_debug_knobs"] = knobs
    ctx.assumptions += [
        "lattice worlds: axis-aligned planes at even integers, signed-permutation daughters, tracks stop at cell centres or on "
        "boundaries, six axis directions, on a boundary only +-normal directions (tangent directions are outside the property); "
        "face-diagonal directions are covered only on the fixtures",
        "the protocol is the table of DESIGN 4.4 (union of the patterns of Celeritas' own callers); L-NAV-1 (cross_boundary "
        "again after reversing on a crossed boundary) is a documented null-op and is never generated",
        "exploration identifies navigator states with equal protocol state (position, direction, phase, cached step): histories "
        "are enumerated modulo that equivalence; seeded random walks complement it",
        "boundary turns: on every boundary reached a fresh direction (generic, turned back, deflected, nearly tangent) is set "
        "with probability 3/4 before cross_boundary; the exiting / re-entrant decision is judged against the sign of "
        "(direction . true normal) from the oracle (clause C03.ReentrantDecision) and the volume after the crossing against "
        "point location a small distance along the true normal; geometries: the bundled fixtures plus seeded curved worlds "
        "(spheres / cylinders in boxes under arbitrary rotations / reflections, three levels) built through orangeinp",
        "fixtures: truth = tools/oracle_geo.py (independent evaluation of quadrics + volume logic from the JSON); points within "
        "1e-6 relative of a surface, overlapping regions (universes.org.json) and degenerate inputs (lead-box.org.json: "
        "coincident duplicate surfaces) are discarded and counted; involute fixtures are skipped",
        "small-scope: design model on 3 small worlds (quarter turn, improper rotation, 3 levels)",
        "exploration look-ahead: an operation leading to an already discovered protocol state is followed by one more call "
        "(find_next_step, or cross_boundary before a crossing) on the navigator state IT produced, so that what it left behind "
        "beyond the protocol state (level-local positions / directions, flags, surface sense) is judged; Copy = a second track "
        "slot initialised from the track through DetailedInitializer (new direction in the interior, same direction on a "
        "boundary) which then continues as the track; move_internal(position) inside the reported safety sphere also on the "
        "fixtures and curved worlds",
    ]
