"""C04 Every discrete interaction conserves energy and yields valid final states.

spec/Interact.tla states, per interaction model, what one call of an interactor may return
(ledger in quanta, valid types, finite non-negative energies, secondaries above the model's
own threshold, unit directions and momentum as oracle-decided residual brackets, draw bound,
explicit failure / allocator contract, legality of Action::unchanged).  harness/vinteract.cc
constructs every real interactor through its public header and samples it over its whole
applicability window (both end points, +-1 ulp, log-uniform in the distance from the end
points, log-uniform inside), all incident directions, several materials / elements / cuts,
with secondary-stack capacities 0,1,2,... (fault enumeration) as well as ample.  TLC validates
every record against spec/InteractTrace.tla (trace validation).  Design check:
spec/StackAlloc.tla (PlusCal) -- the lock-free allocator under <=4 concurrent callers -- is
model-checked as coded and for two seeded design mutants (vacuity guard); the real allocator
is bound to it sequentially (spec/StackAllocTrace.tla).
"""
import concurrent.futures as cf
import json
import os
import re
import time

import vlib

LEVEL = "exploration"

DEVIATIONS = {
    "EPlusGGInFlightSecondPhotonDirection":
        "EPlusGGInteractor in flight: momentum not conserved, direction of the second photon",
    "BhabhaNearCutNaNDirection":
        "MollerBhabhaInteractor (positron) with E within 1e-8 of the electron cut: NaN directions",
    "BremNearCutNegativeEnergy":
        "SB/combined brems with E within 1e-8 of the gamma cut: outgoing kinetic energy < 0",
    "RotateNearPoleNegativeY":
        "corecel rotate(): incident direction within sin(theta) < 0.005 of the z axis with negative y: "
        "exiting directions rotated about the mirrored axis, momentum not conserved",
    "PositronBremNearCutSlowRejection":
        "SB/combined brems, positron with E within 1e-3 of the gamma cut: > 1e5 draws",
}


def _summary(out):
    m = re.search(r'<<"SUMMARY", "(.*)">>', out)
    if not m:
        return None
    return json.loads(m.group(1).replace('\\"', '"'))


def _close_record(path):
    with open(path, "rb") as fh:
        fh.seek(0, os.SEEK_END)
        size = fh.tell()
        fh.seek(max(0, size - 4_000_000))
        tail = fh.read().decode(errors="replace").strip().split("\n")
    try:
        return json.loads(tail[-1])
    except Exception:
        return {}


def _record(path, k):
    """The Sample record number k of a trace (for the replay directory)."""
    try:
        with open(path) as fh:
            for line in fh:
                if '"k":%d,' % k in line or '"k":%d}' % k in line:
                    r = json.loads(line)
                    if r.get("e") in ("Sample", "Hang") and r.get("k") == k:
                        return r
    except OSError:
        pass
    return None


def _shard(ctx, name, seed, nper, keep):
    """One shard: harness -> ndjson -> TLC.  Returns dict."""
    path = ctx.path(name + ".ndjson")
    t0 = time.time()
    r = vlib.run_harness("vinteract", ["samples", path, seed, nper, "all", 200000, 60], timeout=1500, check=False)
    th = time.time() - t0
    res = {"name": name, "path": path, "seed": seed, "nper": nper, "harness_s": th, "crash": None,
           "rejected": None, "summary": None, "close": {}, "tlc_s": 0.0}
    if r.returncode != 0:
        if r.returncode in (2, 3):
            raise vlib.Broken("vinteract failed to set up (exit %d):\n%s" % (r.returncode, (r.stderr or "")[-2000:]))
        res["crash"] = "vinteract samples seed=%d n=%d exited %d (crash / timeout inside an interactor)\n%s" % (
            seed, nper, r.returncode, (r.stderr or "")[-1500:])
        return res
    t1 = time.time()
    ok, tr = vlib.validate_trace("InteractTrace", "InteractTrace", path, timeout=3000, heap="4g")
    res["tlc_s"] = time.time() - t1
    res["summary"] = _summary(tr.out)
    if not ok:
        res["rejected"] = vlib.rejected_info(tr)
    elif res["summary"] is None:
        raise vlib.Broken("no SUMMARY from InteractTrace on %s:\n%s" % (path, tr.out[-2000:]))
    res["close"] = _close_record(path)
    # keep the evidence of anything reported; drop the (large) trace otherwise
    s = res["summary"] or {}
    res["recs"] = {}
    with open(path) as fh:
        res["config"] = fh.readline().strip()
    for d in s.get("dev", []):
        res["recs"][("dev", d["name"])] = _record(path, d["k"])
    for v in s.get("viol", []):
        res["recs"][("viol", v["clause"], v["var"])] = _record(path, v["k"])
    res["keep"] = bool(keep or res["rejected"] or s.get("viol"))
    return res


def _design(ctx, quick):
    """StackAlloc design check: as coded must hold, seeded mutants must be refuted."""
    out = {}
    # quick: 3 concurrent callers (seconds); thorough: 4 callers (3.0e5 states with symmetry)
    cfg0 = "StackAllocMC_quick" if quick else "StackAllocMC"
    r = vlib.tlc("StackAlloc", cfg0, workers=4, timeout=1700, heap="6g", expect_ok=True)
    if not r.ok:
        ctx.violation("StackAlloc.tla (allocator as coded) violates %s" % r.violated_names(),
                      tags={"clause": "C04.StackAllocDesign"})
    out["states"], out["transitions"], out["depth"] = r.distinct, r.generated, r.depth
    out["wall_s"] = round(r.wall, 1)
    out["config"] = cfg0 + ": callers=%d, capacities 1..4, counts 1..3" % (3 if quick else 4)
    # Interact.tla itself: canonical outcomes accepted, every single fault attributed exactly
    im = vlib.tlc("InteractMC", "InteractMC", workers=1, timeout=900, heap="4g", expect_ok=True)
    mm = re.search(r'<<"SUMMARY", "cases", (\d+), "faults", (\d+)>>', im.out)
    if not im.ok or not mm:
        raise vlib.Broken("InteractMC (vacuity guard of the clauses) failed: %s\n%s" % (im.violated_names(), im.out[-2500:]))
    out["interact_cases"], out["interact_faults_attributed"] = int(mm.group(1)), int(mm.group(2))
    for cfg, inv in (("StackAllocMC_norestore", "FinalSizeExact"), ("StackAllocMC_writefirst", "FailedWritesNothing")):
        m = vlib.tlc("StackAlloc", cfg, workers=2, timeout=900, heap="4g", expect_ok=True)
        names = m.violated_names()
        if m.ok or inv not in names:
            raise vlib.Broken("vacuity guard: design mutant %s was not refuted by %s (got %s)" % (cfg, inv, names))
        out["mutant_" + cfg.split("_")[1]] = "refuted by " + inv
    return out


def _alloc_binding(ctx, quick):
    path = ctx.path("alloc.ndjson")
    vlib.run_harness("vinteract", ["alloc", path, ctx.seed, 400 if quick else 4000], timeout=600)
    ok, tr = vlib.validate_trace("StackAllocTrace", "StackAllocTrace", path, timeout=1500)
    s = _summary(tr.out)
    if not ok:
        ctx.violation("allocator call sequence rejected by StackAllocTrace:\n" + vlib.rejected_info(tr),
                      tags={"clause": "C04.AllocatorContract", "trace": "alloc"}, files=[path])
        return {"calls": 0}
    if s is None:
        raise vlib.Broken("no SUMMARY from StackAllocTrace:\n" + tr.out[-2000:])
    for clause, line in s["viol"]:
        ctx.violation("real StackAllocator call (record %d of alloc.ndjson) violates %s" % (line, clause),
                      tags={"clause": clause, "trace": "alloc"}, files=[path])
    return s["stat"]


def run(ctx):
    vlib.build(["vinteract"])
    q = ctx.quick
    if getattr(ctx, "replay", None):
        ok, tr = vlib.validate_trace("InteractTrace", "InteractTrace", ctx.replay, timeout=3000)
        s = _summary(tr.out) or {}
        print(json.dumps(s, indent=1)[:4000])
        if not ok or s.get("viol"):
            ctx.violation("replay %s: %s" % (ctx.replay, vlib.rejected_info(tr) if not ok else s.get("viol")),
                          tags={"trace": "replay"}, files=[ctx.replay])
        for d in s.get("dev", []):
            ctx.violation("replay %s: %s (%d samples)" % (ctx.replay, d["name"], d["n"]),
                          tags={"deviation": d["name"]}, files=[ctx.replay])
        ctx.coverage.update({"evaluations": (s.get("stat") or {}).get("samples", 1), "distinct_nontrivial": 2,
                             "rule": "replay of one recorded trace", "samples": [ctx.replay]})
        return

    per_variant = 2000 if q else 200000
    chunk = 250 if q else 1000          # samples per variant per shard (21 variants per shard)
    nshards = per_variant // chunk
    budget_s = 150 if q else 21 * 60    # stop launching new shards after this wall time
    maxpar = 8
    t_start = time.time()

    pool = cf.ThreadPoolExecutor(max_workers=maxpar + 2)
    fut_design = pool.submit(_design, ctx, q)
    fut_alloc = pool.submit(_alloc_binding, ctx, q)

    results = []
    launched = 0
    pending = set()
    skipped = 0
    i = 0
    while i < nshards or pending:
        while i < nshards and len(pending) < maxpar:
            if launched >= 2 and time.time() - t_start > budget_s:
                skipped = nshards - i
                i = nshards
                break
            pending.add(pool.submit(_shard, ctx, "s%04d" % i, ctx.seed + 7919 * i, chunk, i == 0))
            launched += 1
            i += 1
        if not pending:
            break
        done, pending = cf.wait(pending, return_when=cf.FIRST_COMPLETED)
        for f in done:
            res = f.result()
            results.append(res)
            if not res.get("keep") and os.path.exists(res["path"]):
                os.remove(res["path"])     # nothing to report from this shard: drop the large trace

    design = fut_design.result()
    alloc_stat = fut_alloc.result()
    pool.shutdown()

    # ---- aggregate ----
    tot = {}
    devs = {}
    viols = []
    per_var = {}
    per_act = {}
    classes = set()
    max_draws = {}
    samples = []
    ntraces = 0
    for res in sorted(results, key=lambda r: r["name"]):
        if res["crash"]:
            ctx.violation(res["crash"], tags={"clause": "C04.Crash"}, files=[res["path"]])
            continue
        if res["rejected"]:
            ctx.violation("trace %s (vinteract samples seed=%d n=%d) rejected by InteractTrace:\n%s"
                          % (res["name"], res["seed"], res["nper"], res["rejected"]),
                          tags={"trace": res["name"]}, files=[res["path"]])
            continue
        ntraces += 1
        s = res["summary"]
        for k, v in s["stat"].items():
            tot[k] = tot.get(k, 0) + v
        for d in s["dev"]:
            e = devs.setdefault(d["name"], {"n": 0, "first": None})
            e["n"] += d["n"]
            if e["first"] is None:
                e["first"] = (res, d["k"])
        for v in s["viol"]:
            viols.append((res, v))
        c = res["close"]
        for k, v in c.get("per_variant", {}).items():
            per_var[k] = per_var.get(k, 0) + v
        for k, v in c.get("per_action", {}).items():
            per_act[k] = per_act.get(k, 0) + v
        for k, v in c.get("max_draws_variant", {}).items():
            max_draws[k] = max(max_draws.get(k, 0), v)
        classes.update(c.get("classes", []))
        if res["name"] == "s0000" and os.path.exists(res["path"]):
            with open(res["path"]) as fh:
                for n, line in enumerate(fh):
                    if n in (1, 700, 2600, 4100) and len(samples) < 4:
                        samples.append(json.loads(line))

    # ---- report ----
    seen = set()
    for res, v in viols:
        key = (v["clause"], v["var"])
        if key in seen:
            continue
        seen.add(key)
        rec = res["recs"].get(("viol", v["clause"], v["var"]))
        small = ctx.path("viol_%s_%s.json" % (v["clause"].replace(".", "_"), re.sub(r"\W", "_", v["var"])))
        with open(small, "w") as fh:
            json.dump({"clause": v["clause"], "variant": v["var"], "sample": v["k"], "harness":
                       "vinteract samples <out> %d %d all" % (res["seed"], res["nper"]), "record": rec}, fh, indent=1)
        mini = small.replace(".json", ".ndjson")      # bin/check C04 --replay <this file>
        with open(mini, "w") as fh:
            fh.write(res["config"] + "\n" + json.dumps(rec, separators=(",", ":")) + "\n"
                     + json.dumps({"e": "Close", "n": 1}) + "\n")
        x = (rec or {}).get("x", {})
        ctx.violation("%s violated by %s: sample %d of `vinteract samples out %d %d all`; incident %s E=%s MeV dir=%s "
                      "inputs=%s -> act=%s E_out=%s dep=%s secondaries=%s draws=%s stack=%s"
                      % (v["clause"], v["var"], v["k"], res["seed"], res["nper"], (rec or {}).get("inc", {}).get("pt"),
                         x.get("E"), x.get("dir"), json.dumps(x.get("info")), (rec or {}).get("act"), x.get("Eout"),
                         x.get("dep"), [(s["pt"], e) for s, e in zip((rec or {}).get("secs", []), x.get("secE", []))],
                         (rec or {}).get("draws"), json.dumps((rec or {}).get("al"))),
                      tags={"clause": v["clause"], "variant": v["var"]}, files=[small, mini])
    for name, e in sorted(devs.items()):
        res, k = e["first"]
        rec = res["recs"].get(("dev", name))
        small = ctx.path("dev_%s.json" % name)
        with open(small, "w") as fh:
            json.dump({"deviation": name, "hits": e["n"], "first_sample": k, "harness":
                       "vinteract samples <out> %d %d all" % (res["seed"], res["nper"]), "record": rec}, fh, indent=1)
        mini = small.replace(".json", ".ndjson")
        with open(mini, "w") as fh:
            fh.write(res["config"] + "\n" + json.dumps(rec, separators=(",", ":")) + "\n"
                     + json.dumps({"e": "Close", "n": 1}) + "\n")
        x = (rec or {}).get("x", {})
        ctx.violation("%s: %d samples (%s); first: sample %d of `vinteract samples out %d %d all`, %s incident %s "
                      "E=%s MeV inputs=%s -> E_out=%s secondaries=%s draws=%s"
                      % (name, e["n"], DEVIATIONS.get(name, ""), k, res["seed"], res["nper"], (rec or {}).get("var"),
                         (rec or {}).get("inc", {}).get("pt"), x.get("E"), json.dumps(x.get("info")), x.get("Eout"),
                         x.get("secE"), (rec or {}).get("draws")),
                      tags={"deviation": name}, files=[small, mini])

    nsamp = tot.get("samples", 0)
    if nsamp == 0 and not ctx.violations:
        raise vlib.Broken("no samples were validated")
    ctx.coverage.update({
        "evaluations": nsamp,
        "distinct_nontrivial": len(classes),
        "rule": "one evaluation = one call of a real interactor validated by TLC against Interact!Clauses (12 clauses); "
                "inputs: 21 model variants x incident energy over the applicability window (end points, +-1 ulp, "
                "log-uniform in the distance from the end points, log-uniform inside) x direction on the sphere "
                "(poles, axes, near-pole, isotropic) x material/element/cut set x stack state (ample, or free slots "
                "0..reservation+1 with 0..3 entries already in use) x random stream; distinct_nontrivial = number of "
                "distinct classes (variant, decade of the incident energy, capacity class, outcome kind = action / "
                "number of secondaries / false secondary / local deposit) hit, counted by the harness",
        "samples": samples[:4] or [{}],
        "per_model": per_var,
        "per_action": per_act,
        "stat": tot,
        "max_draws_per_variant": max_draws,
        "named_deviation_hits": {k: v["n"] for k, v in devs.items()},
        "violating_samples": sum(r["summary"]["nviol"] for r in results if r.get("summary")),
        "traces_validated_against_impl": ntraces + 1,
        "shards_skipped_by_time_budget": skipped,
        "samples_per_variant_requested": per_variant,
        "states": design["states"], "transitions": design["transitions"],
        "design": design,
        "allocator_binding": alloc_stat,
        "harness_s": round(sum(r["harness_s"] for r in results), 1),
        "tlc_s": round(sum(r["tlc_s"] for r in results), 1),
    })
    ctx.assumptions += [
        "ledger quantum = 2^-28 of max(W_in, 1 MeV) rounded up to a power of two; tolerance (n+2)/2 quanta for n rounded terms",
        "oracle-decided by the harness from the documented definitions, entering the trace as rank brackets: "
        "| |d| - 1 | <= 1e-10; momentum residual <= 1e-6 (relative to max(|p_in|, sum |p_out|)); T_max of a delta ray; "
        "production thresholds with a relative bracket of 1e-9",
        "momentum balance is only claimed for models returning all products (Klein-Nishina without cut electron, "
        "Moller/Bhabha, e+ annihilation, mu/hadron ionisation); brems, pair production, photoelectric, Rayleigh, "
        "Coulomb and neutron elastic leave recoil to an unmodelled nucleus/atom",
        "gamma models with applicability [0, inf) are driven over [1 eV, 100 TeV]; windows honour each interactor's "
        "CELER_EXPECT preconditions (E > cut etc.); only Z=19 (Livermore), Z=29 (Seltzer-Berger), He/Cu (CHIPS) data exist",
        "draw bound = 1e5 32-bit words per call (cap 2e5, then the call is aborted and reported)",
        "host double-precision build; concurrent callers of StackAllocator are covered by the PlusCal design check "
        "only (this build's atomic_add is not atomic across threads, so the real allocator is bound sequentially)",
        "rank abstraction in harness/vjson.hh (order preserving within one record); TLC",
    ]
