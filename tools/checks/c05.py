"""C05 Each track's step history is continuous and respects its step limits."""
import coreloop, vlib
LEVEL = "model_checking"


def run(ctx):
    q = ctx.quick
    st, tr = coreloop.design(ctx, [("CoreLoopMC_ledger2", 8)])
    cs = coreloop.base_matrix(ctx.seed + 7, q)
    for i in range(8 if q else 64):
        cs.append(dict(seed=ctx.seed + 3000 + i, slots=[2, 8][i % 2], events=2, prims=4, emax=[30, 1000][i % 2], dets=0,
                       fluct=i % 2, scale=[0.3, 5, 50][i % 3], order=["none", "reindex_shuffle", "reindex_status"][i % 3],
                       inflight=[0, 2][i % 2], maxsteps=60000, diag=0, msc=[1, 0, 1][i % 3],
                       field=[0, 1, 0.1, 0][i % 4]))
    tot, outs = coreloop.validate(ctx, cs, ["C05."], nshards=8)
    ctx.coverage.update({"states": st, "transitions": tr, "traces_validated_against_impl": tot["runs"],
                         "samples": coreloop.sample_records(outs, kinds=("Post",)), "evaluations": tot["steps"],
                         "distinct_nontrivial": tot["tracks"],
                         "rule": "evaluations = track steps validated for continuity (bit tokens of E, t, pos; volume), time/energy "
                                 "monotonicity, step > 0, step <= pre-step limit, step >= chord, volume = analytic box location, "
                                 "volume change only at a boundary step, status forward; distinct_nontrivial = distinct tracks",
                         "impl_stats": tot})
    ctx.assumptions += ["along-step variants: linear / uniform magnetic field x {no MSC, Urban MSC with a synthetic transport cross "
                        "section} x mean / fluctuating loss; F-MSC-1 (MSC displacement in a field can exceed the step by <2%) is a known finding",
                        "volume oracle: analytic point-in-box for test/geocel/data/two-boxes.org.json (points within 1e-6 of a face undecided)",
                        "orderings decided on dense ranks of the doubles; equalities on bit-exact tokens",
                        "zero-length physics-failure retry steps (C16) are exempt from the step-length clauses"]
