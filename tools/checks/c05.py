"""C05 Each track's step history is continuous and respects its step limits."""
import coreloop, vlib
LEVEL = "model_checking"


def run(ctx):
    q = ctx.quick
    st, tr = coreloop.design(ctx, [("CoreLoopMC_ledger2", 8)])
    cs = coreloop.base_matrix(ctx.seed + 7, q)
    for i in range(8 if q else 64):
        cs.append(dict(seed=ctx.seed + 3000 + i, slots=[2, 8][i % 2], events=2, prims=4, emax=[30, 1000][i % 2], dets=0,
                       fluct=i % 2, scale=[0.3, 5, 50][i % 3], order=["none", "reindex_shuffle", "reindex_status"][i % 3],
                       inflight=[0, 2][i % 2], maxsteps=60000, diag=0, msc=[1, 0, 1][i % 3],
                       field=[0, 1, 0.1, 0][i % 4]))
    # a deterministic step limit commensurate with the geometry: the boundary is reached exactly at the physics
    # limit (charged tracks from the origin along an axis, 20 x 0.25 cm = the inner box half-width)
    for i in range(6 if q else 30):
        cs.append(dict(seed=ctx.seed + 3500 + i, slots=[2, 8][i % 2], events=6, prims=3, ptype=[1, 2][i % 2], emax=[30, 300][i % 2],
                       emin=3, dets=0, fluct=0, scale=[0.01, 1][i % 2], order="none", inflight=0, maxsteps=60000, diag=0,
                       fixedstep=[0.25, 0.5, 1.25][i % 3], axial=1, field=0, msc=0))
    # Urban MSC near boundaries: many low-energy e-/e+ (MSC step limit just below the physics limit is the rule there)
    for i in range(4 if q else 24):
        cs.append(dict(seed=ctx.seed + 3800 + i, slots=[8, 16][i % 2], events=2, prims=6, ptype=[1, 2][i % 2], emax=[5, 50][i % 2],
                       emin=0.5, dets=0, fluct=i % 2, scale=[5, 50, 1][i % 3], order=["none", "reindex_status"][i % 2], inflight=0,
                       maxsteps=60000, diag=0, msc=1, field=[0, 1][(i // 2) % 2]))
    tot, outs = coreloop.validate(ctx, cs, ["C05."], nshards=8)
    ctx.coverage.update({"states": st, "transitions": tr, "traces_validated_against_impl": tot["runs"],
                         "samples": coreloop.sample_records(outs, kinds=("Post",)), "evaluations": tot["steps"],
                         "distinct_nontrivial": tot["tracks"],
                         "rule": "evaluations = track steps validated for continuity (bit tokens of E, t, pos; volume), time/energy "
                                 "monotonicity, step > 0, step <= pre-step limit, step >= chord, volume = analytic box location, "
                                 "volume change only at a boundary step, status forward; distinct_nontrivial = distinct tracks",
                         "impl_stats": tot})
    ctx.assumptions += ["along-step variants: linear / uniform magnetic field x {no MSC, Urban MSC with a synthetic transport cross "
                        "section} x mean / fluctuating loss; F-MSC-1 (with MSC in a field the straight-line displacement can exceed the step; scoped to chord <= sqrt(2) step) is a known finding",
                        "volume oracle: analytic point-in-box for test/geocel/data/two-boxes.org.json (points within 1e-6 of a face undecided)",
                        "orderings decided on dense ranks of the doubles; equalities on bit-exact tokens",
                        "zero-length physics-failure retry steps (C16) are exempt from the step-length clauses"]
