"""C06 Event results are reproducible and independent of history and thread order.

TLC (spec/Histories.tla) enumerates EVERY history of operations Run(ev) / Abort(ev,k)+reset /
Throw(ev,k) (a user action throws inside the k-th step)+reset / WarmUp up to a length over 3 events x 3 abort points; each history is executed by harness/vhist
on one real Stepper state under a configuration cycled through the 7 re-indexing track orders
(+ none), action_times and the status checker, and both slot layouts; TLC then validates that
every observation of the same (event, primaries, slots, layout, physics) key carries a
bit-identical per-track step stream (spec/HistoriesTrace.tla).
"""
import json, re, os, itertools
import vlib

LEVEL = "model_checking"
REINDEX = ["none", "reindex_shuffle", "reindex_status", "reindex_particle_type",
           "reindex_along_step_action", "reindex_step_limit_action", "reindex_both_action"]


def histories(maxlen):
    cfg = os.path.join(vlib.BUILDROOT, "work", "C06", "Histories_gen.cfg")
    with open(cfg, "w") as fh:
        fh.write("SPECIFICATION Spec\nCONSTANTS\n  Events = {0, 1, 2}\n  AbortPoints = {1, 2, 5}\n  ThrowPoints = {1, 2}\n  MaxLen = %d\n"
                 "  Configs = {\"c\"}\nINVARIANT CleanBeforeRun\nINVARIANT Emit\nCHECK_DEADLOCK FALSE\n" % maxlen)
    r = vlib.tlc("Histories", cfg, workers=1, timeout=600, heap="2g")
    if r.code != 0:
        if r.violated:
            return r, None
        raise vlib.Broken("Histories generator failed: %s" % r.out[-2000:])
    hs = []
    for m in re.finditer(r'<<"HISTORY", "(.*)">>', r.out):
        hs.append(json.loads(m.group(1).replace('\\"', '"'))["ops"])
    return r, hs


def run(ctx):
    vlib.build(["vhist"])
    q = ctx.quick
    r, hs = histories(2 if q else 3)
    if hs is None:
        ctx.violation("design model Histories violates CleanBeforeRun:\n" + r.out[-2000:], tags={"design": "Histories"})
        hs = []
    hs = [h for h in hs if any(o["op"] == "run" for o in h)]
    # configurations cycled over the histories
    cfgs = []
    for layout_order in (REINDEX, ["init_charge"]):
        for order in layout_order:
            for at in (False, True):
                for sc in (False, True):
                    cfgs.append(dict(order=order, action_times=at, status_checker=sc))
    slotsets = [1, 2, 8] if q else [1, 2, 3, 8, 32]
    runs = []
    for i, h in enumerate(hs):
        c = dict(cfgs[i % len(cfgs)])
        c.update(slots=slotsets[(i // len(cfgs) + i) % len(slotsets)], fluct=i % 2, scale=5)
        runs.append({"cfg": c, "ops": h})
    # plus: every configuration on the plain history [run 0, run 1, run 2] for every slot count
    for c0 in cfgs:
        for s in slotsets:
            c = dict(c0)
            c.update(slots=s, fluct=0, scale=5)
            runs.append({"cfg": c, "ops": [{"op": "run", "ev": 0}, {"op": "run", "ev": 1}, {"op": "run", "ev": 2}]})
            c = dict(c)
            c.update(fluct=1)
            runs.append({"cfg": c, "ops": [{"op": "run", "ev": 2}, {"op": "abort", "ev": 1, "k": 2}, {"op": "run", "ev": 0}]})
    # one vhist process per shard keeps tokens consistent within a shard; keys must therefore not be
    # compared across shards: shard by (slots, layout, fluct) so that equal keys meet in the same process
    groups = {}
    for rn in runs:
        c = rn["cfg"]
        k = (c["slots"], "init_charge" if c["order"] == "init_charge" else "none", c["fluct"])
        groups.setdefault(k, []).append(rn)
    jobs, files, scripts = [], [], []
    for gi, (k, rs) in enumerate(sorted(groups.items())):
        sp = ctx.path("script%02d.json" % gi)
        out = ctx.path("hist%02d.ndjson" % gi)
        json.dump({"seed": ctx.seed % 100000, "prims": 2, "emax": 20.0, "runs": rs}, open(sp, "w"))
        scripts.append(sp)
        files.append(out)
    import concurrent.futures as cf
    with cf.ThreadPoolExecutor(max_workers=8) as ex:
        list(ex.map(lambda so: vlib.run_harness("vhist", [so[0], so[1]], timeout=900), zip(scripts, files)))
    for out in files:
        jobs.append(dict(module="HistoriesTrace", cfg="HistoriesTrace", workers=1, env={"TRACE": out}, timeout=1800, heap="6g"))
    results = vlib.tlc_parallel(jobs, maxpar=8)
    tot = {"obs": 0, "keys": 0, "compared": 0, "runs": 0, "aborted": 0, "steps": 0}
    samples = []
    for out, sp, res in zip(files, scripts, results):
        m = re.search(r'<<"SUMMARY", "(.*)">>', res.out)
        if res.code != 0 or not m:
            if "REJECTED" in res.out or res.violated:
                ctx.violation("history trace %s rejected:\n%s" % (out, vlib.rejected_info(res)),
                              tags={"structural": "rejected"}, files=[out, sp])
                continue
            raise vlib.Broken("TLC failed on %s (exit %d):\n%s" % (out, res.code, res.out[-2000:]))
        summ = json.loads(m.group(1).replace('\\"', '"'))
        for k in tot:
            tot[k] += summ["stat"].get(k, 0)
        for v in summ["viol"]:
            ctx.violation("%s: event %s in run %s differs from its first observation in run %s at token %s (step %s of the sorted per-track stream)"
                          % (v["clause"], v.get("ev"), v.get("run"), v.get("firstrun"), v.get("firstdiff"), v.get("step")),
                          tags={"clause": v["clause"]}, files=[out, sp])
        if len(samples) < 3:
            samples.append(json.load(open(sp))["runs"][0])
    ctx.coverage.update({"states": r.distinct, "transitions": r.generated, "traces_validated_against_impl": tot["runs"],
                         "samples": samples, "evaluations": tot["obs"], "distinct_nontrivial": tot["compared"],
                         "rule": "histories enumerated exhaustively by TLC (all sequences of Run/Abort+reset/WarmUp of length %d over 3 events x "
                                 "3 abort points), each executed on one real Stepper state; evaluations = completed-event observations, "
                                 "distinct_nontrivial = observations compared token-by-token with an earlier observation of the same key "
                                 "(event, primaries, slots, layout, physics) made under a different history / re-indexing order / "
                                 "action_times / status-checker setting" % (2 if q else 3),
                         "exhaustive": True, "impl_stats": tot, "histories": len(hs), "configs": len(cfgs)})
    ctx.assumptions += ["bit patterns of all StepSelection::all() fields compared as interned tokens within one harness process",
                        "thread-order independence across streams is decided by C07 (this build has no intra-stream parallelism)",
                        "hand-built e-/e+/gamma problem without field/MSC: leftovers of those components are not exercised"]
