"""C07 Concurrent streams sharing problem parameters do not interfere.

Design: spec/Streams.tla (call-level program of each stream thread + access-level lazy
initialisers, happens-before race detector, per-stream slot discipline) model-checked for 3
threads; the as-coded lazy initialisers and a shared-slot mutant must be REFUTED (vacuity guards).
Binding: (1) TLC-generated call-level schedules are replayed by harness/vstreams under a baton on
real std::threads each owning a Stepper on one shared CoreParams, plus free-running phases with
2-8 threads and permuted event->stream assignments; every per-event step stream and the diagnostic
totals must equal the serial single-stream reference bit for bit (spec/HistoriesTrace.tla).
(2) the free-running phases are also executed on a ThreadSanitizer build of the libraries; every
TSan data-race report with a celeritas frame is a Race event, which Streams never enables.
"""
import json, os, re, random
import vlib

LEVEL = "model_checking"


def design(ctx):
    st = tr = 0
    r = vlib.tlc("StreamsMC", "Streams_fixed", workers=6, timeout=1200, heap="6g")
    if r.code != 0:
        if r.violated:
            ctx.violation("design model Streams (fixed) violates %s\n%s" % (r.violated_names(), r.out[-2000:]), tags={"design": "Streams_fixed"})
        else:
            raise vlib.Broken("TLC failed on Streams_fixed: %s" % r.out[-2000:])
    st += r.distinct
    tr += r.generated
    for guard, inv in (("Streams_ascoded", "NoRace"), ("Streams_mutslot", "SerialEquivalence")):
        g = vlib.tlc("StreamsMC", guard, workers=4, timeout=600, heap="4g")
        if not (g.violated and inv in g.out):
            raise vlib.Broken("vacuity guard %s no longer violates %s: the design model lost its teeth" % (guard, inv))
    # per-stream lazily created states and reductions over them (StreamStore.tla): the loop as coded sums
    # every created state whatever the allocation pattern; three wrong loops must be refuted
    r = vlib.tlc("StreamStore", "StreamStore_ascoded", workers=2, timeout=600, heap="2g")
    if r.code != 0:
        if r.violated:
            ctx.violation("design model StreamStore (as coded) violates %s\n%s" % (r.violated_names(), r.out[-2000:]), tags={"design": "StreamStore_ascoded"})
        else:
            raise vlib.Broken("TLC failed on StreamStore_ascoded: %s" % r.out[-2000:])
    st += r.distinct
    tr += r.generated
    for guard in ("StreamStore_stopfirst", "StreamStore_dense", "StreamStore_lastonly"):
        g = vlib.tlc("StreamStore", guard, workers=1, timeout=300, heap="2g")
        if not (g.violated and "ReduceIsSum" in g.out):
            raise vlib.Broken("vacuity guard %s no longer violates ReduceIsSum" % guard)
    return st, tr


def schedules(ctx, n):
    r = vlib.tlc("StreamsMC", "Streams_sched", workers=1, timeout=300, simulate=n, depth=80, seed=ctx.seed % 100000, heap="2g")
    pats = []
    for m in re.finditer(r'<<"SCHEDULE", "(\[[0-9,]*\])">>', r.out):
        p = json.loads(m.group(1))
        if p not in pats:
            pats.append(p)
    if not pats:
        raise vlib.Broken("no schedules generated: %s" % r.out[-1500:])
    return pats


def parse_tsan(text):
    """Split TSan output into reports; keep data races with a celeritas frame."""
    reports = []
    for blk in re.split(r"={18,}\n", text):
        if "WARNING: ThreadSanitizer: data race" not in blk:
            continue
        frames = re.findall(r"#\d+ (\S.*?) (\S+:\d+)", blk)
        cel = [f for f in frames if "celeritas" in f[0] or "/src/celeritas/" in f[1] or "/src/corecel/" in f[1]
               or "/src/orange/" in f[1] or "/src/geocel/" in f[1]]
        harness_only = all("/verif/harness/" in f[1] or "celeritas" not in f[0] for f in frames)
        if cel and not harness_only:
            sites = sorted({os.path.basename(f[1]) for f in cel})[:6]
            funcs = [f[0][:80] for f in cel[:4]]
            owner = "other"
            for name in ("StatusChecker", "ActionDiagnostic", "StepDiagnostic", "StepCollector", "SimpleCalo",
                         "StreamStore", "AuxStateVec", "Logger", "ActionRegistry", "OutputRegistry"):
                if any(name in f[0] for f in frames):
                    owner = name
                    break
            reports.append({"sites": sites, "funcs": funcs, "owner": owner, "text": blk[:3000]})
    return reports


def run(ctx):
    q = ctx.quick
    st, tr = design(ctx)
    pats = schedules(ctx, 12 if q else 60)
    rnd = random.Random(ctx.seed)
    nev = 8 if q else 16
    events = list(range(nev))
    scripts = []
    for diag, sc, calo in ((True, False, False), (False, True, False), (True, True, False), (False, False, False),
                           (False, False, True), (True, True, True)):
        phases = [{"streams": 1, "mode": "serial", "assign": [events]}]
        for p in pats[: (3 if q else 12)]:
            ev = events[:]
            rnd.shuffle(ev)
            phases.append({"streams": 3, "mode": "baton", "pattern": p, "assign": [ev[0::3], ev[1::3], ev[2::3]]})
        for k in ([2, 4] if q else [2, 3, 4, 8, 16]):
            ev = events[:]
            rnd.shuffle(ev)
            phases.append({"streams": k, "mode": "free", "assign": [ev[i::k] for i in range(k)]})
        # sparse assignments: some stream ids never get an event (and never construct a Stepper), so the
        # lazily created per-stream states have gaps; totals over streams must not depend on which ids are idle
        for k, busy in ([(4, [1, 3]), (4, [0, 3])] if q else [(4, [1, 3]), (4, [0, 3]), (4, [2]), (8, [4, 5, 6, 7]), (16, [3, 15])]):
            ev = events[:]
            rnd.shuffle(ev)
            asg = [[] for _ in range(k)]
            for j, b in enumerate(busy):
                asg[b] = ev[j::len(busy)]
            phases.append({"streams": k, "mode": "free", "assign": asg})
        scripts.append({"seed": ctx.seed % 100000, "prims": 2, "emax": 20.0, "slots": [4, 1, 8, 2, 3, 6][len(scripts) % 6],
                        "diag": diag, "status_checker": sc, "calo": calo, "scale": 5, "phases": phases})
    vlib.build(["vstreams"])
    files, sps = [], []
    for i, s in enumerate(scripts):
        sp, out = ctx.path("streams%d.json" % i), ctx.path("streams%d.ndjson" % i)
        json.dump(s, open(sp, "w"))
        vlib.run_harness("vstreams", [sp, out], timeout=900)
        files.append(out)
        sps.append(sp)
    jobs = [dict(module="HistoriesTrace", cfg="HistoriesTrace", workers=1, env={"TRACE": f}, timeout=1800, heap="6g") for f in files]
    results = vlib.tlc_parallel(jobs, maxpar=4)
    tot = {"obs": 0, "keys": 0, "compared": 0, "runs": 0, "steps": 0}
    for f, sp, res in zip(files, sps, results):
        m = re.search(r'<<"SUMMARY", "(.*)">>', res.out)
        if res.code != 0 or not m:
            if "REJECTED" in res.out or res.violated:
                ctx.violation("stream trace %s rejected:\n%s" % (f, vlib.rejected_info(res)), tags={"structural": "rejected"}, files=[f, sp])
                continue
            raise vlib.Broken("TLC failed on %s: %s" % (f, res.out[-2000:]))
        summ = json.loads(m.group(1).replace('\\"', '"'))
        for k in tot:
            tot[k] += summ["stat"].get(k, 0)
        for v in summ["viol"]:
            clause = v["clause"].replace("C06.Deterministic", "C07.SerialEquivalence")
            what = ("%s: totals accumulated over all streams in phase %s differ from the same set of events in phase %s"
                    % (clause, v.get("run"), v.get("firstrun"))) if v.get("ev") is None else (
                    "%s: event %s observed in phase %s differs from phase %s (first differing token %s)"
                    % (clause, v.get("ev"), v.get("run"), v.get("firstrun"), v.get("firstdiff")))
            ctx.violation(what,
                          tags={"clause": clause}, files=[f, sp])
    # ---- ThreadSanitizer as the recorder of access-level events -------------------------------
    races = []
    tsan_runs = 0
    vlib.build(["vstreams"], variant="tsan", extra_cmake=["-DVERIF_TSAN=ON"])
    for i, s in enumerate(scripts):
        s2 = dict(s)
        s2["phases"] = [p for p in s["phases"] if p["mode"] == "free"]
        sp, out = ctx.path("tsan%d.json" % i), ctx.path("tsan%d.ndjson" % i)
        json.dump(s2, open(sp, "w"))
        r = vlib.run_harness("vstreams", [sp, out], timeout=1800, variant="tsan", check=False,
                             env={"TSAN_OPTIONS": "halt_on_error=0 exitcode=0 report_signal_unsafe=0 second_deadlock_stack=1"})
        tsan_runs += 1
        if r.returncode not in (0,):
            raise vlib.Broken("tsan vstreams exited %d: %s" % (r.returncode, r.stderr[-1500:]))
        log = ctx.path("tsan%d.log" % i)
        open(log, "w").write(r.stderr)
        for rep in parse_tsan(r.stderr):
            rep["script"] = sp
            rep["log"] = log
            races.append(rep)
    seen = set()
    for rep in races:
        key = rep["owner"] if rep["owner"] != "other" else tuple(rep["sites"])
        if key in seen:
            continue
        seen.add(key)
        site_tag = rep["owner"]
        ctx.violation("C07.NoRace: ThreadSanitizer data race with celeritas frames at %s\n%s" % (rep["sites"], rep["text"][:1500]),
                      tags={"clause": "C07.NoRace", "site": site_tag}, files=[rep["script"], rep["log"]])
    ctx.coverage.update({"states": st, "transitions": tr, "traces_validated_against_impl": tot["runs"] + tsan_runs,
                         "samples": [scripts[0]["phases"][1], scripts[0]["phases"][-1]],
                         "evaluations": tot["obs"], "distinct_nontrivial": tot["compared"],
                         "rule": "phases = serial reference / baton replay of a TLC-generated call-level schedule on 3 real threads / "
                                 "free-running 2-%d threads with shuffled event->stream assignment, x {ActionDiagnostic+StepDiagnostic, "
                                 "StatusChecker} on/off; evaluations = per-event observations, distinct_nontrivial = those compared bit "
                                 "for bit with the serial reference; TSan runs = free-running phases on the -fsanitize=thread build, "
                                 "race reports with a celeritas frame counted as violations" % (4 if q else 16),
                         "impl_stats": tot, "schedules": len(pats), "tsan_runs": tsan_runs, "tsan_race_reports": len(races)})
    ctx.assumptions += ["ThreadSanitizer (gcc, OpenMP disabled in that variant) is trusted as the recorder of access-level events; it only sees races that the executed schedules expose",
                        "call-level interleavings exhaustive in the model for 3 threads; on the real code a sample of TLC-generated schedules is replayed",
                        "this build has event-level parallelism only: one Stepper per thread, CoreParams shared"]
