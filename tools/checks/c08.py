"""C08 Field propagation follows the field and stays consistent with the geometry.

spec/FieldProp.tla      the loop of FieldPropagator::operator()(step) transcribed as a state
                        machine over dyadic lengths + navigator-protocol monitor + result clauses
spec/FieldPropMC.tla    design check: ALL environment (driver, geometry) response sequences within
                        a response lattice; clauses as invariants, termination by a variant;
                        emits one witness behaviour per distinct final state (+ -simulate walks)
harness/vfield.cc       scripted: the REAL FieldPropagator template over a scripted driver/geometry
                        replaying those behaviours; real: real drivers x fields x ORANGE fixtures
                        seen through call recorders, with independent numeric oracles
spec/FieldPropTrace.tla scripted records must EQUAL the transcription (C08.Conformance); API-level
                        clauses on every record (ranks in real mode)
"""
import json
import os
import random
import re

import vlib

LEVEL = "model_checking"

MODEL = dict(minsub=128, delta=640, unit=64, x0=4096)

# Findings met on the unchanged tree (exact inputs in the `what` text).  known_findings.json is
# maintained by the lead; the list below is documentation of what was proposed, nothing reads it.
PROPOSED = [
    {"id": "F-FIELD-1", "property": "C08", "status": "known", "match": {"clause": "C08.MomentumAtEndPoint"},
     "what": "FieldPropagator commit branch, disjunct `update_length <= minimum_substep`: the momentum of the END of "
             "the (possibly long) trial substep is committed although the particle moves only update_length. Found by "
             "TLC on FieldPropMC (script FS0: step 2048, boundary at distance 0 when not on a boundary) and on the real "
             "code: two-boxes.org.json, e- 10 MeV, UniformZField 3.5019461121752274 T (gyroradius 1 cm), "
             "pos=(5-5e-7,0,0) dir=(1,0,0), step=1 cm, default FieldDriverOptions, Dormand-Prince or RK4: returns "
             "boundary=true distance=5.2e-7 cm with the direction turned by 0.448 rad (the analytic helix turns 5e-7 "
             "rad). Scoped by the clause C08.MomentumAtEndPoint (last iteration committed, |substep - update_length| > "
             "max(minimum_step, 2 delta_intersection)); seen in ~0.6% of random calls."},
    {"id": "F-FIELD-2", "property": "C08", "status": "known", "match": {"group": "zhelix-trajectory"},
     "what": "ZHelixStepper::move rotates the POSITION vector about the origin ((x,y) = M(phi)(x0,y0)) instead of "
             "about the helix axis and ties the sign of the z advance to the helicity: correct only for a helix "
             "centred on the z axis through the origin (the unit tests' configuration). Input: two-boxes.org.json, "
             "e- 10 MeV, UniformZField 3.5019461121752274 T, pos=(3,1,0) dir=(0,1,0), step 0.25 cm: end point 0.558 cm "
             "from the analytic helix. Scoped to trajectory-dependent oracle clauses with stepper=zhelix; the "
             "propagator's API clauses are still enforced with this stepper."},
    {"id": "F-FIELD-3", "property": "C08", "status": "known", "match": {"clause": "C08.VolumeUnchanged.AfterReentrantRetry"},
     "what": "start on a boundary at near-tangent incidence with the field bending the track back through that boundary: "
             "after the re-entrant retries (substep halved 18 times) a substep of 3.7e-7 cm is accepted, which clears the "
             "navigator's on-surface state while the point is still within rounding of the surface; the next chord then "
             "finds no boundary and the call returns the FULL step with boundary=false although the end point is "
             "3.3e-5 cm (11 delta_intersection) inside the neighbouring volume (fresh point location 6, tracked 1). Input "
             "(directed case tangent-reentrant-tunnel of vfield): field-layers.org.json, initialise at "
             "(-2.0373360902870123,-4.6,-5.3647854036796954) dir (0,1,0), find_next_step, move_to_boundary (y=-4.5), "
             "cross_boundary, set_dir(-0.41147573926553804,1.5396779770717857e-09,-0.91142071295087379); e- "
             "E=25.144611585570882 MeV, UniformField (-0.22577030647027949,0.36571352331286833,-0.35195297480732179) T, RK4 "
             "(Dormand-Prince likewise), step=0.097136967629794929, minimum_step=2.1604498769836856e-07, "
             "delta_chord=0.054968308343820799, delta_intersection=2.9731611968176892e-06, max_substeps=3 (all within "
             "validate_input). With the default options the same start gives a bump instead. Scoped by the spec to calls that "
             "started on a boundary and took the re-entrant retry branch; a volume change without a reported boundary "
             "anywhere else is a VIOLATION."},
    {"id": "F-FIELD-4", "property": "C08", "status": "known", "match": {"clause": "C08.DriverStepMatchesState.BudgetExhausted"},
     "what": "FieldDriver::find_next_chord and FieldDriver::one_good_step shrink `step` AFTER the stepper evaluation and, when "
             "the max_nsteps trial budget runs out on a rejected trial, return that evaluation's end state together with the "
             "shrunk step: advance() then reports a step up to 10x (one_good_step, max_stepping_decrease = 0.1) or 2x "
             "(find_next_chord, min_chord_shrink = 0.5) shorter than the arc length its state was integrated over. Unreachable "
             "with the default max_nsteps = 100, immediate with small valid values. Input: three-spheres.org.json e- "
             "E=0.052471778528454603 MeV UniformField (-0.21429296121951585,1.5097462963233053,1.6020893631924991) T, "
             "Dormand-Prince, step=21.793420329147665, pos=(-5.0572459395718434,80.90288836105718,-21.418397292581751) "
             "dir=(0.05629301627660923,-0.13407653585295179,0.98937079947416751), minimum_step=3.9048604058336106e-08, "
             "delta_chord=0.0060196117267676923, delta_intersection=1.916604356998695e-07, max_substeps=30, "
             "epsilon_rel_max=2.7887454546778229e-10, max_nsteps=1: every substep reports 0.1 of what it moved; the call "
             "returns distance 0.1376 cm with the particle 0.76 cm from the analytic helix point. Scoped by the harness to "
             "advances whose returned state is AHEAD of the reported step by no more than (1 - max_stepping_decrease) x the "
             "steps of chain links that used up max_nsteps trials; a state BEHIND its step, or ahead without an exhausted "
             "trial loop, is the VIOLATION C08.DriverStepMatchesState."},
]


def _summary(r):
    m = re.search(r'<<"SUMMARY", "(.*)">>', r.out)
    if not m:
        return None
    return json.loads(m.group(1).replace('\\"', '"'))


def _scripts_of(out):
    res = []
    for m in re.finditer(r'<<"SCRIPT", "(.*)">>', out):
        res.append(m.group(1).replace('\\"', '"'))
    return res


def _design(ctx):
    """Model-check the design; returns (states, transitions, set of script json strings)."""
    q = ctx.quick
    jobs = [dict(module="FieldPropMC", cfg="FieldPropMC", workers=6, deadlock=True, timeout=2400, heap="6g"),
            dict(module="FieldPropMC", cfg="FieldPropMC_8x2", workers=4, deadlock=True, timeout=2400, heap="6g"),
            dict(module="FieldPropMC", cfg="FieldPropMC_mom", workers=1, deadlock=True, timeout=1200, heap="3g"),
            dict(module="FieldPropMC", cfg="FieldPropMC_sim", workers=2, simulate=150 if q else 2000, depth=40,
                 seed=ctx.seed, timeout=2400, heap="4g")]
    names = ["main", "8x2", "probe", "sim"]
    jobs.insert(0, dict(module="FieldPropMC", cfg="FieldPropMC_8x3", workers=6, deadlock=True, timeout=3000, heap="8g"))
    names.insert(0, "8x3")
    if not q:
        jobs += [dict(module="FieldPropMC", cfg="FieldPropMC_live", workers=4, deadlock=True, timeout=3000, heap="6g"),
                 dict(module="FieldPropMC", cfg="FieldPropMC_alt", workers=4, deadlock=True, timeout=3000, heap="6g")]
        names += ["live", "alt"]
    results = vlib.tlc_parallel(jobs, maxpar=5)
    st = tr = 0
    scripts = set()
    probe_found = False
    for name, r in zip(names, results):
        if name == "probe":
            # expected to fail: design-level witness of F-FIELD-1
            if r.violated and "MomentumAtEndPoint" in r.out:
                probe_found = True
                ctx.violation("design model FieldPropMC: invariant MomentumAtEndPoint violated (TLC counterexample: "
                              "one advance of the full step, boundary at distance 0 while not on a boundary)",
                              tags={"clause": "C08.MomentumAtEndPoint"})
            elif r.code != 0:
                raise vlib.Broken("TLC failed on the probe (exit %d):\n%s" % (r.code, r.out[-2000:]))
            continue
        if name == "sim":
            if r.code != 0 and not r.violated:
                raise vlib.Broken("TLC -simulate failed (exit %d):\n%s" % (r.code, r.out[-2000:]))
            if r.violated:
                ctx.violation("design model FieldPropMC (simulation) violates %s:\n%s" % (r.violated_names(), r.out[-2500:]),
                              tags={"design": "sim"})
            scripts.update(_scripts_of(r.out))
            continue
        if r.code != 0:
            if r.violated:
                ctx.violation("design model FieldPropMC/%s violates %s:\n%s" % (name, r.violated_names(), r.out[-2500:]),
                              tags={"design": name})
                continue
            raise vlib.Broken("TLC failed on FieldPropMC/%s (exit %d):\n%s" % (name, r.code, r.out[-3000:]))
        st += r.distinct
        tr += r.generated
        scripts.update(_scripts_of(r.out))
    return st, tr, scripts, probe_found


def _choose(scripts, n, seed):
    """Stratified sample: by (step, maxsub, onb0, length) so that long behaviours are not drowned."""
    rng = random.Random(seed)
    groups = {}
    for s in sorted(scripts):
        j = json.loads(s)
        groups.setdefault((j["step"], j["maxsub"], j["onb0"], len(j["script"])), []).append(j)
    for g in groups.values():
        rng.shuffle(g)
    chosen = []
    keys = sorted(groups)
    while len(chosen) < n and any(groups[k] for k in keys):
        for k in keys:
            if groups[k] and len(chosen) < n:
                chosen.append(groups[k].pop())
    return chosen


def _hang_trace(path, what):
    with open(path, "w") as fh:
        fh.write(json.dumps({"e": "Hang", "what": what}) + "\n")
        fh.write(json.dumps({"e": "Close"}) + "\n")


def _abort_trace(path, what):
    """The harness died on a signal (a crash inside the code under test): keep the complete records it
    wrote and end the trace with Abort, which the trace spec never accepts."""
    keep = []
    if os.path.exists(path):
        with open(path) as fh:
            for line in fh:
                try:
                    json.loads(line)
                    keep.append(line.rstrip("\n"))
                except ValueError:
                    break
    with open(path, "w") as fh:
        for line in keep:
            fh.write(line + "\n")
        fh.write(json.dumps({"e": "Abort", "what": what}) + "\n")


def run(ctx):
    vlib.build(["vfield"])
    q = ctx.quick
    # known findings come from the committed known_findings.json only (PROPOSED above documents the
    # entries this check's builder asked for; it is never consulted at run time)

    # ---------------------------------------------------------------- A/B design check + behaviours
    import time
    t0 = time.time()
    st, tr, scripts, probe_found = _design(ctx)
    vlib.log("C08 design check: %d states, %d transitions, %d behaviours emitted, %.0fs" % (st, tr, len(scripts), time.time() - t0))
    t0 = time.time()
    nscripted = 3000 if q else 60000
    chosen = _choose(scripts, nscripted, ctx.seed)
    for j in chosen:
        j.update(MODEL)

    # ---------------------------------------------------------------- C harness runs
    nsh = 6 if q else 12
    traces = []  # (name, path, description)
    for i, sh in enumerate(vlib.shards(chosen, nsh)):
        sp = ctx.path("scripts%02d.ndjson" % i)
        vlib.write_ndjson(sp, sh)
        out = ctx.path("scripted%02d.ndjson" % i)
        r = vlib.run_harness("vfield", ["scripted", sp, out], timeout=300, check=False)
        if r.returncode == 124:
            _hang_trace(out, "vfield scripted timed out")
        elif r.returncode < 0:
            _abort_trace(out, "vfield scripted killed by signal %d" % -r.returncode)
        elif r.returncode != 0 or not os.path.exists(out):
            raise vlib.Broken("vfield scripted failed (exit %d): %s" % (r.returncode, r.stderr[-2000:]))
        traces.append(("scripted%02d" % i, out, "vfield scripted %s" % sp))
    nreal_sh = 4 if q else 16
    nreal = 500 if q else 5000
    import concurrent.futures as cf

    def real_job(i):
        out = ctx.path("real%02d.ndjson" % i)
        args = ["real", out, "seed=%d" % (ctx.seed + 7919 * i), "n=%d" % nreal, "repo=" + vlib.REPO,
                "directed=%d" % (1 if i == 0 else 0)]
        r = vlib.run_harness("vfield", args, timeout=600 if q else 2400, check=False)
        if r.returncode == 124:
            _hang_trace(out, "vfield real timed out")
        elif r.returncode < 0:
            _abort_trace(out, "vfield real killed by signal %d" % -r.returncode)
        elif r.returncode != 0 or not os.path.exists(out):
            raise vlib.Broken("vfield %s failed (exit %d): %s" % (args, r.returncode, r.stderr[-2000:]))
        return ("real%02d" % i, out, "vfield " + " ".join(args))

    with cf.ThreadPoolExecutor(max_workers=4) as ex:
        traces += list(ex.map(real_job, range(nreal_sh)))

    vlib.log("C08 harness runs: %d trace files, %.0fs" % (len(traces), time.time() - t0))
    t0 = time.time()
    # ---------------------------------------------------------------- D trace validation
    jobs = [dict(module="FieldPropTrace", cfg="FieldPropTrace", workers=1, env={"TRACE": p}, timeout=3000, heap="4g")
            for (_, p, _) in traces]
    results = vlib.tlc_parallel(jobs, maxpar=8)
    vlib.log("C08 trace validation: %.0fs" % (time.time() - t0))
    stat = {}
    cnt = {}
    samples = []
    distinct = set()
    records = 0
    for (name, path, desc), r in zip(traces, results):
        summ = _summary(r)
        if r.code != 0 or summ is None:
            if "REJECTED" in r.out or r.violated:
                ctx.violation("trace %s (%s) is not a behaviour of FieldPropTrace:\n%s" % (name, desc, vlib.rejected_info(r)),
                              tags={"structural": "rejected"}, files=[path])
                continue
            raise vlib.Broken("TLC failed on %s (exit %d):\n%s" % (name, r.code, r.out[-3000:]))
        for k, v in summ["stat"].items():
            stat[k] = stat.get(k, 0) + v
        c = summ["cnt"] if isinstance(summ["cnt"], dict) else {}
        byid = {}
        with open(path) as fh:
            for i, line in enumerate(fh):
                rec = json.loads(line)
                if rec.get("e") in ("Scripted", "Real"):
                    records += 1
                    byid[rec["id"]] = rec
                    key = json.dumps([rec.get("P"), rec.get("in"), rec.get("calls"), rec.get("res")], sort_keys=True)
                    distinct.add(hash(key))
                    if len(samples) < 6 and i in (3, 40):
                        s = {k: rec[k] for k in ("e", "P", "in", "calls", "res") if k in rec}
                        s["calls"] = s.get("calls", [])[:24]
                        samples.append(s)
        firsts = {}
        for clause, rid, line in summ["viol"]:
            firsts.setdefault(clause, []).append(rid)
        for clause, n in sorted(c.items()):
            cnt[clause] = cnt.get(clause, 0) + n
            if clause.startswith("SPEC."):
                raise vlib.Broken("the spec's derived-facts operators disagree with its own transcription (%s, records %s of %s)"
                                  % (clause, firsts.get(clause), path))
            base, _, stepper = clause.partition("@")
            tags = {"clause": base, "mode": name[:4]}
            if stepper:
                tags["stepper"] = stepper
                if stepper == "zhelix":
                    tags["group"] = "zhelix-trajectory"
                    tags["clause"] = clause
            ex = []
            for rid in firsts.get(clause, [])[:2]:
                rec = byid.get(rid)
                if rec is not None:
                    ex.append(rec.get("in") or json.dumps({"P": rec.get("P"), "calls": rec.get("calls"), "res": rec.get("res"),
                                                           "geo": rec.get("geo")}))
            ctx.violation("clause %s violated by %d record(s) of %s (%s); first record ids %s\n%s"
                          % (clause, n, name, desc, firsts.get(clause, [])[:4], "\n".join(ex)), tags=tags, files=[path])
    ctx.coverage.update({
        "states": st, "transitions": tr,
        "traces_validated_against_impl": records,
        "samples": samples,
        "evaluations": stat.get("clauses", 0),
        "distinct_nontrivial": len(distinct),
        "rule": "states/transitions: FieldPropMC exhaustive over the response lattice (4 driver x 2 chord x 12 geometry labels), "
                "VIEW quotient documented in the module; scripted behaviours = one witness per distinct final state of the BFS "
                "plus -simulate walks, stratified by (step, max_substeps, start on boundary, length), each replayed on the real "
                "template and compared call by call; real calls = seeded samples + directed cases; evaluations = clause "
                "evaluations by TLC over all records; distinct_nontrivial = records with distinct (parameters, call sequence, "
                "result) -- every record drives the loop at least once, so none is trivial",
        "behaviours_emitted": len(scripts), "scripted_replayed": stat.get("scripted", 0), "real_calls": stat.get("real", 0),
        "impl_stats": stat, "clause_counts": cnt, "design_probe_counterexample": probe_found,
        "model_constants": dict(MODEL, steps=[64, 256, 512, 1024, 2048], max_substeps=[2, 3]),
    })
    ctx.assumptions += [
        "scripted world is 1-D: chord = s or s/2 along +x, momentum identified by tokens; lengths are multiples of 2^-20 cm so the code's double arithmetic is exact (LatticeExact checked by TLC, `exact` flag checked per record)",
        "chord length 0 and NaN directions are not modelled",
        "real mode: build has CELERITAS_DEBUG=OFF, so CELER_ASSERT/ENSURE inside the propagator are not evaluated; the two assertions a debug build would evaluate on the result are clauses C08.Edge.*",
        "ORACLE-DECIDED (harness, independent of the code's steppers): closed-form helix in uniform fields, per FieldDriver::advance call (state returned vs helix at the RETURNED step) and per propagation; brackets = tolerance table in harness/vfield.cc (10 x the largest normalised residual measured on the unchanged tree, in units of epsilon_rel_max x the driver's own error estimate); |p|: unit direction to 1e-12, particle momentum untouched, integrated |p| drift bracketed likewise; fresh point location by a new OrangeTrackView at the end point",
        "driver level: the chain of stepper evaluations behind every returned state is reconstructed from bit-identical states (CountStepper/RecDriver); steps differing by less than an ulp of the position can alias (tolerance 1e-15 |pos| per link)",
        "after a zero-progress bump only the tracked volume is compared (the fresh location may differ: counted as impl_stats.bumpout)",
        "fixtures with known overlaps / involutes / union-boundary daughters are not used",
    ]
