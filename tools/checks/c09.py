"""C09 Geometry construction preserves the meaning of the user's solids.

spec/Solids.tla gives the exact integer membership of every object of a lattice vocabulary
(box, sphere, cylinder, cone, ellipsoid, 4-prism, trapezoid / generalised prism incl. twisted
and pyramidal, wedge, hollow / sliced solids, polycones, polyprisms; union, intersection,
negation, subtraction, region-definition vectors; translations, the 48 signed permutations,
Pythagorean rotations; materials, daughters, nested daughters, background, exterior) and
`ExpectedVolume(p)`.  tools/solids.py generates scenes (seeded), harness/vbuild.cc builds
each through the PUBLIC orangeinp API into OrangeParams and reports the volume of every
half-lattice probe point; TLC (spec/SolidsTrace.tla) recomputes the expected volume and
names the violated clause.  A second family perturbs parameters by 0.5 and 2 effective
tolerances (soft de-duplication).  spec/SolidsMC.tla is the design check of the vocabulary.
Directed families, every run: generalised-prism gallery; De Morgan spellings (unions written as negated
intersections, negated operands first, double negations); replicas (one solid -- incl. spheroids and hollow
polycones whose cavity tapers to a point -- at places differing in one coordinate, mirror images, permutations:
what the soft de-duplication must keep apart); oracle-decided: regular prisms, parallelepipeds and general
trapezoids (GenPrism::from_trap), the latter also one at a time under a dense probe grid.
"""
import concurrent.futures as cf
import json
import os
import re

import solids
import vlib

LEVEL = "translation_validation"


def _abbrev(scene):
    s = json.dumps(scene, separators=(",", ":"))
    return {"id": scene["id"], "family": scene["family"], "grid": scene["grid"], "units": len(scene["units"]),
            "json_bytes": len(s), "json_head": s[:900]}


def run(ctx):
    vlib.build(["vbuild"])
    q = ctx.quick
    small = os.environ.get("VERIF_C09_SMALL")      # mutation demonstrations on a loaded machine: fewer scenes
    if q and small:
        scenes = solids.make_scenes(ctx.seed, 12, 3, 3, grid_n=7)
        noracle, ngrid, nshard = 4, 7, 6
    elif q:
        scenes = solids.make_scenes(ctx.seed, 30, 6, 8, grid_n=9)
        noracle, ngrid, nshard = 10, 9, 8
    else:
        scenes = solids.make_scenes(ctx.seed, 800, 100, 100, grid_n=17)
        noracle, ngrid, nshard = 150, 17, 14
    # generalised-prism gallery, EVERY run: faces degenerate to a point / a line at -z and at +z, skewed, tapered,
    # twisted; 3-6 sides; both vertex windings (56 prisms per seed; thorough: three seeds)
    for k in range(1 if q else 3):
        scenes += solids.genprism_gallery(ctx.seed + k, len(scenes), 7 if small else 9)
    # De Morgan spellings (negations first, unions written as negated intersections, double negations) and replicas
    # (one solid at places differing in a single coordinate / mirror images / permutations), EVERY run
    scenes += solids.demorgan_gallery(ctx.seed, len(scenes), 7 if small else 9)
    scenes += solids.replica_gallery(ctx.seed, len(scenes), 7 if small else 9)
    # oracle-decided family (outside the lattice vocabulary; expectation computed by the harness)
    for i in range(noracle):
        s = solids.oracle_scene(ctx.seed * 31 + i, len(scenes), ngrid)
        scenes.append(s)
    for i in range(max(4, noracle // 2)):     # general trapezoids (GenPrism::from_trap) one at a time, densely probed
        scenes.append(solids.oracle_scene(ctx.seed * 37 + 1000 + i, len(scenes), ngrid, traps_only=True))
    if not q:
        solids.sample_slabs(scenes, 9, ctx.seed)
    by_id = {s["id"]: s for s in scenes}

    # design check of the vocabulary, concurrently with the binding
    pool = cf.ThreadPoolExecutor(max_workers=1)
    mc = pool.submit(lambda: vlib.tlc("SolidsMC", "SolidsMC_tiny" if small else "SolidsMC" if q else "SolidsMC_big",
                                      workers=4 if q else 8, timeout=3000, heap="6g"))

    # interleave families over the shards so that they cost about the same
    shards = [scenes[i::nshard] for i in range(nshard)]
    shards = [s for s in shards if s]
    files = []

    def harness(i):
        sp = ctx.path("scenes_%d.ndjson" % i)
        vlib.write_ndjson(sp, shards[i])
        out = ctx.path("probe_%d.ndjson" % i)
        r = vlib.run_harness("vbuild", ["probe", sp, out], timeout=1800,
                             env={"CELER_LOG": "critical", "CELER_LOG_LOCAL": "critical"}, check=False)
        return sp, out, r

    with cf.ThreadPoolExecutor(max_workers=min(8, len(shards))) as ex:
        hres = list(ex.map(harness, range(len(shards))))
    jobs = []
    for i, (sp, out, r) in enumerate(hres):
        files.append((sp, out))
        if r.returncode not in (0, 4):      # 4 = Abort logged in the trace (rejected by TLC below)
            raise vlib.Broken("vbuild probe shard %d exited %d:\n%s" % (i, r.returncode, (r.stderr or "")[-2000:]))
        jobs.append(dict(module="SolidsTrace", cfg="SolidsTrace", workers=1, env={"TRACE": out},
                         timeout=6000, heap="3g"))
    results = vlib.tlc_parallel(jobs, maxpar=min(len(jobs), 8 if q else 14))

    total = {}
    nviol = 0
    devs = {}
    for i, r in enumerate(results):
        sp, out = files[i]
        m = re.search(r'<<"SUMMARY", "(.*)">>', r.out)
        if r.code != 0 or not m:
            if "REJECTED" in r.out or r.violated:
                ctx.violation("probe trace of shard %d is not a behaviour of SolidsTrace (harness abort / truncated "
                              "trace / malformed record):\n%s" % (i, vlib.rejected_info(r)),
                              tags={"structural": "rejected"}, files=[sp, out])
                continue
            raise vlib.Broken("TLC failed on shard %d (exit %d):\n%s" % (i, r.code, r.out[-3000:]))
        summ = json.loads(m.group(1).replace('\\"', '"'))
        for k, v in summ["stat"].items():
            total[k] = total.get(k, 0) + v
        per_scene = {}
        for v in summ["viol"]:
            per_scene.setdefault((v[0], v[1]), []).append(v[2])
        for (clause, sid), notes in sorted(per_scene.items()):
            nviol += 1
            scene = by_id[sid]
            rp = ctx.path("scene_%d.json" % sid)
            with open(rp, "w") as fh:
                json.dump(scene, fh)
            if clause == "C09.OraclePointInVolume":
                what = ("scene %d (%s, seed %d) [oracle-decided]: %d+ probe point(s) farther than 1e-5 from every face are "
                        "reported in a volume other than the one given by the analytic membership functions; first: %s"
                        % (sid, scene["family"], scene["seed"], len(notes), json.dumps(notes[:3])))
            elif clause == "C09.ConstructionSucceeds":
                what = ("scene %d (%s, seed %d): construction through the public API threw: %s"
                        % (sid, scene["family"], scene["seed"], notes[0]))
            else:
                what = ("scene %d (%s, seed %d): %d+ probe point(s) clear of every surface are reported in the wrong "
                        "volume; first: %s (p2 = 2 x coordinates)"
                        % (sid, scene["family"], scene["seed"], len(notes), json.dumps(notes[:3])))
            ctx.violation(what, tags={"clause": clause, "family": scene["family"].split(":")[0]}, files=[rp, out])
        for d in summ.get("dev", []):
            devs.setdefault(d[0], []).append((d[1], d[2]))

    for dname, where in sorted(devs.items()):
        sid, note = where[0]
        ppipeds = [m["obj"]["c"] for m in by_id[sid]["units"][0]["materials"] if m["obj"]["c"]["k"] == "ppiped"
                   and m["obj"]["c"]["alpha"] != 0]
        rp = ctx.path("scene_%d.json" % sid)
        with open(rp, "w") as fh:
            json.dump(by_id[sid], fh)
        if dname == "ParallelepipedAlphaYExtent":
            what = ("[oracle-decided] %d probe point(s) in %d scene(s) lie inside a parallelepiped with alpha != 0 by its "
                    "documented definition (y faces at +-hy: 'half-lengths of the projections of the edges on X, Y, Z', "
                    "= G4Para) but are reported outside; the reports agree with y faces at +-hy*cos(alpha)"
                    % (total.get("oracle_deviation", 0), len(where)))
        else:
            ppipeds = [m["obj"]["c"] for m in by_id[sid]["units"][0]["materials"] if m["obj"]["c"]["k"] == "ppiped"]
            what = ("[oracle-decided] %d probe point(s) in %d scene(s) lie inside a parallelepiped (alpha or theta != 0) but "
                    "outside the exterior bounding box the implementation attaches to it (+-(a+b+c) with b = hy(sin a, cos a, 0), "
                    "c = hz(sin t cos p, sin t sin p, cos t) instead of the true edge vectors), and are reported outside"
                    % (total.get("oracle_deviation_bbox", 0), len(where)))
        ctx.violation(what + ". First: scene %d %s, parallelepipeds %s" % (sid, json.dumps(note), json.dumps(ppipeds[:2])),
                      tags={"deviation": dname}, files=[rp])

    r = mc.result()
    if r.code != 0:
        if r.violated:
            ctx.violation("design check SolidsMC: %s violated (the vocabulary's own laws)" % r.violated_names(),
                          tags={"design": "SolidsMC"})
        else:
            raise vlib.Broken("SolidsMC failed (exit %d):\n%s" % (r.code, r.out[-3000:]))

    kinds = {}
    fams = {}
    distinct = set()
    for s in scenes:
        fams[s["family"]] = fams.get(s["family"], 0) + 1
        for k, v in s["kinds"].items():
            kinds[k] = kinds.get(k, 0) + v
        distinct.add(json.dumps(s["units"], sort_keys=True))
    compared = total.get("compared", 0)
    ctx.coverage.update({
        "programs": total.get("built", 0),
        "disagreements_checked": compared + total.get("oracle_compared", 0),
        "samples": [_abbrev(scenes[0]), _abbrev(scenes[-1])],
        "states": r.distinct, "transitions": r.generated,
        "evaluations": total.get("probes", 0),
        "distinct_nontrivial": len(distinct),
        "rule": "program = one generated scene (object trees of depth <= 4 over the lattice vocabulary, 1-6 placements, "
                "0-2 daughters, optionally nested) built by the real API; evaluation = one probe point located by the "
                "real track view and by ExpectedVolume (TLC); distinct_nontrivial = scenes with pairwise distinct unit "
                "definitions (every scene has at least one non-background volume); compared = probes neither in an "
                "input overlap nor uncovered; a disagreeing probe is excused only if NearInScene (exact) holds",
        "scenes": len(scenes), "scenes_by_family": fams, "failed_builds": total.get("failed_builds", 0),
        "per_primitive": {k: v for k, v in sorted(kinds.items())
                          if not k.startswith(("op:", "boundary:", "gallery:", "spell:", "replica:"))},
        "spellings": {k[6:]: v for k, v in sorted(kinds.items()) if k.startswith("spell:")},
        "replicas": {k[8:]: v for k, v in sorted(kinds.items()) if k.startswith("replica:")},
        "genprism_gallery": {k[8:]: v for k, v in sorted(kinds.items()) if k.startswith("gallery:")},
        "per_operator": {k[3:]: v for k, v in sorted(kinds.items()) if k.startswith("op:")},
        "per_boundary": {k[9:]: v for k, v in sorted(kinds.items()) if k.startswith("boundary:")},
        "probe_classes": {k: total.get(k, 0) for k in ("in_exterior", "in_background", "in_material", "in_daughter")},
        "excluded_near_surface": total.get("near", 0),
        "excluded_overlap": total.get("overlap", 0), "excluded_uncovered": total.get("nowhere", 0),
        "init_failed_reports": total.get("init_failed", 0),
        "fully_classified_slab": {"probes": total.get("slab_probes", 0), "near_surface": total.get("slab_near", 0)},
        "disagreements": total.get("bad", 0), "scenes_with_violations": nviol,
        "oracle_decided": {"scenes": total.get("oracle_scenes", 0), "probes": total.get("oracle_probes", 0),
                           "compared": total.get("oracle_compared", 0), "excluded_near_face": total.get("oracle_near", 0),
                           "disagreements": total.get("oracle_bad", 0),
                           "named_deviation_hits": {"ParallelepipedAlphaYExtent": total.get("oracle_deviation", 0),
                                                    "ParallelepipedBBoxTooSmall": total.get("oracle_deviation_bbox", 0)},
                           "what": "regular prisms n=3..8 with any orientation, parallelepipeds, general trapezoids built "
                                   "with GenPrism::from_trap (right / oblique / sheared / twisted), general rotations: "
                                   "analytic membership functions in harness/vbuild.cc (documented definitions), facts in the trace"},
        "traces_validated_against_impl": len(jobs),
        "design_check": "SolidsMC (%s): %d distinct states, %d transitions; invariants DeMorgan Subtraction "
                        "TransformRoundTrip TransformCompose Homogeneous Alternatives NearIsZero + ASSUME Count48 Orthogonal"
                        % ("quick ranges" if q else "thorough ranges", r.distinct, r.generated),
    })
    ctx.assumptions += [
        "integer parameters and half-lattice probe points: every membership test is an exact integer inequality "
        "(homogeneous coordinates; denominators 2 and 5); TLC raises on 32-bit overflow",
        "near-surface exclusion is exact but conservative: |F| <= B div tolinv with B an l1 bound of D^k|grad f| over "
        "|x| <= scale + 1 and 1/tolinv >= margin x rel x scale (margin 2; 8 for the perturbed family)",
        "labels: materials are given unique labels, the runtime reports label@unit; reading the label of "
        "OrangeTrackView::volume_id() after initialisation with direction +z is the observation",
        "tolerance Tolerance<>::from_relative(1e-8, 1); perturbations are +-0.5 and +-2 x rel x max(1,|v|)",
        "oracle-decided (labelled): regular prisms with n != 4 or rotated, parallelepipeds and general rotations are "
        "compared with analytic membership functions written in the harness from the documented definitions; "
        "TLC only compares the two labels",
        "not checked: involutes, rectangular arrays, twisted prisms under general rotations; unions with a negated "
        "operand are not generated (BoundingZone::calc_union is unsound there: extension check X06, F-BZ-2 / F-BZ-2u)",
    ]
