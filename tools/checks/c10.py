"""C10 CSG logic rewriting and encoding preserve the region's boolean function.

spec/Csg.tla states the semantics (Eval / truth tables of every handle) and the abstract
operations as relations on them; spec/CsgMC.tla is the design check (no code): every tree
reachable by the documented insert within a node bound, algebra of Sem, reference
translations evaluated by the spec's postfix/infix machines, soundness of the replacer's
propagation rules, the flagger's rule => sub-cube.

Binding (translation validation, programs = trees): harness/vcsg.cc drives the REAL CsgTree,
simplify / exchange / replace_and_simplify / transform_negated_joins, PostfixLogicBuilder,
build_infix_string, InternalSurfaceFlagger, LogicEvaluator and InfixEvaluator and logs every
argument and result; TLC validates every record with spec/CsgTrace.tla:
  (a) EXHAUSTIVE small scope: DFS over all trees reachable by growing inserts (<= depth) over 3
      surfaces; at every tree EVERY request of the alphabet (True/False/Surface/Negated/And/Or
      with 0..3 operands incl. duplicates, unsorted) and every rewrite/encoding; TLC itself
      checks that the enumeration is complete (alphabet order, DFS stack, obligations per tree);
  (a') DIRECTED family for transform_negated_joins (spec/Csg.tla DMFamily, generated and design-
      checked by TLC through CsgMC, replayed by vcsg): a negated join !J / J shared by 2..3 parent
      joins {all, any} x {plain, negated} in EVERY order, negations right after / after all
      parents, J also a volume / used positively, one level deeper, several volume sets; these
      trees need >= 7 growing inserts and lie outside the exhaustive scope;
  (b) seeded RANDOM large programs (<= 10 surfaces, <= 60 nodes, duplicate / complementary /
      constant operands, shared sub-expressions, deep chains) through the production pipeline
      (encode, replace a volume by a constant, encode again, De Morgan);
  (c) FIXTURES: stored logic of every volume of every bundled .org.json evaluated by the real
      LogicEvaluator vs the spec's postfix machine.
  (d) PRODUCTION PIPELINE: units built through the construction API (the C09 scene generator: solids, booleans,
      daughters; UnitProto::build = replace_and_simplify of a daughter's exterior + PostfixLogicBuilder with the
      surface remapping + InternalSurfaceFlagger), written by `vbuild export` and validated like the fixtures:
      stored logic well formed, LogicEvaluator = postfix machine, and a volume NOT flagged `internal surfaces` is a
      conjunction of literals (the flag as it reaches the runtime, not only the flagger called on its own).
"""
import glob
import hashlib
import json
import os
import re

import solids
import vlib

LEVEL = "translation_validation"

JAVA_OPTS = {"JAVA_TOOL_OPTIONS": "-XX:ParallelGCThreads=2 -XX:CICompilerCount=2"}
_KEYS = ("programs", "obligations", "blocks", "inserts", "encodings", "simple", "rewrites",
         "contradictions", "infixeval", "fixtures", "skipped", "famcases")


def _summary(out):
    m = re.search(r'<<\s*"SUMMARY",(.*?)>>', out, re.S)
    if not m:
        return None
    d = {k: int(v) for k, v in re.findall(r'"(\w+)",\s*(\d+)', m.group(1))}
    return d if all(k in d for k in _KEYS) else None


def _fail_text(out):
    i = out.find('"FAIL"')
    if i < 0:
        return ""
    j = out.find('"REJECTED"', i)
    txt = out[max(0, i - 3):j if j > 0 else i + 3000]
    return re.sub(r"\s+", " ", txt)[:2500]


def _rejected_line(out):
    m = re.search(r'<<\s*"REJECTED",\s*(\d+)', out)
    return int(m.group(1)) if m else None


def _context(path, lineno):
    """The rejected record and the tree it applies to (preceding Tree/Build record)."""
    ctxrec, rec = None, None
    with open(path) as fh:
        for i, line in enumerate(fh, 1):
            if i > lineno:
                break
            if i == lineno:
                rec = line
            elif '"e":"Tree"' in line or '"e":"Build"' in line or '"e":"Case"' in line:
                ctxrec = line
    return ctxrec, rec


def _run_vcsg(ctx, name, args, tail=()):
    """Run the harness; args then the output path then `tail` (the fixture file list)."""
    out = ctx.path(name + ".ndjson")
    r = vlib.run_harness("vcsg", [str(a) for a in args] + [out] + list(tail), timeout=1500, check=False)
    if r.returncode != 0:
        # a crash / abort of the code under test is an observed event: the trace ends with an
        # Abort record, which no spec action explains
        with open(out, "a") as fh:
            fh.write(json.dumps({"e": "Abort", "what": "vcsg exit code %d" % r.returncode,
                                 "stderr": (r.stderr or "")[-300:]}) + "\n")
    return out


def _family(ctx, level):
    """The directed family as ndjson, generated (and design-checked: CsgMC FamilyOK) by TLC from the
    spec; cached under the build root, keyed by the spec text."""
    h = hashlib.sha1()
    for f in ("Csg.tla", "CsgMC.tla"):
        with open(os.path.join(vlib.SPEC, f), "rb") as fh:
            h.update(fh.read())
    cdir = os.path.join(vlib.BUILDROOT, "cache_c10")
    os.makedirs(cdir, exist_ok=True)
    path = os.path.join(cdir, "family_L%d_%s.ndjson" % (level, h.hexdigest()[:16]))
    if not os.path.exists(path):
        cfg = ctx.path("CsgMC_family.cfg")
        with open(cfg, "w") as fh:
            fh.write("SPECIFICATION Spec\nCONSTANTS\n  NS = 3\n  MaxNodes = 2\n")
        tmp = ctx.path("family_L%d.ndjson" % level)
        env = dict(JAVA_OPTS)
        env.update({"C10_FAMILY_OUT": tmp, "C10_FAMILY_LEVEL": level})
        r = vlib.tlc("CsgMC", cfg, workers=1, env=env, timeout=3000, heap="6g")
        if r.code != 0 or not os.path.exists(tmp):
            if "Assumption" in r.out and "is false" in r.out:
                ctx.violation("design check of the directed family (CsgMC FamilyOK) fails:\n" + r.out[-2000:],
                              tags={"design": "CsgMC family"})
                return None, 0
            raise vlib.Broken("TLC failed generating the directed family: exit %d\n%s" % (r.code, r.out[-3000:]))
        os.replace(tmp, path)
        vlib.log("directed family level %d generated in %.0fs" % (level, r.wall))
    with open(path) as fh:
        n = sum(1 for _ in fh)
    return path, n


def _generated_units(ctx, nscene):
    """OrangeInput JSON of generated scenes (tools/solids.py) built by the real construction API."""
    scenes = solids.make_scenes(ctx.seed + 10, nscene, max(2, nscene // 6), 0, grid_n=3)
    scenes += solids.demorgan_gallery(ctx.seed, len(scenes), 3)
    sp = ctx.path("gen_scenes.ndjson")
    vlib.write_ndjson(sp, scenes)
    odir = ctx.path("gen_units")
    os.makedirs(odir, exist_ok=True)
    lst = ctx.path("gen_units.txt")
    r = vlib.run_harness("vbuild", ["export", sp, odir, lst], timeout=900,
                         env={"CELER_LOG": "critical", "CELER_LOG_LOCAL": "critical"}, check=False)
    if r.returncode != 0:
        raise vlib.Broken("vbuild export exited %d:\n%s" % (r.returncode, (r.stderr or "")[-2000:]))
    with open(lst) as fh:
        files = [l.strip() for l in fh if l.strip() and not l.startswith("!")]
    if len(files) < len(scenes) // 2:
        raise vlib.Broken("vbuild export wrote only %d of %d scenes" % (len(files), len(scenes)))
    return files


def run(ctx):
    vlib.build(["vcsg", "vbuild"])
    q = ctx.quick
    fixtures = sorted(glob.glob(os.path.join(vlib.REPO, "test/orange/data/*.org.json"))
                      + glob.glob(os.path.join(vlib.REPO, "test/geocel/data/*.org.json")))

    # ---------------------------------------------------------------- what to run
    ns = 3
    if q:
        mc_nodes, depth, split, nsh = 6, 4, 3, 6
        nrand_shards, nprog = 5, 20
        fam_level, nfam = 1, 4
    else:
        mc_nodes, depth, split, nsh = 7, 5, 3, 16
        nrand_shards, nprog = 16, 150
        fam_level, nfam = 2, 16
    jobs = []  # (name, harness args (without out path), kind)
    if getattr(ctx, "replay", None):
        jobs.append(("replay", None, "replay"))
    else:
        for k in range(nsh):
            jobs.append(("exh%d" % k, ["exh", ns, depth, split, nsh, k], "exh"))
        for k in range(nrand_shards):
            jobs.append(("rand%d" % k, ["rand", ctx.seed + 7919 * k, nprog, 10, 60], "rand"))
        jobs.append(("fix", ["fix", ctx.seed], "fix"))
        gen_files = _generated_units(ctx, 24 if q else 300)
        jobs.append(("genfix", ["fix", ctx.seed + 1], "genfix"))
        ctx.coverage["generated_units_files"] = len(gen_files)
        fam_path, fam_size = _family(ctx, fam_level)
        if fam_path:
            for k in range(nfam):
                jobs.append(("fam%d" % k, ["fam", fam_path, fam_level, nfam, k], "fam"))
            ctx.coverage["directed_family"] = {"level": fam_level, "cases": fam_size,
                                               "generated_by": "TLC from spec/Csg.tla DMFamily via CsgMC (FamilyOK)"}

    # ---------------------------------------------------------------- harness runs
    traces = {}
    for name, args, kind in jobs:
        if kind == "replay":
            traces[name] = ctx.replay
        else:
            traces[name] = _run_vcsg(ctx, name, args, fixtures if kind == "fix" else gen_files if kind == "genfix" else ())
        if kind == "exh":
            with open(traces[name]) as fh:
                head = json.loads(fh.readline())
            want = {"e": "Exh", "ns": ns, "depth": depth, "split": split, "nshards": nsh, "shard": int(name[3:])}
            if head != want:
                raise vlib.Broken("exhaustive shard header %r != requested %r" % (head, want))
        if kind == "fam":
            with open(traces[name]) as fh:
                head = json.loads(fh.readline())
            want = {"e": "Fam", "level": fam_level, "nshards": nfam, "shard": int(name[3:])}
            if head != want:
                raise vlib.Broken("family shard header %r != requested %r" % (head, want))

    # ---------------------------------------------------------------- TLC: design + traces
    tj = []
    if not getattr(ctx, "replay", None):
        cfg = ctx.path("CsgMC.cfg")
        with open(os.path.join(vlib.SPEC, "CsgMC.cfg")) as fh:
            txt = re.sub(r"MaxNodes = \d+", "MaxNodes = %d" % mc_nodes, fh.read())
        with open(cfg, "w") as fh:
            fh.write(txt)
        tj.append(dict(module="CsgMC", cfg=cfg, workers=4 if q else 8, env=JAVA_OPTS, timeout=3000, heap="6g"))
    for name, args, kind in jobs:
        e = dict(JAVA_OPTS)
        e["TRACE"] = traces[name]
        tj.append(dict(module="CsgTrace", cfg="CsgTrace", workers=1, env=e, timeout=3000, heap="5g"))
    results = vlib.tlc_parallel(tj, maxpar=16)
    vlib.log("TLC wall times: " + " ".join("%s=%.0fs" % (j["module"][3:] + os.path.basename(j["env"].get("TRACE", ""))[:-7], r.wall)
                                           for j, r in zip(tj, results)))

    if not getattr(ctx, "replay", None):
        mc = results.pop(0)
        if mc.code != 0:
            if mc.violated:
                ctx.violation("design model CsgMC violates %s:\n%s" % (mc.violated_names(), mc.out[-2500:]),
                              tags={"design": "CsgMC"})
            else:
                raise vlib.Broken("TLC failed on CsgMC: exit %d\n%s" % (mc.code, mc.out[-3000:]))
        ctx.coverage["states"] = mc.distinct
        ctx.coverage["transitions"] = mc.generated
        ctx.coverage["design_bounds"] = {"surfaces": ns, "max_nodes": mc_nodes}

    tot = {k: 0 for k in _KEYS}
    records = 0
    accepted = 0
    for (name, args, kind), r in zip(jobs, results):
        path = traces[name]
        if r.code != 0:
            if "REJECTED" in r.out or r.violated:
                ln = _rejected_line(r.out)
                ctxrec, rec = _context(path, ln) if ln else (None, None)
                extra = []
                if rec:
                    cpath = ctx.path("rejected_%s.ndjson" % name)
                    with open(cpath, "w") as fh:
                        if ctxrec:
                            fh.write(ctxrec)
                        fh.write(rec)
                    extra.append(cpath)
                tree_txt = (ctxrec or "")[:700]
                if ctxrec and '"e":"Case"' in ctxrec:
                    c = json.loads(ctxrec)
                    tree_txt = ("directed family case ri=%d: inserts %s; volume sets (handles) %s; tree %s"
                                % (c["ri"], [[o["k"]] + o["h"] for o in c["sym"]["ops"]], c["sym"]["volsets"],
                                   [[nd["k"]] + nd["a"] for nd in c["tree"]]))
                what = ("trace %s (vcsg %s) rejected by CsgTrace at record %s\n%s\nrecord: %s\ntree: %s"
                        % (name, " ".join(map(str, args or [])), ln, _fail_text(r.out) or r.out[-1500:],
                           (rec or "")[:700], tree_txt))
                ctx.violation(what, tags={"trace": kind}, files=[path] + extra)
                continue
            raise vlib.Broken("TLC failed on %s: exit %d\n%s" % (name, r.code, r.out[-3000:]))
        s = _summary(r.out)
        if s is None:
            raise vlib.Broken("no SUMMARY in TLC output for %s:\n%s" % (name, r.out[-2000:]))
        accepted += 1
        for k in _KEYS:
            tot[k] += s[k]

    # ---------------------------------------------------------------- coverage accounting
    distinct = set()
    samples = []
    toolong = 0
    for (name, args, kind) in jobs:
        with open(traces[name]) as fh:
            for i, line in enumerate(fh):
                records += 1
                if '"e":"Tree"' in line or '"e":"Build"' in line or '"e":"Case"' in line:
                    rec = json.loads(line)
                    tree = rec["tree"]
                    if any(nd["k"] in ("and", "or") for nd in tree):
                        distinct.add(hashlib.sha1(json.dumps([rec["ns"], tree]).encode()).digest())
                    if rec["e"] == "Build" and kind == "rand" and len(tree) > 20 \
                            and sum(1 for x in samples if x["kind"] == "random program") < 2:
                        samples.append({"kind": "random program", "surfaces": rec["ns"], "nodes": len(tree),
                                        "inserts": [[o["op"]["k"]] + o["op"]["a"] for o in rec["ops"]],
                                        "volumes": rec["vols"]})
                    if rec["e"] == "Case" and name == "fam1" and not any(x["kind"] == "directed family case" for x in samples) \
                            and rec["ri"] > 300:
                        samples.append({"kind": "directed family case", "raw_index": rec["ri"],
                                        "inserts": [[o["k"]] + o["h"] for o in rec["sym"]["ops"]],
                                        "volume_sets": rec["sym"]["volsets"]})
                    if rec["e"] == "Tree" and rec.get("src") == "block" and rec.get("depth") == depth \
                            and sum(1 for x in samples if x["kind"] == "exhaustive block") < 2 and name == "exh1":
                        samples.append({"kind": "exhaustive block", "inserts": [[o["k"]] + o["a"] for o in rec["prog"]],
                                        "tree": [[nd["k"]] + nd["a"] for nd in tree]})
                elif '"toolong":' in line and '"toolong":0' not in line:
                    m = re.search(r'"toolong":(\d+)', line)
                    toolong += int(m.group(1))
                elif kind == "fix" and i == 40:
                    rec = json.loads(line)
                    samples.append({"kind": "fixture volume", "file": rec["file"], "univ": rec["univ"],
                                    "vol": rec["vol"], "logic": rec["text"], "faces": rec["nf"]})
    if not samples:
        samples.append({"kind": "replay", "file": str(getattr(ctx, "replay", ""))})
    ctx.coverage.update({
        "programs": tot["programs"],
        "disagreements_checked": tot["obligations"],
        "samples": samples,
        "evaluations": records,
        "distinct_nontrivial": len(distinct),
        "rule": "programs = trees validated (every tree of the exhaustive DFS, every random program, every tree "
                "rewritten by replace_and_simplify, every fixture volume); disagreements_checked = equivalence "
                "obligations evaluated by TLC over ALL 2^ns assignments each (per insert: returned handle vs requested "
                "function; per rewrite: every handle / volume before vs after; per encoding: postfix machine, real "
                "LogicEvaluator, infix string, simple-flag => cube; per fixture volume: one per sense vector); "
                "evaluations = ndjson records validated; distinct_nontrivial = distinct logged trees (sha1 of "
                "surfaces + node list) that contain at least one join",
        "exhaustive": not getattr(ctx, "replay", None),
        "exhaustive_bounds": {"surfaces": ns, "growing_inserts": depth, "operands_per_join": "0..3 with duplicates",
                              "rewrites": "simplify, exchange+simplify (each node, each constant), "
                                          "replace_and_simplify (each node, each constant) + re-encoding, "
                                          "transform_negated_joins (all nodes as volumes, each node alone), "
                                          "postfix/infix/flag of every node"},
        "traces_validated_against_impl": accepted,
        "exhaustive_trees": tot["blocks"],
        "insert_requests": tot["inserts"],
        "encodings": tot["encodings"],
        "flagged_simple_checked_cube": tot["simple"],
        "rewrites": tot["rewrites"],
        "contradictions_thrown_all_unsatisfiable": tot["contradictions"],
        "infix_evaluator_runs": tot["infixeval"],
        "fixture_volumes": tot["fixtures"],
        "directed_family_cases_validated": tot["famcases"],
        "fixture_files": len(fixtures),
        "encodings_not_logged_too_long": toolong,
    })
    ctx.assumptions += [
        "reference semantics = spec/Csg.tla (Eval); truth tables packed 30 entries per integer are checked against "
        "Eval in spec/CsgMC.tla",
        "the harness only observes: node lists, ids, logic vectors, evaluator outputs packed into integers; lexing of "
        "build_infix_string's text and its transliteration into explicit infix tokens for InfixEvaluator "
        "(all(..)->( & ), any(..)->( | ), -k -> ~k) are trusted harness code (no CsgTree->infix-logic builder exists "
        "in this version)",
        "CsgTree::exchange / simplify after a non-equivalent exchange are only required to preserve functions on the "
        "assignments consistent with the forced constant (their documented contract asks for an equivalent node)",
        "transform_negated_joins is only run on trees built by inserts (DeMorganSimplifier documents that alias nodes "
        "and double negations are not supported; it crashes on some trees rewritten by replace_and_simplify)",
        "encodings whose postfix/infix length times 2^surfaces exceeds 200000 are counted, not validated "
        "(exponential DAG expansion)",
    ]
