"""C11 The reported safety distance is conservative.

Same specification and harness as C03 (spec/LatticeNav.tla clauses C11.SafetyNonNegative,
C11.SafetyConservative: 0 <= s and s^2 <= exact squared distance to the nearest lattice cell
whose volume path differs, at any level).  FindSafety is one of the protocol operations, so it
is executed at every interior protocol state reached by the exhaustive replay; on the bundled
fixtures every probed point is followed by 64 rays (26 lattice directions + seeded random):
each ray must travel at least the safety, and no valid point of the safety sphere may lie in
another volume (oracle facts, spec/RayNavTrace.tla).
"""
import os

import latticenav as L
import vlib

LEVEL = "model_checking"


def run(ctx):
    q = ctx.quick
    vlib.build(["vnav"])
    files = L.make_worlds(ctx, 5 if q else 200, big=not q)
    by_name = {os.path.splitext(os.path.basename(f))[0]: f for f in files}
    # the design model computes safety as the minimum over levels of the distance to the nearest face
    # plane of the local volume and is judged by the same C11 clauses
    st, tr, dinfo, _ = L.design(ctx, by_name, with_guard=False)
    tot, samples = L.replay(ctx, files, "both", ["C11."], explore_bound=0, maxcalls=300000 if q else 600000,
                            nwalks=15 if q else 60, walklen=50 if q else 120, maxpar=8 if q else 12)
    # curved worlds: spheres / cylinders, and (nonsimple) cones / ellipsoids under arbitrary rotations, i.e.
    # kx/ky/kz, sq, gq surfaces bounding BACKGROUND volumes at up to three levels
    curved = [] if L.skip("fixtures") else (L.curved_files(ctx, 1 if q else 15)
                                            + L.curved_files(ctx, 3 if q else 30, nonsimple=True))
    ftot, fsamples = L.fixtures(ctx, ["C11."], nrays=0, nwalks=100 if q else 2000,
                                nprobes=250 if q else 12000, maxpar=8 if q else 12, nshards=6 if q else 12,
                                extra_files=curved)
    fs = ftot["stat"]
    ctx.coverage.update({
        "traces_validated_against_impl": tot["traces"] + ftot["fixtures"],
        "samples": samples + fsamples,
        "evaluations": tot["safety"] + tot["per_op"].get("SafetyMax", 0) + fs.get("Safety", 0) + fs.get("SafetyMax", 0),
        "distinct_nontrivial": tot["safety_pos"] + fs.get("safety_pos", 0),
        "rule": "evaluations = find_safety calls judged (lattice: exact integer inequality s^2 <= true squared distance; "
                "fixtures: 64 rays + sphere points per probe); distinct_nontrivial = calls that reported a strictly positive "
                "safety (a zero safety is trivially conservative); states/transitions = LatticeNavMC design model",
        "exhaustive": tot["truncated_worlds"] == 0,
        "design": dinfo,
        "lattice": {k: tot[k] for k in ("traces", "calls", "safety", "safety_pos", "states", "exhaustive_worlds",
                                         "truncated_worlds", "other_clauses")},
        "lattice_worlds": len(files), "curved_worlds": len(curved),
        "fixtures": {"fixtures": ftot["fixtures"], "safety_calls": fs.get("Safety", 0),
                     "radius_limited_safety_calls": fs.get("SafetyMax", 0), "centre_or_axis_probes": fs.get("centre_probes", 0),
                     "dev": ftot["dev"], "rays": fs.get("rays", 0),
                     "sphere_points": fs.get("sphere_pts", 0), "confirmed_nearest_boundary_bounds": fs.get("near_bounds", 0), "discarded": ftot["discarded"], "skipped": ftot["skipped"],
                     "other_clauses": ftot["other_clauses"]},
    })
    if st:
        ctx.coverage.update({"states": st, "transitions": tr})
    knobs = {k: os.environ[k] for k in ("VERIF_NAV_WORLDS", "VERIF_NAV_SKIP", "VERIF_NAV_FIXTURES") if os.environ.get(k)}
    if knobs:
        ctx.coverage["restricted_by_debug_knobs"] = knobs
    ctx.assumptions += [
        "lattice worlds as in C03 (interior points = cell centres); true distance = exact distance to the nearest unit cell "
        "with a different volume path or to the world boundary",
        "fixtures and seeded curved worlds (incl. cones / ellipsoids = surfaces without a simple safety, bounding background "
        "volumes): besides random probes, planned probes near the surrounding surfaces with rays aimed at the nearest surface "
        "points; s must not exceed any confirmed upper bound of the true boundary distance (closest-point iteration of the "
        "oracle + point location beyond the surface point), nor may any sphere point (64 directions + aimed ones) leave the volume",
        "fixtures: a ray 'travels at least the safety' is judged with relative tolerance 1e-9; sphere radius s(1-1e-6); "
        "oracle points within 1e-6 of a surface are discarded",
        "other-property clauses (C03.*) seen in the same traces are reported by C03, not here",
        "both overloads are judged: find_safety() and the radius-limited find_safety(r) (lattice: r = 2, 6 at every interior "
        "protocol state, worlds slab_asym / big_room2 / array_oversize hold points whose nearest boundary belongs to a shallower "
        "level than the nearest face of the deepest one; fixtures: r below, above and far above the unlimited answer); planned "
        "probes include points exactly at sphere centres / on cylinder axes (finding F-SAFE-1: named deviation "
        "SafetyIgnoresCentredQuadric, scoped by the oracle's zero-gradient-face fact); a non-finite safety is an over-estimate",
    ]
