"""C12 Surface primitives are self-consistent; transforms preserve their point sets.

spec/Surfaces.tla is the reference: every ORANGE surface type as an integer quadric
f(x) = x.A.x + b.x + k, Sense = sign f, the ray polynomial g(t) = f(p + t d) with its number
of crossings ahead (discriminant / Vieta signs), the integer gradient, and the lattice maps
of translations, the 48 signed permutations and Pythagorean rotations.

  1. design check   spec/SurfacesMC.tla: TLC explores <<quadric, point, direction>> under
                    compositions of transforms and checks the spec's own laws
                    (Sense(T.s,T.p) = Sense(s,p), ray/gradient covariance, down o up = id,
                    crossing parity, exact rational roots, de-normalisation).
  2. binding        harness/vsurf.cc drives the REAL classes (calc_sense, calc_intersections
                    with both SurfaceStates, calc_normal, apply_transform -> SurfaceTranslator /
                    SurfaceTransformer, RecursiveSimplifier -> SurfaceSimplifier + converters,
                    Translation / SignedPermutation / Transformation) on integer tuples:
                    exhaustively over small parameter ranges, seeded random larger integers,
                    and on 3-, 5-, 7-, 13-scaled lattices for the Pythagorean rotations.
  3. trace validation  spec/SurfacesTrace.tla: TLC decides every record.

  4. matrix / transform algebra   vsurf mat | tfx | sperm: orange/MatrixUtils (determinant, trace,
                    gemm, gemv plain and transposed, make_transpose, make_rotation, orthonormalize) on
                    integer / quarter-turn / Pythagorean inputs, apply_transform(transform, transform),
                    calc_inverse / from_inverse, TransformSimplifier, Translation -> Transformation,
                    SignedPermutation over all 216 sign/axis assignments and make_permutation: TLC
                    computes every expected matrix / image itself (Surfaces.tla MatMul .. SPermValue,
                    laws checked in SurfacesMC), records MDet .. SPermQ of SurfacesTrace.
  5. involutes      transcendental, so "oracle-decided facts + spec-decided logic" (DESIGN 2.2):
                    tools/involute_oracle.py gen -> harness/vinvolute.cc (the REAL Involute:
                    calc_sense, calc_intersections off / on, calc_normal, SurfaceTranslator) ->
                    tools/involute_oracle.py facts (independent implementation of the mathematical
                    definition: sign changes of the signed normal distance along each ray by dense
                    sampling + bisection, on-surface zones, sense of the documented region, numerical
                    gradient) -> spec/InvoluteTrace.tla decides the clauses C12.Inv*.

Named deviations are counted by the trace specs and reported through
ctx.violation(tags={"deviation": ...}): TranslatorSimpleQuadricConstTerm (F-SURF-1, repaired),
InvoluteSolverBracketParity, InvoluteSenseNegativeTangentAngle, InvoluteTranslatorClockwiseAngle.

The small python quadric evaluator below is used for COVERAGE ACCOUNTING and for picking a
readable sample of a deviation only -- never for a verdict (TLC alone accepts or rejects).
"""
import json
import os
import re
import subprocess
import threading
import time

import vlib

LEVEL = "exploration"
VT_PY = "/opt/veriftools/pyvenv/bin/python"
ORACLE = os.path.join(vlib.ROOT, "tools", "involute_oracle.py")

INV_DEVIATIONS = {
    "InvoluteSolverBracketParity":
        "crossings of an involute are not reported by calc_intersections: detail::InvoluteSolver builds its search "
        "brackets from beta = atan(-v/u) but the implemented root function has its extrema at atan(+v/u) - a + k pi, "
        "so a bracket can hold an even number of roots and the sign test skips them (scoped: an isolated crossing is "
        "unreported AND the oracle's reproduction of the documented bracket sequence puts it in such a bracket)",
    "InvoluteSenseNegativeTangentAngle":
        "Involute::calc_sense reports 'outside' for points inside a clockwise involute constructed with displacement "
        "a > pi (stored pi - a < 0): the tangent-angle unwrapping only adds multiples of 2 pi (scoped: clockwise, oracle "
        "inside, code outside, the tangent angle of the turn that makes the point inside is negative)",
    "InvoluteTranslatorClockwiseAngle":
        "SurfaceTranslator passes the STORED displacement angle of a clockwise involute to the constructor, which "
        "mirrors it again: the translated surface stores pi - (stored angle) (scoped: clockwise, stored angle swapped, "
        "every sense of the translated surface agrees with the oracle's involute of the mirrored angle)",
}

TYPES = ["px", "py", "pz", "cxc", "cyc", "czc", "sc", "cx", "cy", "cz", "p", "s", "kx", "ky", "kz", "sq", "gq"]


# ----------------------------------------------------------- coverage accounting helpers
def _quad(s):
    """(a, c, b, k) of a positive multiple of the surface function (mirrors Surfaces!Quad)."""
    t, d = s["t"], s["d"]

    def central(w, o, rsq):
        return (w, [0, 0, 0], [-2 * w[i] * o[i] for i in range(3)],
                sum(w[i] * o[i] * o[i] for i in range(3)) - rsq)
    if t in ("px", "py", "pz"):
        n = [0, 0, 0]
        n["xyz".index(t[1])] = 1
        return ([0, 0, 0], [0, 0, 0], n, -d[0])
    if t in ("cxc", "cyc", "czc"):
        T = "xyz".index(t[1])
        return central([0 if i == T else 1 for i in range(3)], [0, 0, 0], d[0])
    if t == "sc":
        return central([1, 1, 1], [0, 0, 0], d[0])
    if t in ("cx", "cy", "cz"):
        T = "xyz".index(t[1])
        U = 1 if T == 0 else 0
        V = 1 if T == 2 else 2
        o = [0, 0, 0]
        o[U], o[V] = d[0], d[1]
        return central([0 if i == T else 1 for i in range(3)], o, d[2])
    if t == "p":
        return ([0, 0, 0], [0, 0, 0], d[0:3], -d[3])
    if t == "s":
        return central([1, 1, 1], d[0:3], d[3])
    if t in ("kx", "ky", "kz"):
        T = "xyz".index(t[1])
        return central([-d[3] if i == T else d[4] for i in range(3)], d[0:3], 0)
    if t == "sq":
        return (d[0:3], [0, 0, 0], d[3:6], d[6])
    return (d[0:3], d[3:6], d[6:9], d[9])


def _qform(q, v):
    a, c = q[0], q[1]
    return (a[0] * v[0] * v[0] + a[1] * v[1] * v[1] + a[2] * v[2] * v[2]
            + c[0] * v[0] * v[1] + c[1] * v[1] * v[2] + c[2] * v[2] * v[0])


def _f(q, p):
    return _qform(q, p) + sum(q[2][i] * p[i] for i in range(3)) + q[3]


def _grad(q, p):
    a, c, b = q[0], q[1], q[2]
    return [2 * a[0] * p[0] + c[0] * p[1] + c[2] * p[2] + b[0],
            2 * a[1] * p[1] + c[0] * p[0] + c[1] * p[2] + b[1],
            2 * a[2] * p[2] + c[1] * p[1] + c[2] * p[0] + b[2]]


class Coverage:
    def __init__(self):
        self.distinct = set()
        self.nontrivial = set()
        self.kind = {}
        self.by_type = {t: 0 for t in TYPES}
        self.records = 0
        self.samples = []
        self.rays_with_roots = [0, 0, 0]
        self.on_surface_rays = 0
        self.tangent_rays = 0
        self.unbracketed = 0
        self.simplified_changed = 0
        self.flips = 0
        self.out_types = {}
        self.devs = []
        self.comp_classes = {}
        self.simp_classes = {}
        self.sperm_ok = 0
        self.sperm_rejected = 0

    def add(self, kind, tup, nontrivial, stype=None):
        self.kind[kind] = self.kind.get(kind, 0) + 1
        if stype is not None:
            self.by_type[stype] = self.by_type.get(stype, 0) + 1
        h = hash((kind,) + tup)
        self.distinct.add(h)
        if nontrivial:
            self.nontrivial.add(h)
            if len(self.samples) < 10 and self.kind[kind] % 1013 == 7:
                self.samples.append({"kind": kind, "tuple": tup})

    def file(self, path):
        with open(path) as fh:
            for line in fh:
                if not line.strip():
                    continue
                self.records += 1
                self.record(json.loads(line))

    def record(self, r):
        e = r["e"]
        if e[0] == "M" or e in ("TfComp", "TfInv", "TfSimp", "TfTol", "SPerm", "SPermQ"):
            self.algebra(r)
            return
        if e == "Tf":
            T = r["T"]
            tt = (r["cls"], json.dumps(T["R"]), T["den"], tuple(T["t"]))
            ident = T["R"] == [[1, 0, 0], [0, 1, 0], [0, 0, 1]] and T["t"] == [0, 0, 0]
            for pt in r["pts"]:
                self.add("tf_point", tt + (tuple(pt["p"]),), (not ident) and any(pt["p"]))
            for dd in r["dirs"]:
                self.add("tf_dir", tt + (tuple(dd["d"]),), (not ident) and any(dd["d"]))
            return
        s = r["s"]
        st = (s["t"], tuple(s["d"]))
        q = _quad(s)
        if e == "Surf":
            for pt in r["pts"]:
                p = pt["p"]
                self.add("sense", st + (tuple(p),), pt["sn"] != 0, s["t"])
                self.add("normal", st + (tuple(p),), any(_grad(q, p)), s["t"])
                for ray in pt["rays"]:
                    d = ray["d"]
                    al, be, ga = _qform(q, d), sum(x * y for x, y in zip(_grad(q, p), d)), _f(q, p)
                    self.add("ray", st + (tuple(p), tuple(d), ray["st"]), al != 0 or be != 0, s["t"])
                    self.rays_with_roots[min(2, ray["n"])] += 1
                    self.on_surface_rays += ray["st"]
                    if al != 0 and be * be - 4 * al * ga == 0:
                        self.tangent_rays += 1
                    self.unbracketed += sum(1 for x in ray["r"] if x["D"] == 0)
        elif e == "Xform":
            T = r["T"]
            tt = (json.dumps(T["R"]), T["den"], tuple(T["t"]), r["via"])
            ident = T["R"] == [[1, 0, 0], [0, 1, 0], [0, 0, 1]] and T["t"] == [0, 0, 0]
            o = r["out"]["t"]
            self.out_types[s["t"] + "->" + o] = self.out_types.get(s["t"] + "->" + o, 0) + 1
            bad = None
            for pt in r["pts"]:
                self.add("transform", st + tt + (tuple(pt["p"]),), pt["sn"] != 0 and not ident, s["t"])
                ref = _f(q, pt["p"])
                sg = (ref > 0) - (ref < 0)
                if ref != 0 and pt["sn"] != sg and (bad is None or (bad["sn"] == 0 and pt["sn"] != 0)):
                    bad = pt
            if bad is not None and len(self.devs) < 5000:
                ref = _f(q, bad["p"])
                self.devs.append({"surface": s, "T": T, "via": r["via"], "out": r["out"], "p": bad["p"],
                                  "q": bad["q"], "expected_sense": (ref > 0) - (ref < 0),
                                  "reported_sense": bad["sn"],
                                  "size": sum(abs(x) for x in s["d"]) + sum(abs(x) for x in T["t"])
                                  + sum(abs(x) for x in bad["p"]) + (0 if bad["sn"] else 100)})
        elif e == "Simp":
            changed = r["out"]["t"] != s["t"] or r["flip"] or (r["out"]["d"] != s["d"])
            self.simplified_changed += changed
            self.flips += bool(r["flip"])
            o = r["out"]["t"]
            self.out_types["simplify " + s["t"] + "->" + o] = self.out_types.get("simplify " + s["t"] + "->" + o, 0) + 1
            for pt in r["pts"]:
                self.add("simplify", st + (tuple(pt["p"]),), pt["sn"] != 0 and changed, s["t"])


    def algebra(self, r):
        """Matrix / transform-algebra / signed-permutation records: distinct inputs per kind."""
        e = r["e"]
        self.kind[e] = self.kind.get(e, 0) + 1
        key = json.dumps({k: v for k, v in r.items() if k in ("ty", "n", "A", "B", "v", "y", "al", "be", "ax", "q", "O",
                                                                "m", "R", "L", "M", "T", "via", "op", "k")},
                         sort_keys=True)
        h = hash((e, key))
        self.distinct.add(h)
        trivial = False
        if e in ("MDet", "MMul", "MVec", "MTr"):
            trivial = r["A"] == [[1, 0, 0], [0, 1, 0], [0, 0, 1]]
        elif e == "MRot":
            trivial = r["q"] % 4 == 0 and "O" not in r
        elif e in ("MRotAx", "SPermQ"):
            trivial = r["q"] % 4 == 0
        elif e == "TfComp":
            trivial = r["L"]["cls"] == "No" or r["R"]["cls"] == "No"
            self.comp_classes[r["L"]["cls"] + " o " + r["R"]["cls"] + " -> " + r["out"]] = \
                self.comp_classes.get(r["L"]["cls"] + " o " + r["R"]["cls"] + " -> " + r["out"], 0) + 1
        elif e == "TfSimp":
            self.simp_classes[r["op"] + " " + r["T"]["cls"] + " -> " + r["out"]] = \
                self.simp_classes.get(r["op"] + " " + r["T"]["cls"] + " -> " + r["out"], 0) + 1
        elif e == "TfTol":
            self.simp_classes["k=%d -> %s" % (r["k"], r["out"])] = \
                self.simp_classes.get("k=%d -> %s" % (r["k"], r["out"]), 0) + 1
        elif e == "SPerm":
            self.sperm_ok += bool(r["ok"])
            self.sperm_rejected += not r["ok"]
        if not trivial:
            self.nontrivial.add(h)


def _summary(r):
    m = re.search(r'<<"SUMMARY", "cases", (\d+), "deviations", (\d+)>>', r.out)
    return (int(m.group(1)), int(m.group(2))) if m else (0, 0)


def _rejected(r):
    """The REJECTED tuple printed by the trace spec (TLC pretty-prints it over many lines)."""
    i = r.out.find('"REJECTED"')
    if i < 0:
        return r.out[-1500:]
    txt = r.out[max(0, i - 3):i + 2600]
    j = txt.find("Error:")
    txt = txt if j < 0 else txt[:j]
    return re.sub(r"\s+", " ", txt)[:1800]


def _mc_cfg(ctx, depth):
    """The design-check cfg with MaxDepth = depth (spec/SurfacesMC.cfg holds the quick value)."""
    src = open(os.path.join(vlib.SPEC, "SurfacesMC.cfg")).read()
    out = ctx.path("SurfacesMC_depth%d.cfg" % depth)
    with open(out, "w") as fh:
        fh.write(re.sub(r"MaxDepth\s*=\s*\d+", "MaxDepth = %d" % depth, src))
    return out


# ----------------------------------------------------------------------------- involutes
def _json_summary(out):
    m = re.search(r'<<"SUMMARY", "(.*)">>', out)
    if not m:
        return None
    return json.loads(m.group(1).replace('\\"', '"'))


def _line(path, k):
    try:
        with open(path) as fh:
            for i, line in enumerate(fh, 1):
                if i == k:
                    return line
    except OSError:
        pass
    return ""


def _involute_case(ctx, shard, k):
    """The input case (parameters only) behind record k of a shard's fact trace."""
    rec = _line(ctx.path("inv%d.trace.ndjson" % shard), k)
    try:
        cid = json.loads(rec)["id"]
    except (ValueError, KeyError):
        return "record %d" % k
    with open(ctx.path("inv%d.cases.ndjson" % shard)) as fh:
        for line in fh:
            c = json.loads(line)
            if c["id"] == cid:
                return ("case %d: Involute{{%r, %r}, %r, %r, %s, %r, %r}"
                        % (cid, c["o"][0], c["o"][1], c["rb"], c["a"], c["sign"], c["tmin"], c["tmax"]))
    return "case %d" % cid


def _involute_shard(ctx, shard, seed, ncases, knobs, res):
    """gen -> real code -> oracle facts -> TLC for one shard (runs in a thread alongside the other jobs)."""
    try:
        cases = ctx.path("inv%d.cases.ndjson" % shard)
        raw = ctx.path("inv%d.raw.ndjson" % shard)
        trace = ctx.path("inv%d.trace.ndjson" % shard)
        r = subprocess.run([VT_PY, ORACLE, "gen", str(seed), str(ncases), cases] + knobs,
                           stdout=subprocess.PIPE, stderr=subprocess.PIPE, text=True, timeout=600)
        if r.returncode != 0:
            raise vlib.Broken("involute_oracle.py gen failed:\n" + r.stderr[-2000:])
        vlib.run_harness("vinvolute", [cases, raw], timeout=900)
        r = subprocess.run([VT_PY, ORACLE, "facts", cases, raw, trace],
                           stdout=subprocess.PIPE, stderr=subprocess.PIPE, text=True, timeout=3000)
        if r.returncode != 0:
            raise vlib.Broken("involute_oracle.py facts failed:\n" + r.stderr[-3000:])
        res[shard] = json.loads(r.stdout.strip().splitlines()[-1])
        res[shard]["tlc"] = vlib.tlc("InvoluteTrace", "InvoluteTrace", workers=1, env={"TRACE": trace}, timeout=3000,
                                     heap="3g")
    except Exception as ex:  # reported by the caller
        res[shard] = ex


def _involute_report(ctx, shard, r, tot, devs):
    """Digest one InvoluteTrace run: violations, named deviations, statistics."""
    path = ctx.path("inv%d.trace.ndjson" % shard)
    if r.code != 0:
        if "REJECTED" in r.out or r.violated:
            ctx.violation("involute trace (shard %d) rejected by InvoluteTrace (Abort record / protocol):\n%s"
                          % (shard, _rejected(r)), tags={"trace": "involute"},
                          files=[path, ctx.path("inv%d.raw.ndjson" % shard)])
            return
        raise vlib.Broken("TLC failed on the involute trace %d: exit %d\n%s" % (shard, r.code, r.out[-3000:]))
    s = _json_summary(r.out)
    if s is None:
        raise vlib.Broken("no SUMMARY from InvoluteTrace (shard %d):\n%s" % (shard, r.out[-2000:]))
    for k, v in s["stat"].items():
        tot[k] = tot.get(k, 0) + v
    for v in s["viol"]:
        ctx.violation("involute: clause %s violated by the real code in %d record(s), first: %s\n"
                      "  (facts: %s line %d; inputs and the code's raw answers: inv%d.cases.ndjson / inv%d.raw.ndjson)"
                      % (v["clause"], v["n"], _involute_case(ctx, shard, v["k"]), os.path.basename(path), v["k"],
                         shard, shard),
                      tags={"clause": v["clause"], "trace": "involute"},
                      files=[path, ctx.path("inv%d.cases.ndjson" % shard), ctx.path("inv%d.raw.ndjson" % shard)])
    for d in s["dev"]:
        e = devs.setdefault(d["clause"], {"n": 0, "first": None, "files": []})
        e["n"] += d["n"]
        if e["first"] is None:
            e["first"] = _involute_case(ctx, shard, d["k"])
            e["files"] = [path, ctx.path("inv%d.cases.ndjson" % shard), ctx.path("inv%d.raw.ndjson" % shard)]


def run(ctx):
    vlib.build(["vsurf", "vinvolute"])
    q = ctx.quick
    seed = ctx.seed % 1000000007

    if ctx.replay and '"e":"Inv"' in open(ctx.replay).readline().replace(" ", ""):
        ok, r = vlib.validate_trace("InvoluteTrace", "InvoluteTrace", ctx.replay, timeout=3000)
        sm = _json_summary(r.out) if ok else None
        if not ok or sm is None:
            ctx.violation("replayed involute trace rejected by InvoluteTrace:\n" + _rejected(r),
                          tags={"trace": "replay"}, files=[ctx.replay])
        else:
            for v in sm["viol"]:
                ctx.violation("replayed involute trace: clause %s violated (record %d)" % (v["clause"], v["k"]),
                              tags={"clause": v["clause"], "trace": "replay"}, files=[ctx.replay])
            for d in sm["dev"]:
                ctx.violation("%d facts explained only by the named deviation %s" % (d["n"], d["clause"]),
                              tags={"deviation": d["clause"]}, files=[ctx.replay])
        ctx.coverage.update({"evaluations": (sm or {}).get("stat", {}).get("facts", 0), "distinct_nontrivial": 0,
                             "rule": "replay of one involute fact trace", "samples": []})
        return
    if ctx.replay:
        ok, r = vlib.validate_trace("SurfacesTrace", "SurfacesTrace", ctx.replay, timeout=3000)
        c, d = _summary(r)
        if not ok:
            ctx.violation("replayed trace rejected by SurfacesTrace:\n" + _rejected(r),
                          tags={"trace": "replay"}, files=[ctx.replay])
        elif d:
            ctx.violation("%d records explained only by the named deviation" % d,
                          tags={"deviation": "TranslatorSimpleQuadricConstTerm"}, files=[ctx.replay])
        ctx.coverage.update({"evaluations": c, "distinct_nontrivial": 0, "rule": "replay of one trace file",
                             "samples": []})
        return

    # VERIF_C12_PARTS=design,quadric,algebra,involute restricts a run to some parts (development and
    # binding demonstrations only; recorded in the evidence).  Default: everything.
    parts = set(x for x in os.environ.get("VERIF_C12_PARTS", "design,quadric,algebra,involute").split(",") if x)

    # ---- 1. design check (in a thread, alongside the traces)
    mc = {}

    def design():
        if "design" not in parts:
            mc["r"] = None
            return
        try:
            mc["r"] = vlib.tlc("SurfacesMC", "SurfacesMC" if q else _mc_cfg(ctx, 2), workers=4 if q else 6,
                               timeout=1800 if q else 3600, heap="4g")
        except Exception as ex:  # reported below
            mc["ex"] = ex
    th = threading.Thread(target=design)
    th.start()

    # ---- 5. involutes: generation, the real code and the oracle run in threads alongside
    if q:
        inv_shards, inv_cases, inv_knobs = 3, 44, []
    else:
        inv_shards, inv_cases, inv_knobs = 8, 150, ["npts=30", "nrays=36"]
    if "involute" not in parts:
        inv_shards = 0
    inv_res = {}
    inv_threads = [threading.Thread(target=_involute_shard,
                                    args=(ctx, i, seed * 131 + i, inv_cases, inv_knobs, inv_res))
                   for i in range(inv_shards)]
    for t in inv_threads:
        t.start()

    # ---- 2. executions of the real code
    jobs = []   # (name, argv)
    if q:
        knobs = []
        nsh = 8
        for i in range(nsh):
            jobs.append(("exh%d" % i, ["exh", seed, i, nsh, 4, 400, 1] + knobs))
        for name, sc, cnt, m in (("rand1", 1, 160, 9), ("rand5", 5, 130, 9), ("rand13", 13, 90, 5),
                                 ("rand3", 3, 90, 9), ("rand7", 7, 90, 6)):
            jobs.append((name, ["rand", seed + sc, cnt, m, sc] + knobs))
        tfc = 1
    else:
        knobs = ["npts=24", "nraypts=10", "ndirs=8", "ntrans=6", "nxpts=10"]
        nsh = 20
        for i in range(nsh):
            jobs.append(("exh%d" % i, ["exh", seed, i, nsh, 1, 20, 1] + knobs))
        for j in range(3):
            for name, sc, cnt, m in (("rand1", 1, 500, 9), ("rand5", 5, 450, 9), ("rand13", 13, 350, 5),
                                     ("rand3", 3, 350, 9), ("rand7", 7, 350, 6)):
                jobs.append(("%s_%d" % (name, j), ["rand", seed + 100 * j + sc, cnt, m, sc] + knobs))
        tfc = 4
    for den in (1, 5, 13, 3, 7):
        jobs.append(("tf%d" % den, ["tf", seed + den, den, tfc]))
    if "quadric" not in parts:
        jobs = []
    # ---- 4. matrix utilities, transform algebra, signed permutations
    if "algebra" in parts:
        jobs.append(("mat", ["mat", seed + 17, 60 if q else 600]))
        jobs.append(("tfx", ["tfx", seed + 19, 12 if q else 150]))
        jobs.append(("sperm", ["sperm"]))

    tj = []
    t_h = time.time()
    for name, argv in jobs:
        out = ctx.path(name + ".ndjson")
        if argv[0] == "exh":
            argv = argv[:7] + [out] + argv[7:]
        elif argv[0] == "rand":
            argv = argv[:5] + [out] + argv[5:]
        else:
            argv = argv + [out]
        jobs[len(tj)] = (name, argv)
        vlib.run_harness("vsurf", argv, timeout=900)
        tj.append(dict(module="SurfacesTrace", cfg="SurfacesTrace", workers=1, env={"TRACE": out},
                       timeout=3000, heap="3g"))

    vlib.log("C12 harness runs: %.1fs" % (time.time() - t_h))
    # ---- 3. trace validation, parallel shards
    t_v = time.time()
    results = vlib.tlc_parallel(tj, maxpar=max(4, min(12, vlib.NCPU - 4)))
    vlib.log("C12 SurfacesTrace validation of %d traces: %.1fs" % (len(tj), time.time() - t_v))
    cases = devs = 0
    cov = Coverage()
    dev_files = []
    for (name, argv), r in zip(jobs, results):
        path = ctx.path(name + ".ndjson")
        if r.code != 0:
            if "REJECTED" in r.out or r.violated:
                ctx.violation("trace %s (vsurf %s) rejected by SurfacesTrace:\n%s"
                              % (name, " ".join(map(str, argv)), _rejected(r)),
                              tags={"trace": name}, files=[path])
                continue
            raise vlib.Broken("TLC failed on %s: exit %d\n%s" % (name, r.code, r.out[-3000:]))
        c, d = _summary(r)
        if c == 0:
            raise vlib.Broken("no SUMMARY from TLC on %s:\n%s" % (name, r.out[-2000:]))
        cases += c
        devs += d
        cov.file(path)
        if d:
            dev_files.append(path)

    if devs:
        cov.devs.sort(key=lambda x: x["size"])
        small = [x for x in cov.devs if x["via"] == "translator" and x["surface"]["t"] == "sq"][:5]
        sample_path = ctx.path("deviation_samples.json")
        with open(sample_path, "w") as fh:
            json.dump(small, fh, indent=1)
        what = ("%d SimpleQuadric translations (SurfaceTranslator) produce a surface whose sense at the translated "
                "point differs from the original's sense at the original point; in every one of them the produced "
                "constant term is off by exactly sum_i first[i]*t[i] (src/orange/surf/detail/SurfaceTranslator.cc, "
                "operator()(SimpleQuadric const&): '- 2 * other.first()[i] * origin[i]' should be "
                "'- other.first()[i] * origin[i]')." % devs)
        if small:
            x = small[0]
            what += ("\nsmallest: SimpleQuadric %s translated by %s -> %s; point %s -> %s: expected sense %+d, "
                     "reported %+d" % (x["surface"]["d"], x["T"]["t"], x["out"]["d"], x["p"], x["q"],
                                       x["expected_sense"], x["reported_sense"]))
        ctx.violation(what, tags={"deviation": "TranslatorSimpleQuadricConstTerm"},
                      files=[sample_path] + dev_files[:2])

    # ---- involutes: trace validation of the oracle's facts
    t_i = time.time()
    for t in inv_threads:
        t.join()
    vlib.log("C12 involute gen/harness/oracle/TLC threads: waited another %.1fs" % (time.time() - t_i))
    for i in range(inv_shards):
        if isinstance(inv_res.get(i), Exception):
            raise inv_res[i]
    inv_runs = [inv_res[i].pop("tlc") for i in range(inv_shards)]
    inv_tot, inv_devs = {}, {}
    for i, r in enumerate(inv_runs):
        _involute_report(ctx, i, r, inv_tot, inv_devs)
    for name, e in sorted(inv_devs.items()):
        ctx.violation("%d facts explained only by the named deviation %s: %s\n  first: %s"
                      % (e["n"], name, INV_DEVIATIONS.get(name, "(no description)"), e["first"]),
                      tags={"deviation": name}, files=e["files"])
    oracle_tot = {}
    for i in range(inv_shards):
        for k, v in inv_res[i].items():
            if isinstance(v, (int, float)):
                oracle_tot[k] = oracle_tot.get(k, 0) + v
    if inv_shards and (inv_tot.get("cases", 0) == 0 or inv_tot.get("must", 0) == 0 or inv_tot.get("flips", 0) == 0):
        raise vlib.Broken("involute check is vacuous: %s" % inv_tot)

    # ---- design check result
    t_d = time.time()
    th.join()
    vlib.log("C12 design check SurfacesMC: waited another %.1fs" % (time.time() - t_d))
    if "ex" in mc:
        raise mc["ex"]
    r = mc["r"]
    if r is None:
        r = vlib.TlcResult(0, "", 0.0)
    if r.code != 0:
        if r.violated:
            ctx.violation("design check SurfacesMC failed (%s):\n%s"
                          % (", ".join(r.violated_names()), r.out[-2500:]), tags={"design": "SurfacesMC"})
        else:
            raise vlib.Broken("TLC failed on SurfacesMC: exit %d\n%s" % (r.code, r.out[-3000:]))

    ctx.coverage.update({
        "evaluations": cases + inv_tot.get("facts", 0),
        "distinct_nontrivial": len(cov.nontrivial),
        "distinct_tuples": len(cov.distinct),
        "rule": "one evaluation = one elementary fact decided by TLC (a sense, a normal, a ray's intersection set, "
                "a transformed/simplified sense, a transformed point or direction). A tuple is <kind, surface type, "
                "integer parameters, point[, direction, SurfaceState][, transform R/den/t, path]>; distinct = distinct "
                "tuples over all traces; non-trivial = sense/transform/simplify: point off the surface (and the "
                "transform is not the identity / the simplifier changed something); ray: g(t) not constant "
                "(alpha != 0 or beta != 0); normal: gradient != 0; transform classes: point != 0 and T != identity. "
                "Measured from the validated traces.",
        "samples": cov.samples,
        "states": r.distinct, "transitions": r.generated, "design_depth": r.depth,
        "design_check": "SurfacesMC: %d distinct states, %d transitions, invariants SensePreserved CrossingsPreserved "
                        "StepLaw Parity RationalRoots Denormalised Walk + ASSUMEs TypeForms GradIsDerivative "
                        "RotRoundTrip Count48" % (r.distinct, r.generated),
        "per_kind": cov.kind, "per_surface_type": cov.by_type,
        "records": cov.records, "traces_validated_against_impl": len(jobs) + inv_shards,
        "rays_reporting_0_1_2_distances": cov.rays_with_roots,
        "rays_from_on_surface_points": cov.on_surface_rays, "tangent_rays": cov.tangent_rays,
        "unbracketed_distances": cov.unbracketed,
        "simplifications_that_changed_something": cov.simplified_changed, "simplifier_sense_flips": cov.flips,
        "type_changes": cov.out_types,
        "named_deviation_hits": devs,
        "transform_composition_classes": cov.comp_classes, "transform_simplifications": cov.simp_classes,
        "signed_permutations_constructed": cov.sperm_ok, "signed_permutations_rejected": cov.sperm_rejected,
        "involute": dict(inv_tot, traces=inv_shards,
                         named_deviation_facts={k: v["n"] for k, v in inv_devs.items()},
                         oracle=dict(oracle_tot, tolerances=inv_res[0].get("tolerances") if inv_shards else None)),
        "parts": sorted(parts),
        "oracle_decided": "involutes only: the crossing zones of every ray, the sense of the documented region, the "
                          "numerical gradient and the bracket-parity / negative-angle / swapped-angle scoping facts "
                          "come from tools/involute_oracle.py (independent implementation of the class "
                          "documentation); TLC decides every clause from them",
        "exhaustive": False,
        "enumeration": "every surface of every type over the small parameter ranges of vsurf.cc exhaustive_family "
                      "(quick: every 4th, general quadrics every 400th; thorough: all, general quadrics every 20th); "
                      "points/directions/transforms seeded samples of the lattice cube, the 26+12 directions, the 48 "
                      "signed permutations x translations, Pythagorean rotations (den 3, 5, 7, 13); EXHAUSTIVE: all "
                      "216 SignedPermutation sign/axis assignments, make_permutation and make_rotation for every "
                      "axis and quarter-turn count -8..8 / -6..9; seeded: matrices, transform pairs, involutes",
    })
    if parts != {"design", "quadric", "algebra", "involute"}:
        ctx.assumptions.append("RESTRICTED RUN (VERIF_C12_PARTS=%s): development / binding demonstration only"
                               % ",".join(sorted(parts)))
    ctx.assumptions += [
        "integer parameters, lattice points and integer directions: all values (and the dyadic tan^2 of cones) are "
        "exactly representable; directions and general-plane normals are normalised by the harness for the C++ API",
        "SurfaceState::on is passed exactly when calc_sense reports 'on' (the tracker's protocol); a start point "
        "exactly on the surface but flagged 'off' is outside the protocol (see contract edge in the report)",
        "reported distances reach TLC as rational enclosures of width <= 3/1024 lattice units (coarsened by the spec "
        "to stay in 32-bit integers), normals as 2^-14 fixed-point quanta: residual brackets, decided by TLC",
        "where rounding makes a degenerate case undecidable (tangent rays; rays exactly parallel to a general plane "
        "with a rounded normal; senses exactly on a surface whose stored parameters are rounded) the spec is "
        "permissive as documented in SurfacesTrace.tla",
        "involutes are ORACLE-DECIDED (tools/involute_oracle.py): tolerances 1e-7 rb on-surface (10 x the solver's "
        "documented 1e-8 rb), sense abstains within 1e-6 rb of a boundary of the region, crossings within 1e-6 of tmin / "
        "tmax, shallow contacts (zone wider than 1e-5 rb, sin < 0.02), nearly tangent pairs inside one zone and "
        "crossings between 0.5e-6 and 2e-6 rb from an on-surface start are optional; calc_normal is only specified on "
        "the surface; the accuracy of QuadraticSolver under cancellation is not covered",
        "matrix / transform algebra: integer, quarter-turn and Pythagorean inputs only (exact or within 1e-9); "
        "TransformSimplifier with relative tolerance 1e-3; SignedPermutation is not a member of VariantTransform in "
        "this code base and Transformation(SignedPermutation) is declared but not defined: neither is exercised",
        "SurfaceSimplifier tolerance 1e-10 through the repository's RecursiveSimplifier",
    ]
