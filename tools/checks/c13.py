"""C13 RNG skip-ahead equals sequential generation and streams never overlap.

spec/Xorwow.tla is the GF(2) specification (step T, characteristic polynomial P, z^n mod P,
the table laws).  (1) spec/XorwowMC.tla: TLC proves P(T) e_j = 0 for the 160 basis vectors
and the digit/zpow/table/Weyl/canonical lemmas (no code involved).  (2) harness/vrng.cc
drives the REAL XorwowRngParams / XorwowRngEngine / Initializer / reseed_rng /
GenerateCanonical code; spec/XorwowTrace.tla recomputes every logged record: all 64 table
entries individually, discard(n) from every basis state for every single-digit count
d*4^i, random states and counts, n draws vs discard(n), subsequence initialisation,
reseeding per (event, slot), canonical reals bit-exactly.
"""
import json
import os
import re
import subprocess
import sys

import vlib

LEVEL = "model_checking"

KINDS = ["Table", "Jump", "Seq", "Sub", "Reseed", "Canon", "CanonEng", "CanonF", "CanonFEng"]
FLOAT_TAGS = {"deviation": "CanonFOne"}


def _summary(r):
    m = re.search(r'<<\s*"SUMMARY",(.*?)>>', r.out, re.S)
    if not m:
        return None
    toks = [t.strip().strip('"') for t in m.group(1).replace("\n", " ").split(",")]
    return {toks[i]: int(toks[i + 1]) for i in range(0, len(toks) - 1, 2)}


def _rejected(r):
    """The <<"REJECTED", line, record>> tuple printed by the trace spec, on one line."""
    m = re.search(r'<<\s*"REJECTED".*?(?=\n(?:Error|Finished|The |\d+ states|Model checking)|\Z)', r.out, re.S)
    txt = m.group(0) if m else r.out[-1500:]
    return re.sub(r"\s+", " ", txt)[:1800]


def _poly_crosscheck():
    """Berlekamp-Massey (tools/xorwow_poly.py) must reproduce the PLow constant of the spec."""
    r = subprocess.run([sys.executable, os.path.join(vlib.ROOT, "tools", "xorwow_poly.py"), "--json"],
                       stdout=subprocess.PIPE, stderr=subprocess.PIPE, text=True, timeout=120)
    if r.returncode != 0:
        raise vlib.Broken("xorwow_poly.py failed: " + r.stderr[-2000:] + r.stdout[-500:])
    info = json.loads(r.stdout)
    le = info["P_low_limbs16_le"]
    want = "PLow == <<" + ", ".join("<<%d, %d>>" % (le[2 * k + 1], le[2 * k]) for k in range(5)) + ">>"
    text = open(os.path.join(vlib.SPEC, "Xorwow.tla")).read()
    if want not in text:
        raise vlib.Broken("spec/Xorwow.tla PLow differs from Berlekamp-Massey result: expected " + want)
    return info


def _nontrivial(rec):
    e = rec["e"]
    if e == "Jump":
        return any(rec["n"])
    if e == "Seq":
        return rec["n"] > 0
    if e == "Sub":
        return any(rec["sub"]) or any(rec["off"])
    return True


def _basis_index(s):
    """j if state s (five [hi, lo] words) is the basis vector e_j, else None."""
    j = None
    for k, (hi, lo) in enumerate(s):
        v = (hi << 16) | lo
        if v == 0:
            continue
        if j is not None or v & (v - 1):
            return None
        j = 32 * k + v.bit_length() - 1
    return j


def _single_digit(n):
    """(i, d) if the count (four limbs, msb first) is d * 4^i with d in 1..3, else None."""
    v = (n[0] << 48) | (n[1] << 32) | (n[2] << 16) | n[3]
    if v == 0:
        return None
    i = (v.bit_length() - 1) // 2
    d = v >> (2 * i)
    return (i, d) if v == d << (2 * i) and 1 <= d <= 3 else None


def run(ctx):
    vlib.build(["vrng"])
    q = ctx.quick
    poly = _poly_crosscheck()

    # ---- (1) design check: the algebra of the specification itself
    if q:
        consts = dict(NDigit=256, KMax=400, IterMax=6, WeylMax=300)
    else:
        consts = dict(NDigit=1024, KMax=1200, IterMax=7, WeylMax=3000)
    cfg = ctx.path("XorwowMC.cfg")
    with open(cfg, "w") as fh:
        fh.write("SPECIFICATION Spec\nCONSTANTS\n")
        for k, v in consts.items():
            fh.write("  %s = %d\n" % (k, v))
        fh.write("INVARIANT Holds\nCHECK_DEADLOCK FALSE\n")
    mc = vlib.tlc("XorwowMC", cfg, workers=min(12, vlib.NCPU), timeout=1500, heap="6g", expect_ok=True)
    if mc.code != 0:
        ctx.violation("design check XorwowMC failed (the specification's own algebra):\n" + mc.out[-2500:],
                      tags={"stage": "design"})
        ctx.coverage.update({"states": mc.distinct, "transitions": mc.generated,
                             "traces_validated_against_impl": 0, "samples": ["design check failed"]})
        return
    vlib.log("XorwowMC: %d states, %d transitions, %.1fs" % (mc.distinct, mc.generated, mc.wall))

    # ---- (2) the real code
    if q:
        args = [1, 1500, 100, 300, 1000, 2]
        nshards = 12
    else:
        args = [1, 40000, 1500, 8000, 20000, 20]
        nshards = 15
    allp = ctx.path("all.ndjson")
    vlib.run_harness("vrng", [allp, ctx.seed % (1 << 32)] + args, timeout=1200)
    lines = [ln for ln in open(allp) if ln.strip()]
    recs = [json.loads(ln) for ln in lines]

    # coverage accounting (python only counts; every judgement is TLC's)
    by_kind = {k: 0 for k in KINDS}
    distinct = set()
    tables = set()
    basis_cross = set()
    basis_seen = set()
    samples = {}
    for ln, r in zip(lines, recs):
        by_kind[r["e"]] = by_kind.get(r["e"], 0) + 1
        if _nontrivial(r):
            distinct.add(hash(ln))
        if r["e"] == "Table":
            tables.add((r["which"], r["i"]))
        elif r["e"] == "Jump":
            j = _basis_index(r["s"])
            if j is not None:
                basis_seen.add(j)
                sd = _single_digit(r["n"])
                if sd:
                    basis_cross.add((j,) + sd)
        if r["e"] not in samples or _nontrivial(r):      # keep the last non-trivial record of each kind
            samples[r["e"]] = r
    if len(tables) != 64:
        raise vlib.Broken("harness dumped %d table entries, expected 64" % len(tables))

    # round-robin shards (expensive and cheap records mix), validated in parallel
    shard_paths = []
    for k in range(nshards):
        p = ctx.path("shard%02d.ndjson" % k)
        with open(p, "w") as fh:
            fh.writelines(lines[k::nshards])
        shard_paths.append(p)
    jobs = [dict(module="XorwowTrace", cfg="XorwowTrace", workers=1, env={"TRACE": p}, timeout=3000, heap="2g")
            for p in shard_paths]
    results = vlib.tlc_parallel(jobs, maxpar=min(nshards, max(2, vlib.NCPU - 1)))
    totals = {k: 0 for k in KINDS}
    devs = 0
    accepted = 0
    trace_states = 0
    rejected = {}      # record kind -> (info, [shard paths])
    for p, r in zip(shard_paths, results):
        if r.code != 0:
            if "REJECTED" in r.out or r.violated:
                info = _rejected(r)
                m = re.search(r'e \|-> "(\w+)"', info)
                kind = m.group(1) if m else "?"
                rejected.setdefault(kind, (info, []))[1].append(p)
                continue
            raise vlib.Broken("TLC failed on %s: exit %d\n%s" % (p, r.code, r.out[-3000:]))
        s = _summary(r)
        if s is None:
            raise vlib.Broken("no SUMMARY from TLC on %s\n%s" % (p, r.out[-2000:]))
        accepted += 1
        trace_states += r.distinct
        for k in KINDS:
            totals[k] += s.get(k, 0)
        devs += s.get("deviations", 0)
    # one violation per kind of rejected record (the first rejected record of each kind is shown)
    for kind in sorted(rejected, key=lambda k: (KINDS + ["?"]).index(k) if k in KINDS else 99):
        info, paths = rejected[kind]
        ctx.violation("the real xorwow code disagrees with spec/Xorwow.tla on a %s record (first rejection in %d of %d "
                      "trace shards: %s); record (line number within the shard, then the record):\n%s"
                      % (kind, len(paths), nshards, " ".join(os.path.basename(x) for x in paths), info),
                      tags={"record": kind}, files=paths[:2])
    validated = sum(totals.values())
    if not ctx.violations and validated != len(recs):
        raise vlib.Broken("TLC validated %d records, harness wrote %d" % (validated, len(recs)))
    if not ctx.violations and totals["Table"] != 64:
        raise vlib.Broken("TLC validated %d table entries, expected 64" % totals["Table"])

    if devs:
        what = ("%d single-precision canonical samples equal exactly 1.0f: GenerateCanonical32<float> returns "
                "2^-32 * float(word) and float(word) rounds up to 2^32 for the 128 words >= 0xffffff80 "
                "(named deviation CanonFOne; double precision is unaffected)" % devs)
        # listed in known_findings.json -> KNOWN-FINDING; otherwise a VIOLATION
        ctx.violation(what, tags=FLOAT_TAGS, files=[])

    ctx.coverage.update({
        "states": mc.distinct, "transitions": mc.generated,
        "design_check": {"constants": consts, "wall_s": round(mc.wall, 1),
                         "facts": "160 x P(T)e_j=0; 64 table laws on 4 states; digit lemma n < NDigit on 4 states; "
                                  "z^k for k <= KMax; algebra; Weyl; injectivity; canonical extremes"},
        "traces_validated_against_impl": accepted,
        "trace_states": trace_states,
        "records": len(recs), "records_by_kind": by_kind, "records_validated_by_kind": totals,
        "evaluations": validated,
        "distinct_nontrivial": len(distinct),
        "rule": "one record per call of the real code (table entry read, discard, n draws, Initializer, reseed slot, "
                "canonical sample), each recomputed by TLC from spec/Xorwow.tla; distinct = distinct ndjson lines; "
                "non-trivial = not a zero-length skip (Jump n=0, Seq n=0, Sub with subsequence=offset=0). "
                "Exhaustive part: all 64 table entries; all 160 basis states x all 96 single-digit counts d*4^i "
                "(d in 1..3, i in 0..31) through discard(); by linearity of discard in the state this fixes the "
                "action of every table entry as used by the real loop on every state",
        "exhaustive": len(tables) == 64 and len(basis_cross) == 160 * 96 and not ctx.violations,
        "exhaustive_bounds": {"table_entries": len(tables), "basis_states": len(basis_seen),
                              "basis_x_single_digit_counts": len(basis_cross)},
        "named_deviation_hits": devs,
        "named_deviation_registered": ctx.match_known(FLOAT_TAGS) is not None,
        "charpoly": {"P_hex": poly["P_hex"], "degree": poly["degree"],
                     "annihilates_basis_python": poly["annihilates_basis"]},
        "samples": [samples[k] for k in KINDS if k in samples],
    })
    ctx.assumptions += [
        "period 2^160-1 of the xorshift part (Marsaglia 2003) is trusted; it is what turns 'distinct subsequence "
        "indices' into 'disjoint segments' (tools/xorwow_poly.py additionally confirms that P is primitive, "
        "outside TLC)",
        "event * slots + slot < 2^64 (no wrap-around) and offsets used within one subsequence stay below 2^67",
        "SplitMix64 seeding of the Initializer and the mt19937 state initializer are not modelled: the seed state "
        "is read back from the real code (same seed, subsequence 0, offset 0)",
        "the characteristic polynomial constant in spec/Xorwow.tla is not trusted: TLC checks P(T)e_j = 0 for all "
        "160 basis vectors on every run and Berlekamp-Massey re-derives it",
        "TLC, the Bitwise community module (xor), nlohmann json and the 16-bit limb encoding in harness/vjson.hh",
        "host build with real_type = double; the device (CUDA/HIP) instantiation of the same headers is not executed",
    ]
