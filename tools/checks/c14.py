"""C14 Physics table lookups, continuous loss and MSC path conversions are consistent.

spec/Grid.tla states, per calculator and per query class of the ORDERED ABSTRACT DOMAIN induced
by a grid (below | at(k) up(k) in(k) dn(k+1) ... | atlast | above), the relation the returned
value must satisfy with the table -- order comparisons on ranks only; tolerance brackets and
oracle-decided extrapolation references are extra ranked values inserted by the harness.
  1. spec/GridMC.tla (design check): TLC enumerates calculator x grid size 2..6 x every
     prime_index position x every class (one state per abstract test, printed), checks that the
     classes partition an integer model of the line in order, that the class bins agree with
     Algorithms!GridBin, and that the documented interpolant satisfies the relations exactly.
  2. harness/vgrid.cc concretises every abstract case on many numeric realisations through the
     real calculators / builders, calc_mean_energy_loss on a real PhysicsTrackView, and
     MscStepToGeo / MscStepFromGeo with a real UrbanMscHelper.
  3. spec/GridTrace.tla validates every record (parallel TLC shards).
Named deviations (counted by the spec, scoped, never hidden) are matched against
known_findings.json; a deviation that is hit without an entry there is a VIOLATION.
"""
import json
import os
import re

import vlib

LEVEL = "exploration"

_CASE = re.compile(r'<<\s*"CASE",\s*"(\w+)",\s*(-?\d+),\s*(-?\d+),\s*"(\w+)",\s*(-?\d+),\s*\{([^}]*)\}\s*>>', re.S)
_KV = re.compile(r"(\w+) \|-> (\d+)")

# deviation counter in the SUMMARY -> (tag, proposed finding id, text)
DEVIATIONS = {
    "dev_negative_near_knot": (
        "NegativeNearKnot", "F-XS-1",
        "XsCalculator returns a (tiny) NEGATIVE cross section for energies within ~100 ulp of a knot whose "
        "tabulated value is zero: the neighbouring bin's line is evaluated beyond its end point (bin edges are "
        "decided on log(E), cf. F-GRID-1) or the fma rounds below zero. Scoped by Grid!NegativeNearKnot: query "
        "within 128 ulp of the knot, value inside that knot's tolerance bracket; any other negative value is a "
        "VIOLATION."),
    "dev_read_past_end": (
        "ReadPastEnd", "F-GRID-1a",
        "consequence of F-GRID-1: for energies within a few ulp of the LAST knot UniformGrid::find(log E) returns "
        "size-1 and XsCalculator / RangeCalculator interpolate towards value[size], one element past the table "
        "(CELER_ASSERT(idx + 1 < size) is compiled out): the result depends on foreign data (an all-zero table "
        "returns non-zero, even negative, values). Scoped by Grid!ReadPastEnd: the real find() returned the last "
        "index and the query is within 128 ulp of the last knot."),
    "dev_loss_switch_drop": (
        "LossSwitchDrop", "F-LOSS-1",
        "calc_mean_energy_loss is not monotone in the step across the hand-over from the linear regime "
        "(step*dE/dx < linear_loss_limit*E) to the range regime: the loss DROPS when dE/dx grows with E, when the "
        "tables are coarse, or below the lowest tabulated energy (dE/dx is clamped while the range scales with "
        "sqrt(E)). Scoped by Grid!LossSwitchDrop: shorter step in the linear regime, longer step in the range "
        "regime; any other decrease beyond 32 eps E is a VIOLATION."),
    "dev_loss_negative_rounding": (
        "LossNegativeRounding", "F-LOSS-2",
        "with linear_loss_limit ~ 0 a very short step is handled by the range regime and E - E(range - step) is "
        "NEGATIVE by the round-trip error of inverse(range(E)) (observed -1.8e-15 E). Scoped by "
        "Grid!LossNegativeRounding: range regime, -1024 eps E <= loss < 0."),
}


def _summary(r):
    m = re.search(r'<<"SUMMARY", \[(.*?)\]>>', r.out, re.S)
    return {k: int(v) for k, v in _KV.findall(m.group(1))} if m else {}


def _fail_info(r):
    m = re.search(r'<<\s*"FAIL".*?(?=<<\s*"REJECTED")', r.out, re.S)
    txt = m.group(0) if m else vlib.rejected_info(r)
    return txt[:2500]


def run(ctx):
    # C14_NO_BUILD=1: mutation experiments on inline header code only, where the harness object was
    # rebuilt by hand in the scratch build tree (a full dependent rebuild of libceleritas is not needed)
    if not os.environ.get("C14_NO_BUILD"):
        vlib.build(["vgrid"])
    q = ctx.quick
    seed = ctx.seed % 1000000007

    # ---- 1. design check ------------------------------------------------------------
    mc = vlib.tlc("GridMC", "GridMC" if q else "GridMC_thorough", workers=1, timeout=1800, heap="2g")
    if mc.code != 0:
        if mc.violated:
            ctx.violation("design check GridMC failed: %s\n%s" % (mc.violated_names(), mc.out[-2500:]),
                          tags={"design": "GridMC"})
        else:
            raise vlib.Broken("GridMC failed to run (exit %d):\n%s" % (mc.code, mc.out[-3000:]))
    abstract = {}
    for m in _CASE.finditer(mc.out):
        calc, n, p, c, k, rel = m.groups()
        abstract[(calc, int(n), int(p), c, int(k))] = sorted(re.findall(r'"(\w+)"', rel))
    if mc.code == 0 and len(abstract) != mc.distinct:
        raise vlib.Broken("parsed %d abstract cases but TLC reports %d states" % (len(abstract), mc.distinct))

    # ---- 2. harness --------------------------------------------------------------------
    jobs = []  # (name, args)
    if q:
        for i in range(3):
            jobs.append(("tab%d" % i, ["tables", seed + i, 1, 2, 6]))
        jobs.append(("tabL", ["tables", seed + 50, 1, 7, 9]))
        # decade-aligned builder sweep (E' on every grid point incl. exactly 1 MeV): stratified
        for i in range(2):
            jobs.append(("sweep%d" % i, ["sweep", seed, 0, i, 2]))
        jobs.append(("loss", ["loss", seed, 4]))
        jobs.append(("msc", ["msc", seed, 2]))
    else:
        for i in range(16):
            jobs.append(("tab%d" % i, ["tables", seed + i, 2, 2, 6]))
        for i in range(6):
            jobs.append(("tabL%d" % i, ["tables", seed + 50 + i, 1, 7, 12]))
        for i in range(3):
            jobs.append(("tabXL%d" % i, ["tables", seed + 80 + i, 1, 30 + 25 * i, 30 + 25 * i]))
        for i in range(8):
            jobs.append(("sweep%d" % i, ["sweep", seed, 1, i, 8]))      # the full sweep (~43700 (grid, E'))
        for i in range(4):
            jobs.append(("loss%d" % i, ["loss", seed + i, 16]))
        for i in range(4):
            jobs.append(("msc%d" % i, ["msc", seed + i, 8]))
    tj = []
    for name, args in jobs:
        out = ctx.path(name + ".ndjson")
        vlib.run_harness("vgrid", args + [out], timeout=900)
        tj.append(dict(module="GridTrace", cfg="GridTrace", workers=1, env={"TRACE": out}, timeout=3000, heap="3g"))

    # which abstract cases were concretised, and how many distinct (realisation, class, k)
    covered = set()
    distinct = set()
    per_real = {}
    samples = []
    records = 0
    for name, args in jobs:
        with open(ctx.path(name + ".ndjson")) as fh:
            for ln, line in enumerate(fh):
                rec = json.loads(line)
                records += 1
                if rec["e"] == "Table":
                    per_real[rec["calc"] + "/" + rec["real"]] = per_real.get(rec["calc"] + "/" + rec["real"], 0) + 1
                    for qq in rec["qs"]:
                        covered.add((rec["calc"], rec["n"], rec["p"], qq["c"], qq["k"]))
                        distinct.add((rec["calc"], name, ln, qq["c"], qq["k"]))
                    if ln % 97 == 5 and len(samples) < 4:
                        qq = rec["qs"][len(rec["qs"]) // 2]
                        samples.append({"e": "Table", "calc": rec["calc"], "real": rec["real"], "n": rec["n"],
                                        "p": rec["p"], "xk": rec["xk"], "yk": rec["yk"], "ylo": rec["ylo"],
                                        "yhi": rec["yhi"], "one_query_of": len(rec["qs"]), "query": qq})
                elif rec["e"] == "Loss":
                    distinct.add(("loss", name, ln))
                    if ln == 3:
                        samples.append({k: (v[:6] if k == "steps" else v) for k, v in rec.items()})
                elif rec["e"] == "Msc":
                    distinct.add(("msc", name, ln))
                    if ln == 3:
                        samples.append(rec)
    missing = sorted(set(abstract) - covered)
    if abstract and missing:
        raise vlib.Broken("abstract test cases of GridMC not concretised by vgrid: %s ..." % (missing[:8],))

    # ---- 3. trace validation ---------------------------------------------------------
    results = vlib.tlc_parallel(tj, maxpar=8)
    tot = {}
    for (name, args), r in zip(jobs, results):
        path = ctx.path(name + ".ndjson")
        if r.code != 0:
            if "REJECTED" in r.out or r.violated:
                ctx.violation("trace %s (vgrid %s) rejected by GridTrace:\n%s"
                              % (name, " ".join(map(str, args)), _fail_info(r)),
                              tags={"trace": name}, files=[path])
                continue
            raise vlib.Broken("TLC failed on %s: exit %d\n%s" % (name, r.code, r.out[-3000:]))
        s = _summary(r)
        if not s:
            raise vlib.Broken("no SUMMARY in TLC output for %s:\n%s" % (name, r.out[-2000:]))
        for k, v in s.items():
            tot[k] = tot.get(k, 0) + v

    proposed = {}
    for key, (tag, fid, text) in DEVIATIONS.items():
        n = tot.get(key, 0)
        if not n:
            continue
        # listed in known_findings.json -> KNOWN-FINDING; not listed -> VIOLATION (never silently passed)
        ctx.violation("%d hits of named deviation %s (%s): %s" % (n, tag, fid, text), tags={"deviation": tag})

    uncovered = [
        "device (CUDA/HIP) execution of the calculators: host only",
        "SplineXsCalculator / TwodGridCalculator / PolyEvaluator-based on-the-fly cross sections: not part of C14's anchors",
        "UrbanMscParams built from imported Geant4 data: the Urban tables are hand-built (UrbanMscData filled "
        "directly with power-law mean free paths); MscStepToGeo/FromGeo and UrbanMscHelper are the real ones",
        "calc_mean_energy_loss: reads past the end / negative values inside PhysicsParams' own storage are not "
        "instrumented (no padding possible there)",
        "float build (CELERITAS_REAL_TYPE=float): tolerance table is stated for double",
    ]
    ctx.coverage.update({
        "evaluations": tot.get("clauses", 0),
        "distinct_nontrivial": len(distinct),
        "rule": "evaluations = relation clauses evaluated by TLC on records of the real code (one per (query, clause), "
                "per round trip, per loss sample, per MSC conversion); distinct_nontrivial = distinct (calculator, "
                "numeric table realisation, class, k) tuples + distinct loss sweeps + distinct MSC cases, measured on "
                "the traces; tables are seeded (random / zeros / steep / smooth values on random log grids, every "
                "prime_index position, ValueGridXsBuilder ctor / from_geant / from_scaled (plus a sweep over decade-aligned "
                "grids 10^-6..10^0 -> 10^0..10^8, 1-20 bins/decade, E' on every grid point incl. exactly 1 MeV, queried "
                "around the prime index; expected prime index derived by the spec from the knots and E'), ValueGridLogBuilder "
                "from_geant / from_range, GenericGridBuilder incl. inverses); ulp classes via nextafter",
        "samples": samples,
        "states": mc.distinct, "transitions": mc.generated,
        "abstract_cases": len(abstract), "abstract_cases_concretised": len(set(abstract) & covered),
        "traces_validated_against_impl": len(jobs), "records": records,
        "per_calculator_queries": {k: tot.get(k, 0) for k in ("xs", "eloss", "range", "invrange", "generic")},
        "tables": tot.get("tables", 0), "queries": tot.get("queries", 0), "roundtrips": tot.get("roundtrips", 0),
        "loss_sweeps": tot.get("loss", 0), "loss_samples": tot.get("loss_steps", 0),
        "msc_cases": tot.get("msc", 0), "msc_partial_conversions": tot.get("msc_partial", 0),
        "tables_per_realisation": per_real,
        "named_deviation_hits": {DEVIATIONS[k][0]: tot.get(k, 0) for k in DEVIATIONS},
        "informational": {"strict_monotonicity_breaks_near_knots": tot.get("mono_ulp_breaks", 0),
                          "queries_sent_to_last_bin_by_real_find": tot.get("read_past_end", 0)},
        "proposed_findings": proposed,
        "uncovered": uncovered,
        "exhaustive": False,
    })
    ctx.assumptions += [
        "doubles reach TLC as dense ranks within one record (order preserving, ties preserved)",
        "tolerance table (C_VAL=4, C_POS=128, C_EXT=64, C_CMP=16, C_LOSS=32, C_NEG=1024 in units of eps/ulp) in "
        "spec/Grid.tla and harness/vgrid.cc is part of the trusted base",
        "oracle-decided: extrapolation references value_end/E, r0*sqrt(E/E0), E0*(r/r0)^2 and the round-trip "
        "bracket are computed by the harness with plain arithmetic from the documented formulas",
        "y_k = stored value / E_k for k >= prime_index (documented meaning of XsGridData.value) is computed by the harness",
        "knot energies are exp(front + k*delta), exactly as the calculators compute them",
        "storage is padded with one extra real after each hand-made table so that the read past the end "
        "(F-GRID-1a) is defined and deterministic",
        "Urban MSC data are hand-built (power-law mean free path, optional jump above 10 MeV); e-/e+ ionisation "
        "tables are seeded stopping-power profiles with the range = trapezoid integral of 1/dEdx",
    ]
