"""C15 Random samplers respect their support and target distributions.

spec/Sampler.tla holds (1) the exact reference semantics on dyadic canonical uniforms of the
exactly specifiable samplers (Selector, Bernoulli, RejectionSampler, UniformReal/UniformBox,
Delta, cos(theta) of Isotropic), the monotonicity direction of the inverse-CDF samplers and the
Box-Muller spare-value state machine of NormalDistribution, (2) support predicates on ranks,
(3) draw bounds, (4) the integer goodness-of-fit acceptance.

 (a) spec/SamplerMC.tla  design check (no code): algebra of the reference semantics over all
     dyadic uniforms, the normal machine over every op sequence <= 5; emits the abstract scripts.
     SamplerMC_mut.cfg (spare not reset) must violate NoSpareReuse (vacuity guard).
 (b) harness/vsample.cc script: every TLC script is run through the REAL samplers with a scripted
     engine; spec/SamplerTrace.tla validates every record exactly.
 (c) tools/sampler_oracle.py (scipy; ORACLE-DECIDED: reference CDFs, bin edges, expected counts,
     critical values at p = 1e-9, draw caps) -> harness/vsample.cc seeded (real xorwow) ->
     SamplerTrace validates support / draws / integer chi-square per histogram.
"""
import json
import os
import re
import subprocess

import vlib

LEVEL = "exploration"
VT_PY = "/opt/veriftools/pyvenv/bin/python"
DEVIATIONS = {
    "PoissonGaussNegative": "F-SAMP-1 PoissonDistribution (lambda > 16) converts a negative Gaussian deviate to unsigned",
    "UniformUpperClosed": "F-SAMP-2 UniformReal/UniformBox return exactly b (documented [a, b)) for u = 1 - 2^-53",
    "LogZeroUniform": "F-SAMP-3 a canonical uniform exactly 0 gives +inf (exponential) / inf, NaN (normal)",
}


def _summary(r):
    m = re.search(r'<<"SUMMARY", "(.*)">>', r.out)
    if not m:
        return None
    return json.loads(m.group(1).replace('\\"', '"'))


def _design_check(ctx):
    scripts = ctx.path("scripts_raw.ndjson")
    r = vlib.tlc("SamplerMC", "SamplerMC", workers=min(8, vlib.NCPU), env={"OUT": scripts}, timeout=1500,
                 heap="4g")
    if r.code != 0:
        if r.violated:
            ctx.violation("design check SamplerMC failed: %s\n%s" % (r.violated_names(), r.out[-2500:]),
                          tags={"design": "SamplerMC"})
            return None, r
        raise vlib.Broken("TLC failed on SamplerMC (exit %d):\n%s" % (r.code, r.out[-3000:]))
    if not os.path.exists(scripts):
        raise vlib.Broken("SamplerMC did not emit scripts")
    m = vlib.tlc("SamplerMC", "SamplerMC_mut", workers=1, timeout=600, heap="2g")
    if not (m.violated and "NoSpareReuse" in m.violated_names()):
        raise vlib.Broken("vacuity guard: SamplerMC_mut.cfg (spare not reset on use) must violate NoSpareReuse; "
                          "exit %d\n%s" % (m.code, m.out[-1500:]))
    out = ctx.path("scripts.ndjson")
    n = 0
    with open(scripts) as fi, open(out, "w") as fo:
        for line in fi:
            line = line.strip()
            if not line:
                continue
            d = json.loads(line)
            n += 1
            d["id"] = n
            fo.write(json.dumps(d, separators=(",", ":")) + "\n")
    return out, r


def _report(ctx, name, r, files, label_of=None):
    """Common handling of a SamplerTrace result: rejection, clauses, deviations.  Returns summary."""
    if r.code != 0:
        if "REJECTED" in r.out or r.violated:
            ctx.violation("trace %s is not a behaviour of SamplerTrace:\n%s" % (name, vlib.rejected_info(r)),
                          tags={"structural": "rejected", "trace": name}, files=files)
            return None
        raise vlib.Broken("TLC failed on trace %s (exit %d):\n%s" % (name, r.code, r.out[-3000:]))
    s = _summary(r)
    if s is None:
        raise vlib.Broken("no SUMMARY from SamplerTrace on %s:\n%s" % (name, r.out[-2000:]))
    byclause = {}
    for clause, line, what in s["viol"]:
        byclause.setdefault(clause, []).append((line, what))
    for clause, hits in sorted(byclause.items()):
        if clause.startswith("C15.Harness."):
            raise vlib.Broken("oracle/harness precondition %s failed at %s" % (clause, hits[:5]))
        desc = "%s: clause %s violated by %d record(s); first: %s" % (
            name, clause, len(hits), ", ".join("record %d (%s)" % h for h in hits[:6]))
        if label_of:
            desc += "\n" + "\n".join(label_of(h[0]) for h in hits[:3])
        ctx.violation(desc, tags={"clause": clause, "trace": name}, files=files)
    bydev = {}
    for devname, line, what in s["dev"]:
        bydev.setdefault(devname, []).append((line, what))
    for devname, hits in sorted(bydev.items()):
        ctx.violation("%s: %s -- %d record(s): %s" % (
            name, DEVIATIONS.get(devname, devname), len(hits), ", ".join("record %d (%s)" % h for h in hits[:8])),
            tags={"deviation": devname}, files=files)
    s["dev_counts"] = {k: len(v) for k, v in bydev.items()}
    return s


def run(ctx):
    vlib.build(["vsample"])
    q = ctx.quick
    n_per_point, bins = (100000, 50) if q else (1000000, 100)

    # ---- (c, first part) oracle: points, edges, expected counts, critical values (scipy)
    points = ctx.path("points.json")
    orc = subprocess.Popen([VT_PY, os.path.join(vlib.ROOT, "tools", "sampler_oracle.py"), str(n_per_point),
                            str(bins), points, str(ctx.seed)], stdout=subprocess.PIPE, stderr=subprocess.PIPE,
                           text=True)

    # ---- (a) design check + script generation
    scripts, mc = _design_check(ctx)

    oout, oerr = orc.communicate(timeout=1200)
    if orc.returncode != 0:
        raise vlib.Broken("sampler_oracle.py failed:\n" + (oerr or oout)[-3000:])
    pdoc = json.load(open(points))

    # ---- (b) scripted engine on every TLC script, (c) seeded runs
    jobs, names, files = [], [], []
    if scripts:
        sout = ctx.path("script_out.ndjson")
        vlib.run_harness("vsample", ["script", scripts, sout], timeout=600)
        jobs.append(dict(module="SamplerTrace", cfg="SamplerTrace", workers=1,
                         env={"TRACE": sout, "SCRIPTS": scripts}, timeout=2400, heap="4g"))
        names.append("scripted")
        files.append([sout])
    hout = ctx.path("seeded_out.ndjson")
    vlib.run_harness("vsample", ["seeded", points, hout], timeout=3000)
    jobs.append(dict(module="SamplerTrace", cfg="SamplerTrace", workers=1,
                     env={"TRACE": hout, "SCRIPTS": ""}, timeout=1200, heap="4g"))
    names.append("seeded")
    files.append([hout, points])
    results = vlib.tlc_parallel(jobs, maxpar=2)

    seeded_recs = list(vlib.read_ndjson(hout))
    hist_recs = [r for r in seeded_recs if r.get("e") == "Hist"]
    eloss_recs = [r for r in seeded_recs if r.get("e") == "ELoss"]

    def hist_label(line):
        if 1 <= line <= len(seeded_recs) and seeded_recs[line - 1].get("e") in ("Hist", "ELoss"):
            r = seeded_recs[line - 1]
            p = pdoc["points"][r["id"] - 1]
            extra = (" model=%s mean-dev=%d se=%d (2^-20 of the mean)" % (r["model"], r["devq"], r["sigq"])
                     if r["e"] == "ELoss" else " huge=%d" % r["huge"])
            return "  %s p=%s n=%d seed=%d draws[min,max,cap]=[%d,%d,%d] nonfinite=%d%s" % (
                r["label"], p["p"], r["n"], pdoc["seed"], r["dmin"], r["dmax"], r["dcap"], r["nonfin"], extra)
        return ""

    # EnergyLossHelper sweep: every selection branch and Urban sub-branch must have been reached (non-vacuity)
    el_branches = set()
    for r in eloss_recs:
        u = r["urb"]
        b = r["model"]
        if b == "none":
            b += "-early" if r["early"] else "-emax"
        elif b == "urban":
            b += ("-exc" if (u["emax"] > u["I"] and u["w"] > u["w0"]) else "-noexc") + ("-fast" if u["nion"] > u["eight"] else "-slow")
        el_branches.add(b)
    need = {"none-early", "none-emax", "urban-exc-fast", "urban-exc-slow", "urban-noexc-fast", "urban-noexc-slow", "gaussian", "gamma"}
    if not need <= el_branches:
        raise vlib.Broken("EnergyLossHelper sweep no longer reaches %s" % sorted(need - el_branches))

    stats = {"scripts": 0, "evals": 0, "hists": 0, "histograms": 0, "samples": 0, "kdraws": 0}
    devs = {}
    for name, r, fl in zip(names, results, files):
        s = _report(ctx, name, r, fl, label_of=hist_label if name == "seeded" else None)
        if s is None:
            continue
        for k in stats:
            stats[k] += s["stat"].get(k, 0)
        for k, v in s["dev_counts"].items():
            devs[k] = devs.get(k, 0) + v
        if name == "scripted" and s["sid"] != sum(1 for _ in open(scripts)):
            raise vlib.Broken("scripted trace covers %d of the TLC scripts" % s["sid"])

    # ---- coverage (measured from the records)
    distinct = set()
    per = {}
    samples = []
    if scripts:
        seen_kind = set()
        for rec in vlib.read_ndjson(ctx.path("script_out.ndjson")):
            if rec.get("e") != "Script":
                continue
            sc = rec["sc"]
            key = ("script", sc["k"], json.dumps(sc["p"]), json.dumps(sc["w"]), json.dumps(sc["ops"]),
                   json.dumps(sc["us"]) if sc["k"] in ("iso", "box", "poisg", "poisd", "normz") else "")
            distinct.add(key)
            per["script:" + sc["k"]] = per.get("script:" + sc["k"], 0) + 1
            if sc["k"] not in seen_kind and sc["k"] in ("sel", "normal", "uni") and len(samples) < 3:
                if sc["k"] != "normal" or len(sc["ops"]) >= 4:
                    seen_kind.add(sc["k"])
                    samples.append(rec)
    for r in eloss_recs:
        for c in ("model", "support", "draws", "mean"):
            distinct.add(("seeded", r["dist"], r["label"], c))
        per["seeded:elhelper/" + r["model"]] = per.get("seeded:elhelper/" + r["model"], 0) + r["n"]
    for r in hist_recs:
        distinct.add(("seeded", r["dist"], r["label"], "support"))
        distinct.add(("seeded", r["dist"], r["label"], "draws"))
        for h in r["hists"]:
            distinct.add(("seeded", r["dist"], r["label"], "gof", h["c"]))
        per["seeded:" + r["dist"]] = per.get("seeded:" + r["dist"], 0) + r["n"]
        if r["dist"] in ("gamma", "poisson") and len(samples) < 6 and r["branch"] in ("alpha<1", "gauss"):
            if not any(isinstance(x, dict) and x.get("dist") == r["dist"] for x in samples):
                samples.append(r)
    ctx.coverage.update({
        "evaluations": stats["samples"] + stats["evals"],
        "distinct_nontrivial": len(distinct),
        "rule": "evaluations = samples drawn from the real samplers with the seeded xorwow engine + elementary "
                "scripted evaluations (one per scripted uniform / operation); distinct = distinct (scripted kind, "
                "parameters, operation sequence) tuples and distinct (distribution, parameter point, "
                "support|draws|gof-component) tuples, counted from the logged records; all are non-trivial "
                "(every tuple is a different sampler/parameter/branch)",
        "samples": samples,
        "states": mc.distinct if mc else 0, "transitions": mc.generated if mc else 0,
        "design_check": {"module": "SamplerMC", "distinct_states": mc.distinct if mc else 0,
                         "generated": mc.generated if mc else 0, "depth": mc.depth if mc else 0,
                         "mutant_cfg_violates": "NoSpareReuse"},
        "traces_validated_against_impl": len(jobs),
        "scripts": stats["scripts"], "scripted_evaluations": stats["evals"],
        "seeded_points": stats["hists"], "histograms": stats["histograms"], "seeded_samples": stats["samples"],
        "uniforms_drawn_thousands": stats["kdraws"],
        "per_distribution": per,
        "named_deviation_hits": devs,
        "gof": {"p_false_alarm_per_histogram": pdoc["p_false_alarm"], "bins": pdoc["bins"],
                "min_expected_per_bin": 50, "n_per_point": n_per_point},
        "oracle_decided": ["%s: %s" % (k, v) for k, v in sorted(pdoc["refs"].items())]
                          + ["critical values: scipy.stats.chi2.isf(1e-9, bins-1)",
                             "draw caps of rejection loops: from the analytic acceptance probability "
                             "(n (1-p)^M < 1e-12)",
                             "bin edges: equal-probability quantiles (scipy ppf / brentq on the closed-form CDF); "
                             "expected counts from CDF differences"],
        "exhaustive": False,
    })
    ctx.assumptions += [
        "the reference CDFs are scipy / closed forms written from the documented laws (oracle-decided; weakest binding)",
        "chi-square approximation of the multinomial at p = 1e-9 with expected counts >= 50 per bin",
        "scripted uniforms reach the samplers through detail::GenerateCanonical32 (the path used by XorwowRngEngine)",
        "doubles reach TLC as order-preserving ranks within one record; host double build only",
        "EnergyLossUrbanDistribution has no closed-form law: support, draw bound and the defining property E[loss] = requested mean "
        "(EnergyLossHelper sweep over every model-selection branch and Urban excitation on/off x slow/fast ionisation; bracket 6 standard errors + 1e-3 of the mean)",
        "NormalDistribution's copy constructor does not compile (mean_{other.mean}); copy construction is checked in the design model only",
    ]
