"""C16 Running out of secondary or initializer storage never corrupts or loses physics."""
import coreloop, vlib
LEVEL = "fault_enumeration"


def run(ctx):
    q = ctx.quick
    st, tr = coreloop.design(ctx, [("CoreLoopMC_cap1", 6), ("CoreLoopMC_cap2", 6)])
    cs = []
    n = 24 if q else 160
    for i in range(n):
        slots = [1, 2, 4, 8][i % 4]
        # secondary stack capacity = slots * factor: sweep from ample down to 2 (every capacity >= the largest
        # single reservation must complete); initializer capacity from 1 upward
        seccap = [2, 3, 4, 6, 12][i % 5]
        cs.append(dict(seed=ctx.seed + 4000 + i, slots=slots, events=3, prims=[1, 2, 3][i % 3], emax=[30, 300][i % 2],
                       dets=[0, 1][i % 2], fluct=0, scale=[5, 20, 50][i % 3], order=["none", "init_charge"][(i // 2) % 2],
                       inflight=0, maxsteps=30000, secfactor="%.4f" % ((seccap + 0.01) / slots),
                       initcap=[1, 2, 3, 5, 8, 4096][i % 6]))
    # primaries that overflow the initializer capacity at insertion (error before anything is staged), then a
    # state reset, then a VALID event on the same stepper -- in both orders (overflow first / valid first), and
    # with tracks of an earlier event still queued (inflight) when the overflowing insertion comes
    for i in range(6 if q else 24):
        big, small = [4, 6, 9][i % 3], [1, 2][i % 2]
        cs.append(dict(seed=ctx.seed + 4500 + i, slots=[2, 4, 16][i % 3], events=4, emax=30, dets=i % 2, fluct=0,
                       scale=[5, 20][i % 2], order=["none", "init_charge"][(i // 2) % 2], inflight=[0, 0, 2][i % 3],
                       maxsteps=30000, secfactor="3.0100", initcap=[3, 5, 8][i % 3],
                       prims=big if i % 2 == 0 else small, primsalt=small if i % 2 == 0 else big))
    # the known livelock: capacity below one interaction's reservation (F-CAP-1)
    cs.append(dict(seed=ctx.seed + 4999, slots=4, events=1, prims=3, emax=30, dets=0, fluct=0, scale=20, order="none",
                   inflight=0, maxsteps=3000, secfactor=0.26, initcap=4096))
    tot, outs = coreloop.validate(ctx, cs, ["C16.", "C01.", "C02."], nshards=8)
    # replay of design behaviours that hit the initializer capacity (errors at Gen and at End) on the real Stepper
    rtot, rsamples = coreloop.replay(ctx, [("replay_cap2", dict(NSlots=2, InitCap=2, Charge=False))], 40 if q else 600,
                                     ["C16.", "C01.", "C02."], per_cfg=200 if q else 3000)
    tot["replay"] = rtot
    tot["errors"] += rtot["errors"]
    ctx.coverage.update({"evaluations": tot["runs"], "distinct_nontrivial": tot["errors"] + tot["failures"],
                         "rule": "each run = one (secondary capacity, initializer capacity, slots, layout) fault configuration of the "
                                 "real stepping loop; distinct_nontrivial = number of faults actually hit (capacity errors raised + "
                                 "failed interactions), every one validated: failure clean, error justified and before any write, "
                                 "state reset restores, event ledgers and exactly-once still hold",
                         "samples": coreloop.sample_records(outs, kinds=("Post",)),
                         "states": st, "transitions": tr, "traces_validated_against_impl": tot["runs"], "impl_stats": tot})
    ctx.assumptions += ["out-of-bounds writes are inferred from the logical state (initializer count vs capacity, stack size vs capacity), not from memory instrumentation",
                        "design model enumerates every first-hit point of the initializer capacity for InitCap 1 and 2"]
