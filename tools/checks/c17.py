"""C17 User scoring receives exactly the steps that happened."""
import coreloop, vlib
LEVEL = "model_checking"


def run(ctx):
    q = ctx.quick
    st, tr = coreloop.design(ctx, [("CoreLoopMC_ledger2", 8)])
    cs = []
    for i in range(36 if q else 180):
        cs.append(dict(seed=ctx.seed + 5000 + i, slots=[1, 2, 5, 16, 64][i % 5], events=2 + i % 2, prims=3,
                       emax=[30, 300][i % 2], dets=i % 9, fluct=i % 2, scale=[1, 5, 20, 50][i % 4],
                       order=["none", "init_charge", "reindex_shuffle"][i % 3], inflight=[0, 2][i % 2], maxsteps=40000,
                       diag=1))
    tot, outs = coreloop.validate(ctx, cs, ["C17."], nshards=8)
    ctx.coverage.update({"states": st, "transitions": tr, "traces_validated_against_impl": tot["runs"],
                         "samples": coreloop.sample_records(outs, kinds=("Deliver",)) or coreloop.sample_records(outs),
                         "evaluations": tot["delivered"], "distinct_nontrivial": tot["steps"],
                         "rule": "evaluations = step records received by callbacks, each compared field by field (bit tokens) with the "
                                 "independently observed pre/post state; per callback the delivered set must equal the steps passing the "
                                 "collector's combined filter (6 callback/detector/nonzero configurations incl. SimpleCalo); "
                                 "distinct_nontrivial = true track steps observed; tallies (SimpleCalo, ActionDiagnostic, "
                                 "StepDiagnostic) compared with sums/counts over the observed steps at the end of every run",
                         "impl_stats": tot})
    ctx.assumptions += ["one StepCollector per problem (the library enforces a unique aux label); filters as declared by each callback's filters()",
                        "calorimeter totals compared in quanta with the summation-order rounding bound"]
