"""C18 Device-portable algorithms and grid lookups agree with reference semantics.

spec/Algorithms.tla is the reference; harness/valgo.cc runs the real templates on
(a) EVERY sequence over a small alphabet up to a length bound (TLC verifies the
enumeration is complete and in order), (b) seeded longer sequences, (c) integer/range/
indexer helpers over small ranges (hyperslab and ragged-right indexers, spans, exact bilinear
interpolation on 2-D grids with dyadic data, float helpers where the exact result is representable), (d) uniform / non-uniform grids with rank-abstracted
doubles at knots, +-1 ulp, and inside bins.  TLC validates every record (trace validation).
"""
import re, json, os
import vlib

LEVEL = "exploration"


def _summary(r):
    m = re.search(r'<<"SUMMARY", "cases", (\d+), "deviations", (\d+)>>', r.out)
    return (int(m.group(1)), int(m.group(2))) if m else (0, 0)


def run(ctx):
    vlib.build(["valgo"])
    q = ctx.quick
    jobs = []  # (name, args, exh, maxlen)
    if q:
        jobs.append(("seq4", ["seq", 5, 4], 1, 5))
        jobs.append(("seq3", ["seq", 6, 3], 1, 6))
        jobs.append(("rand", ["rand", ctx.seed, 300, 40, 6], 0, 0))
        jobs.append(("misc", ["misc"], 0, 0))
        jobs.append(("misc2", ["misc2", ctx.seed], 0, 0))
        jobs.append(("grid", ["grid", ctx.seed, 1500], 0, 0))
    else:
        jobs.append(("seq4", ["seq", 7, 4], 1, 7))
        jobs.append(("seq5", ["seq", 5, 5], 1, 5))
        jobs.append(("seq2", ["seq", 10, 2], 1, 10))
        for i in range(6):
            jobs.append(("rand%d" % i, ["rand", ctx.seed + i, 1500, 120, 8], 0, 0))
        jobs.append(("misc", ["misc"], 0, 0))
        for i in range(4):
            jobs.append(("misc2_%d" % i, ["misc2", ctx.seed + i], 0, 0))
        for i in range(6):
            jobs.append(("grid%d" % i, ["grid", ctx.seed + 100 + i, 5000], 0, 0))
    tj = []
    for name, args, exh, maxlen in jobs:
        out = ctx.path(name + ".ndjson")
        vlib.run_harness("valgo", args + [out], timeout=600)
        tj.append(dict(module="AlgorithmsTrace", cfg="AlgorithmsTrace", workers=1,
                       env={"TRACE": out, "EXH": exh, "MAXLEN": maxlen}, timeout=3000, heap="3g"))
    results = vlib.tlc_parallel(tj, maxpar=8)
    cases = devs = records = 0
    samples = []
    distinct = set()
    for (name, args, exh, maxlen), r in zip(jobs, results):
        path = ctx.path(name + ".ndjson")
        if r.code != 0:
            if "REJECTED" in r.out or r.violated:
                ctx.violation("trace %s (valgo %s) rejected by AlgorithmsTrace:\n%s"
                              % (name, " ".join(map(str, args)), vlib.rejected_info(r)),
                              tags={"trace": name}, files=[path])
                continue
            raise vlib.Broken("TLC failed on %s: exit %d\n%s" % (name, r.code, r.out[-3000:]))
        c, d = _summary(r)
        cases += c
        devs += d
        with open(path) as fh:
            for i, line in enumerate(fh):
                records += 1
                distinct.add(hash(line))
                if i == 7 and len(samples) < 6:
                    samples.append(json.loads(line))
        if d:
            ctx.violation("%d grid queries within 1 ulp of a knot are binned off by one (UniformGrid::find)" % d,
                          tags={"deviation": "GridUlpDeviation"}, files=[path])
    ctx.coverage.update({
        "evaluations": cases, "distinct_nontrivial": len(distinct),
        "rule": "records = one per input sequence / helper call / grid; exhaustive part: every sequence over the "
                "alphabet up to the length bound, enumeration order and completeness verified by TLC (NextSeq); "
                "distinct = distinct ndjson records; cases = elementary post-conditions evaluated by TLC",
        "samples": samples, "exhaustive": True, "traces_validated_against_impl": len(jobs),
        "records": records, "named_deviation_hits": devs,
        "exhaustive_bounds": [[a[1], a[2]] for n, a, e, m in jobs if e],
    })
    ctx.assumptions += ["std::sort is used only to prepare sorted inputs for the searches (and TLC re-checks sortedness)",
                        "doubles reach TLC as dense ranks within one grid record (order-preserving)",
                        "reference semantics = spec/Algorithms.tla"]
