"""C19 Geometry input survives a JSON round trip unchanged.

For every bundled .org.json fixture and every OrangeInput built by the C09 scene generator through
the construction API, harness/vbuild.cc `roundtrip` projects the OrangeInput structs with an
INDEPENDENT projector (it never calls the repository's to_json) before `operator<<` and after
`operator>>`, and traces the same seeded rays on the OrangeParams built from both.  TLC
(spec/RoundTripTrace.tla over spec/RoundTrip.tla) compares field by field -- doubles as bit
patterns -- and ray by ray, naming the field / ray of a disagreement.
Named deviation: InvoluteReadUnimplemented (finding F-JSON-1) -- input with an involute surface
is not handed to the reader (it would reach CELER_ASSERT_UNREACHABLE); counted, never hidden.
"""
import concurrent.futures as cf
import glob
import json
import os
import re

import solids
import vlib

LEVEL = "translation_validation"


def run(ctx):
    vlib.build(["vbuild"])
    q = ctx.quick
    fixtures = sorted(glob.glob(os.path.join(vlib.REPO, "test/orange/data/*.org.json"))
                      + glob.glob(os.path.join(vlib.REPO, "test/geocel/data/*.org.json")))
    if q:
        scenes = solids.make_scenes(ctx.seed + 19, 24, 3, 3, grid_n=3)
        nshard, nrays = 2, 60
    else:
        scenes = solids.make_scenes(ctx.seed + 19, 800, 100, 100, grid_n=3)
        nshard, nrays = 10, 40
    # non-default tolerances whose relative and absolute members DIFFER (length scale != 1), on a third of the inputs
    for i, sc in enumerate(scenes):
        if i % 3 == 1:
            sc["length"] = [2, 0.5, 10][(i // 3) % 3]
    inv = solids.involute_scene(len(scenes))
    inv["id"] = len(scenes)
    scenes.append(inv)
    by_name = {"scene%d" % s["id"]: s for s in scenes}
    # hand-constructed inputs with rectangular arrays (zero-offset cell at every flattened index, nested, random)
    arrays = solids.array_inputs(ctx.seed)
    if not q:
        for k in (1, 2):
            more = solids.array_inputs(ctx.seed + k)
            for a in more:
                a["name"] = "s%d_%s" % (k, a["name"])
            arrays += more
    for i, a in enumerate(arrays):
        if i % 4 == 2:
            a["tol"] = [[1e-6, 3e-6], [1e-7, 2.5e-8], [1e-5, 1e-4]][(i // 4) % 3]        # [rel, abs]
    by_name.update({a["name"]: a for a in arrays})

    shards = [scenes[i::nshard] + arrays[i::nshard] for i in range(nshard)]

    def harness(i):
        sp = ctx.path("scenes_%d.ndjson" % i)
        vlib.write_ndjson(sp, shards[i])
        fp = ctx.path("fixtures_%d.txt" % i)
        with open(fp, "w") as fh:
            fh.write("".join(f + "\n" for f in (fixtures if i == 0 else [])))
        out = ctx.path("rt_%d.ndjson" % i)
        r = vlib.run_harness("vbuild", ["roundtrip", sp, fp, out, nrays, ctx.seed], timeout=1800,
                             env={"CELER_LOG": "critical", "CELER_LOG_LOCAL": "critical"}, check=False)
        return sp, out, r

    with cf.ThreadPoolExecutor(max_workers=min(8, nshard)) as ex:
        hres = list(ex.map(harness, range(nshard)))
    jobs = []
    for i, (sp, out, r) in enumerate(hres):
        if r.returncode not in (0, 4):
            raise vlib.Broken("vbuild roundtrip shard %d exited %d:\n%s" % (i, r.returncode, (r.stderr or "")[-2000:]))
        jobs.append(dict(module="RoundTripTrace", cfg="RoundTripTrace", workers=1, env={"TRACE": out},
                         timeout=3000, heap="3g"))
    results = vlib.tlc_parallel(jobs, maxpar=min(8, len(jobs)))

    total = {}
    devs = {}
    obs = set()
    samples = []
    for i, r in enumerate(results):
        sp, out, _ = hres[i]
        m = re.search(r'<<"SUMMARY", "(.*)">>', r.out)
        if r.code != 0 or not m:
            if "REJECTED" in r.out or r.violated:
                ctx.violation("round-trip trace of shard %d rejected by RoundTripTrace (harness abort / crash in the "
                              "writer or reader / malformed record):\n%s" % (i, vlib.rejected_info(r)),
                              tags={"structural": "rejected"}, files=[sp, out])
                continue
            raise vlib.Broken("TLC failed on shard %d (exit %d):\n%s" % (i, r.code, r.out[-3000:]))
        summ = json.loads(m.group(1).replace('\\"', '"'))
        for k, v in summ["stat"].items():
            total[k] = total.get(k, 0) + v
        per_input = {}
        for v in summ["viol"]:
            per_input.setdefault((v[0], v[1]), []).append(v[2:])
        for (clause, name), notes in sorted(per_input.items()):
            files = [out]
            if name in by_name:
                rp = ctx.path(name + ".json")
                with open(rp, "w") as fh:
                    json.dump(by_name[name], fh)
                files.append(rp)
            if clause == "C19.FieldEqual":
                what = "%s: field(s) changed by write + read: %s" % (
                    name, "; ".join("%s: %s -> %s" % (n[0], n[1], n[2]) for n in notes[:4]))
            elif clause == "C19.FieldPresent":
                what = "%s: field %s is %s before and %s after write + read" % (name, notes[0][0], notes[0][1], notes[0][2])
            elif clause == "C19.NavigationEqual":
                what = "%s: %s %s differs between the original and the re-read geometry (%s rays differ)" % (
                    name, notes[0][0], notes[0][1], notes[0][2] or "?")
            else:
                what = "%s: %s: %s" % (name, clause, notes[0])
            ctx.violation(what, tags={"clause": clause, "input": name}, files=files)
        for d in summ["devs"]:
            devs.setdefault(d[0], []).append((d[1], d[2]))
        for o in summ["obs"]:
            obs.add(tuple(o))
        if i == 0:
            with open(out) as fh:
                for line in fh:
                    rec = json.loads(line)
                    if rec["e"] == "RT" and len(samples) < 2:
                        samples.append({"name": rec["name"], "kind": rec["kind"], "json_bytes": rec["bytes"],
                                        "fields": len(rec["before"]), "first_fields": rec["before"][:8]})
    for dev, where in sorted(devs.items()):
        ctx.violation("%d input(s) contain an involute surface and were not handed to the JSON reader "
                      "(visit_surface_type reaches CELER_ASSERT_UNREACHABLE for SurfaceType::inv): %s"
                      % (len(where), ", ".join("%s [%s]" % w for w in where[:6])),
                      tags={"deviation": dev})
    ctx.coverage.update({
        "programs": total.get("roundtrips", 0),
        "disagreements_checked": total.get("fields", 0) + total.get("ray_items", 0),
        "samples": samples,
        "evaluations": total.get("inputs", 0),
        "distinct_nontrivial": total.get("roundtrips", 0),
        "rule": "program = one OrangeInput written with operator<< and read back with operator>> (all bundled "
                ".org.json fixtures + inputs built by the C09 generator through the construction API + hand-constructed "
                "inputs with rectangular arrays: 1-3 cells per axis, the zero-offset daughter at every flattened index, "
                "centred, nested and seeded random ones); "
                "disagreements_checked = projected fields compared (bit patterns for doubles) + ray trace items "
                "(volume labels and distance bit tokens) compared; every input is distinct (fixture files / seeded scenes)",
        "inputs": total.get("inputs", 0), "fixtures": len(fixtures), "generated": len(scenes),
        "inputs_with_rel_ne_abs_tolerance": sum(1 for sc in scenes if sc.get("length", 1) != 1)
                                            + sum(1 for a in arrays if "tol" in a),
        "hand_built_rect_arrays": len(arrays),
        "fields_compared": total.get("fields", 0), "rays": total.get("rays", 0),
        "ray_items_compared": total.get("ray_items", 0), "ray_segments": total.get("segments", 0),
        "json_bytes": total.get("bytes", 0),
        "named_deviation_hits": {k: len(v) for k, v in devs.items()},
        "reader_or_writer_errors": total.get("errors", 0),
        "unlisted_fields": {"projected": total.get("unlisted_fields", 0), "not_preserved": total.get("unlisted_changed", 0),
                            "observations": sorted(" / ".join(o) for o in obs)},
        "traces_validated_against_impl": len(jobs),
    })
    ctx.assumptions += [
        "the projector in harness/vbuild.cc walks OrangeInput / UnitInput / RectArrayInput / VolumeInput / "
        "VariantSurface / VariantTransform directly; it is the definition of 'equal geometry input'",
        "doubles are compared as bit patterns: the writer uses nlohmann::json::dump (shortest round-trip "
        "representation), so exact equality is the claim",
        "fields of the structs that the property does not name (oriented bounding zones) are projected separately "
        "and reported as an observation when not preserved; they are not used by the tracker",
        "navigation equivalence is sampled: seeded straight rays (initialise, find_next_step, move_to_boundary, "
        "cross_boundary) on both OrangeParams",
        "input with an involute surface is detected from the JSON text before calling operator>> (F-JSON-1)",
    ]
