"""C20 Generated optical photons are physically valid.

spec/Optical.tla states (1) what one call of a pre-generator (CerenkovOffload /
ScintillationOffload) and of the matching generator may return for one charged-particle step
in one optical material, and (2) the bookkeeping of the offload buffers as a state machine.
harness/voptical.cc drives the REAL classes through their public headers over seeded steps
(e+-/mu+-/neutral, mean speed from far below to far above the Cerenkov threshold incl. +-2 ulp
around 1/beta = n_max, loss / no loss / stopping / accelerating, step lengths 0 and 1e-6..10 cm,
axis-aligned / near-polar / generic directions, 8 refractive-index tables, 8 scintillation
spectra) and the REAL buffer algorithms (remove_if_invalid, count_num_photons,
inclusive_scan_photons, find_distribution_index, LocalWorkCalculator) in seeded runs of the
offload/generate/launch cycle.  TLC validates every record against spec/OpticalTrace.tla.
Design check: spec/OpticalMC.tla (bookkeeping state machine + lemmas + vacuity guard of every
clause), with three design variants that must be refuted.

SPEC-DECIDED (ranks / tokens / integers): threshold rule, zero source => nothing requested,
stored step data, counts and buffer bookkeeping, energy finite > 0 and inside the table,
time >= pre-step time, position between the end points per coordinate, component window.
ORACLE-DECIDED (harness residuals with brackets; listed in coverage["oracle_decided"]): unit
direction, unit polarisation, perpendicularity, Cerenkov cone, collinearity, parent-arrival
time bracket, dN/dx against the documented integral, sampled number within its law.
"""
import concurrent.futures as cf
import json
import os
import re
import time

import vlib

LEVEL = "exploration"

DEVIATIONS = {
    "RotateNearPoleNegativeY":
        "corecel rotate() (F-ROT-1): step direction within sin(theta) < 0.005 of the z axis with negative y: "
        "the Cerenkov cone is built about the mirrored axis",

    "ScintNonPositiveWavelength":
        "ScintillationGenerator samples the wavelength from an untruncated Gaussian: a component with "
        "lambda_mean - 8.6 lambda_sigma <= 0 yields photons of negative energy",
    "CerenkovStepAlongZNaN":
        "CerenkovGenerator, step exactly parallel to the z axis whose normalised z component rounds to "
        "+-(1 - eps/2): rotate() evaluates 0/0, direction and polarisation of every photon are NaN",
}

ORACLE_DECIDED = [
    "C20.UnitDirection: | |d| - 1 | <= 1e-10",
    "C20.UnitPolarisation: | |p| - 1 | <= 1e-10",
    "C20.PolarisationPerpendicular: |d.p| <= 1e-10",
    "C20.CerenkovCone: | d.s - 1/(n(E) beta_mean) | <= 1e-9 (3e-8 when the step direction is within 1e-6 of, or exactly along, the "
    "z axis: accuracy of corecel rotate() there), n(E) by an independent linear interpolation, s = (post-pre)/|post-pre|",
    "C20.PositionOnSegment (collinearity part): distance from the line through pre/post <= 64 eps max(|pre|,|post|,chord)",
    "C20.TimeConsistentWithParent: t >= t0 + u L / v_max (1 - 1e-9) and, Cerenkov only, t <= t0 + u L / v_min (1 + 1e-9), "
    "u from the photon position",
    "C20.DndxMatchesDefinition: |dN/dx - alpha z^2/(hbar c) Int (1 - 1/(n beta)^2) dE| <= 1e-9 dN/dx(beta=1), trapezoid "
    "rule on 1/n^2 between knots as documented in CerenkovParams",
    "C20.CountWithinLaw: mean - 9 sigma - 1 <= num_photons <= mean + 9 max(sigma, sqrt(mean)) + 12 with the documented "
    "mean (dN/dx L, yield * deposit) and sigma (sqrt(mean); resolution_scale sqrt(mean) for a scintillation mean > 10)",
]


def _summary(out):
    m = re.search(r'<<"SUMMARY", "(.*)">>', out)
    if not m:
        return None
    return json.loads(m.group(1).replace('\\"', '"'))


def _record(path, k):
    """The Step record number k of a steps trace."""
    try:
        with open(path) as fh:
            for line in fh:
                if '"k":%d,' % k in line:
                    r = json.loads(line)
                    if r.get("e") == "Step" and r.get("k") == k:
                        return r
    except OSError:
        pass
    return None


def _describe(rec):
    if not rec:
        return "(record not found)"
    x = rec.get("x", {})
    ph = [(p.get("x") or {}) for p in rec.get("phot", [])][:3]
    return ("%s step in material %d (%s), %s: beta_pre=%s beta_post=%s (E_post=%s MeV) 1/beta_mean=%s n_max=%s "
            "len=%s cm t0=%s s edep=%s MeV pre=%s post=%s -> num_photons=%s, first photons %s"
            % (rec.get("proc"), rec.get("mat"), rec.get("var"), rec.get("part"), x.get("bpre"), x.get("bpost"),
               x.get("epost"), x.get("invb"), x.get("nmax"), x.get("len"), x.get("t0"), x.get("edep"), x.get("pre"),
               x.get("post"), x.get("n"), json.dumps(ph)))


def _shard(ctx, name, seed, nsteps, maxphot, keep):
    path = ctx.path(name + ".ndjson")
    t0 = time.time()
    r = vlib.run_harness("voptical", ["steps", path, seed, nsteps, maxphot, 400000], timeout=1200, check=False)
    res = {"name": name, "path": path, "seed": seed, "nsteps": nsteps, "maxphot": maxphot,
           "harness_s": time.time() - t0, "crash": None, "rejected": None, "summary": None, "cov": {}, "tlc_s": 0.0,
           "recs": {}, "config": ""}
    if r.returncode != 0:
        if r.returncode in (2, 3):
            raise vlib.Broken("voptical failed to set up (exit %d):\n%s" % (r.returncode, (r.stderr or "")[-2000:]))
        res["crash"] = "voptical steps seed=%d n=%d exited %d (crash inside the optical generators)\n%s" % (
            seed, nsteps, r.returncode, (r.stderr or "")[-1500:])
        return res
    t1 = time.time()
    ok, tr = vlib.validate_trace("OpticalTrace", "OpticalTrace", path, timeout=2400, heap="4g")
    res["tlc_s"] = time.time() - t1
    res["summary"] = _summary(tr.out)
    if not ok:
        res["rejected"] = vlib.rejected_info(tr)
    elif res["summary"] is None:
        raise vlib.Broken("no SUMMARY from OpticalTrace on %s:\n%s" % (path, tr.out[-2000:]))
    try:
        res["cov"] = json.load(open(path + ".cov.json"))
    except (OSError, ValueError):
        res["cov"] = {}
    s = res["summary"] or {}
    with open(path) as fh:
        res["config"] = fh.readline().strip()
    for d in s.get("dev", []):
        res["recs"][("dev", d["name"])] = _record(path, d["k"])
    for v in s.get("viol", []):
        res["recs"][("viol", v["clause"], v["var"])] = _record(path, v["k"])
    if keep:
        res["samples"] = []
        with open(path) as fh:
            for n, line in enumerate(fh):
                if n in (3, 4, 40, 41) or (len(res["samples"]) < 6 and n > 50 and '"gen":0' not in line):
                    try:
                        rec = json.loads(line)
                    except ValueError:
                        continue
                    if rec.get("e") == "Step" and len(res["samples"]) < 6:
                        res["samples"].append(rec)
    res["keep"] = bool(keep or res["rejected"] or s.get("viol"))
    return res


def _witness(out):
    """Compress a TLC counterexample into the sequence of (phase, buffers, pending, err)."""
    states = re.split(r"State \d+: ", out)[1:]
    seq = []
    for st in states:
        d = {}
        for var in ("phase", "cbuf", "sbuf", "pending", "ninit", "err"):
            m = re.search(r"/\\ %s = (.*)" % var, st)
            if m:
                d[var] = m.group(1).strip()
        seq.append(d)
    return seq


def _design(ctx, quick):
    out = {}
    cfg0 = "OpticalMC" if quick else "OpticalMC_thorough"
    variants = (("OpticalMC_nocompact", "CountsConserved"), ("OpticalMC_nobump", "CountsConserved"),
                ("OpticalMC_ascoded", "NoEmptyScan"))
    allr = vlib.tlc_parallel(
        [dict(module="OpticalMC", cfg=cfg0, workers=2 if quick else 4, timeout=1500, heap="6g", expect_ok=True)]
        + [dict(module="OpticalMC", cfg=cfg, workers=1, timeout=900, heap="4g", expect_ok=True) for cfg, _ in variants],
        maxpar=4)
    r, ms = allr[0], allr[1:]
    lem = re.search(r'<<"LEMMAS", "faults", (\d+), "bufs", (\d+)>>', r.out)
    if not lem:
        raise vlib.Broken("OpticalMC: the lemmas / clause vacuity guard did not evaluate:\n" + r.out[-3000:])
    if not r.ok:
        ctx.violation("OpticalMC.tla (offload bookkeeping as intended) violates %s\n%s"
                      % (r.violated_names(), json.dumps(_witness(r.out))[:1500]),
                      tags={"clause": "C20.BookkeepingDesign"})
    out["states"], out["transitions"], out["depth"] = r.distinct, r.generated, r.depth
    out["wall_s"] = round(r.wall, 1)
    out["config"] = cfg0 + (": 2 slots, capacity 4, 0..2 photons per distribution, %d core steps, auto_flush 3"
                            % (2 if quick else 3))
    out["clause_faults_attributed"] = int(lem.group(1))
    out["dist_index_buffers_enumerated"] = int(lem.group(2))
    for (cfg, inv), m in zip(variants, ms):
        names = m.violated_names()
        if m.ok or inv not in names:
            raise vlib.Broken("vacuity guard: design variant %s was not refuted by %s (got %s)" % (cfg, inv, names))
        out["variant_" + cfg.split("_")[1]] = "refuted by " + inv
        if cfg == "OpticalMC_ascoded":
            out["ascoded_witness"] = _witness(m.out)
    return out


def _book(ctx, quick):
    path = ctx.path("book.ndjson")
    vlib.run_harness("voptical", ["book", path, ctx.seed, 400 if quick else 6000], timeout=900)
    ok, tr = vlib.validate_trace("OpticalTrace", "OpticalTrace", path, timeout=2400, heap="4g")
    s = _summary(tr.out)
    if not ok:
        ctx.violation("bookkeeping trace rejected by OpticalTrace:\n" + vlib.rejected_info(tr),
                      tags={"trace": "book"}, files=[path])
        return {}
    if s is None:
        raise vlib.Broken("no SUMMARY from OpticalTrace (book):\n" + tr.out[-2000:])
    lines = open(path).read().split("\n")
    for v in s["viol"]:
        rec = lines[v["k"] - 1] if 0 < v["k"] <= len(lines) else ""
        ctx.violation("offload bookkeeping (record %d of `voptical book out %d ...`) violates %s: %s"
                      % (v["k"], ctx.seed, v["clause"], rec[:1500]),
                      tags={"clause": v["clause"], "trace": "book"}, files=[path])
    return s["stat"]


def run(ctx):
    vlib.build(["voptical"])
    q = ctx.quick
    if getattr(ctx, "replay", None):
        ctx.replay = os.path.abspath(ctx.replay)
        ok, tr = vlib.validate_trace("OpticalTrace", "OpticalTrace", ctx.replay, timeout=2400)
        s = _summary(tr.out) or {}
        print(json.dumps(s, indent=1)[:4000])
        if not ok or s.get("viol"):
            ctx.violation("replay %s: %s" % (ctx.replay, vlib.rejected_info(tr) if not ok else s.get("viol")),
                          tags={"trace": "replay"}, files=[ctx.replay])
        for d in s.get("dev", []):
            ctx.violation("replay %s: %s (%d records)" % (ctx.replay, d["name"], d["n"]),
                          tags={"deviation": d["name"]}, files=[ctx.replay])
        ctx.coverage.update({"evaluations": (s.get("stat") or {}).get("photons", 0), "distinct_nontrivial": 1,
                             "rule": "replay of one recorded trace", "samples": [ctx.replay],
                             "oracle_decided": ORACLE_DECIDED})
        return

    nshards = 16 if q else 90
    nsteps = 5000 if q else 10000
    maxphot = 6
    budget_s = 55 if q else 8 * 60      # no new shard is launched after this wall time
    maxpar = 4
    t_start = time.time()

    pool = cf.ThreadPoolExecutor(max_workers=maxpar + 2)
    fut_design = pool.submit(_design, ctx, q)
    fut_book = pool.submit(_book, ctx, q)

    results, pending, launched, skipped, i = [], set(), 0, 0, 0
    while i < nshards or pending:
        while i < nshards and len(pending) < maxpar:
            if launched >= 2 and time.time() - t_start > budget_s:
                skipped = nshards - i
                i = nshards
                break
            pending.add(pool.submit(_shard, ctx, "s%04d" % i, ctx.seed + 7919 * i, nsteps,
                                    maxphot if i % 3 else 24, i == 0))
            launched += 1
            i += 1
        if not pending:
            break
        done, pending = cf.wait(pending, return_when=cf.FIRST_COMPLETED)
        for f in done:
            res = f.result()
            results.append(res)
            if not res.get("keep") and os.path.exists(res["path"]):
                os.remove(res["path"])

    design = fut_design.result()
    book = fut_book.result()
    pool.shutdown()

    # ---- aggregate ----
    tot, devs, viols = {}, {}, []
    classes, nontrivial = set(), set()
    per_proc, photons_proc, per_bcls = {}, {}, {}
    samples = []
    ntraces = 0
    for res in sorted(results, key=lambda r: r["name"]):
        if res["crash"]:
            ctx.violation(res["crash"], tags={"clause": "C20.Crash"}, files=[res["path"]])
            continue
        if res["rejected"]:
            ctx.violation("trace %s (voptical steps seed=%d n=%d) rejected by OpticalTrace:\n%s"
                          % (res["name"], res["seed"], res["nsteps"], res["rejected"]),
                          tags={"trace": res["name"]}, files=[res["path"]])
            continue
        ntraces += 1
        s = res["summary"]
        for k, v in s["stat"].items():
            tot[k] = tot.get(k, 0) + v
        for d in s["dev"]:
            e = devs.setdefault(d["name"], {"n": 0, "first": None})
            e["n"] += d["n"]
            if e["first"] is None:
                e["first"] = (res, d["k"])
        for v in s["viol"]:
            viols.append((res, v))
        c = res["cov"]
        classes.update(c.get("classes", []))
        nontrivial.update(c.get("nontrivial", []))
        for src, dst in ((c.get("per_proc", {}), per_proc), (c.get("photons_proc", {}), photons_proc),
                         (c.get("per_bcls", {}), per_bcls)):
            for k, v in src.items():
                dst[k] = dst.get(k, 0) + v
        samples += res.get("samples", [])

    # ---- report ----
    seen = set()
    for res, v in viols:
        key = (v["clause"], v["var"])
        if key in seen:
            continue
        seen.add(key)
        rec = res["recs"].get(("viol", v["clause"], v["var"]))
        base = "viol_%s_%s" % (v["clause"].replace(".", "_"), re.sub(r"\W", "_", v["var"]))
        small = ctx.path(base + ".json")
        with open(small, "w") as fh:
            json.dump({"clause": v["clause"], "variant": v["var"], "step": v["k"],
                       "harness": "voptical steps <out> %d %d %d" % (res["seed"], res["nsteps"], res["maxphot"]),
                       "record": rec}, fh, indent=1)
        mini = ctx.path(base + ".ndjson")      # bin/check C20 --replay <this file>
        with open(mini, "w") as fh:
            fh.write(res["config"] + "\n" + json.dumps(rec, separators=(",", ":")) + "\n"
                     + json.dumps({"e": "Close", "n": 1}) + "\n")
        ctx.violation("%s violated (%s): step %d of `voptical steps out %d %d %d`: %s"
                      % (v["clause"], "oracle-decided" if any(o.startswith(v["clause"]) for o in ORACLE_DECIDED)
                         else "spec-decided", v["k"], res["seed"], res["nsteps"], res["maxphot"], _describe(rec)),
                      tags={"clause": v["clause"], "variant": v["var"]}, files=[small, mini])
    for name, e in sorted(devs.items()):
        res, k = e["first"]
        rec = res["recs"].get(("dev", name))
        small = ctx.path("dev_%s.json" % name)
        with open(small, "w") as fh:
            json.dump({"deviation": name, "hits": e["n"], "first_step": k,
                       "harness": "voptical steps <out> %d %d %d" % (res["seed"], res["nsteps"], res["maxphot"]),
                       "record": rec}, fh, indent=1)
        mini = ctx.path("dev_%s.ndjson" % name)
        with open(mini, "w") as fh:
            fh.write(res["config"] + "\n" + json.dumps(rec, separators=(",", ":")) + "\n"
                     + json.dumps({"e": "Close", "n": 1}) + "\n")
        ctx.violation("%s: %d steps (%s); first: step %d of `voptical steps out %d %d %d`: %s"
                      % (name, e["n"], DEVIATIONS.get(name, ""), k, res["seed"], res["nsteps"], res["maxphot"],
                         _describe(rec)),
                      tags={"deviation": name}, files=[small, mini])

    nphot = tot.get("photons", 0) + (book or {}).get("bookphotons", 0)
    if tot.get("steps", 0) == 0 and not ctx.violations:
        raise vlib.Broken("no steps were validated")
    # vacuity guards on the run itself: every clause family must have had something to decide
    if ntraces and not ctx.violations:
        if min(tot.get("cerphot", 0), tot.get("scintphot", 0), tot.get("below", 0), tot.get("nosource", 0)) == 0:
            raise vlib.Broken("vacuous run: %s" % json.dumps(tot))
    if design.get("ascoded_witness"):
        print("OBSERVATION property=C20: design variant OpticalMC_ascoded (generator actions as coded: flush condition "
              "on the TOTAL pending photons, then CELER_ASSERT(buffer_size > 0) / offsets.back()) reaches a generator "
              "whose own buffer is empty; the real pre-generators produced that situation %d times in the bookkeeping "
              "runs (not driven: undefined behaviour)" % (book or {}).get("emptygen", 0))
    ctx.coverage.update({
        "evaluations": nphot,
        "distinct_nontrivial": len(nontrivial),
        "rule": "one evaluation = one photon returned by a real generator (or one initializer of a bookkeeping flush) "
                "validated by TLC against Optical.tla; inputs: seeded steps = process (Cerenkov / scintillation) x 8 "
                "optical materials (refractive-index tables: water-like 41 points, nearly flat, steep non-uniform, gas, "
                "n<1 at the low end, two-point, 2 seeded random; spectra: 1-3 Gaussian components narrow..wide, rise "
                "time 0..10 fall times, yields 0.5..4e4 / MeV, resolution scale 0..3) x particle (e-, e+, mu-, mu+, "
                "neutron) x mean-speed class (far below / below / within 2 ulp of / just above / partly above / fully "
                "above the threshold 1/n_max) x loss class (none, 1e-7..1e-3, 1-70 %, stopping, accelerating) x step "
                "length (0, 1e-6..10 cm) x direction (axes, within 1e-9..5e-3 of the pole, generic) x chord/path "
                "ratio x pre-step time x deposit (0, 1e-6..10 MeV) x random stream; distinct_nontrivial = number of "
                "distinct tuples (process, material, speed class or sampling branch, loss class, length class, "
                "charged/neutral) in which at least one photon was generated or a nothing-requested antecedent (below "
                "threshold, neutral, zero length, zero deposit) held, counted by the harness",
        "samples": samples[:5] or [{}],
        "oracle_decided": ORACLE_DECIDED,
        "steps": tot.get("steps", 0),
        "stat": tot,
        "class_tuples_hit": len(classes),
        "per_process_steps": per_proc,
        "per_process_photons": photons_proc,
        "per_speed_class_steps": per_bcls,
        "named_deviation_hits": {k: v["n"] for k, v in devs.items()},
        "violating_records": sum(r["summary"]["nviol"] for r in results if r.get("summary")),
        "traces_validated_against_impl": ntraces + (1 if book else 0),
        "shards_skipped_by_time_budget": skipped,
        "states": design["states"], "transitions": design["transitions"],
        "design": design,
        "bookkeeping_binding": book,
        "harness_s": round(sum(r["harness_s"] for r in results), 1),
        "tlc_s": round(sum(r["tlc_s"] for r in results), 1),
    })
    ctx.assumptions += [
        "ORACLE-DECIDED sub-claims (the TLA+ spec only compares the rank of a harness-computed residual with the rank of "
        "its tolerance): unit direction, unit polarisation, polarisation perpendicular to direction, Cerenkov cone angle, "
        "collinearity with the step segment, parent-arrival time bracket, dN/dx against the documented integral, sampled "
        "photon number within the support of its documented law",
        "SPEC-DECIDED sub-claims (ranks, bit tokens, integers): nothing requested below threshold / for neutral particles "
        "/ zero length / zero deposit, dN/dx finite >= 0 and 0 below threshold, a loud mean requests photons, the "
        "distribution stores the step bit for bit and is valid iff non-empty with a positive length, generated count, draw "
        "bound, energy finite > 0 and inside the table, time >= pre-step time, position between the end points per "
        "coordinate, scintillation energy inside the 8.6 sigma window of a component, buffer append / compaction / prefix "
        "sums / work partition / photon-to-distribution map / counters of the offload bookkeeping",
        "threshold brackets: below = 1/beta_mean (1 - 4 eps) > n_max; the +-4 eps band is exercised but not decided",
        "the per-track glue of detail/*OffloadExecutor.hh, *GeneratorExecutor.hh and the four step_impl functions needs a "
        "CoreTrackView and is TRANSCRIBED in harness/voptical.cc around the real building blocks; a mutation of that glue "
        "in /repo is not seen by this check",
        "optical::MaterialParams rejects an exactly constant refractive index (strictly increasing values required): the "
        "'flat' table rises by 1e-10; steps with positive path length have a positive chord (0.5..1 of the path)",
        "draw bound 4e5 32-bit words per step; host double-precision release build (CELER_EXPECT/ASSERT compiled out)",
        "rank abstraction in harness/vjson.hh (order preserving within one record); TLC",
    ]
