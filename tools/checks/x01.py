"""X01 (extension) Track-slot reindexing and per-action thread ranges.

spec/TrackSort.tla states what the public calls around CoreStateData::track_slots may do:
construction (identity / shuffled permutation / no indirection, offsets allocated iff the order
reindexes), detail::sort_tracks (permutation; statuses partitioned / ids non-decreasing with the
invalid id last; per-slot arrays untouched), detail::count_tracks_per_action and
backfill_action_count (num_actions+1 valid non-decreasing offsets, last = number of slots, a present
action starts at its first thread, an absent one takes its right neighbour, every thread of an action
lies in its range), SortTracksAction (which order sorts at which StepActionOrder, ctor contract,
step = sort [+ count], get_action_range = adjacent offsets), is_action_sorted (both overloads).

Design check  spec/TrackSortMC.tla: the state machine Pick / SortTracks / CountTracks / Rekey over
              every case within the constants, the count AS CODED against the declarative contract,
              lemmas (backfill, schedule = coded is_action_sorted = first-principles validity),
              wrong variants that must be refuted (nofirst, left, counted, unsorted, errpath).
Binding       (1) REPLAY, exhaustive: TLC (TrackSortMC!Emit) enumerates every assignment of n slots
              over {inactive, id 0/1/2, invalid id} (n <= 5 quick, <= 6 thorough), the (status, id)
              product (n <= 3 / <= 5), other action counts and every small offsets array; each case is
              run through the REAL detail:: functions on a hand-built HostVal<CoreStateData>
              (vtracksort cases) in the canonical and in a seeded order / start permutation, and
              every record is validated by TLC against spec/TrackSortTrace.tla.
              (2) TRACE VALIDATION, sampled: real CoreParams / CoreState for all 8 track orders
              (vtracksort state: construction, ctor, truth tables, SortTracksAction::step on seeded
              arrays up to 100 slots) and the real stepping loop action by action (vtracksort live)
              incl. runs whose world volume has no material (error path of the boundary action).
"""
import concurrent.futures as cf
import json
import os
import random
import re
import threading
import time
import zlib

import vlib

LEVEL = "model_checking"

DEVIATIONS = {
    "StaleRangeAfterErrored":
        "F-SORT-1: with TrackOrder reindex_step_limit_action / reindex_both_action the thread range "
        "get_action_range(tracking-cut), computed by the sort at sort_pre_post, leaves out tracks that "
        "the boundary action of the same `post` phase has just marked errored (CoreTrackView::apply_errored: "
        "post_step_action := tracking cut); is_action_sorted(post, order) is true, so a device launch of "
        "TrackingCutAction restricted to that range skips them in this step",
}

ORDERS = ["none", "init_charge", "reindex_shuffle", "reindex_status", "reindex_particle_type",
          "reindex_along_step_action", "reindex_step_limit_action", "reindex_both_action"]
SORT_ORDERS = ["reindex_status", "reindex_along_step_action", "reindex_step_limit_action",
               "reindex_particle_type"]
MUTANTS = {"nofirst": "InvOffsets", "left": "InvBackfill", "counted": "InvOffsets", "unsorted": "InvOffsets",
           "errpath": "InvSchedule"}
MODEL_ACTIONS = ("Pick", "SortTracks", "CountTracks", "Rekey")


_start_lock = threading.Lock()


def _tlc(*a, **kw):
    """vlib.tlc from several threads: its -metadir name comes from a counter that is incremented and read
    without a lock, so two calls that start at the same moment can share (and delete) one directory.
    The starts are therefore spaced out here; the runs themselves overlap."""
    box = {}

    def run():
        try:
            box["r"] = vlib.tlc(*a, **kw)
        except BaseException as ex:      # re-raised in the caller's thread
            box["e"] = ex

    with _start_lock:
        t = threading.Thread(target=run)
        t.start()
        time.sleep(0.4)
    t.join()
    if "e" in box:
        raise box["e"]
    return box["r"]


def _validate(path, timeout=2400, heap="4g"):
    """Trace validation (vlib.validate_trace through _tlc).  Returns (accepted, TlcResult)."""
    r = _tlc("TrackSortTrace", "TrackSortTrace", workers=1, env={"TRACE": path}, timeout=timeout, heap=heap)
    if r.code == 0:
        return True, r
    if "REJECTED" in r.out or r.violated:
        return False, r
    raise vlib.Broken("trace validation of %s failed to run (exit %d):\n%s" % (path, r.code, r.out[-4000:]))


def _summary(out):
    m = re.search(r'<<"SUMMARY", "(.*)">>', out)
    if not m:
        return None
    return json.loads(m.group(1).replace('\\"', '"'))


# ------------------------------------------------------------------------------- design
def _design(ctx, quick):
    if os.environ.get("X01_SKIP_DESIGN"):
        # binding demonstrations only (bin/mutcheck): the design check involves no code under test
        return {"runs": [], "states": 1, "transitions": 1, "mutants": {}, "skipped": True}
    jobs = [dict(module="TrackSortMC", cfg="TrackSortMC", workers=2, timeout=1500, heap="6g", expect_ok=True,
                 coverage=not quick)]
    if not quick:
        jobs.append(dict(module="TrackSortMC", cfg="TrackSortMC_n4", workers=2, timeout=2400, heap="8g",
                         expect_ok=True))
    muts = ["nofirst", "left", "errpath"] if quick else list(MUTANTS)
    for m in muts:
        jobs.append(dict(module="TrackSortMC", cfg="TrackSortMC_mut_" + m, workers=1, timeout=900, heap="3g",
                         expect_ok=True))
    res = [_tlc(**j) for j in jobs]                # sequential: the check keeps its total parallelism <= 4
    nmain = 1 if quick else 2
    out = {"runs": []}
    for j, r in zip(jobs[:nmain], res[:nmain]):
        if not r.ok:
            ctx.violation("design check %s: TrackSort.tla (count as coded / schedule) violates %s\n%s"
                          % (j["cfg"], r.violated_names(), r.out[-2500:]), tags={"clause": "X01.Design"})
        out["runs"].append({"cfg": j["cfg"], "states": r.distinct, "transitions": r.generated, "depth": r.depth,
                            "wall_s": round(r.wall, 1)})
        if j.get("coverage") and r.ok:
            cov = {a: r.coverage.get(a, 0) for a in MODEL_ACTIONS}
            out["action_coverage"] = cov
            never = [a for a, c in cov.items() if c == 0]
            if never:
                raise vlib.Broken("design check %s: actions never taken: %s" % (j["cfg"], never))
    out["states"] = sum(x["states"] for x in out["runs"])
    out["transitions"] = sum(x["transitions"] for x in out["runs"])
    out["mutants"] = {}
    for m, r in zip(muts, res[nmain:]):
        names = r.violated_names()
        if r.ok or MUTANTS[m] not in names:
            raise vlib.Broken("vacuity guard: design variant %s was not refuted by %s (got %s)\n%s"
                              % (m, MUTANTS[m], names, r.out[-1500:]))
        out["mutants"][m] = "refuted by " + MUTANTS[m]
    return out


# ------------------------------------------------------------------------------- replay
def _emit(ctx, name, kind, m=0, lo=0, hi=0):
    path = ctx.path("emit_%s.ndjson" % name)
    r = _tlc("TrackSortMC", "TrackSortMC_emit", workers=1, timeout=2400, heap="6g", expect_ok=True,
                 env={"KIND": kind, "M": m, "LO": lo, "HI": hi, "OUT": path})
    mm = re.search(r'<<"CASES", (\d+)>>', r.out)
    if not r.ok or not mm:
        raise vlib.Broken("TrackSortMC_emit %s failed:\n%s" % (name, r.out[-3000:]))
    with open(path) as fh:
        lines = [ln for ln in fh if ln.strip()]
    if len(lines) != int(mm.group(1)):
        raise vlib.Broken("emit %s: %d lines written, TLC reported %s" % (name, len(lines), mm.group(1)))
    return lines


def _vary(rec, rng):
    """pass B: seeded start permutation and order sequence (inputs only; TLC judges the outcome)."""
    n = rec["n"]
    ts0 = list(range(n))
    rng.shuffle(ts0)
    orders = SORT_ORDERS[:]
    rng.shuffle(orders)
    if rng.random() < 0.3:
        orders = orders + [rng.choice(SORT_ORDERS)]
    rec = dict(rec)
    rec["ts0"] = ts0
    rec["orders"] = orders
    rec["kind"] = rec.get("kind", "") + "/varied"
    return rec


def _replay_shard(ctx, name, recs):
    """recs: list of dict (Case / Backfill).  Runs the real code and validates.  Returns result dict."""
    inp, outp = ctx.path(name + ".in.ndjson"), ctx.path(name + ".out.ndjson")
    with open(inp, "w") as fh:
        fh.write(json.dumps({"e": "Config", "mode": "cases", "first": 1, "last": len(recs)}) + "\n")
        for i, r in enumerate(recs):
            r = dict(r)
            r["id"] = i + 1
            fh.write(json.dumps(r, separators=(",", ":")) + "\n")
    t0 = time.time()
    h = vlib.run_harness("vtracksort", ["cases", inp, outp], timeout=900, check=False)
    res = {"name": name, "in": inp, "out": outp, "n": len(recs), "crash": None, "rejected": None, "summary": None,
           "harness_s": time.time() - t0, "tlc_s": 0.0, "nontrivial": 0, "distinct": 0, "sample": None}
    if h.returncode != 0:
        if h.returncode in (2, 3):
            raise vlib.Broken("vtracksort cases failed to set up (exit %d):\n%s" % (h.returncode, (h.stderr or "")[-2000:]))
        res["crash"] = "vtracksort cases %s exited %d (crash inside the code under test)\n%s" % (
            inp, h.returncode, (h.stderr or "")[-1200:])
        return res
    t1 = time.time()
    ok, tr = _validate(outp)
    res["tlc_s"] = time.time() - t1
    res["summary"] = _summary(tr.out)
    if not ok:
        res["rejected"] = vlib.rejected_info(tr)
    elif res["summary"] is None:
        raise vlib.Broken("no SUMMARY from TrackSortTrace on %s:\n%s" % (outp, tr.out[-2000:]))
    # measured: distinct inputs, and how many of them made the real code do something non-trivial
    seen = set()
    with open(outp) as fh:
        for ln in fh:
            try:
                r = json.loads(ln)
            except ValueError:
                continue
            if r.get("e") == "Case":
                key = json.dumps([r["n"], r["na"], r["st"], r["along"], r["post"], r["pt"], r["ts0"], r["orders"]])
                if key in seen:
                    continue
                seen.add(key)
                moved = any(c["ts1"] != c["ts0"] for c in r["calls"])
                multi = any(len(set(c.get("off", []))) >= 2 for c in r["calls"])
                if moved or multi:
                    res["nontrivial"] += 1
                    if res["sample"] is None and moved and multi and r["n"] >= 4:
                        res["sample"] = r
            elif r.get("e") == "Backfill":
                key = json.dumps([r["off"], r["n"]])
                if key not in seen:
                    seen.add(key)
                    if -1 in r["off"][:-1]:
                        res["nontrivial"] += 1
    res["distinct"] = len(seen)
    return res


# ------------------------------------------------------------------------------- real objects
def _objects(ctx, quick):
    """state + live traces of the real CoreParams / CoreState, concatenated into one validation."""
    parts = []
    t0 = time.time()
    sp = ctx.path("state.ndjson")
    crashes = []
    h = vlib.run_harness("vtracksort", ["state", sp, ctx.seed, 3 if quick else 12], timeout=900, check=False)
    if h.returncode != 0:
        if h.returncode in (2, 3):
            raise vlib.Broken("vtracksort state failed to set up:\n" + (h.stderr or "")[-2000:])
        crashes.append("vtracksort state <out> %d exited %d (exception / crash inside the code under test)\n%s"
                       % (ctx.seed, h.returncode, (h.stderr or "")[-1200:]))
    parts.append(sp)
    runs = []
    nseeds = 1 if quick else 4
    for o in ORDERS:
        for s in range(nseeds):
            runs.append((o, ctx.seed + 101 * s, 8 if s % 2 == 0 else 5, 6, 40 if quick else 80, False))
    for o in ("reindex_step_limit_action", "reindex_both_action", "reindex_along_step_action", "reindex_status"):
        for s in range(1 if quick else 3):
            runs.append((o, ctx.seed + 7 + 13 * s, 8, 6, 40, True))
    for i, (o, s, nslots, nprim, maxsteps, nomat) in enumerate(runs):
        p = ctx.path("live_%02d.ndjson" % i)
        args = ["live", p, s, o, nslots, nprim, maxsteps] + (["nomat"] if nomat else [])
        h = vlib.run_harness("vtracksort", args, timeout=600, check=False)
        if h.returncode != 0:
            if h.returncode in (2, 3):
                raise vlib.Broken("vtracksort live failed to set up:\n" + (h.stderr or "")[-2000:])
            crashes.append("vtracksort %s exited %d\n%s" % (" ".join(map(str, args)), h.returncode,
                                                             (h.stderr or "")[-800:]))
        parts.append(p)
    allp = ctx.path("objects.ndjson")
    with open(allp, "w") as out:
        for p in parts:
            if os.path.exists(p):
                with open(p) as fh:
                    out.write(fh.read())
    harness_s = time.time() - t0
    t1 = time.time()
    ok, tr = _validate(allp)
    return {"path": allp, "ok": ok, "tr": tr, "summary": _summary(tr.out), "crashes": crashes, "runs": runs,
            "harness_s": harness_s, "tlc_s": time.time() - t1, "ntraces": len(parts)}


def _rec_at(path, k):
    try:
        with open(path) as fh:
            for i, ln in enumerate(fh, 1):
                if i == k:
                    return ln.strip()
    except OSError:
        pass
    return ""


def _report(ctx, what, path, s, harness_cmd):
    """Turn a SUMMARY (viol / dev) into violations."""
    for v in s.get("viol", []):
        ctx.violation("%s violated (%s) at record %d of %s [%s]:\n%s"
                      % (v["clause"], v["var"], v["k"], what, harness_cmd, _rec_at(path, v["k"])[:2500]),
                      tags={"clause": v["clause"], "variant": v["var"]}, files=[path])
    for d in s.get("dev", []):
        ctx.violation("%s: %d records (%s); first: record %d of %s [%s]:\n%s"
                      % (d["name"], d["n"], DEVIATIONS.get(d["name"], ""), d["k"], what, harness_cmd,
                         _rec_at(path, d["k"])[:2500]),
                      tags={"deviation": d["name"]}, files=[path])


def run(ctx):
    vlib.build(["vtracksort"])
    q = ctx.quick
    if getattr(ctx, "replay", None):
        path = os.path.abspath(ctx.replay)
        ok, tr = _validate(path)
        s = _summary(tr.out) or {}
        print(json.dumps(s, indent=1)[:4000])
        if not ok:
            ctx.violation("replay %s rejected: %s" % (path, vlib.rejected_info(tr)), tags={"trace": "replay"},
                          files=[path])
        _report(ctx, "replay", path, s, path)
        ctx.coverage.update({"evaluations": max(1, (s.get("stat") or {}).get("recs", 0)), "distinct_nontrivial": 2,
                             "rule": "replay of one recorded trace", "samples": [path], "states": 1, "transitions": 1,
                             "traces_validated_against_impl": 1})
        return

    pool = cf.ThreadPoolExecutor(max_workers=3)    # design (2 TLC workers) + 2 single-threaded jobs
    fut_design = pool.submit(_design, ctx, q)
    fut_objects = pool.submit(_objects, ctx, q)

    # ---- emission plan: parts must tile every enumeration
    plan = [("quick", "quick", 0, 0, 0)]           # small + wide 5 + main 3
    if not q:
        for lo in range(1, 5 ** 6 + 1, 4000):
            plan.append(("wide6_%d" % lo, "wide", 6, lo, min(5 ** 6, lo + 3999)))
        plan.append(("main4", "main", 4, 1, 8 ** 4))
        for lo in range(1, 8 ** 5 + 1, 8192):
            plan.append(("main5_%d" % lo, "main", 5, lo, min(8 ** 5, lo + 8191)))
    expected = {"wide": {m: 5 ** m for m in range(1, 6 if q else 7)},
                "main": {m: 8 ** m for m in range(1, 4 if q else 6)}}

    def emit_part(p):
        name, kind, m, lo, hi = p
        recs = [json.loads(ln) for ln in _emit(ctx, name, kind, m, lo, hi)]
        if kind != "quick" and len(recs) != hi - lo + 1:
            raise vlib.Broken("emit %s: %d records for %d..%d" % (name, len(recs), lo, hi))
        work = [("%s_a%d" % (name, i), sh) for i, sh in enumerate(vlib.shards(recs, 2 if kind == "quick" else 1))]
        # pass B on the cases with >= 3 slots of the 5-symbol enumeration (and a sample of the product)
        lrng = random.Random(ctx.seed * 1000003 + zlib.crc32(name.encode()) % 1000)
        varied = [_vary(r, lrng) for r in recs
                  if r.get("e") == "Case" and r["n"] >= 3 and (r["kind"] == "wide" or lrng.random() < 0.25)]
        if varied:
            work.append(("%s_b" % name, varied))
        counts = {}
        for r in recs:
            if r.get("e") == "Case" and r["kind"] in ("wide", "main"):
                counts[(r["kind"], r["n"])] = counts.get((r["kind"], r["n"]), 0) + 1
        return work, counts

    efuts = [pool.submit(emit_part, p) for p in plan]
    rfuts, got = [], {}
    for f in cf.as_completed(efuts):
        work, counts = f.result()
        for name, recs in work:
            rfuts.append(pool.submit(_replay_shard, ctx, name, recs))
        for k, v in counts.items():
            got[k] = got.get(k, 0) + v
    shards = [f.result() for f in rfuts]
    shards.sort(key=lambda r: r["name"])
    for kind, d in expected.items():
        for m, cnt in d.items():
            if got.get((kind, m), 0) != cnt:
                raise vlib.Broken("enumeration %s n=%d incomplete: %d of %d cases emitted"
                                  % (kind, m, got.get((kind, m), 0), cnt))
    design = fut_design.result()
    objects = fut_objects.result()
    pool.shutdown()

    # ---- aggregate the replay
    tot = {}
    ntraces = 0
    samples = []
    for res in shards:
        cmd = "vtracksort cases %s <out>" % res["in"]
        if res["crash"]:
            ctx.violation(res["crash"], tags={"clause": "X01.Crash"}, files=[res["in"]])
            continue
        if res["rejected"]:
            ctx.violation("replay shard %s rejected by TrackSortTrace:\n%s" % (res["name"], res["rejected"]),
                          tags={"trace": res["name"]}, files=[res["in"], res["out"]])
            continue
        ntraces += 1
        s = res["summary"]
        for k, v in s["stat"].items():
            tot[k] = tot.get(k, 0) + v
        _report(ctx, "replay shard " + res["name"], res["out"], s, cmd)
        if res["sample"] is not None and len(samples) < 3:
            samples.append(res["sample"])
    # ---- real objects
    for c in objects["crashes"]:
        ctx.violation(c, tags={"clause": "X01.Crash"}, files=[objects["path"]])
    if not objects["ok"]:
        ctx.violation("state/live trace rejected by TrackSortTrace:\n" + vlib.rejected_info(objects["tr"]),
                      tags={"trace": "objects"}, files=[objects["path"]])
    elif objects["summary"] is None:
        raise vlib.Broken("no SUMMARY from TrackSortTrace (objects):\n" + objects["tr"].out[-2000:])
    else:
        s = objects["summary"]
        _report(ctx, "state/live trace", objects["path"], s,
                "vtracksort state|live ... (segments: state seed %d; live %s)"
                % (ctx.seed, "; ".join("%s seed=%d slots=%d%s" % (r[0], r[1], r[2], " nomat" if r[5] else "")
                                        for r in objects["runs"])))
        for k, v in s["stat"].items():
            tot[k] = tot.get(k, 0) + v
        ntraces += objects["ntraces"]

    # vacuity guards on the run itself
    if not ctx.violations:
        need = ("cases", "counts", "backfills", "nulltail", "constructs", "steps", "livesorts", "rangeuses",
                "rangethreads")
        if min(tot.get(k, 0) for k in need) == 0:
            raise vlib.Broken("vacuous run: %s" % json.dumps(tot))
    distinct = sum(r["distinct"] for r in shards)
    nontrivial = sum(r["nontrivial"] for r in shards)
    evaluations = (tot.get("sorts", 0) + tot.get("counts", 0) + tot.get("backfills", 0) + tot.get("steps", 0)
                   + tot.get("acts", 0) + tot.get("constructs", 0) + tot.get("ctors", 0) + tot.get("tables", 0))
    if not samples:
        samples = [{"note": "no sample selected"}]
    ctx.coverage.update({
        "states": design["states"], "transitions": design["transitions"],
        "traces_validated_against_impl": ntraces,
        "samples": samples,
        "evaluations": evaluations,
        "distinct_nontrivial": nontrivial,
        "rule": "evaluations = public calls of the real code judged by TLC (sort_tracks, count_tracks_per_action, "
                "backfill_action_count, SortTracksAction::step, constructions, every action of the live loop); "
                "replayed cases are ENUMERATED by TLC (TrackSortMC!Emit): every assignment of n slots over the 5 "
                "symbols {inactive, id 0, id 1, id 2, invalid id} for n <= %d, the (status, id) product for n <= %d, "
                "NA in {1,2,5} for n <= 4, every offsets array of length 2..4 over {invalid,0..3}; pass B repeats the "
                "cases with >= 3 slots from a seeded start permutation and order sequence; distinct_nontrivial = "
                "distinct replayed inputs for which the real code moved track_slots or produced >= 2 distinct offsets "
                "(Backfill: an invalid entry to fill), counted from the harness output"
                % (5 if q else 6, 3 if q else 5),
        "exhaustive": True,
        "replayed_distinct_inputs": distinct,
        "enumerated": {"%s n=%d" % k: v for k, v in sorted(got.items())},
        "stat": tot,
        "design": design,
        "named_deviation_hits": {d["name"]: d["n"] for d in (objects["summary"] or {}).get("dev", [])},
        "live_runs": len(objects["runs"]),
        "harness_s": round(sum(r["harness_s"] for r in shards) + objects["harness_s"], 1),
        "tlc_s": round(sum(r["tlc_s"] for r in shards) + objects["tlc_s"], 1),
    })
    ctx.assumptions += [
        "std::sort / std::partition are not stable: the spec constrains the result (permutation, keys ordered), "
        "not the particular permutation",
        "the invalid OpaqueId is logged as -1 and ordered last (unsigned comparison in the code)",
        "count_tracks_per_action is only specified on sorted input (its documented use); the replay always sorts first",
        "SortTracksAction(reindex_shuffle | reindex_both_action) is outside the constructor's contract "
        "(CELER_EXPECT / unreachable, compiled out in this release build) and is not driven",
        "host build: get_action_range is observed, the device launch that consumes it (ActionLauncher.device.hh) "
        "is not executed; OpenMP threads = 1",
        "the live runs use the hand-built e-/e+/gamma problem of harness/vproblem.hh (two-boxes.org.json); "
        "`nomat` runs give the world volume no material to reach the boundary action's error path",
        "design-check Writers(key): which phases rewrite along_step_action / post_step_action was read off the "
        "executors (PreStepExecutor, along-step appliers, DiscreteSelectExecutor, BoundaryExecutor)",
        "TLC, the Json community module, harness/vjson.hh",
    ]
