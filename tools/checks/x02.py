"""X02 (extension) Looping-track bookkeeping of the along-step propagation.

spec/Looping.tla        reference semantics: SimTrackView::operator= / update_looping / is_looping,
                        PropagationApplier's decision, the stop override of ElossApplier, the
                        tracking-cut deposit, the SimParams threshold table; named clauses (Explain)
spec/LoopingMC.tla      design check: one track through EVERY sequence of propagation outcomes and
                        energy levels for every threshold table within small constants; invariants
                        (counter = consecutive looping steps, bounded looping, cut only/always when due,
                        energy ledger); five seeded design mutants that MUST be refuted; emits the
                        replay scripts
harness/vlooping.cc     real stepping loop on the hand-built EM problem.  scripted: TLC's behaviours are
                        replayed through the real PropagationApplier / SimTrackView / TrackingCutAction
                        (scripted propagator inside the public AlongStep template).  real: real uniform
                        field propagation with strong fields and few substeps, seeded primaries and
                        SimParams thresholds; the propagator's looping flag is inferred by TLC
spec/LoopingTrace.tla   every logged track-step must be explained by Looping.tla
"""
import json
import math
import os
import random
import re
import time
import concurrent.futures as cf

import vlib

LEVEL = "model_checking"

MUTANTS = ("gt", "eq", "noreset", "cutnodep", "swap")
LEVEL_MEV = {1: 0.5, 2: 1.0, 3: 2.0}      # energy levels of LoopingMC -> MeV
THR_MEV = {0: 0.0, 2: 1.0}                # threshold levels -> MeV  (level 2 = exactly the "equal" energy)
FIXED_STEP = 2.0                          # cm, scripted runs (physics-fixed-step limits every charged step)
E_STOP = 0.00100005                       # MeV: above lowest_electron_energy (1 keV) by less than the loss of the
                                          # shortest scripted step in the thin world material (1e-7 MeV): the step stops it
KIND_CHAR = {"loop": "L", "full": "F", "short": "S", "boundary": "B"}
KIND_DIST = {"loop": 0.5, "full": 1.0, "short": 0.25}


# Finding met on the unchanged tree.  known_findings.json is maintained by the lead; until the id is listed
# there a hit of the deviation is a VIOLATION; the list below is documentation only.
PROPOSED = [
    {"id": "F-LOOP-1", "property": "X02", "status": "known", "match": {"deviation": "InvalidThresholdAccepted"},
     "what": "SimParams::SimParams(Input) accepts looping thresholds for which LoopingThreshold::operator bool is false "
             "(input: Input::looping[pdg::electron()] = {max_subthreshold_steps 0, max_steps 0, threshold_energy -1 MeV} on the "
             "hand-built e-/e+/gamma problem): the only check is CELER_ASSERT(looping.back()) -- compiled out of a release build, "
             "and it tests the LAST element of the vector (the positron's, still default) instead of the entry just assigned "
             "(looping[pid.get()]), so a debug build accepts an invalid gamma/electron entry as well. Effect: with max_steps 0 "
             "the first looping step of every electron is a tracking-cut (counter 1 >= 0). Expected: CELER_VALIDATE on the "
             "assigned entry. Scoped by the trace spec (InvalidThresholdAccepted): the constructed table equals the user's "
             "input and the invalid entries are the user's own; any other table mismatch is the VIOLATION X02.ThresholdTable."},
]


def _probe_runs(first_id):
    """Directed: invalid user thresholds (one field at a time, and all three) for the electron."""
    prims = [dict(ev=0, pt=1, E=1.0, pos=[20.0, 0.0, 0.0], dir=[0.6, 0.8, 0.0]),
             dict(ev=0, pt=2, E=2.0, pos=[1.0, 1.0, 0.0], dir=[0.0, 0.6, 0.8])]
    bad = [dict(mss=0, ms=3, E=1.0), dict(mss=2, ms=0, E=1.0), dict(mss=2, ms=3, E=-1.0), dict(mss=0, ms=0, E=-1.0)]
    return [dict(id=first_id + i, mode="real", field=5.0, drv=dict(max_substeps=2), slots=2, prims=prims, maxiters=200,
                 thr=[dict(pdg=11, **b)]) for i, b in enumerate(bad)]


def _summary(r):
    m = re.search(r'<<"SUMMARY", "(.*)">>', r.out)
    if not m:
        return None
    return json.loads(m.group(1).replace('\\"', '"'))


def _scripts_of(out):
    res = set()
    for m in re.finditer(r'<<"SCRIPT", "(.*)">>', out):
        res.add(m.group(1).replace('\\"', '"'))
    return sorted(res)


# ----------------------------------------------------------------------------- design check
def _design(ctx):
    cfg = "LoopingMC" if ctx.quick else "LoopingMC_thorough"
    jobs = [dict(module="LoopingMC", cfg=cfg, workers=3, timeout=2400, heap="6g")]
    jobs += [dict(module="LoopingMC", cfg="LoopingMC_" + v, workers=1, timeout=600, heap="2g") for v in MUTANTS]
    res = vlib.tlc_parallel(jobs, maxpar=2)   # 3 workers + one mutant at a time = 4 threads
    main = res[0]
    if main.code != 0:
        if main.violated:
            ctx.violation("design model LoopingMC/%s violates %s:\n%s" % (cfg, main.violated_names(), main.out[-2500:]),
                          tags={"design": cfg})
            return main, [], {}
        raise vlib.Broken("TLC failed on LoopingMC/%s (exit %d):\n%s" % (cfg, main.code, main.out[-3000:]))
    refuted = {}
    for v, r in zip(MUTANTS, res[1:]):
        names = re.findall(r"Invariant (\w+) is violated", r.out)
        if not names:
            raise vlib.Broken("vacuity guard: design mutant %s was not refuted (exit %d)\n%s" % (v, r.code, r.out[-1500:]))
        refuted[v] = names[0]
    return main, [json.loads(s) for s in _scripts_of(main.out)], refuted


# ----------------------------------------------------------------------------- scripted runs
def _scripted_runs(scripts, seed, cap):
    """Group TLC's behaviours by threshold table; one harness run per (table, canloop) group."""
    rng = random.Random(seed)
    if cap and len(scripts) > cap:
        # stratified: keep every (table, length) class represented
        groups = {}
        for s in scripts:
            groups.setdefault((s["mss"], s["ms"], s["thr"], len(s["steps"])), []).append(s)
        for g in groups.values():
            rng.shuffle(g)
        chosen = []
        keys = sorted(groups)
        while len(chosen) < cap and any(groups[k] for k in keys):
            for k in keys:
                if groups[k] and len(chosen) < cap:
                    chosen.append(groups[k].pop())
        scripts = chosen
    bytab = {}
    for s in scripts:
        bytab.setdefault((s["mss"], s["ms"], s["thr"]), []).append(s)
    runs = []
    rid = 0
    for (mss, ms, thr), group in sorted(bytab.items()):
        group.sort(key=lambda s: json.dumps(s["steps"]))
        # a tenth of each group is replayed a second time with tracks_can_loop() = false
        variants = [(True, group)]
        nl = [s for i, s in enumerate(group) if i % 10 == 0]
        if nl:
            variants.append((False, nl))
        for canloop, grp in variants:
            for chunk in vlib.shards(grp, max(1, (len(grp) + 399) // 400)):
                rid += 1
                prims, scr = [], []
                for ev, s in enumerate(chunk):
                    steps = s["steps"]
                    last_b = steps[-1][0] == "boundary"
                    dist = sum(KIND_DIST[st[0]] * FIXED_STEP for st in (steps[:-1] if last_b else steps))
                    # a final "boundary" step starts 1 cm from the world boundary; without looping the track must
                    # leave soon after its script (the tail is full steps), with looping it is cut by the tail
                    x0 = (499.0 - dist) if last_b else (100.0 if canloop else 498.5 - dist)
                    pt = 1 + (ev + rid) % 2     # e- / e+ alternate
                    mev = [E_STOP if st[2] else LEVEL_MEV[st[1]] for st in steps]
                    prims.append(dict(ev=ev, pt=pt, E=mev[0], pos=[x0, 0.0, 0.0], dir=[1.0, 0.0, 0.0]))
                    scr.append(dict(ev=ev, steps=[[KIND_CHAR[st[0]], e] for st, e in zip(steps, mev)]))
                thr_mev = THR_MEV[thr]
                runs.append(dict(id=rid, mode="scripted", canloop=canloop, tail="L" if canloop else "F",
                                 fixed_step=FIXED_STEP, slots=8, emax=max(LEVEL_MEV.values()),
                                 maxiters=(len(chunk) // 8 + 2) * 12 + 40,
                                 thr=[dict(pdg=p, mss=mss, ms=ms, E=thr_mev) for p in (11, -11)],
                                 prims=prims, scripts=scr, table=[mss, ms, thr]))
    return runs, len(scripts)


# ----------------------------------------------------------------------------- real runs
def _unit(rng):
    cz = 2 * rng.random() - 1
    ph = 2 * math.pi * rng.random()
    sz = math.sqrt(max(0.0, 1 - cz * cz))
    return [sz * math.cos(ph), sz * math.sin(ph), cz]


def _real_runs(seed, n, first_id):
    rng = random.Random(seed)
    runs = []
    for i in range(n):
        rid = first_id + i
        linear = (i % 7 == 6)
        thr_mode = ("all", "all", "all", "eonly", "none")[i % 5]
        ethr = rng.choice([0.0, 0.3, 1.0, 1.0, 3.0, 250.0])
        thr = []
        if thr_mode == "all":
            # max_steps 1..5, max_subthreshold_steps 1..3 (either order of size), per particle
            for pdg in (11, -11, 22):
                thr.append(dict(pdg=pdg, mss=rng.randint(1, 3), ms=rng.randint(1, 5), E=rng.choice([ethr, ethr, 0.5, 2.0])))
        elif thr_mode == "eonly":
            thr.append(dict(pdg=11, mss=rng.randint(1, 3), ms=rng.randint(1, 5), E=ethr))
        nprim = rng.randint(8, 14)
        prims = []
        for k in range(nprim):
            pt = (1, 1, 1, 2, 2, 0)[rng.randrange(6)]
            E = 0.05 * (10 / 0.05) ** rng.random()
            if k == 0 and thr:
                # an energy EXACTLY at its threshold: `E < threshold` is false, max_steps applies
                pt = 1
                E = thr[0]["E"] if thr[0]["E"] > 0 else E
            inner = rng.random() < 0.6
            r = 4.5 if inner else 40.0
            prims.append(dict(ev=0, pt=pt, E=E, pos=[r * (2 * rng.random() - 1) for _ in range(3)], dir=_unit(rng)))
        fixed = rng.choice([0.0, 0.0, 0.0, 0.0, 0.05, 0.3])
        # (with a fixed step limiter the tracks in the thin world material take thousands of short steps: cap)
        run = dict(id=rid, mode="real", thr=thr, prims=prims, slots=rng.choice([2, 4, 8]),
                   rng_seed=rng.randrange(1, 1 << 30), table_scale=rng.choice([0.5, 1.0, 2.0]),
                   fixed_step=fixed, maxiters=100 if fixed else 1500)
        if linear:
            run["field"] = 0.0
            run["poke"] = dict(every=rng.choice([2, 3]), vals=[1, 2, 5, 0, 3, 7])
        else:
            run["field"] = rng.choice([0.5, 1.0, 2.0, 5.0, 10.0, 20.0])
            run["bdir"] = [1.0, 1.0, 1.0] if i % 2 else _unit(rng)
            run["drv"] = dict(max_substeps=rng.choice([1, 1, 2, 2, 3, 4, 10]),
                              epsilon_rel_max=rng.choice([1e-3, 1e-3, 1e-4, 1e-5]))
            if i % 3 == 0:
                run["poke"] = dict(every=rng.choice([3, 4, 5]), vals=[0, 1, 2, 3, 4, 6, 9])
        runs.append(run)
    return runs


def _harness(ctx, name, runs):
    rp = ctx.path(name + ".runs.json")
    out = ctx.path(name + ".ndjson")
    with open(rp, "w") as fh:
        json.dump({"runs": runs}, fh)
    r = vlib.run_harness("vlooping", [rp, out], timeout=900, check=False)
    if r.returncode != 0 or not os.path.exists(out):
        # a crash / hang inside the code under test: keep what was written, no Close -> rejected trace
        if r.returncode == 124 or r.returncode < 0:
            with open(out, "a") as fh:
                fh.write(json.dumps({"e": "Abort", "what": "vlooping exit %d" % r.returncode}) + "\n")
        else:
            raise vlib.Broken("vlooping %s failed (exit %d): %s" % (rp, r.returncode, (r.stderr or "")[-2000:]))
    return out


def run(ctx):
    vlib.build(["vlooping"])
    q = ctx.quick
    # known findings come from the committed known_findings.json only (PROPOSED documents what was asked for)
    t0 = time.time()
    main, scripts, refuted = _design(ctx)
    vlib.log("X02 design check: %d states, %d transitions, %d scripts, mutants %s, %.0fs"
             % (main.distinct, main.generated, len(scripts), refuted, time.time() - t0))

    # ------------------------------------------------------------------ harness runs
    t0 = time.time()
    sruns, nscripts = _scripted_runs(scripts, ctx.seed, None)
    nreal = 70 if q else 1000
    rruns = _real_runs(ctx.seed, nreal, 100000)
    jobs = []
    nsh = 4 if q else 12
    nsh = min(nsh, len(sruns)) or 1
    for i in range(nsh):
        jobs.append(("scripted%02d" % i, sruns[i::nsh]))
    nrs = 4 if q else 12
    for i in range(nrs):
        jobs.append(("real%02d" % i, rruns[i::nrs]))
    jobs.append(("probe", _probe_runs(900000)))
    with cf.ThreadPoolExecutor(max_workers=4) as ex:
        outs = list(ex.map(lambda nj: _harness(ctx, nj[0], nj[1]), jobs))
    vlib.log("X02 harness: %d scripted runs (%d scripts), %d real runs, %.0fs" % (len(sruns), nscripts, len(rruns), time.time() - t0))

    # ------------------------------------------------------------------ trace validation
    t0 = time.time()
    tj = [dict(module="LoopingTrace", cfg="LoopingTrace", workers=1, env={"TRACE": p}, timeout=3000, heap="3g") for p in outs]
    results = vlib.tlc_parallel(tj, maxpar=4)
    vlib.log("X02 trace validation: %.0fs" % (time.time() - t0))
    stat, cnt, cells = {}, {}, set()
    devs = 0
    samples, distinct, records = [], set(), 0
    arcnorm = 0.0
    for (name, runs), path, r in zip(jobs, outs, results):
        summ = _summary(r)
        if r.code != 0 or summ is None:
            if "REJECTED" in r.out or r.violated:
                ctx.violation("trace %s is not a behaviour of LoopingTrace:\n%s" % (name, vlib.rejected_info(r)),
                              tags={"structural": "rejected"}, files=[path, ctx.path(name + ".runs.json")])
                continue
            raise vlib.Broken("TLC failed on %s (exit %d):\n%s" % (name, r.code, r.out[-3000:]))
        for k, v in summ["stat"].items():
            stat[k] = stat.get(k, 0) + v
        for c in summ["cells"]:
            cells.add(tuple(c))
        if summ.get("dev", 0):
            devs += summ["dev"]
            ctx.violation("%d run(s) of %s: SimParams accepted an invalid LoopingThreshold from its input (vlooping %s)"
                          % (summ["dev"], name, ctx.path(name + ".runs.json")),
                          tags={"deviation": "InvalidThresholdAccepted"}, files=[path, ctx.path(name + ".runs.json")])
        byid = {}
        with open(path) as fh:
            for i, line in enumerate(fh):
                rec = json.loads(line)
                if rec.get("e") != "Step":
                    if rec.get("e") == "Config":
                        cur = rec["run"]
                    continue
                records += 1
                arcnorm = max(arcnorm, rec.get("dbg_arcnorm", 0.0))
                byid[(cur, rec["ev"], rec["tid"], rec["ns0"])] = rec
                distinct.add((rec["pt"], rec["c0"], rec["c1"], rec["act0"], rec["act1"], rec["act2"], rec["st2"],
                              rec["rL_len"] < rec["rL_lim"], rec["onb1"], rec["poked"], rec.get("scr", "")))
                if len(samples) < 6 and rec["c1"] > 0 and i % 37 == 5:
                    samples.append({k: v for k, v in rec.items() if not k.startswith("dbg_")})
        c = summ["cnt"] if isinstance(summ["cnt"], dict) else {}
        firsts = {}
        for clause, rid, line in summ["viol"]:
            firsts.setdefault(clause, []).append(tuple(rid) if isinstance(rid, list) else rid)
        runs_by_id = {rn["id"]: rn for rn in runs}
        for clause, n in sorted(c.items()):
            cnt[clause] = cnt.get(clause, 0) + n
            ex = []
            for rid in firsts.get(clause, [])[:2]:
                rec = byid.get(rid)
                if rec is not None:
                    rn = runs_by_id.get(rid[0], {})
                    inp = {k: rn.get(k) for k in ("id", "mode", "field", "bdir", "drv", "thr", "fixed_step", "canloop",
                                                  "table", "poke", "rng_seed", "table_scale", "slots") if k in rn}
                    ex.append("run input %s\nstep record %s" % (json.dumps(inp), json.dumps(rec)))
                elif isinstance(rid, int):
                    ex.append("run input %s" % json.dumps({k: v for k, v in runs_by_id.get(rid, {}).items() if k != "prims"}))
            ctx.violation("clause %s violated by %d step(s) of %s (vlooping %s); first (run, event, track, step) %s\n%s"
                          % (clause, n, name, ctx.path(name + ".runs.json"), firsts.get(clause, [])[:3], "\n".join(ex)),
                          tags={"clause": clause, "mode": name[:4]}, files=[path, ctx.path(name + ".runs.json")])
    # vacuity: the runs must have exercised what the clauses talk about
    if not ctx.violations:
        need = {"loop": 50, "cut": 20, "cutbelow": 3, "cutanti": 3, "boundary": 10, "full": 50, "short": 5,
                "poked": 5, "nocanloop": 20, "stopover": 3, "infloop": 50, "reusenz": 20, "stopped": 3, "arc": 20, "reuse": 5, "given": 100, "inferred": 100}
        low = {k: stat.get(k, 0) for k, v in need.items() if stat.get(k, 0) < v}
        if low:
            raise vlib.Broken("X02 binding is vacuous: too few steps of kind %s (need %s)" % (low, need))
    ctx.coverage.update({
        "states": main.distinct, "transitions": main.generated,
        "traces_validated_against_impl": len(outs),
        "samples": samples or [{"note": "no looping step sampled"}],
        "evaluations": stat.get("clauses", 0),
        "distinct_nontrivial": len(distinct),
        "rule": "states/transitions: LoopingMC exhaustive within its constants (every threshold table, every sequence of "
                "propagation kinds and energy levels up to MaxLen); scripted = EVERY finished behaviour of a stable particle "
                "emitted by that run is replayed on the real classes; real = seeded runs (fields 0.5-20 T, max_substeps 1-10, "
                "max_steps 1-5, max_subthreshold_steps 1-3, threshold energies incl. one primary exactly at its threshold); "
                "evaluations = clause evaluations by TLC; distinct_nontrivial = distinct projections (particle, counter "
                "before/after, the three action labels, status, shortened, boundary, poked, scripted kind) of logged track-steps",
        "exhaustive": True,
        "scripts_emitted": len(scripts), "scripts_replayed": nscripts, "scripted_runs": len(sruns), "real_runs": len(rruns),
        "step_records": records, "impl_stats": stat, "clause_counts": cnt,
        "decision_cells": sorted(list(c) for c in cells),
        "design_mutants_refuted": refuted, "named_deviation_hits": devs,
        "arc_oracle_max_normalised_residual": arcnorm,
    })
    ctx.assumptions += [
        "all particles of the hand-built problem are stable: the `is_stable()` conjunct of the cut decision is stated by the spec and "
        "model-checked, but the binding never sees it false",
        "MSC is off (the step length is not converted between true and geometric path), energy-loss fluctuations off",
        "real mode: the propagator's looping flag is inferred; a shortened, non-boundary step that reset the counter is accepted as a "
        "`short` (stuck-track bump) only when its length is <= 0.1 delta_intersection",
        "scripted mode: the propagator moves linearly and returns the scripted flags; the energy level of each step is set with "
        "ParticleTrackView::energy before the step (the pre-step limits were computed for the previous energy; the thin world "
        "material makes every physics limit irrelevant next to physics-fixed-step)",
        "ORACLE-DECIDED: arc length from the displacement along a uniform field, bracket 20 x epsilon_rel_max x (1 + K s) x s, not used where that exceeds s/4 "
        "(largest normalised residual measured on the unchanged tree is reported as arc_oracle_max_normalised_residual)",
        "deposit ledger of the cut step in fixed-point quanta (2^-28 of the run's primary energy), tolerance 2 quanta",
        "build has CELERITAS_DEBUG=OFF (release behaviour; CELER_ASSERTs are not evaluated)",
        "counter pokes (real mode, logged) write SimStateData::num_looping_steps directly to reach counter values the physics "
        "would produce rarely; without a field they are the only way to see that the counter is left alone",
    ]
