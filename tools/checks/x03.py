"""X03 (extension) The bounding-interval hierarchy locates exactly the volumes whose box contains the point.

spec/Bih.tla is the reference: boxes on an integer lattice (half units, exact in float/double),
structural clauses every legal tree satisfies (WellFormed, ExactlyOnce, Enclosure, LeafNonEmpty,
FiniteTree; DRIFT: PlanesTight, LeafSharesCentre), lookup clauses (CallsOnlyCandidates,
NoRepeatedCall, StopsAtFirstAccept, Complete, TieFiniteBeforeInfinite, TieInfiniteAscending,
TieDepthFirstOrder) and the builder / traverser as actions.

1. DESIGN (spec/BihMC.tla, no code): TLC enumerates every configuration of <= MaxBoxes boxes over a
   small lattice, every tree the builder may produce, every lattice + half-lattice point, every
   predicate, and walks the traverser; invariants = the clauses + brute force + termination.
   Vacuity guards that MUST be refuted: planes at the dividing centre, second visit dropping the
   right edge, right edge pruned on the first visit; and the traverser AS CODED (strict edge tests)
   is refuted against the contract (finding F-BIH-1) but passes modulo the named deviation.
2. BINDING (replay of TLC-generated inputs on the real classes + trace validation):
   TLC writes EVERY configuration (BihMC_gen: finite incl. thin / nested / identical, infinite, null,
   semi-infinite) and the point list; harness/vbih.cc builds each with the REAL BIHBuilder (several
   configurations per shared BIHTreeData storage), dumps the tree as stored and looks every point up
   with the REAL BIHTraverser under EVERY predicate "id in M"; the same configurations become real
   ORANGE units for SimpleUnitTracker::initialize; seeded larger 3-D configurations go beyond the
   small scope.  TLC validates every record with spec/BihTrace.tla.
"""
import json
import os
import re

import vlib

LEVEL = "model_checking"

JAVA_OPTS = {"JAVA_TOOL_OPTIONS": "-XX:CICompilerCount=2"}

# (name, base cfg, constants, expected outcome, workers, stage): stage 2 runs alongside the trace
# validations; at most 4 TLC threads at any time
def _design_jobs(q):
    small = {"MaxBoxes": 2}
    main = {"MaxBoxes": 3}
    big = {"MaxBoxes": 4}
    side = small if q else main
    jobs = [
        ("contract", "BihMC", main if q else big, "ok", 1, 2),
        ("ascoded", "BihMC_ascoded", small if q else big, "ok", 1, 1 if q else 2),
        ("f1", "BihMC_f1", side, "FindOK", 1, 1),
        ("mut_centre", "BihMC_mut_centre", side, "StructOK", 1, 1),
        ("mut_noright", "BihMC_mut_noright", side, "FindOKModuloOnPlane", 1, 1),
        ("mut_leftonly", "BihMC_mut_leftonly", side, "FindOKModuloOnPlane", 1, 1),
    ]
    if not q:
        two = {"Coords": "{0, 2}", "Dims": 2, "MaxBoxes": 3, "WithInf": "FALSE", "WithNull": "FALSE"}
        jobs += [
            ("contract_2d", "BihMC", two, "ok", 1, 2),
            ("ascoded_2d", "BihMC_ascoded", two, "ok", 1, 2),
            ("contract_wide", "BihMC", {"Coords": "{0, 2, 4, 6}", "MaxBoxes": 3}, "ok", 1, 2),
        ]
    return jobs


# (name, constants of BihMC_gen, harness shards, unit mode too?)
def _gen_jobs(q):
    semi = {"Coords": "{0, 2, 4}", "Dims": 1, "MaxBoxes": 3, "WithInf": "TRUE", "WithNull": "TRUE", "WithSemi": "TRUE"}
    if q:
        return [
            ("g1semi", semi, 1, True),
            ("g1four", {"Coords": "{0, 2, 4}", "Dims": 1, "MaxBoxes": 4, "WithInf": "FALSE", "WithNull": "FALSE",
                        "WithSemi": "FALSE"}, 2, False),
            ("g2", {"Coords": "{0, 2}", "Dims": 2, "MaxBoxes": 3, "WithInf": "FALSE", "WithNull": "FALSE",
                    "WithSemi": "FALSE"}, 2, False),
            # units only: boxes with an interior
            ("gunit2", {"Coords": "{0, 2, 4}", "Dims": 2, "MaxBoxes": 3, "WithThin": "FALSE", "WithInf": "TRUE",
                        "WithNull": "FALSE", "WithSemi": "FALSE"}, 0, True),
        ]
    return [
        ("g1semi", semi, 1, True),
        ("g1four", {"Coords": "{0, 2, 4, 6}", "Dims": 1, "MaxBoxes": 4, "WithInf": "TRUE", "WithNull": "FALSE",
                    "WithSemi": "FALSE"}, 8, False),
        ("g2", {"Coords": "{0, 2}", "Dims": 2, "MaxBoxes": 4, "WithInf": "FALSE", "WithNull": "FALSE",
                "WithSemi": "FALSE"}, 8, False),
        ("gunit2", {"Coords": "{0, 2, 4}", "Dims": 2, "MaxBoxes": 3, "WithThin": "FALSE", "WithInf": "TRUE",
                    "WithNull": "FALSE", "WithSemi": "TRUE"}, 0, True),
        ("g2wide", {"Coords": "{0, 2, 4}", "Dims": 2, "MaxBoxes": 2, "WithInf": "TRUE", "WithNull": "FALSE",
                    "WithSemi": "TRUE"}, 4, True),
    ]


def _cfg(ctx, base, name, consts):
    with open(os.path.join(vlib.SPEC, base + ".cfg")) as fh:
        txt = fh.read()
    for k, v in consts.items():
        txt, n = re.subn(r"(?m)^(\s*%s\s*=\s*).*$" % re.escape(k), lambda m: m.group(1) + str(v), txt)
        if n != 1:
            raise vlib.Broken("constant %s not found in %s.cfg" % (k, base))
    path = ctx.path(name + ".cfg")
    with open(path, "w") as fh:
        fh.write(txt)
    return path


def _summary(out):
    m = re.search(r'<<"SUMMARY", "(.*)">>', out)
    if not m:
        return None
    return json.loads(m.group(1).replace('\\"', '"'))


def _context(path, k):
    """Record k and the Build record it refers to."""
    rec, build = "", ""
    try:
        with open(path) as fh:
            for i, line in enumerate(fh, 1):
                if '"e":"Build"' in line:
                    build = line.strip()
                if i == k:
                    rec = line.strip()
                    break
    except OSError:
        pass
    return rec, build


def _first_bad_query(rec):
    """For the report: the queries of a Find record, shortest first (the spec decides, not this)."""
    try:
        r = json.loads(rec)
    except ValueError:
        return rec[:600]
    if r.get("e") != "Find":
        return rec[:900]
    qs = sorted(r["q"], key=lambda x: (len(x["m"]), len(x["calls"])))
    return "point(half units)=%s queries(accepted ids m -> result r, predicate calls)=%s" % (
        r["p"], json.dumps(qs[:6]))


def _run_harness(ctx, args, out):
    r = vlib.run_harness("vbih", [str(a) for a in args], timeout=1500, check=False)
    if r.returncode != 0:
        # a crash / abort / hang of the code under test is an observed event: the trace ends with an
        # Abort record, which no spec action explains (a truncated last line is dropped first)
        try:
            with open(out, "rb") as fh:
                data = fh.read()
        except OSError:
            data = b""
        if data and not data.endswith(b"\n"):
            data = data[:data.rfind(b"\n") + 1]
        if b'"e":"Abort"' not in data[-1000:]:
            data += (json.dumps({"e": "Abort", "what": "vbih exit code %d" % r.returncode,
                                 "stderr": (r.stderr or "")[-300:]}, separators=(",", ":")) + "\n").encode()
        with open(out, "wb") as fh:
            fh.write(data)
    return out


def _aborted(path):
    with open(path, "rb") as fh:
        fh.seek(0, 2)
        fh.seek(max(0, fh.tell() - 1500))
        return b'"e":"Abort"' in fh.read()


def run(ctx):
    vlib.build(["vbih"])
    q = ctx.quick
    replay = getattr(ctx, "replay", None)

    # ------------------------------------------------------------------ replay of a stored trace
    if replay:
        replay = os.path.abspath(replay)
        ok, tr = vlib.validate_trace("BihTrace", "BihTrace", replay, env=JAVA_OPTS, timeout=3000)
        s = _summary(tr.out) or {}
        print(json.dumps(s, indent=1)[:4000])
        if not ok:
            ctx.violation("replay %s rejected: %s" % (replay, vlib.rejected_info(tr)), tags={"trace": "replay"},
                          files=[replay])
        for v in s.get("viol", []):
            ctx.violation("replay %s violates %s (first record %d, %d records)" % (replay, v["clause"], v["k"], v["n"]),
                          tags={"clause": v["clause"]}, files=[replay])
        for d in s.get("dev", []):
            ctx.violation("replay %s: %s (%d records)" % (replay, d["clause"], d["n"]),
                          tags={"deviation": d["clause"]}, files=[replay])
        ctx.coverage.update({"evaluations": (s.get("stat") or {}).get("queries", 0) + 1, "distinct_nontrivial": 2,
                             "rule": "replay of one recorded trace", "samples": [replay],
                             "states": max(1, tr.distinct), "transitions": max(1, tr.generated),
                             "traces_validated_against_impl": 1})
        return

    # ------------------------------------------------------------------ batch 1: generation + small design runs
    design = _design_jobs(q)
    gens = _gen_jobs(q)
    tj = []
    for name, consts, nshard, unit in gens:
        cfg = _cfg(ctx, "BihMC_gen", "gen_" + name, consts)
        e = dict(JAVA_OPTS)
        e["OUT"] = ctx.path(name + ".configs.ndjson")
        tj.append(dict(module="BihMC", cfg=cfg, workers=1, env=e, timeout=3000, heap="6g"))
    late = []   # stage-2 design runs go with the trace validations
    for name, base, consts, expect, workers, stage in design:
        cfg = _cfg(ctx, base, "mc_" + name, consts)
        job = dict(module="BihMC", cfg=cfg, workers=workers, env=JAVA_OPTS, timeout=6000, heap="6g", deadlock=True)
        if stage == 2:
            late.append((name, expect, job))
        else:
            tj.append(job)
    res1 = vlib.tlc_parallel(tj, maxpar=4)
    gen_res = res1[:len(gens)]
    design_res = {}
    i = len(gens)
    for name, base, consts, expect, workers, stage in design:
        if stage == 1:
            design_res[name] = res1[i]
            i += 1

    # ------------------------------------------------------------------ harness runs
    traces = []   # (name, kind, path, harness args)
    nconfigs = {}
    for (name, consts, nshard, unit), r in zip(gens, gen_res):
        m = re.search(r'<<"GENERATED", (\d+), (\d+)>>', r.out)
        path = ctx.path(name + ".configs.ndjson")
        if r.code != 0 or not m or not os.path.exists(path):
            raise vlib.Broken("TLC generation %s failed (exit %d):\n%s" % (name, r.code, r.out[-3000:]))
        with open(path) as fh:
            lines = fh.read().split("\n")
        lines = [x for x in lines if x]
        header, confs = lines[0], lines[1:]
        if len(confs) != int(m.group(1)) or len(json.loads(header)["pts"]) != int(m.group(2)):
            raise vlib.Broken("generation %s: %d configurations written, TLC reports %s" % (name, len(confs), m.group(0)))
        nconfigs[name] = len(confs)
        for si, part in enumerate(vlib.shards(confs, nshard) if nshard else []):
            sp = ctx.path("%s.%d.in.ndjson" % (name, si))
            with open(sp, "w") as fh:
                fh.write(header + "\n" + "\n".join(part) + "\n")
            out = ctx.path("%s.%d.ndjson" % (name, si))
            args = ["replay", sp, out, 16]
            traces.append(("%s.%d" % (name, si), "replay", _run_harness(ctx, args, out), args, len(part)))
            # the harness must have been given exactly the configurations TLC wrote (glue check)
            want = [json.loads(c)["boxes"] for c in part]
            with open(out) as fh:
                got = [json.loads(l)["in"] for l in fh if '"e":"Build"' in l]
            if got != want and not _aborted(out):
                raise vlib.Broken("replay %s.%d: the harness did not echo the generated configurations" % (name, si))
        if unit:
            out = ctx.path("%s.unit.ndjson" % name)
            args = ["unit", path, out]
            traces.append((name + ".unit", "unit", _run_harness(ctx, args, out), args, len(confs)))
    nrand = 2 if q else 6
    for i in range(nrand):
        out = ctx.path("rand%d.ndjson" % i)
        args = ["rand", (ctx.seed * 31 + i) % 2000000000, 100 if q else 400, 6 + 2 * (i % 4), 3 + (i % 3), out]
        traces.append(("rand%d" % i, "rand", _run_harness(ctx, args, out), args, args[2]))

    # ------------------------------------------------------------------ batch 2: trace validation + big design runs
    # the runs are concatenated (Config ... Close Config ... Close) into a few balanced files: one JVM each
    nbins = 3 if q else 4
    order = sorted(traces, key=lambda t: -os.path.getsize(t[2]))
    bins = [{"path": ctx.path("bin%d.ndjson" % i), "parts": [], "size": 0, "n": 0} for i in range(nbins)]
    for t in order:
        b = min(bins, key=lambda x: x["size"])
        b["parts"].append(t)
        b["size"] += os.path.getsize(t[2])
        b["n"] += t[4]
    bins = [b for b in bins if b["parts"]]
    for b in bins:
        off = 0
        b["spans"] = []
        with open(b["path"], "w") as out:
            for t in b["parts"]:
                with open(t[2]) as fh:
                    txt = fh.read()
                out.write(txt)
                nl = txt.count("\n")
                b["spans"].append((off + 1, off + nl, t))
                off += nl
    tj = []
    for b in bins:   # the long jobs first
        e = dict(JAVA_OPTS)
        e["TRACE"] = b["path"]
        tj.append(dict(module="BihTrace", cfg="BihTrace", workers=1, env=e, timeout=6000, heap="5g"))
    tj += [job for name, expect, job in late]
    res2 = vlib.tlc_parallel(tj, maxpar=4)
    trace_res = res2[:len(bins)]
    for (name, expect, job), r in zip(late, res2[len(bins):]):
        design_res[name] = r
    vlib.log("TLC wall: " + " ".join("%s=%.0fs" % (n, design_res[n].wall) for n in design_res)
             + " | gen " + " ".join("%s=%.0fs" % (g[0], r.wall) for g, r in zip(gens, gen_res))
             + " | traces " + " ".join("%.0fs" % r.wall for r in trace_res))

    # ------------------------------------------------------------------ design outcome
    states = transitions = 0
    design_cov = {}
    for name, base, consts, expect, workers, stage in design:
        r = design_res[name]
        design_cov[name] = {"cfg": base, "constants": consts, "distinct": r.distinct, "generated": r.generated,
                            "expected": expect, "exit": r.code}
        if expect == "ok":
            if r.code != 0:
                if r.violated:
                    ctx.violation("design model %s (%s %s) violates %s:\n%s"
                                  % (name, base, consts, r.violated_names(), r.out[-2500:]), tags={"design": name})
                else:
                    raise vlib.Broken("TLC failed on design run %s: exit %d\n%s" % (name, r.code, r.out[-3000:]))
            states += r.distinct
            transitions += r.generated
        else:
            # vacuity guards / the as-coded refutation: MUST be refuted with exactly this invariant
            if not (r.violated and expect in r.violated_names()):
                raise vlib.Broken("vacuity guard %s (%s) was not refuted by %s: exit %d\n%s"
                                  % (name, base, expect, r.code, r.out[-2000:]))

    # ------------------------------------------------------------------ traces
    tot = {}
    accepted = 0
    records = 0
    devs = {}
    drift = {}
    samples = []
    distinct_trees = set()
    def origin(b, k):
        for lo, hi, t in b["spans"]:
            if lo <= k <= hi:
                return "vbih " + " ".join(map(str, t[3])) + " (record %d)" % (k - lo + 1), t[1]
        return "?", "?"

    for b, r in zip(bins, trace_res):
        path = b["path"]
        names = ",".join(t[0] for t in b["parts"])
        if r.code != 0:
            if "REJECTED" in r.out or r.violated:
                m = re.search(r'<<\s*"REJECTED",\s*(\d+)', r.out)
                cmd, kind = origin(b, int(m.group(1))) if m else (names, "?")
                ctx.violation("trace of %s rejected by BihTrace: %s" % (cmd, vlib.rejected_info(r)),
                              tags={"trace": kind}, files=[path])
                continue
            raise vlib.Broken("TLC failed on traces %s: exit %d\n%s" % (names, r.code, r.out[-3000:]))
        s = _summary(r.out)
        if s is None:
            raise vlib.Broken("no SUMMARY from BihTrace on %s:\n%s" % (names, r.out[-2000:]))
        accepted += len(b["parts"])
        for k, v in s["stat"].items():
            tot[k] = tot.get(k, 0) + v
        if s["stat"]["builds"] + s["stat"]["units"] != b["n"]:
            raise vlib.Broken("traces %s: %d configurations validated, %d requested"
                              % (names, s["stat"]["builds"] + s["stat"]["units"], b["n"]))
        for v in s["viol"]:
            rec, build = _context(path, v["k"])
            cmd, kind = origin(b, v["k"])
            ctx.violation("%s: clause %s violated by the real code (first occurrence; %d records in this batch)\n"
                          "  %s\n  tree/boxes: %s"
                          % (cmd, v["clause"], v["n"], _first_bad_query(rec), build[:1200]),
                          tags={"clause": v["clause"], "trace": kind}, files=[path])
        for d in s["dev"]:
            e = devs.setdefault(d["clause"], {"n": 0, "first": None, "path": path})
            e["n"] += d["n"]
            if e["first"] is None:
                e["first"] = _context(path, d["k"])
        for d in s["drift"]:
            e = drift.setdefault(d["clause"], {"n": 0, "first": None})
            e["n"] += d["n"]
            if e["first"] is None:
                e["first"] = _context(path, d["k"])[0][:800]
    for (name, kind, path, args, n) in traces:
        with open(path) as fh:
            for i, line in enumerate(fh):
                records += 1
                if '"e":"Build"' in line:
                    rec = json.loads(line)
                    if rec["ninner"] > 0:
                        distinct_trees.add(json.dumps([rec["boxes"], rec["nodes"], rec["inf"]]))
                    if rec["ninner"] >= 2 and len(samples) < 3 and name.endswith(".0"):
                        samples.append({"kind": "Build (real tree)", "boxes": rec["boxes"], "nodes": rec["nodes"],
                                        "inf": rec["inf"]})
                elif kind == "unit" and i == 40 and len(samples) < 6:
                    samples.append(json.loads(line))
                elif kind == "rand" and i == 5 and len(samples) < 6:
                    rec = json.loads(line)
                    if rec.get("e") == "Find":
                        rec["q"] = rec["q"][:4]
                        samples.append(rec)

    for name, e in devs.items():
        rec, build = e["first"]
        ctx.violation("%d lookups at points lying exactly on a bounding plane of an inner node skip candidate volumes "
                      "whose (face-inclusive) box contains the point (BIHTraverser::visit_edge compares strictly); "
                      "first: %s\n  tree/boxes: %s" % (e["n"], _first_bad_query(rec), build[:1000]),
                      tags={"deviation": name}, files=[e["path"]])
    for name, e in drift.items():
        print("DRIFT property=%s %s: %d builds leave the documented tree shape (not a violation): %s"
              % (ctx.pid, name, e["n"], e["first"]))

    ctx.coverage.update({
        "states": max(1, states), "transitions": max(1, transitions),
        "traces_validated_against_impl": accepted,
        "samples": samples or [{"note": "no sample collected"}],
        "design": design_cov,
        "generated_configurations": nconfigs,
        "exhaustive": True,
        "exhaustive_bounds": {n: c for n, c, s, u in gens},
        "evaluations": tot.get("queries", 0) + tot.get("inits", 0),
        "distinct_nontrivial": len(distinct_trees),
        "rule": "states/transitions = sum over the design runs that must pass (BihMC contract + as coded modulo the named "
                "deviation); evaluations = lookups (point x predicate) + initialisations validated by TLC against the real "
                "code; distinct_nontrivial = distinct real trees (boxes + nodes) with at least one inner node; every "
                "configuration written by TLC (generated_configurations) is replayed, count checked",
        "records": records, "builds": tot.get("builds", 0), "finds": tot.get("finds", 0),
        "lookups": tot.get("queries", 0), "lookups_found": tot.get("found", 0), "predicate_calls": tot.get("calls", 0),
        "inner_nodes": tot.get("inner", 0), "leaves_with_several_volumes": tot.get("multileaf", 0),
        "units": tot.get("units", 0) - tot.get("unitskip", 0), "initialisations": tot.get("inits", 0),
        "init_found": tot.get("initfound", 0), "init_none": tot.get("initnone", 0), "init_background": tot.get("initbg", 0),
        "named_deviation_hits": {k: v["n"] for k, v in devs.items()}, "on_plane_lookups": tot.get("onplane", 0),
        "drift": {k: v["n"] for k, v in drift.items()},
    })
    ctx.assumptions += [
        "reference semantics = spec/Bih.tla; coordinates are half lattice units (exact in float and double)",
        "the harness only observes: stored boxes, stored nodes, inf_volids, the predicate's calls and the result",
        "built with CELERITAS_DEBUG off: the builder's debug-only precondition (no semi-infinite boxes) is not enforced; "
        "semi-infinite boxes are replayed as inputs and must still be located correctly",
        "unit mode: volumes are open boxes bounded by axis-aligned planes (built by the harness as UnitInput), boxes with "
        "zero thickness or null boxes are skipped there; a point on a face of a candidate volume may fail to initialise",
        "small-scope hypothesis for the exhaustive part: <= 4 boxes over <= 4 lattice coordinates in 1-D / <= 3 in 2-D; "
        "the seeded 3-D configurations (<= 12 boxes) go beyond it as exploration",
    ]
