"""X04 (extension) Action registration and the per-step action sequence.

spec/ActionSeq.tla is the reference semantics of ActionRegistry (next_id / insert / find_action /
id_to_label / mutable_actions), ActionGroups (step actions sorted by (order, id), begin-run actions
by id), ActionSequence (begin_run, step, the single-slot skip rule, accum_time, the StatusChecker
hook) and Stepper (begin_run once per state, warm_up), one operator per public call.

  design check   spec/ActionSeqMC.tla: TLC explores the state machine exhaustively within small
                 constants; three variants MUST be refuted (Leak = as coded, F-ACT-1; no sort; timers
                 running during warm-up).
  replay         the same module with Gen = TRUE enumerates EVERY registration sequence within the
                 stated bounds (kinds I/S/B/SB over a set of StepActionOrder values, right / wrong /
                 invalid ids, fresh / empty / duplicate labels, const / mutable pointer, registrations
                 after the sequence was built) and prints each as a scenario with a run schedule;
                 harness/vactionseq.cc executes every scenario on the REAL ActionRegistry +
                 ActionSequence (+ a real CoreParams / CoreState) with recording mock actions;
                 spec/ActionSeqTrace.tla validates every logged call.
  sim            the real Stepper on the hand-built EM problem, mocks registered among the real
                 actions in a seeded order (valid and invalid), StatusChecker / ActionDiagnostic /
                 action_times on or off, 1..16 track slots, one or two streams, warm_up before, inside
                 and after events; validated by the same trace spec.
"""
import concurrent.futures as cf
import json
import os
import random
import re
import time

import vlib

LEVEL = "model_checking"

DEVIATIONS = {
    "RejectedMutableLeak":
        "ActionRegistry::insert of a mutable action (BeginRunActionInterface) that is rejected by insert_impl "
        "(wrong id, empty or duplicate label) has already been appended to mutable_actions_: the registry is not "
        "left unchanged, mutable_actions() returns an unregistered action and ActionSequence::begin_run calls it",
}

DESIGN_INVARIANTS = ["InvNextId", "InvRegistry", "InvSeq", "InvAppendOnly", "InvBeginRun", "InvStep", "InvTimes"]


def _tla_set(vals):
    def one(v):
        if isinstance(v, bool):
            return "TRUE" if v else "FALSE"
        if isinstance(v, str):
            return '"%s"' % v
        return str(v)
    return "{" + ", ".join(one(v) for v in vals) + "}"


def _write_cfg(path, c, gen):
    """c: constants dict."""
    lines = ["SPECIFICATION Spec", "CONSTANTS",
             "  MaxAttempts = %d" % c["MaxAttempts"], "  MaxFaults = %d" % c["MaxFaults"],
             "  Kinds = %s" % _tla_set(c["Kinds"]), "  Orders = %s" % _tla_set(c["Orders"]),
             "  ConstChoices = %s" % _tla_set(c["ConstChoices"]), "  TimesChoices = %s" % _tla_set(c["TimesChoices"]),
             "  MaxSteps = %d" % c.get("MaxSteps", 0), "  LateMax = %d" % c.get("LateMax", 0),
             "  Gen = %s" % ("TRUE" if gen else "FALSE"), "  Leak = %s" % ("TRUE" if c.get("Leak") else "FALSE"),
             "  Sorted = %s" % ("FALSE" if c.get("NoSort") else "TRUE"),
             "  WarmTimes = %s" % ("TRUE" if c.get("WarmTimes") else "FALSE")]
    if gen:
        lines.append("ACTION_CONSTRAINT Emit")
    else:
        lines += ["INVARIANT " + i for i in DESIGN_INVARIANTS]
    lines.append("CHECK_DEADLOCK FALSE")
    with open(path, "w") as fh:
        fh.write("\n".join(lines) + "\n")


_SCEN = re.compile(r'^<<"SCEN", "(.*)">>\s*$')


def _generate(ctx, name, consts):
    """Run TLC in generator mode; returns the list of scenario JSON strings."""
    cfg = ctx.path("gen_%s.cfg" % name)
    _write_cfg(cfg, consts, gen=True)
    r = vlib.tlc("ActionSeqMC", cfg, workers=1, timeout=3000, heap="4g")
    if r.code != 0:
        raise vlib.Broken("scenario generator %s failed (exit %d):\n%s" % (name, r.code, r.out[-3000:]))
    out = []
    for line in r.out.splitlines():
        m = _SCEN.match(line)
        if m:
            s = m.group(1).replace('\\"', '"')
            try:
                json.loads(s)
            except ValueError:
                raise vlib.Broken("unparsable scenario from generator %s: %s" % (name, line[:300]))
            out.append(s)
    if not out:
        raise vlib.Broken("generator %s produced no scenario:\n%s" % (name, r.out[-2000:]))
    return out, r


def _summary(out):
    m = re.search(r'<<"SUMMARY", "(.*)">>', out)
    if not m:
        return None
    return json.loads(m.group(1).replace('\\"', '"'))


def _record(path, n):
    try:
        with open(path) as fh:
            for i, line in enumerate(fh, 1):
                if i == n:
                    return line.strip()
    except OSError:
        pass
    return ""


def _last_record(path):
    last = ""
    try:
        with open(path) as fh:
            for line in fh:
                last = line.strip()
    except OSError:
        pass
    return last[:1500] or "(no record)"


def _scenario_of(path, n, scen):
    """The scenario (from the script) that record n of a replay trace belongs to."""
    k = None
    try:
        with open(path) as fh:
            for i, line in enumerate(fh, 1):
                if i > n:
                    break
                if line.startswith('{"e":"Scenario"'):
                    k = json.loads(line)["k"]
    except OSError:
        return ""
    if k is None or k > len(scen):
        return ""
    return scen[k - 1]


def _validate(ctx, name, path, scen):
    """TLC trace validation of one ndjson file (thread-safe: returns what the main thread has to report)."""
    res = {"name": name, "path": path, "viol": [], "summary": None, "records": 0, "sample": None}
    ok, r = vlib.validate_trace("ActionSeqTrace", "ActionSeqTrace", path, timeout=3000, heap="4g")
    if not ok:
        res["viol"].append(("trace %s rejected by ActionSeqTrace (record out of protocol / Abort / truncated):\n%s"
                            % (name, vlib.rejected_info(r)), {"trace": name, "clause": "X04.Protocol"}, [path]))
        return res
    s = _summary(r.out)
    if s is None:
        raise vlib.Broken("no SUMMARY from ActionSeqTrace on %s:\n%s" % (path, r.out[-2000:]))
    for clause, n in s["viol"]:
        rec = _record(path, n)
        sc = _scenario_of(path, n, scen) if scen else ""
        res["viol"].append(("%s violated in trace %s at record %d:\n  record: %s%s"
                            % (clause, name, n, rec[:1500], ("\n  scenario: " + sc[:1500]) if sc else ""),
                            {"clause": clause, "trace": name}, [path]))
    res["summary"] = s
    res["records"] = r.distinct - 1 if r.distinct else 0
    if scen is None:
        # a sample of a sim trace: its first Step record, shortened
        try:
            with open(path) as fh:
                for line in fh:
                    if line.startswith('{"active"') or '"e":"Step"' in line[:400]:
                        j = json.loads(line)
                        if j.get("e") == "Step":
                            j["calls"] = j["calls"][:4]
                            for k in ("t0", "t1", "b0", "b1"):
                                j[k] = j[k][:6]
                            res["sample"] = {"sim_step_record": j}
                            break
        except (OSError, ValueError):
            pass
    return res


def _merge(ctx, res, totals, samples):
    """Main thread: report what a validation found."""
    for what, tags, files in res["viol"]:
        ctx.violation(what, tags=tags, files=files)
    s = res["summary"]
    if s is None:
        return
    for dname, cnt in s["dev"].items():
        if cnt:
            totals["dev"][dname] = totals["dev"].get(dname, 0) + cnt
            totals["devfiles"].setdefault(dname, res["path"])
    for k, v in s["stat"].items():
        if isinstance(v, int):
            totals["stat"][k] = totals["stat"].get(k, 0) + v
        else:
            totals["stat"].setdefault(k + "_values", set()).add(v)
    totals["traces"] += 1
    totals["records"] += res["records"]
    if res["sample"] and len(samples) < 2:
        samples.append(res["sample"])


def _sim_matrix(ctx):
    """(args) of the sim runs: fixed corner cases + seeded ones."""
    rnd = random.Random(ctx.seed * 7 + 3)
    base = [
        dict(slots=4, status=1, times=1, diag=1, streams=2, order="none"),
        dict(slots=1, status=1, times=1, diag=1, streams=2, order="none"),
        dict(slots=1, status=0, times=0, diag=0, streams=1, order="reindex_both_action"),
        dict(slots=16, status=0, times=1, diag=1, streams=2, order="init_charge", mocks=20),
        dict(slots=2, status=1, times=0, diag=1, streams=1, order="reindex_status", mocks=14),
        dict(slots=1, status=1, times=1, diag=0, streams=1, order="init_charge", faults=0),
    ]
    n_extra = 0 if ctx.quick else 18
    for _ in range(n_extra):
        base.append(dict(slots=rnd.choice([1, 1, 2, 3, 8, 32]), status=rnd.choice([0, 1, 1]), times=rnd.choice([0, 1, 1]),
                         diag=rnd.choice([0, 1]), streams=rnd.choice([1, 2]),
                         order=rnd.choice(["none", "init_charge", "reindex_status", "reindex_both_action"]),
                         mocks=rnd.choice([6, 10, 16, 24]), events=rnd.choice([2, 3, 4]), prims=rnd.choice([1, 2, 4])))
    out = []
    for i, b in enumerate(base):
        b = dict(b)
        b["seed"] = (ctx.seed * 131 + i * 17) % 1000003 + 1
        b.setdefault("events", 3)
        b.setdefault("prims", 2)
        out.append(b)
    return out


def _run_sims(ctx):
    path = ctx.path("sim_all.ndjson")
    runs = _sim_matrix(ctx)
    pending = []
    with open(path, "w") as allf:
        for i, b in enumerate(runs):
            p = ctx.path("sim_%d.ndjson" % i)
            args = ["sim", p] + ["%s=%s" % kv for kv in sorted(b.items())]
            r = vlib.run_harness("vactionseq", args, timeout=600, check=False)
            if r.returncode != 0:
                if r.returncode in (2, 3):
                    raise vlib.Broken("vactionseq %s failed to set up (exit %d):\n%s"
                                      % (" ".join(map(str, args)), r.returncode, (r.stderr or "")[-2000:]))
                pending.append(("vactionseq %s died (exit %d) inside the real stepping loop:\n%s"
                                % (" ".join(map(str, args[2:])), r.returncode, (r.stderr or "")[-1500:]),
                                {"clause": "X04.Protocol", "trace": "sim_%d" % i}, [p]))
                continue
            with open(p) as fh:
                allf.write(fh.read())
    res = _validate(ctx, "sim_all", path, None)
    res["viol"] = pending + res["viol"]
    return len(runs), res


def _design(ctx, name, consts, expect, workers, coverage=False):
    cfg = ctx.path("mc_%s.cfg" % name)
    _write_cfg(cfg, consts, gen=False)
    r = vlib.tlc("ActionSeqMC", cfg, workers=workers, timeout=3000, heap="6g", coverage=coverage)
    names = r.violated_names()
    res = {"constants": {k: (sorted(v) if isinstance(v, (list, set, tuple)) else v) for k, v in consts.items()},
           "distinct": r.distinct, "generated": r.generated, "exit": r.code, "expected": expect or "ok",
           "violated": names, "wall_s": round(r.wall, 1)}
    if expect is None:
        if r.code != 0:
            if r.violated:
                raise vlib.Broken("design check %s: the specification violates its own invariant %s:\n%s"
                                  % (name, names, r.out[-3000:]))
            raise vlib.Broken("design check %s failed (exit %d):\n%s" % (name, r.code, r.out[-3000:]))
    else:
        if r.code == 0 or not any(n in expect for n in names):
            raise vlib.Broken("design variant %s must be refuted by %s but TLC said exit %d, violated %s"
                              % (name, expect, r.code, names))
    if coverage:
        res["action_coverage"] = {k: v for k, v in r.coverage.items() if k in ("Init", "MInsert", "MBuild", "MBeginRun", "MStep")}
        never = [a for a in ("MInsert", "MBuild", "MBeginRun", "MStep") if not r.coverage.get(a)]
        if never:
            raise vlib.Broken("design check %s: actions never taken: %s" % (name, never))
    return res


def run(ctx):
    vlib.build(["vactionseq"])
    q = ctx.quick
    rnd = random.Random(ctx.seed)
    post = 11
    others = [o for o in range(14) if o != post]
    all_kinds = ["I", "S", "B", "SB"]

    # ---- what is enumerated -------------------------------------------------------------
    gens = []
    if q:
        gens.append(("orders", dict(MaxAttempts=4, MaxFaults=0, Kinds=all_kinds, Orders=[post] + rnd.sample(others, 2),
                                    ConstChoices=[False], TimesChoices=[True], LateMax=1)))
        gens.append(("faults", dict(MaxAttempts=3, MaxFaults=1, Kinds=["I", "B", "SB"], Orders=[post],
                                    ConstChoices=[False, True], TimesChoices=[True], LateMax=0)))
        gens.append(("notimes", dict(MaxAttempts=2, MaxFaults=0, Kinds=all_kinds, Orders=[post] + rnd.sample(others, 2),
                                     ConstChoices=[False], TimesChoices=[False], LateMax=2)))
    else:
        gens.append(("orders4", dict(MaxAttempts=4, MaxFaults=0, Kinds=all_kinds, Orders=[post] + rnd.sample(others, 4),
                                     ConstChoices=[False], TimesChoices=[True], LateMax=1)))
        gens.append(("allorders", dict(MaxAttempts=3, MaxFaults=0, Kinds=all_kinds, Orders=list(range(14)),
                                       ConstChoices=[False], TimesChoices=[True], LateMax=0)))
        gens.append(("faults1", dict(MaxAttempts=3, MaxFaults=1, Kinds=all_kinds, Orders=[post],
                                     ConstChoices=[False, True], TimesChoices=[True], LateMax=1)))
        gens.append(("faults2", dict(MaxAttempts=3, MaxFaults=2, Kinds=["I", "B", "SB"], Orders=[rnd.choice(others)],
                                     ConstChoices=[False, True], TimesChoices=[True], LateMax=0)))
        gens.append(("notimes", dict(MaxAttempts=3, MaxFaults=0, Kinds=all_kinds, Orders=[post] + rnd.sample(others, 2),
                                     ConstChoices=[False], TimesChoices=[False], LateMax=2)))

    totals = {"dev": {}, "devfiles": {}, "stat": {}, "traces": 0, "records": 0}
    samples = []
    t0 = time.time()

    # ---- design constants ------------------------------------------------------------------
    if q:
        contract = dict(MaxAttempts=3, MaxFaults=1, Kinds=all_kinds, Orders=[4, post], ConstChoices=[False, True],
                        TimesChoices=[False, True], MaxSteps=2, LateMax=3)
    else:
        contract = dict(MaxAttempts=3, MaxFaults=2, Kinds=all_kinds, Orders=[4, post, 13], ConstChoices=[False, True],
                        TimesChoices=[False, True], MaxSteps=2, LateMax=3)
    small = dict(contract, MaxAttempts=2 if q else 3, MaxFaults=1, Orders=[4, post])
    variants = [("ascoded", dict(small, Leak=True), ["InvRegistry", "InvSeq", "InvBeginRun"]),
                ("nosort", dict(small, MaxAttempts=3, NoSort=True), ["InvSeq"]),
                ("warmtimes", dict(small, WarmTimes=True), ["InvTimes"])]
    design = {}

    # ---- phase 1: scenario generators, the sim runs and the design variants that must be
    #      refuted (1 TLC worker each), <= 4 at a time -----------------------------------------
    with cf.ThreadPoolExecutor(max_workers=4) as ex:
        gfut = [(name, c, ex.submit(_generate, ctx, name, c))
                for name, c in sorted(gens, key=lambda g: -g[1]["MaxAttempts"] * (1 + 3 * g[1]["MaxFaults"]))]
        sfut = ex.submit(_run_sims, ctx)
        vfut = [(name, ex.submit(_design, ctx, name, c, expect, 1)) for name, c, expect in variants]
        scen = []
        gen_info = {}
        for name, c, f in gfut:
            s, r = f.result()
            gen_info[name] = {"constants": c, "scenarios": len(s), "states": r.distinct, "wall_s": round(r.wall, 1)}
            scen += s
        nsims, simres = sfut.result()
        for name, f in vfut:
            design[name] = f.result()
    _merge(ctx, simres, totals, samples)
    t_gen = time.time() - t0

    # ---- phase 2: replay every scenario on the real classes, validate every record -------
    distinct = sorted(set(scen))
    nshard = 4
    shards = vlib.shards(distinct, nshard)
    jobs = []
    for i, sh in enumerate(shards):
        sp = ctx.path("scen_%d.ndjson" % i)
        with open(sp, "w") as fh:
            fh.write("\n".join(sh) + "\n")
        tp = ctx.path("replay_%d.ndjson" % i)
        r = vlib.run_harness("vactionseq", ["replay", sp, tp], timeout=1200, check=False)
        if r.returncode != 0:
            if r.returncode in (2, 3):
                raise vlib.Broken("vactionseq replay failed to set up (exit %d):\n%s" % (r.returncode, (r.stderr or "")[-2000:]))
            ctx.violation("vactionseq replay of %s died (exit %d): a scenario crashed the real registry / sequence\n"
                          "  last record: %s\n%s" % (sp, r.returncode, _last_record(tp), (r.stderr or "")[-1500:]),
                          tags={"clause": "X04.Protocol", "trace": "replay_%d" % i}, files=[sp, tp])
            continue
        jobs.append(("replay_%d" % i, tp, sh))
    t1 = time.time()
    with cf.ThreadPoolExecutor(max_workers=4) as ex:
        futs = [ex.submit(_validate, ctx, name, tp, sh) for name, tp, sh in jobs]
        for f in futs:
            _merge(ctx, f.result(), totals, samples)
    t_val = time.time() - t1

    # ---- phase 3: the design check proper (exhaustive within the stated constants) ---------
    t2 = time.time()
    design["contract"] = _design(ctx, "contract", contract, None, 4, not q)
    t_design = time.time() - t2

    # ---- deviations (known findings are matched by ctx.violation) -----------------------
    for dname, cnt in sorted(totals["dev"].items()):
        ctx.violation("%d registrations: %s" % (cnt, DEVIATIONS.get(dname, dname)),
                      tags={"deviation": dname}, files=[totals["devfiles"].get(dname)])

    stat = {k: (sorted(v) if isinstance(v, set) else v) for k, v in totals["stat"].items()}
    if not stat.get("steps") or not stat.get("rejected") or not stat.get("skipped") or not stat.get("prevchecked") \
            or not stat.get("warmups") or not stat.get("refused"):
        if not ctx.violations:
            raise vlib.Broken("vacuous run: some kind of call was never exercised: %s" % stat)
    nontrivial = sum(1 for s in distinct if s.count('"op":"Insert"') >= 1)
    samples.insert(0, {"replay_scenario": json.loads(distinct[len(distinct) // 2])})
    ctx.coverage.update({
        "states": design["contract"]["distinct"], "transitions": design["contract"]["generated"],
        "traces_validated_against_impl": totals["traces"],
        "evaluations": len(scen) + nsims, "distinct_nontrivial": nontrivial,
        "rule": "evaluations = scenarios printed by the TLC generators (every registration sequence within the "
                "constants of coverage.generators, each with its run schedule) + sim runs; distinct_nontrivial = "
                "distinct scenario texts with at least one registration; every scenario is executed on the real "
                "ActionRegistry/ActionSequence and every logged call is validated by ActionSeqTrace",
        "samples": samples, "exhaustive": True,
        "generators": gen_info, "design": design, "records": totals["records"], "calls": stat,
        "sim_runs": nsims, "named_deviation_hits": sum(totals["dev"].values()),
        "named_deviations": totals["dev"],
        "phase_wall_s": {"generate+sim": round(t_gen, 1), "replay+validate": round(t_val, 1), "design": round(t_design, 1)},
    })
    ctx.assumptions += [
        "reference semantics = spec/ActionSeq.tla (written from the headers' documentation and ActionSequence.cc's comment on "
        "the single-slot rule); StepActionOrder has 14 values with post = 11 (checked against the build in every trace)",
        "built with CELERITAS_DEBUG off: inserting a null pointer is an unchecked precondition; it is probed in a child "
        "process and must never end up registered (observed outcome is in coverage.calls.nullinsert_values)",
        "mock actions derive from the real CoreStepActionInterface / CoreBeginRunActionInterface and record their calls; they "
        "busy-wait 1.5 us so that an executed, timed action must show a strictly larger accumulator; celeritas::Stopwatch reads "
        "std::chrono::high_resolution_clock (system_clock with libstdc++): the wall clock is assumed not to be stepped back "
        "during a run",
        "in sim runs real actions are observed only through the registry accessors, ActionSequence::actions(), accum_time() "
        "and, with the StatusChecker on, through its 'last executed action' seen by the next mock",
        "small-scope hypothesis for the exhaustive part: <= 4 registrations (<= 3 with faults) over 3-4 order values "
        "(thorough: 3 registrations over all 14) exhibit every case distinction of insert / sort / skip / timing",
    ]
