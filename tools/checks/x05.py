"""X05 (extension) Soft de-duplication of surfaces while a unit is being built returns a canonical
representative and does not depend on hash-bin boundaries.

spec/SurfDedupe.tla is the reference: surfaces <t, k> with ONE characteristic length in integer quanta
(q = abs/4; axis-aligned planes, centred spheres / cylinders), SoftEqual's strict comparison
|a-b| < max(abs, rel*max(|a|,|b|)) as an integer predicate, the algorithm (three documented cases
Exact / Near / Unique; Variant "ref" hash-free, "coded" with the SurfaceGridHash bins as integers,
"mut_*" wrong variants) and the named clauses over the call history (VectorOnlyGrows, IdInRange,
ExactNoGrow, ExactSameId, GrowsUnlessExact, SameType, OwnRepresentative, ChainConnected, RepOfNear,
FreshIfUnique, MergeIfNear, ChoiceNewestNear; TranslationInvariant between bases).

1. DESIGN (spec/SurfDedupeMC.tla, no code): TLC enumerates every insertion sequence of <= MaxLen
   surfaces over 12-13 symbols (two types) for every base offset (bin edge at different places):
   "ref" satisfies every clause; "coded" with reach >= tolerance (length scale 1, abs regime) equals
   Ref for every base; "coded" with reach < tolerance (length scale 100; or 16 length units from the
   origin where the relative tolerance governs) is REFUTED (finding F-DEDUPE-1 at design level) and
   passes modulo the exactly scoped deviation GridHashMiss; seven wrong variants MUST be refuted.
2. BINDING (exhaustive replay on the real class + trace validation): harness/vsurfdedupe.cc runs
   EVERY sequence of exactly N symbols (every shorter sequence is a prefix; ids and sizes are logged
   after every call) on a fresh REAL LocalSurfaceInserter once per base, the bases shifting the
   lattice across a hash-bin edge; spec/SurfDedupeTrace.tla checks that the enumeration is complete
   and in order, compares every run with Ref, evaluates the clauses, and compares runs at different
   bases (TranslationInvariant).  Seeded longer sequences (three types, random bases and shifts) and
   real units (UnitProto::build: boxes whose faces differ by less than / exactly / more than the
   tolerance) go beyond the small scope: the unit's surfaces and the ids used by every volume must
   be what the spec says.
"""
import json
import os
import random
import re
from fractions import Fraction

import vlib

LEVEL = "model_checking"

JAVA_OPTS = {"JAVA_TOOL_OPTIONS": "-XX:CICompilerCount=2"}


# --------------------------------------------------------------------------- tolerance families
def _dy(me):
    return Fraction(me[0]) * Fraction(2) ** me[1]


def _family(rel, abs_, q):
    """Integer facts of a tolerance (all dyadic): the spec's grid record, derived -- not assumed --
    from the way LocalSurfaceInserter constructs its SurfaceGridHash."""
    r, a, qq = _dy(rel), _dy(abs_), _dy(q)
    length = a / r                                  # calc_length_scale
    width = Fraction(1, 100) * length               # bin_width_frac() * length
    if abs(float(width) - 0.01 * float(length)) > 1e-15 * float(width):
        raise vlib.Broken("bin width model off")
    eps = 2 * r                                     # SurfaceGridHash(grid_scale, 2 * tol.rel)
    W, E, A, R = width / qq, eps / qq, a / qq, 1 / r
    if A.denominator != 1 or R.denominator != 1:
        raise vlib.Broken("tolerance is not an integer number of quanta")
    return {"rel": rel, "abs": abs_, "q": q,
            "spec": {"R": int(R), "A": int(A), "Wn": W.numerator, "Wd": W.denominator,
                     "En": E.numerator, "Ed": E.denominator}}


FAM = {
    # Tolerance{rel = 2^-12, abs = 2^-12} (length scale 1, like from_default): reach 8 quanta
    "L1": _family([1, -12], [1, -12], [1, -14]),
    # Tolerance{rel = 2^-12, abs = 100 * 2^-12} (length scale 100): reach 0.08 quanta
    "L100": _family([1, -12], [25, -10], [25, -12]),
    # Tolerance{rel = 2^-12, abs = 2^-15} (length scale 1/8, like g4org's millimetre): reach 64 quanta
    "L8": _family([1, -12], [1, -15], [1, -17]),
}


def _edge_distance(spec, K):
    """Smallest distance (quanta) of K, K-eps, K+eps to a bin edge."""
    W = Fraction(spec["Wn"], spec["Wd"])
    e = Fraction(spec["En"], spec["Ed"])
    best = None
    for s in (-1, 0, 1):
        x = (K + s * e + W / 2) / W
        d = min(x - (x.numerator // x.denominator), (x.numerator // x.denominator) + 1 - x) * W
        best = d if best is None else min(best, d)
    return best


def _off_edges(spec, Ks):
    return all(_edge_distance(spec, K) > Fraction(1, 1000) for K in Ks)


ALPHA_ABS = [[0, k] for k in (0, 1, 2, 3, 4, 6, 7, 9, 12)] + [[1, k] for k in (0, 3, 4)]
ALPHA_REL = [[0, 16 * k] for k in (0, 1, 2, 3, 4, 5, 6, 8, 9, 12)] + [[1, 16 * k] for k in (0, 4, 5)]
BASES_ABS = [0, 234, 239, 242, 244]      # bin edge at 245.76 quanta falls inside the position range
BASES_REL = [262100, 262070]             # ~16 length units: tolerance 64 quanta, edge at 262225.92


def _mc_consts(alpha, step):
    a = sorted(k // step for t, k in alpha if t == 0)
    b = sorted(k // step for t, k in alpha if t == 1)
    return {"PosA": "{%s}" % ", ".join(map(str, a)), "PosB": "{%s}" % ", ".join(map(str, b)), "Step": step}


def _cfg(ctx, base, name, consts):
    with open(os.path.join(vlib.SPEC, base + ".cfg")) as fh:
        txt = fh.read()
    for k, v in consts.items():
        txt, n = re.subn(r"(?m)^(\s*%s\s*=\s*).*$" % re.escape(k), lambda m: m.group(1) + str(v), txt)
        if n != 1:
            raise vlib.Broken("constant %s not found in %s.cfg" % (k, base))
    path = ctx.path(name + ".cfg")
    with open(path, "w") as fh:
        fh.write(txt)
    return path


def _design_jobs(q):
    """(name, base cfg, constants, expected: 'ok' or the invariant that MUST be violated, coverage?)"""
    n = 4 if q else 5
    m = 3 if q else 4
    fam1, fam100 = FAM["L1"]["spec"], FAM["L100"]["spec"]
    g1 = {k: fam1[k] for k in ("R", "A", "Wn", "Wd", "En", "Ed")}
    g100 = {k: fam100[k] for k in ("R", "A", "Wn", "Wd", "En", "Ed")}
    bases = "{%s}" % ", ".join(map(str, BASES_ABS))
    rbases = "{%s}" % ", ".join(map(str, BASES_REL))
    jobs = [
        ("ref", "SurfDedupeMC", dict(g1, MaxLen=n, **_mc_consts(ALPHA_ABS, 1)), "ok", False),
        ("coded", "SurfDedupeMC_coded", dict(g1, MaxLen=m, Bases=bases, **_mc_consts(ALPHA_ABS, 1)), "ok", False),
        ("cov", "SurfDedupeMC_coded", dict(g1, MaxLen=2, Bases=bases, **_mc_consts(ALPHA_ABS, 1)), "ok", True),
        ("ascoded", "SurfDedupeMC_ascoded", dict(g100, MaxLen=m, Bases=bases, **_mc_consts(ALPHA_ABS, 1)), "ok", False),
        ("f1", "SurfDedupeMC_f1", dict(g100, MaxLen=3, Bases=bases, **_mc_consts(ALPHA_ABS, 1)), "ClausesHold", False),
        ("rel", "SurfDedupeMC_rel", dict(g1, MaxLen=m, Bases=rbases, **_mc_consts(ALPHA_REL, 16)), "ok", False),
    ]
    muts = ("noresolve", "nochain", "exactgrows", "exactret", "oldest", "le", "notype")
    for mut in (muts[0], muts[3], muts[4]) if q else muts:
        jobs.append(("mut_" + mut, "SurfDedupeMC_mut_" + mut, dict(g1, MaxLen=3), "ClausesHold", False))
    return jobs


# --------------------------------------------------------------------------- harness inputs
def _enum_cfgs(name, fam, alpha, bases, length, nshard, fast):
    A = len(alpha)
    total = A ** length
    out = []
    per = (total + nshard - 1) // nshard
    first = 0
    while first < total:
        cnt = min(per, total - first)
        out.append(dict(FAM[fam], name="%s.%d" % (name, len(out)), mode="enum", types=["px", "sc"], bases=bases,
                        alpha=alpha, len=length, first=first, count=cnt, _fast=fast, _total=total))
        first += cnt
    return out


def _rand_lists(seed, n, tier_long):
    """Seeded longer sequences over three types; every sequence is run at its base and at shifted bases."""
    rng = random.Random(seed)
    out = []
    plans = [("L1", 1, (0, 16000)), ("L1", 16, (262144 - 3000, 262144 + 3000)), ("L100", 1, (0, 3000)),
             ("L8", 1, (0, 16000)), ("L8", 64, (2 ** 20, 2 ** 20 + 8000)), ("L1", 1, (-300, 300))]
    for pi, (fam, step, (lo, hi)) in enumerate(plans):
        spec = FAM[fam]["spec"]
        groups = max(1, n // (len(plans) * 20))
        for g in range(groups):
            span = 14
            while True:
                b0 = rng.randrange(lo, hi)
                shifts = [0] + [rng.randrange(1, 170) * step for _ in range(2)]
                bases = [b0 + s for s in shifts]
                Ks = [b + step * k for b in bases for k in range(span + 1)]
                # centred spheres / cylinders need positive radii
                if _off_edges(spec, Ks) and (min(Ks) > 0 or pi == 5):
                    break
            ntypes = 1 if pi == 5 else 3          # planes only around the origin (negative positions)
            seqs = []
            for _ in range(20):
                ln = rng.randrange(5, 13 if tier_long else 10)
                centre = rng.randrange(0, span + 1)
                seq = []
                for _ in range(ln):
                    k = min(span, max(0, centre + rng.randrange(-5, 6))) if rng.random() < 0.8 else rng.randrange(0, span + 1)
                    seq.append([rng.randrange(ntypes), step * k])
                seqs.append(seq)
            out.append(dict(FAM[fam], name="rand.%d.%d" % (pi, g), mode="list", types=["px", "sc", "czc"],
                            bases=bases, seqs=seqs, _fast=False))
    return out


def _unit_cfgs(seed, n):
    """Boxes inside a sphere; the second / third box repeats faces of the first shifted by
    0, 1, 3 (< tolerance), 4 (= tolerance: not soft-equal), 5 quanta, or is unrelated."""
    rng = random.Random(seed * 7 + 1)
    out = []
    for fam, centre, step, R in (("L1", 200, 1, 1 << 15), ("L100", 246, 1, 1 << 12), ("L1", 262226, 16, 1 << 20)):
        spec = FAM[fam]["spec"]
        units = []
        tries = 0
        while len(units) < n and tries < 100 * n:
            tries += 1
            lo0 = [centre - step * rng.randrange(10, 20) for _ in range(3)]
            hi0 = [centre + step * rng.randrange(10, 20) for _ in range(3)]
            boxes = [[[lo0[a], hi0[a]] for a in range(3)]]
            for _ in range(rng.randrange(1, 3)):
                b = []
                for a in range(3):
                    ref = boxes[rng.randrange(len(boxes))][a]
                    mode = rng.randrange(4)
                    d = [step * rng.choice((-5, -4, -3, -1, 0, 1, 3, 4, 5)) for _ in range(2)]
                    if mode == 0:      # same slab, faces jittered
                        lo, hi = ref[0] + d[0], ref[1] + d[1]
                    elif mode == 1:    # adjacent slab above: shares (nearly) the upper face
                        lo, hi = ref[1] + d[0], ref[1] + step * rng.randrange(12, 24)
                    elif mode == 2:    # adjacent slab below
                        lo, hi = ref[0] - step * rng.randrange(12, 24), ref[0] + d[1]
                    else:
                        lo = centre + step * rng.randrange(-30, 10)
                        hi = lo + step * rng.randrange(9, 30)
                    b.append([lo, hi])
                boxes.append(b)
            Ks = [v for b in boxes for ax in b for v in ax]
            ok = all(abs(v) >= 8 for v in Ks) and all(ax[1] - ax[0] >= 8 * step for b in boxes for ax in b)
            ok = ok and all((ax[0] + ax[1]) % 2 == 0 or True for b in boxes for ax in b)
            if ok and _off_edges(spec, Ks):
                units.append({"R": R, "boxes": boxes})
        out.append(dict(FAM[fam], name="unit.%s.%d" % (fam, centre), mode="unit", types=["px", "sc"], bases=[0],
                        units=units, _fast=False))
    return out


def _summary(out):
    m = re.search(r'<<"SUMMARY", "(.*)">>', out)
    if not m:
        return None
    return json.loads(m.group(1).replace('\\"', '"'))


def _record(path, k):
    try:
        with open(path) as fh:
            for i, line in enumerate(fh, 1):
                if i == k:
                    return line.strip()
    except OSError:
        pass
    return ""


def _describe(cfg, rec):
    """Human-readable input of a Seq / Unit record (the spec decides; this is only the report)."""
    try:
        r = json.loads(rec)
    except ValueError:
        return rec[:500]
    if r.get("e") == "Seq":
        seq = [cfg["alpha"][d] for d in r["d"]] if "d" in r else r["s"]
        q = float(_dy(cfg["q"]))
        runs = []
        for b, run in zip(cfg["bases"], r["runs"]):
            runs.append("base %d: surfaces %s -> ids %s sizes %s" % (
                b, ["%s{%.17g}" % (cfg["types"][t], (b + k) * q) for t, k in seq], run["ids"], run["sz"]))
        return "tol{rel=%.17g, abs=%.17g}; sequence (type, quanta) %s; %s" % (
            float(_dy(cfg["rel"])), float(_dy(cfg["abs"])), seq, "; ".join(runs))
    return rec[:1200]


def run(ctx):
    vlib.build(["vsurfdedupe"])
    q = ctx.quick
    seed = ctx.seed % 1000003

    # ------------------------------------------------------------------ harness runs (the real code)
    cfgs = []
    if q:
        cfgs += _enum_cfgs("abs4", "L1", ALPHA_ABS, [BASES_ABS[0], BASES_ABS[2], BASES_ABS[4]], 4, 4, True)
        cfgs += _enum_cfgs("abs3", "L1", ALPHA_ABS, BASES_ABS, 3, 1, False)
        cfgs += _enum_cfgs("l100", "L100", ALPHA_ABS, BASES_ABS, 3, 1, False)
        cfgs += _enum_cfgs("rel3", "L1", ALPHA_REL, BASES_REL, 3, 1, False)
        cfgs += _rand_lists(seed, 120, False)
        cfgs += _unit_cfgs(seed, 12)
    else:
        cfgs += _enum_cfgs("abs5", "L1", ALPHA_ABS, [BASES_ABS[0], BASES_ABS[2], BASES_ABS[4]], 5, 12, True)
        cfgs += _enum_cfgs("abs4", "L1", ALPHA_ABS, BASES_ABS, 4, 2, False)
        cfgs += _enum_cfgs("l100", "L100", ALPHA_ABS, BASES_ABS, 4, 2, False)
        cfgs += _enum_cfgs("rel4", "L1", ALPHA_REL, BASES_REL, 4, 2, False)
        cfgs += _rand_lists(seed, 1200, True)
        cfgs += _unit_cfgs(seed, 120)
    for c in cfgs:
        Ks = []
        if c["mode"] == "enum":
            Ks = [b + k for b in c["bases"] for t, k in c["alpha"]]
        elif c["mode"] == "list":
            Ks = [b + k for b in c["bases"] for s in c["seqs"] for t, k in s]
        if not _off_edges(c["spec"], Ks):
            raise vlib.Broken("generator produced a lattice point on a hash-bin edge (%s)" % c["name"])

    traces = []
    for c in cfgs:
        cp = ctx.path(c["name"] + ".cfg.json")
        with open(cp, "w") as fh:
            json.dump({k: v for k, v in c.items() if not k.startswith("_")}, fh)
        out = ctx.path(c["name"] + ".ndjson")
        r = vlib.run_harness("vsurfdedupe", ["run", cp, out], timeout=1500, check=False)
        if r.returncode != 0:
            # a crash of the code under test is an observed event: the trace ends with an Abort record
            try:
                with open(out, "rb") as fh:
                    data = fh.read()
            except OSError:
                data = b""
            if data and not data.endswith(b"\n"):
                data = data[:data.rfind(b"\n") + 1]
            if b'"e":"Abort"' not in data[-1000:]:
                data += (json.dumps({"e": "Abort", "what": "vsurfdedupe exit code %d" % r.returncode,
                                     "stderr": (r.stderr or "")[-300:]}, separators=(",", ":")) + "\n").encode()
            with open(out, "wb") as fh:
                fh.write(data)
        traces.append((c, out))

    # concatenate the small runs (Config ... Close Config ... Close) per FAST flag: one JVM each
    groups = []   # {"path", "fast", "parts": [(cfg, first line, last line)]}
    small = {}
    for c, out in traces:
        if c["mode"] == "enum" and c["_total"] > 5000:
            with open(out) as fh:
                nl = sum(1 for _ in fh)
            groups.append({"path": out, "fast": c["_fast"], "parts": [(c, 1, nl)], "size": os.path.getsize(out)})
        else:
            key = (c["mode"], c["_fast"], c["name"].split(".")[0])
            if key not in small:
                small[key] = {"path": ctx.path("cat_%s_%s.ndjson" % (key[0], key[2])), "fast": key[1], "parts": [],
                              "size": 0, "n": 0, "txt": []}
            g = small[key]
            with open(out) as fh:
                txt = fh.read()
            nl = txt.count("\n")
            g["parts"].append((c, g["n"] + 1, g["n"] + nl))
            g["n"] += nl
            g["size"] += len(txt)
            g["txt"].append(txt)
    for g in small.values():
        with open(g["path"], "w") as fh:
            fh.write("".join(g.pop("txt")))
        groups.append(g)
    groups.sort(key=lambda g: -g["size"])

    # ------------------------------------------------------------------ TLC: traces + design, <= 4 at a time
    # X05_SKIP_DESIGN=1 (binding demonstrations only): the design runs involve no code
    design = [] if os.environ.get("X05_SKIP_DESIGN") == "1" else _design_jobs(q)
    tj = []
    for g in groups:
        e = dict(JAVA_OPTS)
        e["TRACE"] = g["path"]
        if g["fast"]:
            e["FAST"] = "1"
        tj.append(dict(module="SurfDedupeTrace", cfg="SurfDedupeTrace", workers=1, env=e, timeout=6000, heap="5g"))
    for name, base, consts, expect, cov in design:
        cfg = _cfg(ctx, base, "mc_" + name, consts)
        tj.append(dict(module="SurfDedupeMC", cfg=cfg, workers=1, env=JAVA_OPTS, timeout=6000, heap="5g", coverage=cov))
    res = vlib.tlc_parallel(tj, maxpar=4)
    trace_res = res[:len(groups)]
    design_res = res[len(groups):]
    vlib.log("TLC wall: traces " + " ".join("%.0fs" % r.wall for r in trace_res)
             + " | design " + " ".join("%s=%.0fs" % (d[0], r.wall) for d, r in zip(design, design_res)))

    # ------------------------------------------------------------------ design outcome
    states = transitions = 0
    design_cov = {}
    for (name, base, consts, expect, cov), r in zip(design, design_res):
        design_cov[name] = {"cfg": base, "constants": {k: consts[k] for k in consts if k in ("MaxLen", "Bases", "En", "Ed", "Step")},
                            "distinct": r.distinct, "generated": r.generated, "expected": expect, "exit": r.code}
        if expect == "ok":
            if r.code != 0:
                if r.violated:
                    ctx.violation("design model %s (%s) violates %s:\n%s" % (name, base, r.violated_names(), r.out[-2500:]),
                                  tags={"design": name})
                    continue
                raise vlib.Broken("TLC failed on design run %s: exit %d\n%s" % (name, r.code, r.out[-3000:]))
            states += r.distinct
            transitions += r.generated
            if cov:
                acts = {a: n for a, n in r.coverage.items() if a in ("Construct", "InsertExact", "InsertNear", "InsertUnique")}
                design_cov[name]["actions"] = acts
                if len(acts) < 4 or min(acts.values()) == 0:
                    raise vlib.Broken("design run %s: an action was never taken: %s" % (name, acts))
        else:
            if not (r.violated and expect in r.violated_names()):
                raise vlib.Broken("vacuity guard %s (%s) was not refuted by %s: exit %d\n%s"
                                  % (name, base, expect, r.code, r.out[-2000:]))
            m = re.findall(r'/\\ viol = (\{[^}]*\})', r.out)
            design_cov[name]["refuting_clauses"] = m[-1] if m else "?"

    # ------------------------------------------------------------------ traces
    tot = {}
    accepted = 0
    devs = {}
    samples = []
    enum_seen = {}
    for g, r in zip(groups, trace_res):
        path = g["path"]

        def origin(k):
            for c, lo, hi in g["parts"]:
                if lo <= k <= hi:
                    return c
            return g["parts"][0][0]

        names = ",".join(c["name"] for c, lo, hi in g["parts"])
        if r.code != 0:
            if "REJECTED" in r.out or r.violated:
                m = re.search(r'<<\s*"REJECTED",\s*(\d+)', r.out)
                c = origin(int(m.group(1))) if m else g["parts"][0][0]
                ctx.violation("trace of vsurfdedupe run %s.cfg.json rejected by SurfDedupeTrace: %s"
                              % (c["name"], vlib.rejected_info(r)), tags={"trace": c["mode"]}, files=[path])
                continue
            raise vlib.Broken("TLC failed on traces %s: exit %d\n%s" % (names, r.code, r.out[-3000:]))
        s = _summary(r.out)
        if s is None:
            raise vlib.Broken("no SUMMARY from SurfDedupeTrace on %s:\n%s" % (names, r.out[-2000:]))
        accepted += len(g["parts"])
        for k, v in s["stat"].items():
            tot[k] = tot.get(k, 0) + v
        for c, lo, hi in g["parts"]:
            if c["mode"] == "enum":
                key = c["name"].split(".")[0]
                enum_seen[key] = enum_seen.get(key, 0) + c["count"]
        for v in s["viol"]:
            c = origin(v["k"])
            ctx.violation("vsurfdedupe run %s.cfg.json: clause %s violated by the real code (first at record %d; %d records "
                          "in this batch)\n  %s" % (c["name"], v["clause"], v["k"], v["n"], _describe(c, _record(path, v["k"]))),
                          tags={"clause": v["clause"], "trace": c["mode"]}, files=[path])
        for d in s["dev"]:
            e = devs.setdefault(d["clause"], {"n": 0, "first": None, "path": path})
            e["n"] += d["n"]
            if e["first"] is None:
                c = origin(d["k"])
                e["first"] = _describe(c, _record(path, d["k"]))
        if len(samples) < 5:
            c0 = g["parts"][0][0]
            rec = _record(path, 3)
            if rec:
                samples.append({"run": c0["name"], "record": json.loads(rec)})
    # glue: every shard of every enumeration was validated (completeness inside a shard is TLC's Digits check)
    for c in cfgs:
        if c["mode"] == "enum":
            key = c["name"].split(".")[0]
            if enum_seen.get(key) is not None and enum_seen[key] != c["_total"] and not ctx.violations:
                raise vlib.Broken("enumeration %s: %d of %d sequences validated" % (key, enum_seen[key], c["_total"]))

    for name, e in devs.items():
        ctx.violation("%d records: soft-equal surfaces on either side of a hash-bin edge are not merged / a different "
                      "representative is chosen because the grid-hash reach (2*rel, absolute) is smaller than the "
                      "soft-equality tolerance max(abs, rel*|x|); results equal the as-coded model.  first: %s"
                      % (e["n"], e["first"]), tags={"deviation": name}, files=[e["path"]])

    ctx.coverage.update({
        "states": max(1, states), "transitions": max(1, transitions),
        "traces_validated_against_impl": accepted,
        "samples": samples or [{"note": "no sample collected"}],
        "design": design_cov,
        "exhaustive": True,
        "exhaustive_bounds": {k: {"sequences": v} for k, v in enum_seen.items()},
        "evaluations": tot.get("calls", 0) + tot.get("unitsurfs", 0),
        "distinct_nontrivial": tot.get("seqs", 0) + tot.get("units", 0),
        "rule": "states/transitions = sum over the design runs that must pass; evaluations = real insert calls whose "
                "returned id and vector growth TLC compared with the spec (+ surfaces of real units); distinct_nontrivial = "
                "distinct sequences / units; enumerations: every sequence of exactly N symbols (completeness checked by TLC "
                "per shard, shard ranges by this script), every prefix result is logged",
        "sequences": tot.get("seqs", 0), "runs": tot.get("runs", 0), "calls": tot.get("calls", 0),
        "calls_exact": tot.get("exact", 0), "calls_near": tot.get("near", 0), "calls_unique": tot.get("unique", 0),
        "calls_where_choice_matters": tot.get("choice", 0),
        "runs_equal_to_reference": tot.get("conform", 0), "runs_with_demoted_candidate": tot.get("demoted", 0),
        "runs_explained_by_deviation": tot.get("devruns", 0),
        "translation_pairs_compared": tot.get("shiftpairs", 0), "translation_pairs_skipped_different_relation": tot.get("shiftskipped", 0),
        "units": tot.get("units", 0), "unit_surfaces": tot.get("unitsurfs", 0), "unit_inserts_merged": tot.get("unitmerged", 0),
        "named_deviation_hits": {k: v["n"] for k, v in devs.items()},
    })
    ctx.assumptions += [
        "reference semantics = spec/SurfDedupe.tla; all tolerances, quanta and positions are dyadic, so the doubles the real "
        "code compares are exactly the spec's integers times q (the harness reports exactness in Close)",
        "one characteristic length per surface: axis-aligned planes, centred spheres, centred z cylinders",
        "the hash bins are modelled as integers (width = 0.01*abs/rel, reach = 2*rel); generators keep every lattice point "
        "and its +-reach neighbour > 0.001 quanta off every bin edge; hash_combine collisions only add compared candidates",
        "std::unordered_multimap::equal_range order is an environment fact logged by the harness (libstdc++: newest first)",
        "in Seq records the vector content is reconstructed from its growth; Unit records log the stored surfaces themselves",
        "with FAST=1 (largest enumeration only) a run equal to Ref is accepted without re-evaluating the clauses: SurfDedupeMC "
        "proves Ref satisfies every clause; all other traces evaluate every clause on the logged history",
        "small-scope hypothesis for the exhaustive part: <= 5 insertions over 12-13 symbols of two types; seeded sequences "
        "(<= 12 insertions, three types) and real units go beyond it as exploration",
    ]
