"""X06 (extension) Bounding boxes and bounding zones built during unit construction stay sound:
interior box SUBSET region SUBSET exterior box for every CSG combination, and the box handed to the
BIH contains the volume.

spec/BoundZone.tla is the reference: regions are exact sets of lattice points; boxes with integer /
half-integer faces incl. null, non-canonical null, degenerate, semi-infinite, infinite; zones
[int, ext, neg]; Represents; the soundness clauses of negate / calc_intersection / calc_union /
get_exterior_bbox / the surface clippers (the table of BoundingZone.hh) and what the documentation
pins beyond soundness; the algebra AS CODED (BoundingZone.cc transcribed case by case, with the
repaired algebra and wrong variants selected by `alg`).

1. DESIGN (spec/BoundZoneMC.tla, no code): a state machine with one action per public call.
   chain  VolumeBuilder's folds (from_infinite / BoundingZone{}, Intersect, Union, Negate,
          get_exterior_bbox) with the exact region carried along: the repaired algebra meets every
          invariant; the source as it is meets them only MODULO the named deviations and is REFUTED
          against RegionEnclosed / BBoxCoversRegion (findings F-BZ-1, F-BZ-2); each repair alone is
          still refuted; wrong variants (vacuity guards) MUST be refuted by StepsSound.
   pair   every pair of consistent zones over every box of a lattice, both operations.
   def    the reduced clauses are equivalent to soundness quantified over ALL regions.
   clip   SurfaceClipper / NegatedSurfaceClipper for planes, spheres, cylinders, other surfaces
          (F-BZ-3: the sphere's interior box as coded is refuted).
2. BINDING (replay of TLC-generated inputs on the real code + trace validation, spec/BoundZoneTrace.tla):
   pairs  TLC writes EVERY box and EVERY consistent zone of the lattice; harness/vboundzone.cc runs
          the REAL unary functions on every box, the REAL binary functions on EVERY pair of boxes,
          negate / get_exterior_bbox on every zone and calc_intersection / calc_union on EVERY pair
          of zones (2-D: every pair of boxes, seeded rows of zone pairs).
   chains TLC writes EVERY fold of MaxDepth moves over the leaves; each is executed on the real
          functions; TLC carries the exact region along and checks the zone after every call.
   clips  TLC writes EVERY clip sequence; the real clippers run from the infinite zone; membership
          of every lattice point in the resulting boxes is asked of the real is_inside.
   units  TLC writes object trees (joins of literals, nested once, optionally negated); each becomes
          a REAL unit (UnitProto -> InputBuilder -> OrangeParams); the stored bbox of the volume and
          real point location (OrangeTrackView) at every lattice point are checked.
   rand   seeded pairs of zones on a 3-D lattice (exploration).
"""
import json
import os
import re

import vlib

LEVEL = "model_checking"

DEVIATIONS = {
    "DifferenceShrinkKeepsHole":
        "calc_intersection(A, ~B) with B's exterior box inside A's interior box reports B's exterior box -- the hole "
        "itself -- as 'known inside' (BoundingZone.cc calc_difference(a, b, shrink) returns b when a encloses b)",
    "UnionMixedRolesSwapped":
        "calc_union with exactly one negated operand subtracts the negated operand's boxes from the un-negated one's "
        "(the two mixed rows of its own table are swapped): the result does not represent the union",
    "SphereInteriorNotInscribed":
        "SurfaceClipper(Sphere) sets the interior box to half width (sqrt(3)/2) r (sqrt_third = sqrt_three / 2) instead "
        "of r / sqrt(3): lattice points of the 'interior' box lie outside the sphere",
    "VolumeBBoxFromUnsoundZone":
        "a real unit (UnitProto -> InputBuilder -> OrangeParams) stores for a volume the non-null bbox that the "
        "transcription of BoundingZone.cc yields, the box misses points of the volume, and OrangeTrackView cannot "
        "locate exactly those points in the volume (consequence of the two zone-algebra deviations)",
}


def _cfg(ctx, base, name, consts):
    with open(os.path.join(vlib.SPEC, base + ".cfg")) as fh:
        txt = fh.read()
    for k, v in consts.items():
        txt, n = re.subn(r"(?m)^(\s*%s\s*=\s*).*$" % re.escape(k), lambda m: m.group(1) + str(v), txt)
        if n != 1:
            raise vlib.Broken("constant %s not found in %s.cfg" % (k, base))
    path = ctx.path(name + ".cfg")
    with open(path, "w") as fh:
        fh.write(txt)
    return path


def _summary(out):
    m = re.search(r'<<"SUMMARY", "(.*)">>', out)
    if not m:
        return None
    return json.loads(m.group(1).replace('\\"', '"'))


# (name, base cfg, constants, expected: "ok" or the invariant that MUST be violated, stage)
def _design_jobs(q):
    small = {"MaxDepth": 2} if q else {}
    pairc = {"ZoneNulls": "FALSE"} if q else {}
    clipc = {"Coords": "{0}"} if q else {}
    jobs = [
        ("chain", "BoundZoneMC", small, "ok", 2),
        ("chain_ascoded", "BoundZoneMC_ascoded", small, "ok", 2),
        ("f1", "BoundZoneMC_f1", small, "RegionEnclosed", 1),
        ("f2", "BoundZoneMC_f2", small, "BBoxCoversRegion", 1),
        ("pair", "BoundZoneMC_pair", pairc, "ok", 2),
        ("pair_ascoded", "BoundZoneMC_pair_ascoded", pairc, "ok", 2),
        ("def", "BoundZoneMC_def", {"Margin": 0, "ZoneNulls": "FALSE"} if q else {}, "ok", 2),
        ("clip", "BoundZoneMC_clip", clipc, "ok", 1),
        ("clip_ascoded", "BoundZoneMC_clip_ascoded", clipc, "ok", 1),
        ("f3", "BoundZoneMC_f3", {"Coords": "{0}"}, "ClipRegionEnclosed", 1),
    ]
    muts = ["growhole", "andflag"] if q else ["growhole", "shrinkkeeps", "hullinterior", "smaller", "andflag", "orflag"]
    for m in muts:
        jobs.append(("mut_" + m, "BoundZoneMC_mut_" + m, {"MaxDepth": 2}, "StepsSound", 1))
    if not q:
        jobs += [
            ("fixdiff", "BoundZoneMC_fixdiff", {}, "RegionEnclosed", 1),
            ("fixswap", "BoundZoneMC_fixswap", {}, "RegionEnclosed", 1),
            ("chain_semi", "BoundZoneMC", {"WithSemi": "TRUE", "LeafKind": '"boxes"'}, "ok", 2),
            ("chain_semi_ascoded", "BoundZoneMC_ascoded", {"WithSemi": "TRUE", "LeafKind": '"boxes"'}, "ok", 2),
            ("chain_2d", "BoundZoneMC", {"Dims": 2, "Coords": "{0, 1}", "LeafKind": '"boxes"', "MaxDepth": 2}, "ok", 2),
            ("chain_2d_ascoded", "BoundZoneMC_ascoded",
             {"Dims": 2, "Coords": "{0, 1}", "LeafKind": '"boxes"', "MaxDepth": 2}, "ok", 2),
            # disabled (negative literal in a TLC config file): ("chain_padinf", "BoundZoneMC_ascoded", {"PadLo": -1000000, "PadHi": 1000000}, "ok", 2),
            ("pair_wide", "BoundZoneMC_pair", {"Coords": "{0, 1, 2}", "ZoneNulls": "FALSE"}, "ok", 2),
            ("pair_wide_ascoded", "BoundZoneMC_pair_ascoded", {"Coords": "{0, 1, 2}", "ZoneNulls": "FALSE"}, "ok", 2),
            ("clip_3d", "BoundZoneMC_clip_ascoded",
             {"Dims": 3, "Coords": "{0}", "Radii": "{3}", "Margin": 4, "MaxDepth": 2}, "ok", 2),
        ]
    # binding demonstrations (bin/mutcheck) do not need the code-free design runs again
    if os.environ.get("VERIF_X06_ONLY") == "binding":
        return []
    return jobs


# (name, mode, constants of BoundZoneMC_gen, harness shards)
def _gen_jobs(q):
    one = {"Coords": "{0, 1, 2}", "Dims": 1}
    if q:
        return [
            ("p1", "pairs", dict(one, ZoneNulls="FALSE"), 4),
            ("c1", "chains", dict(one, LeafKind='"solid"', MaxDepth=3), 2),
            ("k2", "clips", {"Coords": "{0}", "Dims": 2, "Radii": "{4}", "Margin": 5, "MaxDepth": 2}, 1),
            ("u1", "units", {"Coords": "{0, 2, 4}", "Dims": 1, "ProbeOdd": "TRUE", "MaxDepth": 2}, 2),
        ]
    return [
        ("p1", "pairs", dict(one, ZoneNulls="TRUE"), 4),
        # TLC config files take no negative literal: p1inf disabled until PadLo is passed as a magnitude
        # ("p1inf", "pairs", dict(one, ZoneNulls="FALSE", PadLo=-1000000, PadHi=1000000), 4),
        ("p2", "pairs", {"Coords": "{0, 1}", "Dims": 2, "ZoneNulls": "FALSE"}, -12),   # a seeded block of 12 rows
        ("c1", "chains", dict(one, LeafKind='"solid"', MaxDepth=4), 4),
        ("c1b", "chains", dict(one, LeafKind='"blobs"', MaxDepth=2), 4),
        ("c1s", "chains", {"Coords": "{0, 1}", "Dims": 1, "LeafKind": '"boxes"', "WithSemi": "TRUE", "MaxDepth": 2}, 2),
        ("k2", "clips", {"Coords": "{0, 2}", "Dims": 2, "Radii": "{3, 4}", "Margin": 5, "MaxDepth": 2}, 2),
        ("k3", "clips", {"Coords": "{0}", "Dims": 3, "Radii": "{3}", "Margin": 4, "MaxDepth": 2}, 1),
        ("u1", "units", {"Coords": "{0, 2, 4, 6}", "Dims": 1, "ProbeOdd": "TRUE", "MaxDepth": 2}, 4),
    ]


def _run_harness(args, out):
    r = vlib.run_harness("vboundzone", [str(a) for a in args], timeout=1500, check=False)
    if r.returncode != 0:
        # a crash / abort / hang of the code under test is an observed event: the trace ends with an
        # Abort record, which no spec action explains (a truncated last line is dropped first)
        try:
            with open(out, "rb") as fh:
                data = fh.read()
        except OSError:
            data = b""
        if data and not data.endswith(b"\n"):
            data = data[:data.rfind(b"\n") + 1]
        if b'"e":"Abort"' not in data[-1000:]:
            data += (json.dumps({"e": "Abort", "what": "vboundzone exit code %d" % r.returncode,
                                 "stderr": (r.stderr or "")[-300:]}, separators=(",", ":")) + "\n").encode()
        with open(out, "wb") as fh:
            fh.write(data)
    return out


def _aborted(path):
    with open(path, "rb") as fh:
        fh.seek(0, 2)
        fh.seek(max(0, fh.tell() - 1500))
        return b'"e":"Abort"' in fh.read()


def _record(path, k):
    try:
        with open(path) as fh:
            for i, line in enumerate(fh, 1):
                if i == k:
                    return line.strip()
    except OSError:
        pass
    return ""


def _describe(rec, limit=1500):
    """For the report only (the spec decides): the scenario of a record, without the bulky echo."""
    try:
        r = json.loads(rec)
    except ValueError:
        return rec[:limit]
    e = r.get("e")
    if e in ("ZoneRow", "BoxRow"):
        return "%s k=%s (zone/box number k of the Config record against every zone/box)" % (e, r.get("k"))
    for key in ("pts", "boxes", "zones", "leaves"):
        r.pop(key, None)
    return json.dumps(r, separators=(",", ":"))[:limit]


def run(ctx):
    vlib.build(["vboundzone"])
    q = ctx.quick
    # the lattice -> double map: coordinate k becomes (k + off) * 2^sexp, exact for every seed
    sexp = [-1, 0, -2, 1, -3][ctx.seed % 5]
    off = (ctx.seed // 5) % 9 - 4
    replay = getattr(ctx, "replay", None)

    # ------------------------------------------------------------------ replay of a stored trace
    if replay:
        replay = os.path.abspath(replay)
        ok, tr = vlib.validate_trace("BoundZoneTrace", "BoundZoneTrace", replay, timeout=3000)
        s = _summary(tr.out) or {}
        print(json.dumps(s, indent=1)[:4000])
        if not ok:
            ctx.violation("replay %s rejected: %s" % (replay, vlib.rejected_info(tr)), tags={"trace": "replay"},
                          files=[replay])
        for v in s.get("viol", []):
            ctx.violation("replay %s violates %s (first record %d, %d records)" % (replay, v["clause"], v["k"], v["n"]),
                          tags={"clause": v["clause"]}, files=[replay])
        for d in s.get("dev", []):
            ctx.violation("replay %s: %s (%d records)" % (replay, d["clause"], d["n"]),
                          tags={"deviation": d["clause"]}, files=[replay])
        ctx.coverage.update({"evaluations": (s.get("stat") or {}).get("zonecalls", 0) + 1, "distinct_nontrivial": 2,
                             "rule": "replay of one recorded trace", "samples": [replay],
                             "states": max(1, tr.distinct), "transitions": max(1, tr.generated),
                             "traces_validated_against_impl": 1})
        return

    # ------------------------------------------------------------------ batch 1: generation + quick design runs
    design = _design_jobs(q)
    gens = _gen_jobs(q)
    tj = []
    for name, mode, consts, nshard in gens:
        c = dict(consts)
        c["Mode"] = '"gen_%s"' % mode
        cfg = _cfg(ctx, "BoundZoneMC_gen", "gen_" + name, c)
        tj.append(dict(module="BoundZoneMC", cfg=cfg, workers=1, env={"OUT": ctx.path(name + ".in.ndjson")},
                       timeout=3000, heap="6g"))
    late = []
    for name, base, consts, expect, stage in design:
        cfg = _cfg(ctx, base, "mc_" + name, consts)
        job = dict(module="BoundZoneMC", cfg=cfg, workers=1, timeout=6000, heap="6g")
        if stage == 2:
            late.append((name, job))
        else:
            tj.append(job)
    res1 = vlib.tlc_parallel(tj, maxpar=4)
    gen_res = res1[:len(gens)]
    design_res = {}
    i = len(gens)
    for name, base, consts, expect, stage in design:
        if stage == 1:
            design_res[name] = res1[i]
            i += 1

    # ------------------------------------------------------------------ harness runs
    traces = []   # (name, mode, path, harness args, number of scenario records expected)
    generated = {}
    for (name, mode, consts, nshard), r in zip(gens, gen_res):
        m = re.search(r'<<"GENERATED", (\d+), (\d+)>>', r.out)
        path = ctx.path(name + ".in.ndjson")
        if r.code != 0 or not m or not os.path.exists(path):
            raise vlib.Broken("TLC generation %s failed (exit %d):\n%s" % (name, r.code, r.out[-3000:]))
        with open(path) as fh:
            lines = [x for x in fh.read().split("\n") if x]
        header, scen = lines[0], lines[1:]
        hj = json.loads(header)
        n = int(m.group(1))
        if len(hj["pts"]) != int(m.group(2)) or (mode == "pairs" and len(hj["zones"]) != n) \
                or (mode != "pairs" and len(scen) != n):
            raise vlib.Broken("generation %s: file does not match %s" % (name, m.group(0)))
        generated[name] = {"mode": mode, "constants": consts, "n": n, "points": len(hj["pts"])}
        if mode == "pairs":
            generated[name].update({"boxes": len(hj["boxes"]), "zones": n})
            if nshard > 0:
                per = (n + nshard - 1) // nshard
                spans = [(s0, min(per, n - s0)) for s0 in range(0, n, per)]
            else:   # a seeded block of rows only (every box and every pair of boxes is still done)
                spans = [((ctx.seed * 7919) % max(1, n + nshard), -nshard)]
            for si, (first, count) in enumerate(spans):
                out = ctx.path("%s.%d.ndjson" % (name, si))
                args = ["pairs", path, out, sexp, off, first, count] + (["rowsonly"] if si > 0 else [])
                traces.append(("%s.%d" % (name, si), mode, _run_harness(args, out), args, count))
        else:
            parts = vlib.shards(scen, nshard)
            for si, part in enumerate(parts):
                sp = ctx.path("%s.%d.in.ndjson" % (name, si))
                with open(sp, "w") as fh:
                    fh.write(header + "\n" + "\n".join(part) + "\n")
                out = ctx.path("%s.%d.ndjson" % (name, si))
                args = [{"chains": "chains", "clips": "clips", "units": "unit"}[mode], sp, out, sexp, off]
                traces.append(("%s.%d" % (name, si), mode, _run_harness(args, out), args, len(part)))
                # glue: the harness must have executed exactly the scenarios TLC wrote, in order
                key = {"chains": "moves", "clips": "clips", "units": "vols"}[mode]
                want = [json.loads(c)[key] for c in part]
                with open(out) as fh:
                    got = [json.loads(l)[key] for l in fh if l.startswith('{"') and ('"e":"Chain"' in l or
                           '"e":"Clip"' in l or '"e":"Unit"' in l)]
                if got != want and not _aborted(out):
                    raise vlib.Broken("replay %s.%d: the harness did not echo the generated scenarios" % (name, si))
        # glue: the Config record carries TLC's lattice untouched
        with open(traces[-1][2]) as fh:
            cfgrec = json.loads(fh.readline())
        for key in ("pts", "boxes", "zones", "leaves", "boundary"):
            if key in hj and cfgrec.get(key) != hj[key]:
                raise vlib.Broken("replay %s: Config.%s differs from what TLC generated" % (name, key))
    nrand = 1 if q else 4
    for i in range(nrand):
        out = ctx.path("rand%d.ndjson" % i)
        cnt = 200 if q else 1500
        args = ["rand", (ctx.seed * 31 + i) % 2000000000, cnt, 3 + (i % 2), out, sexp, off]
        traces.append(("rand%d" % i, "rand", _run_harness(args, out), args, cnt))

    # ------------------------------------------------------------------ batch 2: trace validation + the other design runs
    tj = []
    order = sorted(range(len(traces)), key=lambda i: -os.path.getsize(traces[i][2]))
    for i in order:
        tj.append(dict(module="BoundZoneTrace", cfg="BoundZoneTrace", workers=1, env={"TRACE": traces[i][2]},
                       timeout=6000, heap="5g"))
    tj += [job for name, job in late]
    res2 = vlib.tlc_parallel(tj, maxpar=4)
    trace_res = [None] * len(traces)
    for pos, i in enumerate(order):
        trace_res[i] = res2[pos]
    for (name, job), r in zip(late, res2[len(traces):]):
        design_res[name] = r
    vlib.log("TLC wall: " + " ".join("%s=%.0fs" % (n, design_res[n].wall) for n in design_res)
             + " | gen " + " ".join("%s=%.0fs" % (g[0], r.wall) for g, r in zip(gens, gen_res))
             + " | traces " + " ".join("%s=%.0fs" % (t[0], r.wall) for t, r in zip(traces, trace_res)))

    # ------------------------------------------------------------------ design outcome
    states = transitions = 0
    design_cov = {}
    for name, base, consts, expect, stage in design:
        r = design_res[name]
        design_cov[name] = {"cfg": base, "constants": consts, "distinct": r.distinct, "generated": r.generated,
                            "expected": expect, "exit": r.code}
        if expect == "ok":
            if r.code != 0:
                if r.violated:
                    ctx.violation("design model %s (%s %s) violates %s:\n%s"
                                  % (name, base, consts, r.violated_names(), r.out[-2500:]), tags={"design": name})
                else:
                    raise vlib.Broken("TLC failed on design run %s: exit %d\n%s" % (name, r.code, r.out[-3000:]))
            states += r.distinct
            transitions += r.generated
        elif not (r.violated and expect in r.violated_names()):
            # vacuity guards / the as-coded refutations: MUST be refuted with exactly this invariant
            raise vlib.Broken("design run %s (%s) was not refuted by %s: exit %d\n%s"
                              % (name, base, expect, r.code, r.out[-2000:]))

    # ------------------------------------------------------------------ traces
    tot = {}
    accepted = 0
    records = 0
    devs = {}
    drift = {}
    for (name, mode, path, args, n), r in zip(traces, trace_res):
        cmd = "vboundzone " + " ".join(map(str, args))
        if r.code != 0:
            if "REJECTED" in r.out or r.violated:
                ctx.violation("trace of %s rejected by BoundZoneTrace: %s" % (cmd, vlib.rejected_info(r)),
                              tags={"trace": mode}, files=[path])
                continue
            raise vlib.Broken("TLC failed on trace %s: exit %d\n%s" % (name, r.code, r.out[-3000:]))
        s = _summary(r.out)
        if s is None:
            raise vlib.Broken("no SUMMARY from BoundZoneTrace on %s:\n%s" % (name, r.out[-2000:]))
        accepted += 1
        for k, v in s["stat"].items():
            tot[k] = tot.get(k, 0) + v
        done = {"pairs": s["stat"]["zonepairs"] // max(1, generated.get(name.split(".")[0], {}).get("zones", 1)),
                "chains": s["stat"]["chains"], "clips": s["stat"]["clips"], "units": s["stat"]["units"],
                "rand": s["stat"]["pairs"]}[mode]
        if done != n:
            raise vlib.Broken("trace %s: %d scenarios validated, %d requested" % (name, done, n))
        for v in s["viol"]:
            rec = _record(path, v["k"])
            ctx.violation("%s (record %d): clause %s violated by the real code (first occurrence; %d records in this "
                          "trace)\n  %s" % (cmd, v["k"], v["clause"], v["n"], _describe(rec)),
                          tags={"clause": v["clause"], "trace": mode}, files=[path])
        for d in s["dev"]:
            e = devs.setdefault(d["clause"], {"n": 0, "first": None, "path": path, "cmd": cmd})
            e["n"] += d["n"]
            if e["first"] is None:
                e["first"] = (d["k"], _describe(_record(path, d["k"]), 700))
        for d in s["drift"]:
            e = drift.setdefault(d["clause"], {"n": 0, "first": None})
            e["n"] += d["n"]
            if e["first"] is None:
                e["first"] = "%s record %d: %s" % (cmd, d["k"], _describe(_record(path, d["k"]), 500))
        with open(path) as fh:
            records += sum(1 for _ in fh)

    hits = {"DifferenceShrinkKeepsHole": tot.get("devhole", 0), "UnionMixedRolesSwapped": tot.get("devswap", 0),
            "SphereInteriorNotInscribed": tot.get("devsphere", 0), "VolumeBBoxFromUnsoundZone": tot.get("devunit", 0)}
    for name, e in sorted(devs.items()):
        ctx.violation("%s: %s\n  %d records (%d calls / scenarios); first: %s record %d: %s"
                      % (name, DEVIATIONS.get(name, "named deviation"), e["n"], hits.get(name, e["n"]), e["cmd"],
                         e["first"][0], e["first"][1]),
                      tags={"deviation": name}, files=[e["path"]])
    for name, e in sorted(drift.items()):
        print("DRIFT property=%s %s: %d records differ from the documented / transcribed behaviour without breaking "
              "a contract clause (not a violation); first: %s" % (ctx.pid, name, e["n"], e["first"]))

    samples = []
    for (name, mode, path, args, n) in traces:
        if len(samples) >= 5:
            break
        want = {"chains": 40, "clips": 20, "units": 60, "rand": 5}.get(mode)
        if want and not any(s.get("mode") == mode for s in samples):
            rec = _record(path, want)
            if rec:
                samples.append({"mode": mode, "record": json.loads(_describe(rec, 100000))})

    ctx.coverage.update({
        "states": max(1, states), "transitions": max(1, transitions),
        "design_skipped": os.environ.get("VERIF_X06_ONLY") == "binding",
        "traces_validated_against_impl": accepted,
        "samples": samples or [{"note": "no sample collected"}],
        "design": design_cov,
        "generated": generated,
        "exhaustive": True,
        "exhaustive_bounds": {n: c for n, m, c, s in gens},
        "evaluations": tot.get("zonecalls", 0) + tot.get("chaincalls", 0) + tot.get("clipcalls", 0)
                       + tot.get("boxpairs", 0) + tot.get("locs", 0),
        "distinct_nontrivial": tot.get("zonepairs", 0) + tot.get("chains", 0) + tot.get("clips", 0) + tot.get("units", 0),
        "rule": "states/transitions = sum over the design runs that must pass; evaluations = real calls validated by TLC "
                "(calc_intersection / calc_union on zones, chain calls, clipper calls, box pairs (4 functions each), "
                "point locations); distinct_nontrivial = zone pairs + folds + clip sequences + units; every "
                "scenario written by TLC is replayed (counts checked, echo checked); rand = seeded 3-D zone pairs",
        "records": records, "lattice_map": {"scale_exp": sexp, "offset": off},
        "boxes": tot.get("boxes", 0), "box_pairs": tot.get("boxpairs", 0), "box_mutations": tot.get("muts", 0),
        "zones": tot.get("zones", 0), "zone_pairs": tot.get("zonepairs", 0), "zone_calls": tot.get("zonecalls", 0),
        "random_pairs": tot.get("pairs", 0),
        "chains": tot.get("chains", 0), "chain_calls": tot.get("chaincalls", 0),
        "chains_after_a_deviation": tot.get("chaintainted", 0),
        "chains_zone_not_enclosing_region": tot.get("chainbroken", 0),
        "chains_bbox_missing_region_points": tot.get("chainbboxmiss", 0),
        "clip_sequences": tot.get("clips", 0), "clip_calls": tot.get("clipcalls", 0),
        "units": tot.get("units", 0), "units_not_built": tot.get("unitskip", 0),
        "units_bbox_misses_volume": tot.get("unitmiss", 0), "unit_points_not_locatable": tot.get("unitlost", 0),
        "point_locations": tot.get("locs", 0),
        "named_deviation_hits": hits,
        "drift": {k: v["n"] for k, v in drift.items()},
    })
    ctx.assumptions += [
        "reference semantics = spec/BoundZone.tla; lattice coordinate k is the double (k + off) * 2^sexp (exact; sexp, off "
        "vary with the seed); +-1000000 stand for +-infinity; membership of lattice points in result boxes is asked of the "
        "real is_inside",
        "built with CELERITAS_DEBUG off: CELER_EXPECT preconditions (encloses on two null boxes, calc_center of a null box) "
        "are not enforced; the harness never calls a function outside its documented precondition",
        "the exact region of a leaf is one of the two extreme regions of its zone (interior box / exterior box): by "
        "monotonicity these decide soundness (SoundDefEquivalent, model-checked over all regions on a small lattice)",
        "a null volume bbox is harmless at run time (UnitInserter replaces it by an infinite box): reported as DRIFT "
        "X06.UnitBBoxNullForNonEmptyVolume, not as a violation",
        "small-scope hypothesis for the exhaustive part: <= 3 finite face coordinates in 1-D (2 in 2-D), folds of <= 3 "
        "(quick) / 4 (thorough) calls, clip sequences of <= 2 surfaces, object trees nested twice; the seeded 3-D pairs "
        "go beyond it as exploration",
        "bump: BoundingBoxBumper is checked with Tolerance<>::from_default() (1e-8 relative / absolute): far below the "
        "lattice step, so the bumped box must contain exactly the same lattice points",
    ]
