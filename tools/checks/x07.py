"""X07 (extension) Discrete-process and model selection of the physics step.

spec/PhysSelect.tla       reference semantics: PhysicsParams' process/model groups (tiling of the model
                          energy ranges, at-rest flag, integral-xs energy of the maximum), the per-track MFP
                          (reset / set / decrement), calc_physics_step_limit (per-process xs, total, MFP vs
                          range vs fixed limiter and the action that names the limit), select_discrete_interaction
                          (Selector: first process whose cumulative xs exceeds u*total; integral rejection;
                          GridIdFinder model lookup at the post-step energy; TabulatedElementSelector)
spec/PhysSelectMC.tla     design check: one track through EVERY sampled distance / step outcome / uniform for a
                          list of configurations (hand-picked edge cases + seeded); invariants; eight seeded
                          design mutants that MUST be refuted; emits the replay scenarios
harness/vphysselect.cc    api : the real PhysicsParams / PhysicsTrackView / PhysicsStepUtils built from hand-made
                                Process / Model classes with plateau tables (exact small integers), scripted
                                32-bit engine through the production GenerateCanonical32
                          loop: the real stepping loop on the hand-built EM problem, observers around pre-step,
                                along-step, discrete-select and post-step
spec/PhysSelectTrace.tla  every logged call / track-step must be explained by PhysSelect.tla
"""
import json
import os
import random
import re
import time
import concurrent.futures as cf

import vlib

LEVEL = "model_checking"

MUTANTS = ("sel_ge", "model_upper", "rej_all", "rej_flip", "dec_never", "disc_late", "nosample", "fixed_le")
D = 8
LS = 2
NPART = 3
NMAT = 2


# ----------------------------------------------------------------------------- configurations
def _proc(label, integral, models, xs, eloss):
    """models: [(label, micro, [(pt, lo, hi)...])]; xs/eloss: {pt: [tab_mat0, tab_mat1]}"""
    def tabs(t):
        return [t.get(pt, []) for pt in range(NPART)]
    return {"label": label, "integral": integral,
            "models": [{"label": ml, "micro": mi, "apps": [{"pt": p, "lo": lo, "hi": hi} for (p, lo, hi) in apps]}
                       for (ml, mi, apps) in models],
            "xs": tabs(xs), "eloss": tabs(eloss)}


def _cfg(cid, nl, procs, d=1, fixed=0, alpha1=False, disable_integral=False, note=""):
    return {"id": cid, "nl": nl, "d": d, "fixed": fixed, "alpha1": alpha1, "disable_integral": disable_integral,
            "procs": procs, "note": note}


def _hand_configs():
    """Edge configurations (levels 1..4 at positions 3,5,7,9; grid points at the even positions)."""
    cfgs = []
    mic = [[1, 1, 3, 0], [1, 0, 1, 0]]
    # gamma: two processes, a model boundary exactly at a level energy (5) and one between levels (8),
    # totals 2, 4, 8 (exact ties with u = a/8); electron: integral process peaked in the middle, range;
    # positron: shares the electron model (two applicabilities) + an at-rest process from zero energy
    base = [
        _proc("pA", False,
              [("mA1", [], [(0, 2, 5)]), ("mA2", mic, [(0, 5, 8)]), ("mA3", [], [(0, 8, 9)])],
              {0: [[1, 2, 3, 1], [2, 2, 1, 3]]}, {}),
        _proc("pB", False, [("mB1", mic, [(0, 4, 10)])], {0: [[0, 2, 5, 3], [0, 2, 3, 1]]}, {}),
        _proc("pC", True, [("mC1", [], [(1, 0, 6), (2, 0, 6)]), ("mC2", mic, [(1, 6, 11), (2, 6, 11)])],
              {1: [[1, 3, 1, 2], [2, 1, 4, 1]], 2: [[0, 1, 2, 1], [0, 2, 2, 2]]},
              {1: [[2, 4, 6, 8], [1, 2, 3, 4]], 2: [[2, 4, 6, 8], [2, 2, 4, 4]]}),
        _proc("pD", False, [("mD1", [], [(1, 4, 9)])], {1: [[0, 1, 1, 2], [0, 3, 1, 1]]}, {}),
        _proc("pE", True, [("mE1", [], [(2, 0, 12)])], {2: [[3, 2, 1, 1], [1, 1, 1, 1]]}, {}),
    ]
    cfgs.append(_cfg(1, 4, base, d=1, note="base"))
    cfgs.append(_cfg(2, 4, base, d=2, fixed=3, note="xi two levels down, fixed limiter"))
    cfgs.append(_cfg(3, 4, base, d=1, alpha1=True, disable_integral=True, fixed=4,
                     note="integral approach disabled, range_to_step formula with alpha=1"))
    # a particle whose processes all vanish at some energies (total 0), single process, single level model
    lone = [
        _proc("pF", False, [("mF1", [], [(0, 5, 7)])], {0: [[0, 2, 1], [0, 1, 0]]}, {}),
        _proc("pG", True, [("mG1", [[1, 2, 1], [2, 0, 1]], [(1, 0, 7)])],
              {1: [[2, 1, 4], [4, 4, 4]]}, {1: [[1, 2, 3], [3, 3, 3]]}),
    ]
    cfgs.append(_cfg(4, 3, lone, d=1, fixed=2, note="vanishing totals, top-closed model range"))
    return cfgs


def _refused_configs(first_id):
    """Inputs PhysicsParams must refuse (and near misses it must accept)."""
    def one(models, xs=None, eloss=None):
        return [_proc("pA", False, models, xs if xs is not None else {0: [[1, 1, 1], [1, 1, 1]]}, eloss or {}),
                _proc("pZ", False, [("mZ1", [], [(1, 0, 9)])], {1: [[1, 1, 1], [1, 1, 1]]}, {})]
    cases = [
        ("gap", one([("m1", [], [(0, 2, 4)]), ("m2", [], [(0, 5, 8)])])),
        ("overlap", one([("m1", [], [(0, 2, 6)]), ("m2", [], [(0, 5, 8)])])),
        ("duplicate", one([("m1", [], [(0, 2, 6)]), ("m2", [], [(0, 2, 6)])])),
        ("nested", one([("m1", [], [(0, 2, 8)]), ("m2", [], [(0, 2, 4)])])),
        ("unordered-ok", one([("m1", [], [(0, 5, 8)]), ("m2", [], [(0, 2, 5)])])),
        ("gap-other-particle", one([("m1", [], [(0, 2, 8), (2, 2, 4)]), ("m2", [], [(2, 5, 8)])],
                                   xs={0: [[1, 1, 1], [1, 1, 1]], 2: [[0, 1, 1], [0, 1, 1]]})),
        ("neither-table", one([("m1", [], [(0, 2, 8), (2, 2, 8)])])),
        ("neither-in-one-material", one([("m1", [], [(0, 2, 8)])], xs={0: [[1, 1, 1]]})),
        ("eloss-only-ok", one([("m1", [], [(0, 2, 8), (2, 2, 8)])], eloss={2: [[1, 2, 3], [1, 2, 3]]})),
    ]
    return [_cfg(first_id + i, 3, procs, note=name) for i, (name, procs) in enumerate(cases)]


def _random_config(rng, cid):
    nl = rng.choice([3, 4])
    top_level = 2 * nl + 1
    nproc = rng.randint(2, 4)
    # which particle has a continuous-loss process, and which process carries it
    eloss_owner = {}
    plan = []
    for i in range(nproc):
        pts = sorted(rng.sample(range(NPART), rng.choice([1, 1, 2])))
        plan.append(pts)
    for pt in (1, 2):
        cand = [i for i, pts in enumerate(plan) if pt in pts]
        if cand and rng.random() < 0.8:
            eloss_owner[pt] = rng.choice(cand)
    procs = []
    for i, pts in enumerate(plan):
        label = "p" + "ABCD"[i]
        nmod = rng.choice([1, 1, 2, 3])
        xs, eloss, bounds = {}, {}, {}
        for pt in pts:
            can_stop = pt in eloss_owner
            lo = rng.choice([0, 0, 2, 3, 4, 5] if can_stop else [0, 2, 3, 4, 5])
            hi = rng.choice([top_level, top_level + 1, top_level + 3, top_level - 2])
            inner = [p for p in range(lo + 1, hi)]
            if len(inner) < nmod - 1 or hi <= lo:
                lo, hi, inner = 0, top_level + 1, list(range(1, top_level + 1))
            cuts = sorted(rng.sample(inner, nmod - 1))
            bounds[pt] = [lo] + cuts + [hi]
            tabs = []
            for mat in range(NMAT):
                while True:
                    t = [rng.choice([0, 1, 1, 2, 2, 3, 4]) for _ in range(nl)]
                    for k in range(1, nl + 1):
                        if not (lo <= 2 * k + 1 <= hi):
                            t[k - 1] = 0
                    if can_stop and lo > 0:
                        t[0] = 0
                    if any(t):
                        break
                    if not any(lo <= 2 * k + 1 <= hi and not (can_stop and lo > 0 and k == 1) for k in range(1, nl + 1)):
                        t = None
                        break
                tabs.append(t)
            if any(t is None for t in tabs):
                # no usable level inside the range: widen it
                bounds[pt] = [0] + cuts + [top_level + 1] if not cuts or cuts[0] > 0 else [0, top_level + 1]
                if len(bounds[pt]) != nmod + 1:
                    bounds[pt] = [0] + sorted(rng.sample(range(1, top_level + 1), nmod - 1)) + [top_level + 1]
                tabs = [[rng.choice([1, 2, 3]) for _ in range(nl)] for _ in range(NMAT)]
            xs[pt] = tabs
            if eloss_owner.get(pt) == i:
                r0 = [rng.randint(1, 8) for _ in range(nl)]
                eloss[pt] = [r0, [rng.randint(1, 8) for _ in range(nl)]]
        models = []
        for j in range(nmod):
            micro = []
            if rng.random() < 0.5:
                micro = [[rng.randint(0, 3) for _ in range(nl)], [rng.randint(0, 3) for _ in range(nl)]]
            models.append(("m%s%d" % ("ABCD"[i], j + 1), micro, [(pt, bounds[pt][j], bounds[pt][j + 1]) for pt in pts]))
        integral = any(pt in eloss_owner for pt in pts) and rng.random() < 0.7
        procs.append(_proc(label, integral, models, xs, eloss))
    return _cfg(cid, nl, procs, d=rng.choice([1, 1, 2]), fixed=rng.choice([0, 0, 2, 3, 5]),
                alpha1=rng.random() < 0.3, disable_integral=rng.random() < 0.15, note="seeded")


def gen_configs(seed, nrandom):
    rng = random.Random(seed * 7919 + 17)
    cfgs = _hand_configs()
    cfgs += [_random_config(rng, 100 + i) for i in range(nrandom)]
    cfgs += _refused_configs(900)
    return cfgs


def run(ctx):
    raise vlib.Broken("X07 under construction")
